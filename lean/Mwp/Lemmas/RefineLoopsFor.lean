/-
  Refinement with loops, part 4: `Analysis.forFinish` (counted loops).

  * `forFinish_inv`   : what the handler computes,
  * `zcomp_den`       : composing the 1×1 zero relation of the guard `X` in front zeroes row `X`,
  * `forBody_col_oi`  : column `X` of that relation holds `o`/`∞`-monomials only (off the diagonal),
  * `for_rel`         : meaning of the fixpoint and of `loop_correction` at every choice vector,
  * `for_point`       : rule L pointwise,
  * `refG_for`        : the invariant for `.loop X b`.
-/
import Mwp.Lemmas.RefineLoopsInv
import Mwp.Lemmas.RefineLoopsCorr
import Mwp.Lemmas.RefineLoopsSyn
namespace Mwp
namespace Refine
open Mwp.Props.C16 Mwp.Lemmas.Poly Spec RelFix

/-! ## the zero relation of the guard variable -/

def zrel (X : String) : Relation := ⟨[X], [[Poly.zero]]⟩

theorem new_single (X : String) (hX : X ≠ "") : Relation.new [X] = zrel X := by
  unfold Relation.new
  simp only [filter_nonempty_eq [X] (by simpa using hX)]
  rfl

theorem zrel_wf (X : String) (hX : X ≠ "") : (zrel X).WF := by
  refine ⟨by simp [zrel], by simpa [zrel] using hX, rfl, by simp [zrel], ?_⟩
  intro row hr p hp
  simp only [zrel, List.mem_singleton] at hr; subst hr
  simp only [List.mem_singleton] at hp; subst hp
  rfl

theorem zrel_den (X : String) (c : Choice) (u v : String) :
    (zrel X).den c u v = if u = X then .o else idS u v := by
  by_cases hu : u = X
  · rw [if_pos hu]
    by_cases hv : v = X
    · rw [hu, hv]
      have h0 : List.idxOf? X [X] = some 0 := by simp [List.idxOf?_cons]
      rw [Relation.den_of_idx (r := zrel X) h0 h0]
      exact evalD_zero c
    · rw [Relation.den_of_not_mem_right (r := zrel X) (by simpa [zrel] using hv) c u, hu]
      exact idS_of_ne (fun e => hv e.symm)
  · rw [if_neg hu]
    exact Relation.den_of_not_mem_left (r := zrel X) (by simpa [zrel] using hu) c v

theorem zrel_fin (X : String) (c : Choice) : Fin' (zrel X) c := by
  intro a b
  rw [zrel_den]
  split
  · decide
  · exact idS_ne_i a b

section zcomp
variable {X : String} {r : Relation} (hX : X ≠ "") (wr : r.WF) (hfresh : X ∉ r.vars)
include hX wr

theorem zcomp_wf : (Relation.composition (zrel X) r).WF :=
  Relation.composition_wf _ r (zrel_wf X hX) wr

theorem zcomp_mem (v : String) : v ∈ (Relation.composition (zrel X) r).vars ↔ v = X ∨ v ∈ r.vars := by
  rw [Relation.composition_vars_mem _ r (zrel_wf X hX) wr]
  simp [zrel]

include hfresh in
/-- row `X` zeroed, everything else as in `r` -/
theorem zcomp_den {c : Choice} (fr : Fin' r c) (a b : String) :
    (Relation.composition (zrel X) r).den c a b = if a = X then .o else r.den c a b := by
  have hmem := zcomp_mem hX wr
  rw [Relation.composition_den_own _ r (zrel_wf X hX) wr]
  by_cases hab : a ∈ (Relation.composition (zrel X) r).vars ∧ b ∈ (Relation.composition (zrel X) r).vars
  · rw [if_pos hab]
    by_cases haX : a = X
    · rw [if_pos haX]
      apply sumScalars_map_o
      intro k _
      rw [zrel_den, if_pos haX]
      exact o_mul_of_ne_i (fr k b)
    · rw [if_neg haX]
      have e1 : ∀ k ∈ (Relation.composition (zrel X) r).vars,
          (zrel X).den c a k * r.den c k b = idS a k * r.den c k b := by
        intro k _; rw [zrel_den, if_neg haX]
      rw [sumScalars_map_congr _ _ _ e1, sum_idS_left hab.1 (fun k => r.den c k b) (fun k => fr k b)]
  · rw [if_neg hab]
    by_cases haX : a = X
    · rw [if_pos haX]
      have hb : b ∉ (Relation.composition (zrel X) r).vars :=
        fun hb => hab ⟨(hmem a).2 (Or.inl haX), hb⟩
      have : b ≠ X := fun e => hb ((hmem b).2 (Or.inl e))
      subst haX
      rw [if_neg (fun e => this e.symm)]
    · rw [if_neg haX]
      have : ¬ (a ∈ r.vars ∧ b ∈ r.vars) :=
        fun h => hab ⟨(hmem a).2 (Or.inr h.1), (hmem b).2 (Or.inr h.2)⟩
      rw [den_outside c this]
      rfl

end zcomp

/-! ## column `X` of the iterated relation, syntactically -/

theorem composition_eq (a b : Relation) (ha : a.WF) (hb : b.WF) :
    Relation.composition a b = ⟨(Relation.homogenisation a b).1.vars,
      Matrix.prod (Relation.homogenisation a b).1.mat (Relation.homogenisation a b).2.mat⟩ := by
  have H := Relation.homogenisation_spec a b ha hb
  unfold Relation.composition
  exact Relation.new_some_eq _ _ H.wf1.2.1 (by rw [Matrix.prod_length]; exact H.wf1.2.2.1)

theorem get_tab (n : Nat) (f : Nat → Nat → Poly) (i j : Nat) :
    Matrix.get (Matrix.tab n f) i j = if i < n ∧ j < n then f i j else Poly.zero :=
  get_tab2 n n f i j

theorem forBody_col_oi {X : String} {r : Relation} (hX : X ≠ "") (wr : r.WF) (hfresh : X ∉ r.vars) :
    (Relation.composition (zrel X) r).vars.idxOf X = 0 ∧
    ColOI 0 (Relation.composition (zrel X) r).mat := by
  rw [composition_eq _ r (zrel_wf X hX) wr]
  simp only
  have hne : ((zrel X).vars == r.vars) = false := by
    apply Bool.eq_false_iff.2
    intro h
    have : (zrel X).vars = r.vars := by simpa using h
    apply hfresh
    rw [← this]; simp [zrel]
  have hze : (zrel X).isEmpty = false := by simp [zrel, Relation.isEmpty]
  have hz0 : ColOI 0 (zrel X).mat := by
    intro i hi
    have : Matrix.get (zrel X).mat i 0 = Poly.zero := by
      apply get_out_of_range (n := 1) (wf_sq (zrel_wf X hX))
      intro h
      exact hi (by have := h.1; omega)
    rw [this]; exact OI_zero
  by_cases hre : r.isEmpty = true
  · have : Relation.homogenisation (zrel X) r = (zrel X, Relation.identity (zrel X).vars) := by
      unfold Relation.homogenisation
      rw [hne, hze, hre]
      simp
    rw [this]
    simp only
    refine ⟨by simp [zrel], ColOI_prod hz0 ?_⟩
    rw [Relation.identity_eq _ (zrel_wf X hX).2.1]
    exact ColOI_identity 0 _
  · have hre' : r.isEmpty = false := by simpa using hre
    rw [Relation.homogenisation_general (zrel X) r hne hze hre']
    have hnd := Relation.extVars_nodup (zrel X) r (zrel_wf X hX).1 wr.1
    have hnee := Relation.extVars_ne (zrel X) r (zrel_wf X hX).2.1 wr.2.1
    simp only
    rw [Relation.new_some_eq _ _ hnee (Matrix.tab_length _ _),
      Relation.new_some_eq _ _ hnee (Matrix.tab_length _ _)]
    simp only
    have hext : Relation.extVars (zrel X) r = X :: r.vars.filter (fun v => !(zrel X).vars.contains v) := rfl
    refine ⟨by rw [hext]; simp, ColOI_prod ?_ ?_⟩
    · intro i hi
      rw [get_tab]
      split
      · unfold Relation.ext1Cell
        have hlen : (zrel X).mat.length = 1 := rfl
        rw [hlen]
        have : (decide (i < min (Relation.extVars (zrel X) r).length 1)) = false := by
          apply decide_eq_false
          have : min (Relation.extVars (zrel X) r).length 1 ≤ 1 := Nat.min_le_right _ _
          omega
        rw [this]
        simp only [Bool.false_and, Bool.false_eq_true, if_false]
        rw [if_neg (by simpa using hi)]
        exact OI_zero
      · exact OI_zero
    · intro i hi
      rw [get_tab]
      split
      · unfold Relation.ext2Cell
        have h0 : (Relation.extVars (zrel X) r).getD 0 "" = X := by rw [hext]; rfl
        rw [h0, List.idxOf?_eq_none_iff.2 hfresh]
        split
        · rename_i h; cases h
        · rw [if_neg (by simpa using hi)]
          exact OI_zero
      · exact OI_zero

/-! ## the handler -/

theorem forFinish_inv {q : Bool} {X : String} {rb out : Analysis.Out} {r : Relation}
    (h : Analysis.forFinish q X rb = .ok out) (he : rb.exit = false) (hr : rb.rels = [r]) :
    ∃ f r' g g', Relation.fixpoint (Relation.composition (Relation.new [X]) r) = .ok f ∧
      Relation.loopCorrection f X g = .ok (r', g') ∧ out.rels = [r'] ∧ out.index = rb.index ∧
      ((q = true ∧ out.exit = false ∧ out.dg = rb.dg) ∨
       (q = false ∧ g = rb.dg ∧ DG.fusion g' = .ok out.dg ∧ out.exit = DG.isEmpty out.dg)) := by
  unfold Analysis.forFinish at h
  rw [he, hr] at h
  simp only [Bool.false_eq_true, if_false, RelList.ofVars, relList_composition_single,
    RelList.fixpoint, List.mapM_cons, List.mapM_nil, RelList.loopCorrection] at h
  cases hfx : ((Relation.new [X]).composition r).fixpoint with
  | error e => rw [hfx] at h; cases h
  | ok f =>
    rw [hfx] at h
    simp only [bind, Except.bind, pure, Except.pure, List.foldlM_cons, List.foldlM_nil] at h
    cases q with
    | true =>
      simp only [if_true] at h
      cases hw : f.loopCorrection X [] with
      | error e => rw [hw] at h; cases h
      | ok p =>
        rw [hw] at h
        simp only at h
        cases h
        exact ⟨f, p.1, [], p.2, rfl, hw, rfl, rfl, Or.inl ⟨rfl, rfl, rfl⟩⟩
    | false =>
      simp only [Bool.false_eq_true, if_false] at h
      cases hw : f.loopCorrection X rb.dg with
      | error e => rw [hw] at h; cases h
      | ok p =>
        rw [hw] at h
        simp only at h
        cases hfu : DG.fusion p.2 with
        | error e => rw [hfu] at h; cases h
        | ok d =>
          rw [hfu] at h
          cases h
          exact ⟨f, p.1, rb.dg, p.2, rfl, hw, rfl, rfl, Or.inr ⟨rfl, rfl, hfu, rfl⟩⟩

theorem forFinish_exit {q : Bool} {X : String} {rb out : Analysis.Out}
    (h : Analysis.forFinish q X rb = .ok out) (he : rb.exit = true) : out = rb := by
  unfold Analysis.forFinish at h
  rw [he] at h
  simp only [if_true] at h
  cases h
  rfl

/-! ## meaning of the fixpoint and of the corrected relation -/

theorem idxOf_eq_of_idx {l : List String} (hl : l.Nodup) {x : String} {i : Nat}
    (h : l.idxOf? x = some i) : l.idxOf x = i := by
  have hx := idx_mem h
  have h1 : l.idxOf x < l.length := List.idxOf_lt_length_of_mem hx
  have e1 : l[l.idxOf x] = x := List.getElem_idxOf h1
  have e2 := idx_get h
  exact (List.getElem_inj (h₀ := h1) (h₁ := idx_lt h) hl).1 (e1.trans e2.symm)

theorem evalD_eq_o_of_eval?_none {p : Poly} {c : Choice} (h : p.eval? c = none) : p.evalD c = .o :=
  eval?_none_evalD h

theorem for_rel {r f r' : Relation} {g g' : DG.Graph} {X : String} (wr : r.WF) (hX : X ≠ "")
    (hfresh : X ∉ r.vars)
    (hf : Relation.fixpoint (Relation.composition (Relation.new [X]) r) = .ok f)
    (hl : Relation.loopCorrection f X g = .ok (r', g')) :
    r'.WF ∧ (∀ v, v ∈ r'.vars ↔ v = X ∨ v ∈ r.vars) ∧ r'.vars = f.vars ∧ f.WF ∧
    ∀ c, (HasInf r c → HasInf r' c) ∧
      (Fin' r c → Fin' f c ∧
        (∀ U : List String, U.Nodup → X ∈ U → (∀ v ∈ r.vars, v ∈ U) →
          SMat.closure (matOf U (r.den c)) = matOf U (f.den c)) ∧
        ((∃ x ∈ f.vars, f.den c x x ≠ .m) → HasInf r' c) ∧
        ((∀ x ∈ f.vars, f.den c x x = .m) → ∀ x y, r'.den c x y =
          if x = X ∧ ∃ z ∈ f.vars, f.den c z y = .p then f.den c x y + .p else f.den c x y)) := by
  rw [new_single X hX] at hf
  have w1 := zcomp_wf hX wr
  have hmem1 := zcomp_mem hX wr
  obtain ⟨fv, fw, fden⟩ := fixpoint_den w1 hf
  have hXf : X ∈ f.vars := by rw [fv]; exact (hmem1 X).2 (Or.inl rfl)
  obtain ⟨hell0, hcol0⟩ := forBody_col_oi hX wr hfresh
  have hell : f.vars.idxOf X = 0 := by rw [fv]; exact hell0
  have hcanon := fixpoint_cells_nza _ f w1 hf
  have hcolf := fixpoint_col_oi _ f w1 0 hcol0 hf
  have hcol : ∀ i, i ≠ f.vars.idxOf X → ∀ m ∈ Matrix.get f.mat i (f.vars.idxOf X), m.scalar ≠ .p := by
    rw [hell]
    intro i hi
    exact OI_ne_p (hcolf i hi)
  obtain ⟨e', w', _, _⟩ := Relation.loopCorrection_cells_scoped' f r' g g' X fw hXf hcanon hcol hl []
  refine ⟨w', fun v => by rw [e', fv]; exact hmem1 v, e', fw, fun c => ?_⟩
  obtain ⟨_, _, C1, C2⟩ := Relation.loopCorrection_cells_scoped' f r' g g' X fw hXf hcanon hcol hl c
  -- cells of `f` and `r'` as `den`
  have hcellf : ∀ {x y : String} {i j : Nat}, f.vars.idxOf? x = some i → f.vars.idxOf? y = some j →
      (Matrix.get f.mat i j).evalD c = f.den c x y := fun hx hy => (Relation.den_of_idx hx hy c).symm
  constructor
  · intro hinf
    obtain ⟨a, b, hab⟩ := Relation.composition_infty_persists _ r (zrel_wf X hX) wr c (Or.inr hinf)
    have hm := Relation.mem_of_den_i hab
    apply cell_inf_hasInf w'
    apply C1
    right
    rcases idx_cases f.vars a with ⟨h, _⟩ | ⟨_, i, _, hai, _⟩
    · exact absurd (fv ▸ hm.1) h
    rcases idx_cases f.vars b with ⟨h, _⟩ | ⟨_, j, _, hbj, _⟩
    · exact absurd (fv ▸ hm.2) h
    refine ⟨i, j, ?_⟩
    rw [hcellf hai hbj, fden, closure_inf hm.1 hm.2 hab, den_matOf _ _ hm.1 hm.2]
  · intro fr
    have hg1 : ∀ a b, (Relation.composition (zrel X) r).den c a b = if a = X then .o else r.den c a b :=
      zcomp_den hX wr hfresh fr
    have hrow : ∀ y, r.den c X y = idS X y := fun y => Relation.den_of_not_mem_left hfresh c y
    have hcolX : ∀ y, r.den c y X = idS y X := fun y => Relation.den_of_not_mem_right hfresh c y
    have hXL : X ∈ (Relation.composition (zrel X) r).vars := (hmem1 X).2 (Or.inl rfl)
    have hcl : SMat.closure (matOf (Relation.composition (zrel X) r).vars
          ((Relation.composition (zrel X) r).den c))
        = SMat.closure (matOf (Relation.composition (zrel X) r).vars (r.den c)) :=
      closure_zero_row w1.1 hXL fr hrow hcolX hg1
    have fden' : ∀ x y, f.den c x y = SMat.den (Relation.composition (zrel X) r).vars
        (SMat.closure (matOf (Relation.composition (zrel X) r).vars (r.den c))) x y := by
      intro x y; rw [fden, hcl]
    have ff : Fin' f c := by
      intro x y
      rw [fden']
      exact closure_fin w1.1 fr x y
    refine ⟨ff, ?_, ?_, ?_⟩
    · intro U hU hXU hsub
      rw [closure_block w1.1 hU (fun v hv => by
        rcases (hmem1 v).1 hv with h | h
        · exact h ▸ hXU
        · exact hsub v h) fr]
      · apply matOf_congr
        intro x _ y _
        rw [fden']
      · intro x y hxy
        exact den_outside c (fun h => hxy ⟨(hmem1 x).2 (Or.inr h.1), (hmem1 y).2 (Or.inr h.2)⟩)
    · rintro ⟨x, hx, hne⟩
      apply cell_inf_hasInf w'
      apply C1
      left
      rcases idx_cases f.vars x with ⟨h, _⟩ | ⟨_, i, hi, hxi, _⟩
      · exact absurd hx h
      refine ⟨i, hi, by rw [hcellf hxi hxi]; exact hne, ?_⟩
      intro hnone
      have h0 := evalD_eq_o_of_eval?_none hnone
      rw [hcellf hxi hxi, fden'] at h0
      exact closure_diag_ne_o w1.1 _ (fv ▸ hx) h0
    · intro hdiag x y
      have hd : ∀ i, i < f.vars.length → (Matrix.get f.mat i i).evalD c = .m := by
        intro i hi
        have := idx_of_get fw.1 i hi ""
        rw [hcellf this this]
        exact hdiag _ (getD_mem f.vars i "" hi)
      have hfinc : ∀ i j, (Matrix.get f.mat i j).evalD c ≠ .i := by
        intro i j hij
        by_cases hr : i < f.vars.length ∧ j < f.vars.length
        · have h1 := idx_of_get fw.1 i hr.1 ""
          have h2 := idx_of_get fw.1 j hr.2 ""
          rw [hcellf h1 h2] at hij
          exact ff _ _ hij
        · rw [get_out_of_range (wf_sq fw) hr, evalD_zero] at hij
          cases hij
      have C := C2 hd hfinc
      by_cases hxy : x ∈ f.vars ∧ y ∈ f.vars
      · rcases idx_cases f.vars x with ⟨h, _⟩ | ⟨_, i, hi, hxi, _⟩
        · exact absurd hxy.1 h
        rcases idx_cases f.vars y with ⟨h, _⟩ | ⟨_, j, hj, hyj, _⟩
        · exact absurd hxy.2 h
        rw [Relation.den_of_idx (r := r') (e' ▸ hxi) (e' ▸ hyj), C i j hi hj, hcellf hxi hyj]
        have hiff : (i = f.vars.idxOf X ∧ ∃ i', i' < f.vars.length ∧ (Matrix.get f.mat i' j).evalD c = .p)
            ↔ (x = X ∧ ∃ z ∈ f.vars, f.den c z y = .p) := by
          constructor
          · rintro ⟨h1, i', hi', hp⟩
            refine ⟨?_, f.vars.getD i' "", getD_mem f.vars i' "" hi', ?_⟩
            · rcases idx_cases f.vars X with ⟨h, _⟩ | ⟨_, k, _, hXk, _⟩
              · exact absurd hXf h
              rw [idxOf_eq_of_idx fw.1 hXk] at h1
              exact (idx_eq_iff hxi hXk).1 h1
            · rw [← hcellf (idx_of_get fw.1 i' hi' "") hyj]; exact hp
          · rintro ⟨h1, z, hz, hp⟩
            constructor
            · subst h1
              exact (idxOf_eq_of_idx fw.1 hxi).symm
            · rcases idx_cases f.vars z with ⟨h, _⟩ | ⟨_, k, hk, hzk, _⟩
              · exact absurd hz h
              exact ⟨k, hk, by rw [hcellf hzk hyj]; exact hp⟩
        by_cases hc : x = X ∧ ∃ z ∈ f.vars, f.den c z y = .p
        · rw [if_pos (hiff.2 hc), if_pos hc]
        · rw [if_neg (fun h => hc (hiff.1 h)), if_neg hc]
      · rw [den_outside c (e' ▸ hxy), if_neg, den_outside c hxy]
        rintro ⟨h1, z, _, hp⟩
        subst h1
        have hy : y ∉ f.vars := fun hy => hxy ⟨hXf, hy⟩
        rw [Relation.den_of_not_mem_right hy] at hp
        exact absurd hp (by unfold idS; split <;> simp)

/-! ## rule L pointwise -/

theorem lbad_iff {U : List String} (h : NF) :
    ((List.range U.length).any fun i => SMat.get (matOf U h) i i != .m) = true ↔
    ∃ x ∈ U, h x x ≠ .m := by
  simp only [List.any_eq_true, List.mem_range, bne_iff_ne, ne_eq]
  constructor
  · rintro ⟨i, hi, hb⟩
    unfold matOf at hb
    rw [get_mk _ _ hi hi] at hb
    exact ⟨_, getD_mem U i "" hi, hb⟩
  · rintro ⟨x, hx, hb⟩
    obtain ⟨i, hi, rfl⟩ := mem_getD_idx hx
    refine ⟨i, hi, ?_⟩
    unfold matOf
    rw [get_mk _ _ hi hi]
    exact hb

theorem colp_iff {U : List String} (h : NF) (j : Nat) (hj : j < U.length) :
    ((List.range U.length).any fun i' => SMat.get (matOf U h) i' j == .p) = true ↔
    ∃ z ∈ U, h z (U.getD j "") = .p := by
  simp only [List.any_eq_true, List.mem_range, beq_iff_eq]
  constructor
  · rintro ⟨i, hi, hb⟩
    unfold matOf at hb
    rw [get_mk _ _ hi hj] at hb
    exact ⟨_, getD_mem U i "" hi, hb⟩
  · rintro ⟨z, hz, hb⟩
    obtain ⟨i, hi, rfl⟩ := mem_getD_idx hz
    refine ⟨i, hi, ?_⟩
    unfold matOf
    rw [get_mk _ _ hi hj]
    exact hb

/-- the matrix rule L builds from the closure `s` -/
def loopRow (n ell : Nat) (s : SMat) : SMat :=
  (s.zipIdx).map fun (row, i) =>
    if i == ell then
      (row.zipIdx).map fun (v, j) =>
        if (List.range n).any (fun i' => SMat.get s i' j == .p) then docSum v .p else v
    else row

theorem sem_loop_eq (U : List String) (X : String) (b : Cmd) (idx : Nat) (c : Choice) :
    sem U (.loop X b) idx c =
      match sem U b idx c with
      | none => none
      | some (i1, a) =>
        if ((List.range U.length).any fun i => SMat.get (SMat.closure a) i i != .m) = true then none
        else some (i1, loopRow U.length (Spec.idxOf U X) (SMat.closure a)) := by
  rw [sem]
  rfl

theorem loopRow_matOf {U : List String} (hU : U.Nodup) {X : String} (hX : X ∈ U) (h : NF) :
    loopRow U.length (Spec.idxOf U X) (matOf U h)
      = matOf U (fun x y => if x = X ∧ ∃ z ∈ U, h z y = .p then h x y + .p else h x y) := by
  rcases idx_cases U X with ⟨hn, _⟩ | ⟨_, k, hk, hXk, _⟩
  · exact absurd hX hn
  rw [idxOf_eq hXk]
  unfold loopRow
  apply List.ext_getElem
  · simp [matOf, mk]
  · intro i h1 h2
    have hi : i < U.length := by simpa [matOf, mk] using h2
    have hUi : U.getD i "" = X ↔ i = k := by
      rw [← idx_getD hXk "", getD_inj hU hi hk]
    have hrow : ∀ (g : NF) (hh : i < (matOf U g).length), (matOf U g)[i]'hh = (List.range U.length).map fun j => dn U g i j := by
      intro g hh
      simp [matOf, mk]
    rw [List.getElem_map, List.getElem_zipIdx, hrow, hrow]
    simp only [Nat.zero_add]
    by_cases hik : i = k
    · have : (i == k) = true := by simpa using hik
      rw [if_pos this]
      apply List.ext_getElem
      · simp
      · intro j h3 h4
        have hj : j < U.length := by simpa using h4
        simp only [List.getElem_map, List.getElem_zipIdx, List.getElem_range, Nat.zero_add, dn]
        have hc := colp_iff h j hj
        by_cases hp : ∃ z ∈ U, h z (U.getD j "") = .p
        · rw [if_pos (hc.2 hp), if_pos ⟨hUi.2 hik, hp⟩, ← sum_documented]
        · rw [if_neg (fun hh => hp (hc.1 hh)), if_neg (fun hh => hp hh.2)]
    · have : (i == k) = false := by simpa using hik
      rw [this]
      simp only [Bool.false_eq_true, if_false]
      apply List.map_congr_left
      intro j _
      simp only [dn]
      rw [if_neg (fun hh => hik (hUi.1 hh.1))]

theorem for_point {r f r' : Relation} {g g' : DG.Graph} {X : String} (wr : r.WF) (hX : X ≠ "")
    (hfresh : X ∉ r.vars)
    (hf : Relation.fixpoint (Relation.composition (Relation.new [X]) r) = .ok f)
    (hl : Relation.loopCorrection f X g = .ok (r', g')) (c : Choice) (fr : Fin' r c)
    (U : List String) (hU : U.Nodup) (hXU : X ∈ U) (hsub : ∀ v ∈ r.vars, v ∈ U)
    (b : Cmd) (idx i1 : Nat) (c' : Choice) (hb : sem U b idx c' = some (i1, matOf U (r.den c))) :
    (sem U (.loop X b) idx c' = none ∧ HasInf r' c) ∨
    (sem U (.loop X b) idx c' = some (i1, matOf U (r'.den c)) ∧ Fin' r' c) := by
  obtain ⟨w', hv, e', fw, H⟩ := for_rel wr hX hfresh hf hl
  obtain ⟨_, hfin⟩ := H c
  obtain ⟨ff, hcl, hbadm, hgood⟩ := hfin fr
  have hcl' := hcl U hU hXU hsub
  have hfU : ∀ v ∈ f.vars, v ∈ U := by
    intro v hv'
    rcases (hv v).1 (e' ▸ hv') with h | h
    · exact h ▸ hXU
    · exact hsub v h
  rw [sem_loop_eq, hb]
  simp only
  rw [hcl']
  by_cases hbad : ((List.range U.length).any fun i => SMat.get (matOf U (f.den c)) i i != .m) = true
  · rw [if_pos hbad]
    left
    refine ⟨rfl, hbadm ?_⟩
    obtain ⟨x, _, hx⟩ := (lbad_iff _).1 hbad
    refine ⟨x, ?_, hx⟩
    apply Classical.byContradiction
    intro hxf
    rw [Relation.den_of_not_mem_left hxf, idS_self] at hx
    exact hx rfl
  · rw [if_neg hbad]
    right
    have hd : ∀ x ∈ f.vars, f.den c x x = .m := by
      intro x hx
      apply Classical.byContradiction
      intro hne
      exact hbad ((lbad_iff _).2 ⟨x, hfU x hx, hne⟩)
    have hr' := hgood hd
    have hex : ∀ y, (∃ z ∈ U, f.den c z y = .p) ↔ (∃ z ∈ f.vars, f.den c z y = .p) := by
      intro y
      constructor
      · rintro ⟨z, _, hp⟩
        refine ⟨z, ?_, hp⟩
        apply Classical.byContradiction
        intro hz
        rw [Relation.den_of_not_mem_left hz] at hp
        exact absurd hp (by unfold idS; split <;> simp)
      · rintro ⟨z, hz, hp⟩
        exact ⟨z, hfU z hz, hp⟩
    constructor
    · rw [loopRow_matOf hU hXU (f.den c)]
      refine congrArg (fun m => some (i1, m)) ?_
      apply matOf_congr
      intro x _ y _
      rw [hr']
      by_cases hc : x = X ∧ ∃ z ∈ f.vars, f.den c z y = .p
      · rw [if_pos hc, if_pos ⟨hc.1, (hex y).2 hc.2⟩]
      · rw [if_neg hc, if_neg (fun hh => hc ⟨hh.1, (hex y).1 hh.2⟩)]
    · intro x y
      rw [hr']
      split
      · exact add_ne_i (ff x y) (by decide)
      · exact ff x y

/-! ## the invariant for `.loop X b` -/

theorem refG_for {q : Bool} {idx : Nat} {dg : DG.Graph} {X : String} {b : Cmd} {rb out : Analysis.Out}
    (Rb : RefG q idx dg b rb) (hX : X ≠ "") (hfresh : X ∉ b.vars)
    (h : Analysis.forFinish q X rb = .ok out) :
    RefG q idx dg (.loop X b) out := by
  cases he : rb.exit with
  | true =>
    rw [forFinish_exit h he]
    exact refG_exit he (fun hq => by rw [Rb.noexit hq] at he; cases he) (Rb.ghost.mono (fun t h => h.loop))
  | false =>
    obtain ⟨hi, r, hr, wr, vr, semr⟩ := Rb.main he
    obtain ⟨f, r', g, g', hf, hw, ho, hoi, hcase⟩ := forFinish_inv h he hr
    have hfr : X ∉ r.vars := fun hx => hfresh (vr X hx)
    obtain ⟨w', hvm, _, fw, H⟩ := for_rel wr hX hfr hf hw
    have hA : ∀ (U : List String), U.Nodup → (∀ v ∈ (Cmd.loop X b).vars, v ∈ U) →
        ∀ (c : Choice), Valid idx (Cmd.loop X b).arity c → ∀ c', Relab idx (Cmd.loop X b).swaps c c' →
        Agrees U idx (.loop X b) r' c c' := by
      intro U hU hsub c hval c' hrel
      rw [Cmd.vars] at hsub
      rw [Cmd.arity] at hval
      rw [Cmd.swaps] at hrel
      have hsubb : ∀ v ∈ b.vars, v ∈ U := fun v hv => hsub v (List.mem_cons_of_mem _ hv)
      rcases semr U hU hsubb c hval c' hrel with ⟨s, i⟩ | ⟨s, fr⟩
      · exact Or.inl ⟨by simp only [sem, s], (H c).1 i⟩
      · rcases for_point wr hX hfr hf hw c fr U hU (hsub X (List.mem_cons_self ..))
          (fun v hv => hsubb v (vr v hv)) b idx _ c' s with h1 | h1
        · exact Or.inl h1
        · exact Or.inr (by rw [Cmd.arity]; exact h1)
    have hmain : out.index = idx + (Cmd.loop X b).arity ∧
        ∃ r, out.rels = [r] ∧ r.WF ∧ (∀ v ∈ r.vars, v ∈ (Cmd.loop X b).vars) ∧
        ∀ (U : List String), U.Nodup → (∀ v ∈ (Cmd.loop X b).vars, v ∈ U) →
        ∀ (c : Choice), Valid idx (Cmd.loop X b).arity c → ∀ c', Relab idx (Cmd.loop X b).swaps c c' →
        Agrees U idx (.loop X b) r c c' := by
      refine ⟨by rw [hoi, hi, Cmd.arity], r', ho, w', ?_, hA⟩
      intro v hv
      rw [Cmd.vars]
      rcases (hvm v).1 hv with h | h
      · rw [h]; exact List.mem_cons_self ..
      · exact List.mem_cons_of_mem _ (vr v h)
    have hg0 : Ghost (FailsAt idx (.loop X b)) dg rb.dg := Rb.ghost.mono (fun t h => h.loop)
    rcases hcase with ⟨hq, hex, hdg⟩ | ⟨hq, hg, hfu, hex⟩
    · exact ⟨fun _ => hex, hdg ▸ hg0, fun _ => hmain⟩
    · refine ⟨fun hq' => (by rw [hq] at hq'; cases hq'), ?_, fun _ => hmain⟩
      subst hg
      obtain ⟨ts, hts, hP⟩ := Relation.loopCorrection_inserted f r' rb.dg g' X fw hw
      refine hg0.trans ((Ghost.of_inserts hts ?_).trans (Ghost.fuse hfu))
      intro t ht U hU hsub c hval hm c' hrel
      exact fails_of_agrees (hA U hU hsub c hval c' hrel) (cell_inf_hasInf w' (hP t ht c hm))

end Refine
end Mwp
