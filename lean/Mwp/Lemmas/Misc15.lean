/-
  Helper lemmas for C15: inversion of `Analysis.func` (which fields it fills, whatever `cmds`
  returned), and "the relation has an ∞ at `v`" as "some collected delta sequence matches `v`".
-/
import Mwp.Model.Analysis
import Mwp.Props.C04
import Mwp.Props.C16
import Mwp.Lemmas.Poly
namespace Mwp
namespace Misc15
open Mwp.Analysis

theorem func_inv (n : Node) (stop : Bool) (r : FuncRes) (h : func n stop = .ok r) :
    ∃ (deltaInf : Bool) (index : Nat) (first : Relation) (co : Option Choices.T),
      (deltaInf = true → co = none) ∧
      (deltaInf = false → ∃ c, first.eval Gen.domain index = .ok c ∧ co = some c) ∧
      r.infinite = (deltaInf || (match co with | some c => Choices.infinite c | none => false)) ∧
      r.relation = (if r.infinite && stop then none else some first) ∧
      r.choices = (if r.infinite then none else co) ∧
      r.index = index ∧
      r.infFlows.isSome = (r.infinite && !stop) := by
  unfold func at h
  cases hv : Syntax.variables n with
  | error e => rw [hv] at h; cases h
  | ok vars =>
    rw [hv] at h
    simp only [bind, Except.bind] at h
    split at h
    · cases h
    · rename_i v hc
      obtain ⟨deltaInf, index, rels, sk⟩ := v
      simp only at h
      cases deltaInf with
      | true =>
        simp only [Bool.not_true, Bool.false_eq_true, if_false, pure, Except.pure, Bool.true_or, Bool.true_and] at h
        refine ⟨true, index, rels.headD (Relation.new []), none, fun _ => rfl, (fun h => by cases h), ?_⟩
        cases stop with
        | true =>
          simp only [Bool.not_true, Bool.false_eq_true, if_false, Except.ok.injEq] at h
          subst h
          simp
        | false =>
          simp only [Bool.not_false, if_true] at h
          split at h
          · cases h
          · rename_i v2 hif
            simp only [Except.ok.injEq] at h
            subst h
            split at hif
            · cases hif
            · simp only [Except.ok.injEq] at hif
              subst hif
              simp
      | false =>
        simp only [Bool.not_false, if_true, Bool.false_or] at h
        cases he : (rels.headD (Relation.new [])).eval Gen.domain index with
        | error e => rw [he] at h; cases h
        | ok c =>
          rw [he] at h
          simp only [pure, Except.pure, Bool.true_and] at h
          refine ⟨false, index, rels.headD (Relation.new []), some c, (fun h => by cases h), fun _ => ⟨c, he, rfl⟩, ?_⟩
          split at h
          · cases h
          · rename_i v2 hif
            simp only [Except.ok.injEq] at h
            subst h
            simp only [Bool.false_or, true_and]
            split at hif
            · rename_i hcond
              split at hif
              · cases hif
              · simp only [Except.ok.injEq] at hif
                subst hif
                simp [hcond]
            · rename_i hcond
              simp only [Except.ok.injEq] at hif
              subst hif
              simpa using hcond

theorem add_eq_i (a b : Scalar) : a + b = .i ↔ a = .i ∨ b = .i := by
  cases a <;> cases b <;> decide

theorem sumAll_eq_i (l : List Scalar) : Poly.sumAll l = .i ↔ Scalar.i ∈ l := by
  induction l with
  | nil => simp [Mwp.Lemmas.Poly.sumAll_nil]
  | cons a l ih =>
    rw [Mwp.Lemmas.Poly.sumAll_cons, add_eq_i, ih]
    simp [eq_comm]

theorem evalD_eq_i (p : Poly) (v : Choice) :
    p.evalD v = .i ↔ ∃ m ∈ p, m.scalar = .i ∧ m.matchesC v = true := by
  unfold Poly.evalD Poly.matching
  rw [sumAll_eq_i]
  simp only [List.mem_map, List.mem_filter]
  constructor
  · rintro ⟨m, ⟨hm, hmt⟩, hs⟩; exact ⟨m, hm, hs, hmt⟩
  · rintro ⟨m, hm, hs, hmt⟩; exact ⟨m, ⟨hm, hmt⟩, hs⟩

theorem avoids_infDeltas (rel : Relation) (v : List Nat) :
    Choices.Avoids (Choices.dedup (rel.infDeltas [])) v ↔ ∀ row ∈ rel.mat, ∀ p ∈ row, p.evalD v ≠ .i := by
  unfold Choices.Avoids
  simp only [Choices.mem_dedup, Relation.infDeltas, Poly.evalInf, List.mem_flatMap, List.mem_map, List.mem_filter]
  constructor
  · intro h row hrow p hp he
    obtain ⟨m, hm, hs, hmt⟩ := (evalD_eq_i p v).1 he
    have := h m.deltas ⟨row, hrow, p, hp, m, ⟨hm, by simp [hs]⟩, rfl⟩
    rw [show Choices.matchesSeq m.deltas v = m.matchesC v from rfl, hmt] at this
    cases this
  · rintro h s ⟨row, hrow, p, hp, m, ⟨hm, hs⟩, rfl⟩
    cases hmt : Choices.matchesSeq m.deltas v with
    | false => rfl
    | true =>
      exfalso
      refine h row hrow p hp ((evalD_eq_i p v).2 ⟨m, hm, ?_, hmt⟩)
      simpa using hs

theorem bound_names (rel : Relation) (c : Choice) : (boundAt rel c).map (·.1) = rel.vars := by
  unfold boundAt
  simp [List.map_map, Function.comp_def]

end Misc15
end Mwp
