/-
  RelFix, part E: the whole `Relation.loop_correction` walk.  Two invariants over the row-major
  cell walk: (I) every inserted node only matches choices where the matrix has ∞ (needs nothing
  but well-formedness), (C) the structural description of every cell (needs: the guard column
  is never written).
-/
import Mwp.Lemmas.RelFixD

namespace Mwp.RelFix
open Mwp Mwp.Props.C16 Mwp.Lemmas.Poly

/-! ## generic invariant rule for `foldlM` -/

theorem foldlM_inv {σ α : Type} (step : σ → α → Except String σ) (Inv : List α → σ → Prop)
    (total : List α)
    (hstep : ∀ pre x post s s', total = pre ++ x :: post → Inv pre s → step s x = .ok s' →
      Inv (pre ++ [x]) s') :
    ∀ (xs pre : List α) (s s' : σ), total = pre ++ xs → Inv pre s → xs.foldlM step s = .ok s' →
      Inv total s' := by
  intro xs
  induction xs with
  | nil =>
    intro pre s s' ht hi h
    rw [List.foldlM_nil] at h
    cases h
    rw [ht, List.append_nil]
    exact hi
  | cons x t ih =>
    intro pre s s' ht hi h
    rw [List.foldlM_cons] at h
    obtain ⟨s1, h1, h2⟩ := bind_ok h
    exact ih (pre ++ [x]) s1 s' (by rw [ht]; simp) (hstep pre x t s s1 ht hi h1) h2

/-! ## the list of cells -/

theorem mem_loopCells {n : Nat} {m : Matrix} (hs : Sq n m) (a b : Nat) :
    (a, b) ∈ loopCells m ↔ a < n ∧ b < n := by
  unfold loopCells
  simp only [List.mem_flatMap, List.mem_map, List.mem_range, Prod.mk.injEq]
  constructor
  · rintro ⟨i, hi, j, hj, rfl, rfl⟩
    rw [hs.len] at hi
    rw [hs.getD_row hi] at hj
    exact ⟨hi, hj⟩
  · rintro ⟨ha, hb⟩
    exact ⟨a, by rw [hs.len]; exact ha, b, by rw [hs.getD_row ha]; exact hb, rfl, rfl⟩

theorem nodup_cells (f : Nat → Nat) (l : List Nat) (hl : l.Nodup) :
    (l.flatMap fun i => (List.range (f i)).map fun j => (i, j)).Nodup := by
  induction l with
  | nil => simp
  | cons i t ih =>
    rw [List.nodup_cons] at hl
    rw [List.flatMap_cons, List.nodup_append]
    refine ⟨?_, ih hl.2, ?_⟩
    · unfold List.Nodup
      rw [List.pairwise_map]
      exact List.nodup_range.imp (fun hne e => hne (Prod.mk.inj e).2)
    · intro a ha b hb e
      subst e
      obtain ⟨j, _, rfl⟩ := List.mem_map.1 ha
      obtain ⟨i', hi', hb'⟩ := List.mem_flatMap.1 hb
      obtain ⟨j', _, e'⟩ := List.mem_map.1 hb'
      have : i' = i := (Prod.mk.inj e').1
      subst this
      exact hl.1 hi'

theorem nodup_loopCells (m : Matrix) : (loopCells m).Nodup :=
  nodup_cells _ _ List.nodup_range

theorem not_mem_pre {α : Type} {total pre post : List α} {x : α} (hn : total.Nodup)
    (h : total = pre ++ x :: post) : x ∉ pre := by
  rw [h, List.nodup_append] at hn
  intro hx
  exact hn.2.2 x hx x (List.mem_cons_self ..) rfl

/-! ## unpacking `loopCorrection` -/

theorem wf_sq {r : Relation} (h : r.WF) : Sq r.vars.length r.mat := ⟨h.2.2.1, h.2.2.2.1, h.2.2.2.2⟩

theorem loopCorrection_walk (r r' : Relation) (g g' : DG.Graph) (x : String)
    (hl : Relation.loopCorrection r x g = .ok (r', g')) :
    ∃ mat', x ∈ r.vars ∧ r' = { r with mat := mat' } ∧
      (loopCells r.mat).foldlM (loopStep (r.vars.idxOf x)) (r.mat, g) = .ok (mat', g') := by
  rw [loopCorrection_eq] at hl
  by_cases hx : x ∈ r.vars
  · have hidx : r.vars.idxOf? x = some (r.vars.idxOf x) :=
      List.findIdx?_eq_some_of_exists ⟨x, hx, beq_self_eq_true x⟩
    rw [hidx] at hl
    dsimp only at hl
    obtain ⟨⟨mat', g1⟩, h1, h2⟩ := bind_ok hl
    cases h2
    exact ⟨mat', hx, rfl, h1⟩
  · have hidx : r.vars.idxOf? x = none := List.idxOf?_eq_none_iff.2 hx
    rw [hidx] at hl
    cases hl

/-! ## invariant (I): inserted nodes mean ∞ -/

theorem evalD_map_lfix_i {p : Poly} {c : Choice} (h : p.evalD c = .i) :
    Poly.evalD (p.map (lfix true)) c = .i := by
  obtain ⟨m, hm, h1, h2⟩ := exists_of_evalD_eq_i h
  apply evalD_eq_i_of_mem (m := lfix true m) (List.mem_map.2 ⟨m, hm, rfl⟩)
  · rw [lfix_matches]; exact h1
  · rw [lfix_true_scalar, h2]; rfl

theorem stepCell_infty {n ell : Nat} {mat : Matrix} (hs : Sq n mat) (i j a b : Nat) (c : Choice)
    (h : (Matrix.get mat a b).evalD c = .i) : (stepCell ell mat i j a b).evalD c = .i := by
  unfold stepCell
  split
  · rename_i hab
    rw [hab.1, hab.2.1, ← hab.2.2] at h
    exact evalD_map_lfix_i h
  · split
    · rename_i hab
      rw [hab.1, hab.2.1] at h
      rw [(addMonos_spec _ (WF_filter' _ _ (hs.get_wf i j)) c _ (hs.get_wf ell j)).2, h]
      exact (infty_absorbs_sum _).1
    · exact h

def matchesT (t : DG.Node) (c : Choice) : Bool := t.all fun d => c[d.2]? == some d.1

theorem walk_inserted {n ell : Nat} (hell : ell < n) (g0 : DG.Graph) :
    ∀ (cells : List (Nat × Nat)), (∀ x ∈ cells, x.1 < n ∧ x.2 < n) →
    ∀ (mat : Matrix) (g : DG.Graph) (res : Matrix × DG.Graph) (ts : List DG.Node),
      Sq n mat → ts.foldlM DG.insertNode g0 = .ok g →
      (∀ t ∈ ts, ∀ c, matchesT t c = true → ∃ a b, (Matrix.get mat a b).evalD c = .i) →
      cells.foldlM (loopStep ell) (mat, g) = .ok res →
      Sq n res.1 ∧ ∃ ts' : List DG.Node, ts'.foldlM DG.insertNode g0 = .ok res.2 ∧
        ∀ t ∈ ts', ∀ c, matchesT t c = true → ∃ a b, (Matrix.get res.1 a b).evalD c = .i := by
  intro cells
  induction cells with
  | nil =>
    intro _ mat g res ts hs hg hts h
    rw [List.foldlM_nil] at h
    cases h
    exact ⟨hs, ts, hg, hts⟩
  | cons x t ih =>
    intro hr mat g res ts hs hg hts h
    rw [List.foldlM_cons] at h
    obtain ⟨⟨mat1, g1⟩, h1, h2⟩ := bind_ok h
    obtain ⟨i, j⟩ := x
    obtain ⟨hi, hj⟩ := hr (i, j) (List.mem_cons_self ..)
    obtain ⟨s1, s2, s3⟩ := loopStep_spec hs hi hj hell g (mat1, g1) h1
    simp only at s1 s2 s3
    apply ih (fun y hy => hr y (List.mem_cons_of_mem _ hy)) mat1 g1 res (ts ++ stepNodes mat i j) s1
      (by rw [List.foldlM_append, hg]; exact s3) ?_ h2
    intro t' ht' c hc
    rcases List.mem_append.1 ht' with hA | hB
    · obtain ⟨a, b, hab⟩ := hts t' hA c hc
      exact ⟨a, b, by rw [s2]; exact stepCell_infty hs i j a b c hab⟩
    · unfold stepNodes at hB
      split at hB
      · rename_i hij
        subst hij
        obtain ⟨m, hm, hmt⟩ := List.mem_flatMap.1 hB
        unfold lnu at hmt
        split at hmt
        · rename_i hp
          rw [List.mem_singleton] at hmt
          subst hmt
          refine ⟨i, i, ?_⟩
          rw [s2, stepCell, if_pos ⟨rfl, rfl, rfl⟩]
          apply evalD_eq_i_of_mem (m := lfix true m) (List.mem_map.2 ⟨m, hm, rfl⟩)
          · rw [lfix_matches]; exact hc
          · unfold lfix; rw [if_pos hp]
        · cases hmt
      · cases hB

/-! ## scalar facts for invariant (C) -/

theorem sumAll_absorb {l : List Scalar} {s : Scalar} (h : s ∈ l) : s + Poly.sumAll l = Poly.sumAll l := by
  induction l with
  | nil => cases h
  | cons x t ih =>
    rw [sumAll_cons]
    rcases List.mem_cons.1 h with rfl | h
    · rw [← sum_assoc, sum_idem]
    · rw [← sum_assoc, sum_comm s x, sum_assoc, ih h]

theorem sumAll_mem {l : List Scalar} (h : Poly.sumAll l ≠ .o) : Poly.sumAll l ∈ l := by
  induction l with
  | nil => exact absurd rfl h
  | cons x t ih =>
    rw [sumAll_cons] at h ⊢
    rcases add_left_or_right x (Poly.sumAll t) with e | e
    · rw [e]; exact List.mem_cons_self ..
    · rw [e]
      by_cases ht : Poly.sumAll t = .o
      · rw [ht, sum_zero_right] at e
        rw [ht, ← e]; exact List.mem_cons_self ..
      · exact List.mem_cons_of_mem _ (ih ht)

theorem mem_matching {p : Poly} {c : Choice} {s : Scalar} :
    s ∈ Poly.matching p c ↔ ∃ m ∈ p, m.matchesC c = true ∧ m.scalar = s := by
  unfold Poly.matching
  simp only [List.mem_map, List.mem_filter]
  constructor
  · rintro ⟨m, ⟨h1, h2⟩, h3⟩; exact ⟨m, h1, h2, h3⟩
  · rintro ⟨m, h1, h2, h3⟩; exact ⟨m, ⟨h1, h2⟩, h3⟩

/-- the `p` part of a polynomial at a choice: `p` if some matching monomial has scalar `p` -/
def kap (c : Choice) (q : Poly) : Scalar := Poly.evalD (q.filter (fun m => m.scalar == .p)) c

theorem kap_o_or_p (c : Choice) (q : Poly) : kap c q = .o ∨ kap c q = .p := by
  unfold kap
  induction q with
  | nil => left; rfl
  | cons x t ih =>
    rw [List.filter_cons]
    split
    · rename_i hx
      have hx' : x.scalar = .p := by simpa using hx
      rw [evalD_cons]
      unfold termAt
      rw [hx']
      split
      · rcases ih with e | e <;> rw [e] <;> right <;> rfl
      · rw [sum_zero_left]; exact ih
    · exact ih

theorem kap_eq_p_iff (c : Choice) (q : Poly) :
    kap c q = .p ↔ ∃ m ∈ q, m.matchesC c = true ∧ m.scalar = .p := by
  constructor
  · intro h
    have hne : Poly.sumAll (Poly.matching (q.filter (fun m => m.scalar == .p)) c) ≠ .o := by
      show kap c q ≠ .o
      rw [h]; simp
    have := sumAll_mem hne
    obtain ⟨m, hm, h1, _⟩ := mem_matching.1 this
    have hm' := List.mem_filter.1 hm
    exact ⟨m, hm'.1, h1, by simpa using hm'.2⟩
  · rintro ⟨m, hm, h1, h2⟩
    have hmem : Scalar.p ∈ Poly.matching (q.filter (fun m => m.scalar == .p)) c :=
      mem_matching.2 ⟨m, List.mem_filter.2 ⟨hm, by simp [h2]⟩, h1, h2⟩
    have := sumAll_absorb hmem
    change Scalar.p + kap c q = kap c q at this
    rcases kap_o_or_p c q with e | e
    · rw [e] at this; cases this
    · exact e

theorem kap_of_evalD_p {c : Choice} {q : Poly} (h : q.evalD c = .p) : kap c q = .p := by
  rw [kap_eq_p_iff]
  have hne : Poly.sumAll (Poly.matching q c) ≠ .o := by
    show q.evalD c ≠ .o
    rw [h]; simp
  have := sumAll_mem hne
  change q.evalD c ∈ _ at this
  rw [h] at this
  exact mem_matching.1 this

theorem evalD_of_kap_p {c : Choice} {q : Poly} (h : kap c q = .p) : q.evalD c = .p ∨ q.evalD c = .i := by
  obtain ⟨m, hm, h1, h2⟩ := (kap_eq_p_iff c q).1 h
  have := sumAll_absorb (mem_matching.2 ⟨m, hm, h1, h2⟩)
  change Scalar.p + q.evalD c = q.evalD c at this
  revert this
  cases q.evalD c <;> simp [Scalar.add_def, Gen.sumTable]

theorem evalD_add_kap (c : Choice) (q : Poly) : q.evalD c + kap c q = q.evalD c := by
  rcases kap_o_or_p c q with e | e
  · rw [e, sum_zero_right]
  · rcases evalD_of_kap_p e with e' | e' <;> rw [e, e'] <;> rfl

theorem sumAll_o_or_p {l : List Scalar} (h : ∀ s ∈ l, s = .o ∨ s = .p) :
    Poly.sumAll l = .o ∨ Poly.sumAll l = .p := by
  induction l with
  | nil => left; rfl
  | cons x t ih =>
    rw [sumAll_cons]
    rcases h x (List.mem_cons_self ..) with e | e <;>
      rcases ih (fun s hs => h s (List.mem_cons_of_mem _ hs)) with e' | e' <;>
      rw [e, e'] <;> simp [Scalar.add_def, Gen.sumTable]

theorem sumAll_all_o {l : List Scalar} (h : ∀ s ∈ l, s = .o) : Poly.sumAll l = .o := by
  induction l with
  | nil => rfl
  | cons x t ih =>
    rw [sumAll_cons, h x (List.mem_cons_self ..), ih (fun s hs => h s (List.mem_cons_of_mem _ hs))]
    rfl

theorem evalD_all_o {p : Poly} (c : Choice) (h : ∀ m ∈ p, m.scalar = .o) : p.evalD c = .o := by
  apply sumAll_all_o
  intro s hs
  obtain ⟨m, hm, _, h2⟩ := mem_matching.1 hs
  rw [← h2]; exact h m hm

theorem filter_p_of_all_o {p : Poly} (h : ∀ m ∈ p, m.scalar = .o) :
    p.filter (fun m => m.scalar == .p) = [] := by
  rw [List.filter_eq_nil_iff]
  intro m hm
  rw [h m hm]; simp

theorem evalD_map_lfix_of {p : Poly} {c : Choice}
    (h : ∀ m ∈ p, m.matchesC c = true → m.scalar = .m) :
    Poly.evalD (p.map (lfix true)) c = p.evalD c := by
  induction p with
  | nil => rfl
  | cons x t ih =>
    rw [List.map_cons, evalD_cons, evalD_cons, ih (fun m hm => h m (List.mem_cons_of_mem _ hm))]
    congr 1
    unfold termAt
    rw [lfix_matches]
    split
    · rename_i hx
      rw [lfix_true_scalar, h x (List.mem_cons_self ..) hx]; rfl
    · rfl

theorem get_out_of_range {n : Nat} {m : Matrix} (hs : Sq n m) {i j : Nat} (h : ¬ (i < n ∧ j < n)) :
    Matrix.get m i j = Poly.zero := by
  unfold Matrix.get
  by_cases hi : i < n
  · have hj : ¬ j < n := fun hj => h ⟨hi, hj⟩
    rw [getD_of_le _ j _ (by rw [hs.getD_row hi]; omega)]
  · rw [getD_of_le m i _ (by rw [hs.len]; omega)]
    rfl

/-! ## invariant (C) -/

def contrib (r : Relation) (c : Choice) (ell b : Nat) (pre : List (Nat × Nat)) : List Scalar :=
  (pre.filter (fun x => x.2 == b && x.1 != b && x.1 != ell)).map
    (fun x => kap c (Matrix.get r.mat x.1 x.2))

structure InvC (r : Relation) (c : Choice) (ell : Nat) (pre : List (Nat × Nat)) (mat : Matrix) : Prop where
  sq : Sq r.vars.length mat
  diag : ∀ a, a < r.vars.length → Matrix.get mat a a =
    if (a, a) ∈ pre then (Matrix.get r.mat a a).map (lfix true) else Matrix.get r.mat a a
  other : ∀ a b, a ≠ ell → a ≠ b → Matrix.get mat a b = Matrix.get r.mat a b
  rowl : ∀ b, b ≠ ell → (Matrix.get mat ell b).evalD c =
    (Matrix.get r.mat ell b).evalD c + Poly.sumAll (contrib r c ell b pre)

theorem contrib_append (r : Relation) (c : Choice) (ell b : Nat) (pre : List (Nat × Nat))
    (x : Nat × Nat) :
    contrib r c ell b (pre ++ [x]) =
      if (x.2 == b && x.1 != b && x.1 != ell) = true
      then contrib r c ell b pre ++ [kap c (Matrix.get r.mat x.1 x.2)]
      else contrib r c ell b pre := by
  unfold contrib
  rw [List.filter_append, List.map_append]
  simp only [List.filter_cons, List.filter_nil]
  split <;> simp

theorem walk_cells (r : Relation) (h : r.WF) (c : Choice) (ell : Nat) (hell : ell < r.vars.length)
    (hcol : ∀ i, i ≠ ell → ∀ m ∈ Matrix.get r.mat i ell, m.scalar = .o)
    (g : DG.Graph) (res : Matrix × DG.Graph)
    (hw : (loopCells r.mat).foldlM (loopStep ell) (r.mat, g) = .ok res) :
    InvC r c ell (loopCells r.mat) res.1 := by
  have hsq := wf_sq h
  have hnd := nodup_loopCells r.mat
  refine foldlM_inv (loopStep ell) (fun pre s => InvC r c ell pre s.1) (loopCells r.mat) ?_
    (loopCells r.mat) [] (r.mat, g) res rfl ?_ hw
  · -- one step
    intro pre x post s s' htot hinv hstep
    obtain ⟨mat, g1⟩ := s
    obtain ⟨i, j⟩ := x
    have hxm : (i, j) ∈ loopCells r.mat := by rw [htot]; simp
    obtain ⟨hi, hj⟩ := (mem_loopCells hsq i j).1 hxm
    have hnp : (i, j) ∉ pre := not_mem_pre hnd htot
    obtain ⟨s1, s2, _⟩ := loopStep_spec hinv.sq hi hj hell g1 s' hstep
    simp only at hinv ⊢
    refine ⟨s1, ?_, ?_, ?_⟩
    · -- diagonal cells
      intro a ha
      rw [s2, stepCell]
      by_cases hij : i = j
      · subst hij
        by_cases hai : a = i
        · subst hai
          rw [if_pos ⟨rfl, rfl, rfl⟩, if_pos (by simp), hinv.diag a ha, if_neg hnp]
        · rw [if_neg (fun hh => hai hh.1), if_neg (fun hh => hh.2.2 rfl), hinv.diag a ha]
          have : (a, a) ∈ pre ++ [(i, i)] ↔ (a, a) ∈ pre := by
            simp [hai]
          simp only [this]
      · rw [if_neg (fun hh => hij hh.2.2)]
        have hmem : (a, a) ∈ pre ++ [(i, j)] ↔ (a, a) ∈ pre := by
          simp only [List.mem_append, List.mem_singleton, Prod.mk.injEq]
          constructor
          · rintro (hh | ⟨h1, h2⟩)
            · exact hh
            · exact absurd (h1.symm.trans h2) hij
          · exact Or.inl
        split
        · rename_i hab
          -- (ell, ell) would receive the `p` monomials of (i, ell): there are none
          obtain ⟨hae, haj, _⟩ := hab
          subst haj
          subst hae
          have hio : Matrix.get mat i a = Matrix.get r.mat i a := hinv.other i a hij hij
          rw [hio, filter_p_of_all_o (hcol i hij)]
          show Matrix.get mat a a = _
          rw [hinv.diag a ha]
          simp only [hmem]
        · rw [hinv.diag a ha]
          simp only [hmem]
    · -- cells outside row `ell`, off the diagonal
      intro a b hae hab
      rw [s2, stepCell, if_neg (fun hh => hab (hh.1.trans (hh.2.2.trans hh.2.1.symm))),
        if_neg (fun hh => hae hh.1)]
      exact hinv.other a b hae hab
    · -- row `ell`
      intro b hbe
      rw [s2, stepCell, if_neg (fun hh => hbe (hh.2.1.trans (hh.2.2.symm.trans hh.1.symm))),
        contrib_append]
      by_cases hsec : b = j ∧ i ≠ j
      · obtain ⟨hbj, hij⟩ := hsec
        subst hbj
        rw [if_pos ⟨rfl, rfl, hij⟩,
          (addMonos_spec _ (WF_filter' _ _ (hinv.sq.get_wf i b)) c _ (hinv.sq.get_wf ell b)).2]
        by_cases hie : i = ell
        · subst hie
          have : (((i, b) : Nat × Nat).2 == b && ((i, b) : Nat × Nat).1 != b &&
              ((i, b) : Nat × Nat).1 != i) = false := by simp
          rw [this]
          simp only [Bool.false_eq_true, if_false]
          have hk := evalD_add_kap c (Matrix.get mat i b)
          unfold kap at hk
          rw [hk]
          exact hinv.rowl b hbe
        · have : (((i, b) : Nat × Nat).2 == b && ((i, b) : Nat × Nat).1 != b &&
              ((i, b) : Nat × Nat).1 != ell) = true := by simp [hij, hie]
          rw [this, if_pos rfl, sumAll_append, hinv.rowl b hbe, hinv.other i b hie hij, sumAll_cons,
            sumAll_nil, sum_zero_right, sum_assoc]
          rfl
      · rw [if_neg (fun hh => hsec ⟨hh.2.1, hh.2.2⟩)]
        have : (((i, j) : Nat × Nat).2 == b && ((i, j) : Nat × Nat).1 != b &&
            ((i, j) : Nat × Nat).1 != ell) = false := by
          by_cases hbj : b = j
          · have hij : i = j := Classical.byContradiction fun hne => hsec ⟨hbj, hne⟩
            subst hbj; subst hij; simp
          · have : ¬ j = b := fun e => hbj e.symm
            simp [this]
        rw [this]
        simp only [Bool.false_eq_true, if_false]
        exact hinv.rowl b hbe
  · -- initially
    exact ⟨hsq, fun a _ => by simp, fun _ _ _ _ => rfl, fun b _ => by
      simp [contrib, sumAll_nil, sum_zero_right]⟩

end Mwp.RelFix
