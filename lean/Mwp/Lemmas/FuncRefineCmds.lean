/-
  From one statement to a whole function, part 1 (model side):
  * the variable list `Syntax.variables` computes is duplicate-free and has no empty name;
  * inversion of `Analysis.func` that keeps the call to `cmds` visible;
  * `cmds` (its local `go`) is `computeList` from the identity relation over the variables, up to
    what is returned when a statement sets the exit flag;
  * bookkeeping of choice vectors (`Relab` is symmetric, `relabel` vs `relabelAt`, padding).
-/
import Mwp.Lemmas.RefineLoopsGuards
import Mwp.Lemmas.Misc15
namespace Mwp
namespace Refine
open Mwp.Props.C16 Mwp.Lemmas.Poly Spec RelFix Analysis
open Syntax (normVars insertName)

/-! ## the variable list -/

theorem insertName_sorted (n : String) (l : List String) (h : l.Pairwise (· < ·)) :
    (insertName n l).Pairwise (· < ·) := by
  induction l with
  | nil => simp [insertName]
  | cons a t ih =>
    rw [List.pairwise_cons] at h
    unfold insertName
    split
    · rename_i hna
      rw [List.pairwise_cons]
      refine ⟨?_, List.pairwise_cons.2 h⟩
      intro x hx
      rcases List.mem_cons.1 hx with rfl | hx
      · exact hna
      · exact String.lt_trans hna (h.1 x hx)
    · split
      · exact List.pairwise_cons.2 h
      · rename_i h1 h2
        rw [List.pairwise_cons]
        refine ⟨?_, ih h.2⟩
        intro x hx
        rcases (mem_insertName x n t).1 hx with rfl | hx
        · -- ¬ x < a, x ≠ a → a < x
          apply Classical.byContradiction
          intro h3
          exact h2 (String.le_antisymm h3 h1)
        · exact h.1 x hx

theorem normVars_sorted (l : List String) : (normVars l).Pairwise (· < ·) := by
  induction l with
  | nil => simp [normVars]
  | cons a t ih => exact insertName_sorted a _ ih

theorem normVars_nodup (l : List String) : (normVars l).Nodup := by
  have := normVars_sorted l
  unfold List.Nodup
  refine this.imp ?_
  intro a b h e
  subst e
  exact String.lt_irrefl _ h

theorem guardOf_ne (r : Bool × Option String) : ∀ v ∈ guardOf r, v ≠ "" := by
  intro v hv
  unfold guardOf at hv
  split at hv
  · split at hv
    · cases hv
    · rename_i h
      rw [List.mem_singleton] at hv
      subst hv
      intro e
      exact h (by rw [e]; rfl)
  · cases hv

theorem isEmpty_ne {n : String} (h : ¬ n.isEmpty = true) : n ≠ "" := by
  intro e; exact h (by rw [e]; rfl)

mutual
theorem varsP_ne : (n : Node) → ∀ v ∈ varsP n, v ≠ ""
  | .id n => by
    intro v hv
    simp only [varsP] at hv
    split at hv
    · cases hv
    · split at hv
      · cases hv
      · rename_i h
        rw [List.mem_singleton] at hv; subst hv; exact isEmpty_ne h
  | .const .. => by intro v hv; simp [varsP] at hv
  | .binop _ l r => by
    intro v hv
    simp only [varsP, List.mem_append] at hv
    exact hv.elim (varsP_ne l v) (varsP_ne r v)
  | .unop op e => by
    intro v hv
    simp only [varsP] at hv
    split at hv
    · exact varsP_ne e v hv
    · cases hv
  | .cast e => by intro v hv; simp only [varsP] at hv; exact varsP_ne e v hv
  | .assign _ l r => by
    intro v hv
    simp only [varsP, List.mem_append] at hv
    exact hv.elim (varsP_ne l v) (varsP_ne r v)
  | .funcCall .. => by intro v hv; simp [varsP] at hv
  | .exprList es => by intro v hv; simp only [varsP] at hv; exact varsPL_ne es v hv
  | .ternary .. => by intro v hv; simp [varsP] at hv
  | .arrayRef .. => by intro v hv; simp [varsP] at hv
  | .decl name ty init => by
    intro v hv
    simp only [varsP, List.mem_append] at hv
    rcases hv with hv | hv
    · split at hv
      · split at hv
        · cases hv
        · rename_i h
          rw [List.mem_singleton] at hv; subst hv; exact isEmpty_ne h
      · cases hv
    · exact varsPO_ne init v hv
  | .typeDecl => by intro v hv; simp [varsP] at hv
  | .declList es => by intro v hv; simp only [varsP] at hv; exact varsPL_ne es v hv
  | .compound none => by intro v hv; simp [varsP] at hv
  | .compound (some es) => by intro v hv; simp only [varsP] at hv; exact varsPL_ne es v hv
  | .ifs _ t f => by
    intro v hv
    simp only [varsP, List.mem_append] at hv
    exact hv.elim (varsPO_ne t v) (varsPO_ne f v)
  | .while_ l r => by
    intro v hv
    simp only [varsP, List.mem_append] at hv
    exact hv.elim (varsP_ne l v) (varsP_ne r v)
  | .doWhile l r => by
    intro v hv
    simp only [varsP, List.mem_append] at hv
    exact hv.elim (varsP_ne l v) (varsP_ne r v)
  | .for_ init cond next body => by
    intro v hv
    simp only [varsP, List.mem_append] at hv
    exact hv.elim (guardOf_ne _ v) (varsP_ne body v)
  | .ret e => by intro v hv; simp only [varsP] at hv; exact varsPO_ne e v hv
  | .brk => by intro v hv; simp [varsP] at hv
  | .cont => by intro v hv; simp [varsP] at hv
  | .empty => by intro v hv; simp [varsP] at hv
  | .label _ e => by intro v hv; simp only [varsP] at hv; exact varsP_ne e v hv
  | .goto _ => by intro v hv; simp [varsP] at hv
  | .switch .. => by intro v hv; simp [varsP] at hv
  | .case_ _ es => by intro v hv; simp only [varsP] at hv; exact varsPL_ne es v hv
  | .default_ es => by intro v hv; simp only [varsP] at hv; exact varsPL_ne es v hv
  | .paramList es => by intro v hv; simp only [varsP] at hv; exact varsPL_ne es v hv
  | .funcDecl _ => by intro v hv; simp [varsP] at hv
  | .funcDef d b => by
    have hb := varsP_ne b
    cases d with
    | decl nm ty i =>
      cases ty with
      | funcDecl a =>
        intro v hv
        simp only [varsP, List.mem_append] at hv
        exact hv.elim (varsPO_ne a v) (hb v)
      | _ =>
        intro v hv
        simp only [varsP, List.nil_append] at hv
        exact hb v hv
    | _ =>
      intro v hv
      simp only [varsP, List.nil_append] at hv
      exact hb v hv
  | .other cls name _ => by
    intro v hv
    simp only [varsP] at hv
    split at hv
    · cases hv
    · split at hv
      · split at hv
        · cases hv
        · rename_i h
          rw [List.mem_singleton] at hv; subst hv; exact isEmpty_ne h
      · cases hv
theorem varsPL_ne : (l : List Node) → ∀ v ∈ varsPL l, v ≠ ""
  | [] => by intro v hv; simp [varsPL] at hv
  | n :: ns => by
    intro v hv
    simp only [varsPL, List.mem_append] at hv
    exact hv.elim (varsP_ne n v) (varsPL_ne ns v)
theorem varsPO_ne : (o : Option Node) → ∀ v ∈ varsPO o, v ≠ ""
  | none => by intro v hv; simp [varsPO] at hv
  | some n => by intro v hv; simp only [varsPO] at hv; exact varsP_ne n v hv
end

/-- `Variables(node).vars`: sorted, duplicate-free, no empty name -/
theorem variables_wf (node : Node) (vars : List String) (h : Syntax.variables node = .ok vars) :
    vars.Nodup ∧ (∀ v ∈ vars, v ≠ "") ∧ ∀ v, v ∈ vars ↔ v ∈ varsP node := by
  unfold Syntax.variables at h
  rw [varsN_eq] at h
  cases h
  exact ⟨normVars_nodup _, fun v hv => varsP_ne node v ((mem_normVars' v _).1 hv), fun v => mem_normVars' v _⟩


/-- the statements `Analysis.func` hands to `cmds` -/
def funcBody : Node → List Node
  | .funcDef _ (.compound (some l)) => l
  | _ => []

theorem func_inv2 (n : Node) (stop : Bool) (r : FuncRes) (h : func n stop = .ok r) :
    ∃ (vars : List String) (dI : Bool) (index : Nat) (rels : RelList) (sk : List String),
      Syntax.variables n = .ok vars ∧
      cmds (RelList.identity vars) 0 (funcBody n) stop = .ok (dI, index, rels, sk) ∧
      r.variables = (rels.headD (Relation.new [])).vars ∧ r.index = index ∧
      (dI = true → r.infinite = true ∧ r.choices = none) ∧
      (dI = false → ∃ c, (rels.headD (Relation.new [])).eval Gen.domain index = .ok c ∧
        r.infinite = Choices.infinite c ∧
        (r.infinite = false → r.choices = some c ∧ r.relation = some (rels.headD (Relation.new [])))) := by
  unfold func at h
  cases hv : Syntax.variables n with
  | error e => rw [hv] at h; cases h
  | ok vars =>
    rw [hv] at h
    simp only [bind, Except.bind] at h
    split at h
    · cases h
    · rename_i v hc
      obtain ⟨deltaInf, index, rels, sk⟩ := v
      refine ⟨vars, deltaInf, index, rels, sk, rfl, hc, ?_⟩
      simp only at h
      cases deltaInf with
      | true =>
        simp only [Bool.not_true, Bool.false_eq_true, if_false, pure, Except.pure, Bool.true_or, Bool.true_and] at h
        cases stop with
        | true =>
          simp only [Bool.not_true, Bool.false_eq_true, if_false, Except.ok.injEq] at h
          subst h
          simp
        | false =>
          simp only [Bool.not_false, if_true] at h
          split at h
          · cases h
          · rename_i v2 hif
            simp only [Except.ok.injEq] at h
            subst h
            simp
      | false =>
        simp only [Bool.not_false, if_true, Bool.false_or] at h
        cases he : (rels.headD (Relation.new [])).eval Gen.domain index with
        | error e => rw [he] at h; cases h
        | ok c =>
          rw [he] at h
          simp only [pure, Except.pure, Bool.true_and] at h
          split at h
          · cases h
          · rename_i v2 hif
            simp only [Except.ok.injEq] at h
            subst h
            simp only [true_and, Bool.false_eq_true, false_implies, forall_const]
            refine ⟨c, rfl, rfl, ?_⟩
            intro hf
            simp [hf]


theorem cmds_eq_go (rels : RelList) (index : Nat) (nodes : List Node) (stop : Bool) :
    cmds rels index nodes stop = cmds.go stop rels index [] false [] nodes := by
  unfold cmds
  cases nodes with
  | nil => simp [cmds.go]
  | cons n ns => simp

/-- `cmds.go` from a single well-formed relation is `computeList` (run to completion iff not
    `stop`); on an exit it returns the relation accumulated BEFORE the exiting statement -/
theorem go_computeList (stop : Bool) (l : List Node) :
    ∀ (cs : List Cmd), desugarL l = some cs → namesOkAL l = true →
    guardsFreshL cs = true →
    ∀ (ra : Relation) (idx : Nat) (dg : DG.Graph) (sk : List String)
      (res : Bool × Nat × RelList × List String), ra.WF →
      cmds.go stop [ra] idx dg false sk l = .ok res →
      ∃ out : Analysis.Out, computeList (!stop) idx dg [ra] sk l = .ok out ∧
        res.1 = out.exit ∧ res.2.1 = out.index ∧ (out.exit = false → res.2.2.1 = out.rels) ∧
        ∃ r0, res.2.2.1 = [r0] ∧ r0.WF ∧ ∀ v ∈ ra.vars, v ∈ r0.vars := by
  induction l with
  | nil =>
    intro cs _ _ _ ra idx dg sk res hra h
    rw [cmds.go] at h
    cases h
    exact ⟨⟨idx, [ra], false, dg, sk⟩, by rw [computeList]; rfl, rfl, rfl, fun _ => rfl, ra, rfl, hra, fun v hv => hv⟩
  | cons n ns ih =>
    intro cs hd hn hg ra idx dg sk res hra h
    rw [desugarL] at hd
    cases hdn : desugar n with
    | none => simp [hdn] at hd
    | some cmd =>
      cases hdl : desugarL ns with
      | none => simp [hdn, hdl] at hd
      | some cs' =>
        simp only [hdn, hdl, Option.some.injEq] at hd
        subst hd
        simp only [namesOkAL, guardsFreshL, Bool.and_eq_true] at hn hg
        rw [cmds.go] at h
        rw [computeList]
        cases ho1 : compute (!stop) idx dg n with
        | error e => rw [ho1] at h; cases h
        | ok o1 =>
          rw [ho1] at h
          simp only [bind, Except.bind] at h ⊢
          have R1 := compute_refG_aux (sizeOf n + 1) n (Nat.lt_succ_self _) cmd hdn hn.1 hg.1
            (!stop) idx dg o1 ho1
          cases he : o1.exit with
          | true =>
            have hs : stop = true := by
              cases stop with
              | true => rfl
              | false => have := R1.noexit rfl; rw [he] at this; cases this
            subst hs
            rw [he] at h
            simp only [Bool.false_or, Bool.and_self, if_true, pure, Except.pure] at h ⊢
            cases h
            exact ⟨_, rfl, rfl, rfl, (fun h => by cases h), ra, rfl, hra, fun v hv => hv⟩
          | false =>
            rw [he] at h
            simp only [Bool.or_self, Bool.and_false, Bool.false_eq_true, if_false] at h ⊢
            obtain ⟨_, r1, hr1, w1, _, _⟩ := R1.main he
            have hacc : RelList.composition [ra] o1.rels = [Relation.composition ra r1] := by
              rw [hr1, relList_composition_single]
            rw [hacc] at h ⊢
            have wacc := Relation.composition_wf ra r1 hra w1
            obtain ⟨out, e1, e2, e3, e4, r0, e5, e6, e7⟩ :=
              ih cs' hdl hn.2 hg.2 (Relation.composition ra r1) o1.index o1.dg (sk ++ o1.skipped) res wacc h
            refine ⟨out, e1, e2, e3, e4, r0, e5, e6, ?_⟩
            intro v hv
            exact e7 v ((Relation.composition_vars_mem ra r1 hra w1 v).2 (Or.inl hv))


theorem swapAlt_invol (sw : Bool) (v : Nat) : swapAlt sw (swapAlt sw v) = v := by
  unfold swapAlt
  cases sw
  · simp
  · simp only [if_true]
    by_cases h0 : v = 0
    · subst h0; simp
    · by_cases h1 : v = 1
      · subst h1; simp
      · simp [h0, h1]

theorem swapAlt_lt3 (sw : Bool) {v : Nat} (h : v < 3) : swapAlt sw v < 3 := by
  unfold swapAlt
  cases sw
  · simpa using h
  · simp only [if_true]
    split
    · omega
    · split
      · omega
      · exact h

theorem Relab.symm {idx : Nat} {sws : List Bool} {c c' : Choice} (h : Relab idx sws c c') :
    Relab idx sws c' c := by
  intro k hk
  rw [h k hk, Option.map_map]
  cases c[idx + k]? with
  | none => rfl
  | some v => simp [swapAlt_invol]

theorem Relab.valid {idx n : Nat} {sws : List Bool} {c c' : Choice} (hl : sws.length = n)
    (h : Relab idx sws c c') (hv : Valid idx n c) : Valid idx n c' := by
  intro k h1 h2
  obtain ⟨a, ha, ha3⟩ := hv k h1 h2
  have := h (k - idx) (by omega)
  rw [show idx + (k - idx) = k by omega, ha] at this
  exact ⟨_, this, swapAlt_lt3 _ ha3⟩

theorem relabelAt_length (idx : Nat) (cmd : Cmd) (c : Choice) : (relabelAt idx cmd c).length = c.length := by
  simp [relabelAt]

theorem getElem?_swaps_pad (sws : List Bool) (n k : Nat) (hk : k < n) :
    (sws ++ List.replicate n false)[k]? = some (sws.getD k false) := by
  by_cases h : k < sws.length
  · rw [List.getElem?_append_left h, List.getD_eq_getElem?_getD, List.getElem?_eq_getElem h]; rfl
  · have h' : sws.length ≤ k := by omega
    rw [List.getElem?_append_right h', List.getD_eq_getElem?_getD, List.getElem?_eq_none h']
    simp only [Option.getD_none, List.getElem?_replicate]
    rw [if_pos (by omega)]

theorem relabel_eq_relabelAt (cmd : Cmd) (c : Choice) : relabel cmd c = relabelAt 0 cmd c := by
  apply List.ext_getElem?
  intro k
  unfold relabel relabelAt
  rw [List.getElem?_map, List.getElem?_map, List.zip_eq_zipWith, List.getElem?_zipWith,
    List.getElem?_zipIdx]
  by_cases hk : k < c.length
  · rw [getElem?_swaps_pad _ _ _ hk, List.getElem?_eq_getElem hk]
    simp
  · rw [List.getElem?_eq_none (by omega)]
    simp


theorem identity_fin (vs : List String) (hne : ∀ v ∈ vs, v ≠ "") (c : Choice) :
    Fin' (Relation.identity vs) c := by
  intro a b; rw [Relation.identity_den' vs hne]; exact idS_ne_i a b

/-- a statement list analysed from the IDENTITY relation over `vs` is the sequence command -/
theorem seq_agrees {q : Bool} {idx : Nat} {dg : DG.Graph} {vs : List String} {cs : List Cmd}
    {out : Analysis.Out} (hne : ∀ v ∈ vs, v ≠ "")
    (R : RefGL q idx dg (Relation.identity vs) cs out) (he : out.exit = false) :
    out.index = idx + (Cmd.seq cs).arity ∧ ∃ r, out.rels = [r] ∧ r.WF ∧
      ∀ (U : List String), U.Nodup → (∀ v ∈ vs, v ∈ U) → (∀ v ∈ (Cmd.seq cs).vars, v ∈ U) →
      ∀ (c : Choice), Valid idx (Cmd.seq cs).arity c → ∀ c', Relab idx (Cmd.seq cs).swaps c c' →
        Agrees U idx (.seq cs) r c c' := by
  obtain ⟨hi, r, hr, wr, _, semr⟩ := R.main he
  refine ⟨by rw [Cmd.arity]; exact hi, r, hr, wr, ?_⟩
  intro U hU hsa hsub c hval c' hrel
  rw [Cmd.vars] at hsub
  rw [Cmd.arity] at hval
  rw [Cmd.swaps] at hrel
  have hva : ∀ v ∈ (Relation.identity vs).vars, v ∈ U := by
    rw [Relation.identity_vars vs hne]; exact hsa
  obtain ⟨_, fin⟩ := semr U hU hva hsub c hval c' hrel
  have hden : (Relation.identity vs).den c = idS :=
    funext fun x => funext fun y => Relation.identity_den' vs hne c x y
  rcases fin (identity_fin vs hne c) with ⟨s, i⟩ | ⟨fr, S, hS, hE⟩
  · exact Or.inl ⟨by rw [sem]; exact s, i⟩
  · right
    refine ⟨?_, fr⟩
    rw [sem, hS, Cmd.arity]
    congr 2
    apply mk_congr
    rw [hden] at hE
    have h1 : EqOn U.length (dn U (r.den c)) (fmul U.length fI S) :=
      hE.trans (fmul_congr (dn_idS hU) (EqOn.refl _ _))
    have h2 : EqOn U.length (fmul U.length fI S) S := by
      apply fmul_fI_left_of_result
      intro i hi j hj
      rw [← h1 i hi j hj]
      exact fr _ _
    exact (h1.trans h2).symm

end Refine
end Mwp
