/-
  A purely SYNTACTIC invariant on the deltas of all monomials of a relation, with no
  well-formedness hypotheses: every operation of the relation algebra only rearranges, unions or
  drops existing deltas; new deltas only come from `Poly.fromScalars`.
-/
import Mwp.Lemmas.RefineLoopsSyn
namespace Mwp
namespace Refine
open Mwp.Props.C16 Mwp.Lemmas.Poly RelFix

/-- every delta of every monomial satisfies `P` -/
def AllD (P : Delta → Prop) (p : Poly) : Prop := ∀ m ∈ p, ∀ d ∈ m.deltas, P d
/-- every cell (read with `Matrix.get`, so out-of-range = `Poly.zero`) -/
def MatD (P : Delta → Prop) (m : Matrix) : Prop := ∀ i j, AllD P (Matrix.get m i j)
def RelD (P : Delta → Prop) (r : Relation) : Prop := MatD P r.mat
def RelLD (P : Delta → Prop) (l : RelList) : Prop := ∀ r ∈ l, RelD P r

section
variable {P Q : Delta → Prop}

theorem AllD.mono (h : ∀ d, P d → Q d) {p : Poly} (hp : AllD P p) : AllD Q p :=
  fun m hm d hd => h d (hp m hm d hd)

theorem MatD.mono (h : ∀ d, P d → Q d) {m : Matrix} (hm : MatD P m) : MatD Q m :=
  fun i j => (hm i j).mono h

theorem RelD.mono (h : ∀ d, P d → Q d) {r : Relation} (hr : RelD P r) : RelD Q r :=
  MatD.mono h hr

theorem RelLD.mono (h : ∀ d, P d → Q d) {l : RelList} (hl : RelLD P l) : RelLD Q l :=
  fun r hr => (hl r hr).mono h

/-! ## monomials -/

theorem insertDelta?_mem : ∀ (l : List Delta) (d : Delta) (l' : List Delta),
    insertDelta? l d = some l' → ∀ x ∈ l', x = d ∨ x ∈ l := by
  intro l
  induction l with
  | nil =>
    intro d l' h x hx
    simp only [insertDelta?, Option.some.injEq] at h
    subst h
    exact Or.inl (List.mem_singleton.1 hx)
  | cons e es ih =>
    intro d l' h x hx
    unfold insertDelta? at h
    split at h
    · cases h' : insertDelta? es d with
      | none => rw [h'] at h; cases h
      | some l'' =>
        rw [h'] at h
        simp only [Option.map_some, Option.some.injEq] at h
        subst h
        rcases List.mem_cons.1 hx with rfl | hx
        · exact Or.inr (List.mem_cons_self ..)
        · rcases ih d l'' h' x hx with h1 | h1
          · exact Or.inl h1
          · exact Or.inr (List.mem_cons_of_mem _ h1)
    · split at h
      · split at h
        · cases h; exact Or.inr hx
        · cases h
      · cases h
        rcases List.mem_cons.1 hx with rfl | hx
        · exact Or.inl rfl
        · exact Or.inr hx

theorem insertDeltas_deltas (m : Mono) (ds : List Delta) :
    ∀ d ∈ (m.insertDeltas ds).deltas, d ∈ m.deltas ∨ d ∈ ds := by
  induction ds generalizing m with
  | nil => intro d hd; exact Or.inl hd
  | cons e ds ih =>
    intro d hd
    unfold Mono.insertDeltas at hd
    split at hd
    · cases hd
    · rename_i l hl
      rcases ih _ d hd with h | h
      · rcases insertDelta?_mem _ _ _ hl d h with rfl | h'
        · exact Or.inr (List.mem_cons_self ..)
        · exact Or.inl h'
      · exact Or.inr (List.mem_cons_of_mem _ h)

theorem new_deltas (s : Scalar) (ds : List Delta) : ∀ d ∈ (Mono.new s ds).deltas, d ∈ ds := by
  intro d hd
  rcases insertDeltas_deltas ⟨s, []⟩ ds d hd with h | h
  · cases h
  · exact h

theorem copy_deltas (m : Mono) : ∀ d ∈ m.copy.deltas, d ∈ m.deltas :=
  new_deltas m.scalar m.deltas

theorem prod_deltas (a b : Mono) : ∀ d ∈ (a.prod b).deltas, d ∈ a.deltas ∨ d ∈ b.deltas := by
  intro d hd
  unfold Mono.prod at hd
  simp only at hd
  split at hd
  · cases hd
  · split at hd
    · exact Or.inl (copy_deltas a d hd)
    · rcases insertDeltas_deltas _ _ d hd with h | h
      · exact Or.inl (copy_deltas a d h)
      · exact Or.inr h

/-! ## polynomials -/

theorem AllD_nil : AllD P ([] : Poly) := fun _ hm => by cases hm

theorem AllD_cons {m : Mono} {p : Poly} (hm : ∀ d ∈ m.deltas, P d) (hp : AllD P p) :
    AllD P (m :: p) := by
  intro x hx
  rcases List.mem_cons.1 hx with rfl | hx
  · exact hm
  · exact hp x hx

theorem AllD_const (s : Scalar) : AllD P (Poly.const s) := by
  intro m hm d hd
  simp only [Poly.const, List.mem_singleton] at hm
  subst hm; cases hd

theorem AllD_zero : AllD P Poly.zero := AllD_const .o

theorem AllD_unit : AllD P Poly.unit := AllD_const .m

theorem AllD_ofList {l : List Mono} (h : AllD P l) : AllD P (Poly.ofList l) := by
  unfold Poly.ofList
  split
  · exact AllD_zero
  · exact h

theorem AllD_map_copy {l : List Mono} (h : AllD P l) : AllD P (l.map Mono.copy) := by
  intro m hm d hd
  obtain ⟨m0, hm0, rfl⟩ := List.mem_map.1 hm
  exact h m0 hm0 d (copy_deltas m0 d hd)

theorem AllD_copy {p : Poly} (h : AllD P p) : AllD P (Poly.copy p) :=
  AllD_ofList (AllD_map_copy h)

theorem AllD_filter {l : List Mono} (f : Mono → Bool) (h : AllD P l) : AllD P (l.filter f) :=
  fun m hm => h m (List.mem_filter.1 hm).1

theorem AllD_removeZeros {l : List Mono} (h : AllD P l) : AllD P (Poly.removeZeros l) := by
  unfold Poly.removeZeros
  simp only
  split
  · exact AllD_zero
  · exact AllD_filter _ h

theorem AllD_scanInsert {l : List Mono} {x : Mono} (hl : AllD P l) (hx : ∀ d ∈ x.deltas, P d) :
    AllD P (Poly.scanInsert l x) := by
  intro m hm
  rcases mem_scanInsert hm with h | rfl
  · exact hl m h
  · exact hx

theorem AllD_foldl_scanInsert (xs l : List Mono) (hl : AllD P l) (hxs : AllD P xs) :
    AllD P (xs.foldl Poly.scanInsert l) := by
  induction xs generalizing l with
  | nil => exact hl
  | cons x t ih =>
    exact ih _ (AllD_scanInsert hl (hxs x (List.mem_cons_self ..)))
      (fun m hm => hxs m (List.mem_cons_of_mem _ hm))

theorem AllD_insertSorted (x : Mono) (l : List Mono) (hx : ∀ d ∈ x.deltas, P d) (hl : AllD P l) :
    AllD P (Poly.insertSorted x l) := by
  induction l with
  | nil =>
    intro m hm
    simp only [Poly.insertSorted, List.mem_singleton] at hm
    subst hm; exact hx
  | cons a t ih =>
    have ha := hl a (List.mem_cons_self ..)
    have ht : AllD P t := fun m hm => hl m (List.mem_cons_of_mem _ hm)
    unfold Poly.insertSorted
    split
    · exact AllD_cons hx hl
    · simp only
      split
      · exact ht
      · exact AllD_cons (m := ⟨x.scalar + a.scalar, a.deltas⟩) ha ht
    · exact AllD_cons ha (ih ht)

theorem AllD_sortMonos (l : List Mono) (hl : AllD P l) : AllD P (Poly.sortMonos l) := by
  induction l with
  | nil => intro m hm; cases hm
  | cons a t ih =>
    show AllD P (Poly.insertSorted a (Poly.sortMonos t))
    exact AllD_insertSorted a _ (hl a (List.mem_cons_self ..))
      (ih (fun m hm => hl m (List.mem_cons_of_mem _ hm)))

theorem AllD_add {p q : Poly} (hp : AllD P p) (hq : AllD P q) : AllD P (Poly.add p q) := by
  unfold Poly.add
  split
  · exact AllD_zero
  · split
    · exact AllD_copy hq
    · split
      · exact AllD_copy hp
      · exact AllD_removeZeros (AllD_ofList (AllD_sortMonos _
          (AllD_foldl_scanInsert _ _ (AllD_copy hp) hq)))

theorem AllD_products {p q : Poly} (hp : AllD P p) (hq : AllD P q) :
    AllD P (Poly.products p q) := by
  intro m hm d hd
  unfold Poly.products at hm
  rw [List.mem_flatten] at hm
  obtain ⟨l, hl, hml⟩ := hm
  obtain ⟨m2, hm2, rfl⟩ := List.mem_map.1 hl
  obtain ⟨hm', _⟩ := List.mem_filter.1 hml
  obtain ⟨m1, hm1, rfl⟩ := List.mem_map.1 hm'
  rcases prod_deltas m1 m2 d hd with h | h
  · exact hp m1 hm1 d h
  · exact hq m2 hm2 d h

theorem AllD_times {p q : Poly} (hp : AllD P p) (hq : AllD P q) : AllD P (Poly.times p q) := by
  unfold Poly.times
  simp only
  split
  · exact AllD_zero
  · exact AllD_removeZeros (AllD_ofList
      (AllD_foldl_scanInsert _ _ AllD_nil (AllD_products hp hq)))

theorem AllD_inftyPart {p : Poly} (hp : AllD P p) : AllD P (Matrix.inftyPart p) := by
  unfold Matrix.inftyPart
  exact AllD_ofList (AllD_map_copy (AllD_filter _ hp))

theorem AllD_fromScalars (idx : Nat) (ss : List Scalar) (h : ∀ k, k < ss.length → P (k, idx)) :
    AllD P (Poly.fromScalars idx ss) := by
  unfold Poly.fromScalars
  refine AllD_ofList ?_
  intro m hm d hd
  obtain ⟨⟨k, s⟩, hks, rfl⟩ := List.mem_map.1 hm
  have hk : k < ss.length := by
    have := (List.of_mem_zip hks).1
    exact List.mem_range.1 this
  have := new_deltas s [(k, idx)] d hd
  rw [List.mem_singleton] at this
  subst this
  exact h k hk

theorem foldl_add_AllD {α : Type} (l : List α) (f : α → Poly) (init : Poly) (h : AllD P init)
    (hf : ∀ x ∈ l, AllD P (f x)) : AllD P (l.foldl (fun t x => Poly.add t (f x)) init) := by
  induction l generalizing init with
  | nil => exact h
  | cons a t ih =>
    exact ih _ (AllD_add h (hf a (List.mem_cons_self ..)))
      (fun x hx => hf x (List.mem_cons_of_mem _ hx))

/-! ## matrices -/

theorem getD_mem_or {α : Type} (l : List α) (i : Nat) (d : α) : l.getD i d = d ∨ l.getD i d ∈ l := by
  by_cases h : i < l.length
  · exact Or.inr (getD_mem l i d h)
  · exact Or.inl (getD_of_le l i d (by omega))

theorem matD_iff_mem {m : Matrix} : MatD P m ↔ ∀ row ∈ m, ∀ p ∈ row, AllD P p := by
  constructor
  · intro h row hrow p hp
    obtain ⟨i, hi, rfl⟩ := List.getElem_of_mem hrow
    obtain ⟨j, hj, rfl⟩ := List.getElem_of_mem hp
    have : Matrix.get m i j = m[i][j] := by
      unfold Matrix.get
      simp [List.getD_eq_getElem?_getD, hi, hj]
    rw [← this]
    exact h i j
  · intro h i j
    unfold Matrix.get
    rcases getD_mem_or m i [] with e | hrow
    · rw [e]
      exact AllD_zero
    · rcases getD_mem_or (m.getD i []) j Poly.zero with e | hp
      · rw [e]; exact AllD_zero
      · exact h _ hrow _ hp

theorem MatD_tab2 (n k : Nat) (f : Nat → Nat → Poly) (h : ∀ i j, AllD P (f i j)) :
    MatD P ((List.range n).map fun i => (List.range k).map fun j => f i j) := by
  intro i j
  rw [get_tab2]
  split
  · exact h i j
  · exact AllD_zero

theorem AllD_idCell (i j : Nat) : AllD P (if i == j then Poly.unit else Poly.zero) := by
  split
  · exact AllD_unit
  · exact AllD_zero

theorem MatD_identity (n : Nat) : MatD P (Matrix.identity n) :=
  MatD_tab2 n n _ (fun i j => AllD_idCell i j)

theorem MatD_zeros (n : Nat) : MatD P (Matrix.zeros n) :=
  MatD_tab2 n n _ (fun _ _ => AllD_zero)

theorem MatD_nil : MatD P ([] : Matrix) :=
  matD_iff_mem.2 (fun _ h => by cases h)

theorem MatD_sum {a b : Matrix} (ha : MatD P a) (hb : MatD P b) : MatD P (Matrix.sum a b) := by
  intro i j
  rw [get_sum]
  split
  · exact AllD_add (ha i j) (hb i j)
  · exact AllD_zero

theorem MatD_prod {a b : Matrix} (ha : MatD P a) (hb : MatD P b) : MatD P (Matrix.prod a b) := by
  have ha' := matD_iff_mem.1 ha
  have hb' := matD_iff_mem.1 hb
  intro i j
  rw [get_prod]
  split
  · unfold Matrix.prodCell
    refine AllD_add (AllD_add ?_ ?_) ?_
    · refine foldl_add_AllD _ _ _ AllD_zero ?_
      intro k _
      exact AllD_times (ha i k) (hb k j)
    · refine foldl_add_AllD _ _ _ AllD_zero ?_
      intro p hp
      refine AllD_inftyPart ?_
      rcases getD_mem_or a i [] with e | hrow
      · rw [e] at hp; cases hp
      · exact ha' _ hrow p hp
    · refine foldl_add_AllD _ _ _ AllD_zero ?_
      intro row hrow
      refine AllD_inftyPart ?_
      rcases getD_mem_or row j Poly.zero with e | hp
      · rw [e]; exact AllD_zero
      · exact hb' row hrow _ hp
  · exact AllD_zero

theorem MatD_resize {m : Matrix} (hm : MatD P m) (n : Nat) : MatD P (Matrix.resize m n) := by
  unfold Matrix.resize
  simp only
  refine MatD_tab2 _ _ _ ?_
  intro i j
  split
  · exact hm i j
  · exact AllD_idCell i j

theorem MatD_setCell {m : Matrix} {p : Poly} (hm : MatD P m) (hp : AllD P p) (i j : Nat) :
    MatD P (Matrix.setCell m i j p) := by
  have hm' := matD_iff_mem.1 hm
  refine matD_iff_mem.2 ?_
  intro row hrow q hq
  unfold Matrix.setCell at hrow
  rcases List.mem_or_eq_of_mem_set hrow with h | rfl
  · exact hm' row h q hq
  · rcases List.mem_or_eq_of_mem_set hq with h | rfl
    · rcases getD_mem_or m i [] with e | hr
      · rw [e] at h; cases h
      · exact hm' _ hr q h
    · exact hp

/-! ## relations -/

theorem RelD_new_some (vs : List String) {m : Matrix} (hm : MatD P m) :
    RelD P (Relation.new vs (some m)) := by
  unfold Relation.new
  simp only
  split
  · exact MatD_zeros _
  · exact hm

theorem RelD_new_none (vs : List String) : RelD P (Relation.new vs none) := by
  unfold Relation.new
  exact MatD_zeros _

theorem RelD_new (vs : List String) (m : Option Matrix) (hm : ∀ x, m = some x → MatD P x) :
    RelD P (Relation.new vs m) := by
  cases m with
  | none => exact RelD_new_none vs
  | some x => exact RelD_new_some vs (hm x rfl)

theorem RelD_identity (vs : List String) : RelD P (Relation.identity vs) :=
  RelD_new_some _ (MatD_identity _)

theorem RelD_identityOpt (vs : List (Option String)) : RelD P (Relation.identityOpt vs) :=
  RelD_new_some _ (MatD_identity _)

theorem foldl_setCell_MatD (j : Nat) (l : List (Poly × Nat)) (m : Matrix) (hm : MatD P m)
    (hl : ∀ x ∈ l, AllD P x.1) :
    MatD P (l.foldl (fun m (x : Poly × Nat) => Matrix.setCell m x.2 j x.1) m) := by
  induction l generalizing m with
  | nil => exact hm
  | cons x t ih =>
    exact ih _ (MatD_setCell hm (hl x (List.mem_cons_self ..)) _ _)
      (fun y hy => hl y (List.mem_cons_of_mem _ hy))

theorem RelD_replaceColumn {r r' : Relation} {vec : List Poly} {x : String}
    (hv : ∀ p ∈ vec, AllD P p) (h : r.replaceColumn vec x = .ok r') : RelD P r' := by
  unfold Relation.replaceColumn at h
  simp only at h
  split at h
  · cases h
    exact RelD_identity _
  · rename_i j _
    split at h
    · cases h
    · cases h
      show MatD P _
      refine foldl_setCell_MatD j _ _ (RelD_identity r.vars) ?_
      intro y hy
      obtain ⟨p, k⟩ := y
      exact hv p (List.mem_zipIdx hy |>.2.2 ▸ List.getElem_mem _)

theorem RelD_homogenisation {r1 r2 : Relation} (h1 : RelD P r1) (h2 : RelD P r2) :
    RelD P (Relation.homogenisation r1 r2).1 ∧ RelD P (Relation.homogenisation r1 r2).2 := by
  unfold Relation.homogenisation
  split
  · exact ⟨h1, h2⟩
  · split
    · exact ⟨RelD_identity _, h2⟩
    · split
      · exact ⟨h1, RelD_identity _⟩
      · refine ⟨RelD_new_some _ (MatD_resize h1 _), RelD_new_some _ (MatD_tab2 _ _ _ ?_)⟩
        intro i j
        split
        · exact h2 _ _
        · exact AllD_idCell i j

theorem RelD_sum {a b : Relation} (ha : RelD P a) (hb : RelD P b) : RelD P (Relation.sum a b) := by
  have h := RelD_homogenisation ha hb
  show RelD P (Relation.new (Relation.homogenisation a b).1.vars
    (some (Matrix.sum (Relation.homogenisation a b).1.mat (Relation.homogenisation a b).2.mat)))
  exact RelD_new_some _ (MatD_sum h.1 h.2)

theorem RelD_composition {a b : Relation} (ha : RelD P a) (hb : RelD P b) :
    RelD P (Relation.composition a b) := by
  have h := RelD_homogenisation ha hb
  show RelD P (Relation.new (Relation.homogenisation a b).1.vars
    (some (Matrix.prod (Relation.homogenisation a b).1.mat (Relation.homogenisation a b).2.mat)))
  exact RelD_new_some _ (MatD_prod h.1 h.2)

theorem RelD_fixpointAux {r : Relation} (hr : RelD P r) :
    ∀ (fuel : Nat) (fix cur : Relation) (k : Nat) (res : Relation × Nat),
      RelD P fix → RelD P cur → Relation.fixpointAux r fuel fix cur k = .ok res → RelD P res.1 := by
  intro fuel
  induction fuel with
  | zero =>
    intro fix cur k res _ _ hres
    simp [Relation.fixpointAux, throw, throwThe, MonadExceptOf.throw] at hres
  | succ fuel ih =>
    intro fix cur k res hf hc hres
    have hc' := RelD_composition hc hr
    have hf' := RelD_sum hf hc'
    rw [Relation.fixpointAux] at hres
    split at hres
    · cases hres
      exact hf'
    · exact ih _ _ _ res hf' hc' hres

theorem RelD_fixpoint {r f : Relation} (hr : RelD P r) (h : r.fixpoint = .ok f) : RelD P f := by
  unfold Relation.fixpoint at h
  obtain ⟨res, h1, h2⟩ := bind_ok h
  obtain ⟨f', k⟩ := res
  cases h2
  have hid : RelD P (Relation.new r.vars (some (Matrix.identity r.vars.length))) :=
    RelD_new_some _ (MatD_identity _)
  exact RelD_fixpointAux hr _ _ _ _ _ hid hid h1

theorem RelD_whileCorrection {r r' : Relation} {g g' : DG.Graph} (hr : RelD P r)
    (h : r.whileCorrection g = .ok (r', g')) : RelD P r' := by
  obtain ⟨e, _⟩ := whileCorrection_spec r r' g g' h
  subst e
  intro i j
  show AllD P (Matrix.get (wMat r.mat) i j)
  rw [get_wMat]
  intro m hm d hd
  obtain ⟨m0, hm0, rfl⟩ := List.mem_map.1 hm
  rw [wfix_deltas] at hd
  exact hr i j m0 hm0 d hd

theorem AllD_map_lfix (diag : Bool) {p : Poly} (hp : AllD P p) : AllD P (p.map (lfix diag)) := by
  intro m hm d hd
  obtain ⟨m0, hm0, rfl⟩ := List.mem_map.1 hm
  rw [lfix_deltas] at hd
  exact hp m0 hm0 d hd

theorem AllD_addMonos {e : Poly} (ms : List Mono) (he : AllD P e) (hms : AllD P ms) :
    AllD P (addMonos e ms) := by
  unfold addMonos
  induction ms generalizing e with
  | nil => exact he
  | cons m t ih =>
    refine ih (AllD_add he ?_) (fun x hx => hms x (List.mem_cons_of_mem _ hx))
    exact AllD_cons (fun d hd => hms m (List.mem_cons_self ..) d (copy_deltas m d hd)) AllD_nil

theorem loopStep_MatD (ell : Nat) {mat mat' : Matrix} {g g' : DG.Graph} (ij : Nat × Nat)
    (hm : MatD P mat) (h : loopStep ell (mat, g) ij = .ok (mat', g')) : MatD P mat' := by
  obtain ⟨i, j⟩ := ij
  unfold loopStep at h
  dsimp only at h
  obtain ⟨res, h1, h2⟩ := bind_ok h
  obtain ⟨p', e', g1⟩ := res
  obtain ⟨s1, s2, _⟩ := loopFixCell_spec _ _ _ _ _ h1
  simp only at s1 s2
  dsimp only at h2
  have hp' : AllD P p' := by rw [s1]; exact AllD_map_lfix _ (hm i j)
  have he' : AllD P e' := by
    rw [s2]
    exact AllD_addMonos _ (hm ell j) (AllD_filter _ (AllD_map_lfix _ (hm i j)))
  have hm1 := MatD_setCell hm hp' i j
  simp only [pure, Except.pure, Except.ok.injEq, Prod.mk.injEq] at h2
  rw [← h2.1]
  split
  · exact hm1
  · exact MatD_setCell hm1 he' ell j

theorem RelD_loopCorrection {r r' : Relation} {x : String} {g g' : DG.Graph} (hr : RelD P r)
    (h : r.loopCorrection x g = .ok (r', g')) : RelD P r' := by
  rw [loopCorrection_eq] at h
  split at h
  · cases h
  · rename_i ell _
    obtain ⟨res, h1, h2⟩ := bind_ok h
    obtain ⟨mat, g1⟩ := res
    cases h2
    show MatD P mat
    exact foldlM_inv (loopStep ell) (fun _ s => MatD P s.1) (loopCells r.mat)
      (fun pre y post s s' _ hi hs => by
        obtain ⟨m0, g0⟩ := s
        obtain ⟨m1, g2⟩ := s'
        exact loopStep_MatD ell y hi hs)
      (loopCells r.mat) [] (r.mat, g) _ rfl hr h1

/-! ## relation lists -/

theorem RelLD_nil : RelLD P ([] : RelList) := fun _ h => by cases h

theorem RelLD_singleton {r : Relation} (h : RelD P r) : RelLD P [r] := by
  intro x hx
  rw [List.mem_singleton] at hx
  subst hx; exact h

theorem RelLD_append {a b : RelList} (ha : RelLD P a) (hb : RelLD P b) : RelLD P (a ++ b) := by
  intro r hr
  rcases List.mem_append.1 hr with h | h
  · exact ha r h
  · exact hb r h

theorem RelLD_empty : RelLD P RelList.empty := RelLD_singleton (RelD_new_none _)

theorem RelLD_ofVars (vs : List String) : RelLD P (RelList.ofVars vs) :=
  RelLD_singleton (RelD_new_none _)

theorem RelLD_identity (vs : List String) : RelLD P (RelList.identity vs) :=
  RelLD_singleton (RelD_identity _)

theorem foldl_dedup_subset (l acc : List Relation) :
    ∀ r ∈ l.foldl (fun acc r => if acc.any (fun x => x.mat == r.mat) then acc else acc ++ [r]) acc,
      r ∈ acc ∨ r ∈ l := by
  induction l generalizing acc with
  | nil => intro r hr; exact Or.inl hr
  | cons a t ih =>
    intro r hr
    rw [List.foldl_cons] at hr
    rcases ih _ r hr with h | h
    · split at h
      · exact Or.inl h
      · rcases List.mem_append.1 h with h | h
        · exact Or.inl h
        · rw [List.mem_singleton] at h
          subst h
          exact Or.inr (List.mem_cons_self ..)
    · exact Or.inr (List.mem_cons_of_mem _ h)

theorem RelLD_composition {a b : RelList} (ha : RelLD P a) (hb : RelLD P b) :
    RelLD P (RelList.composition a b) := by
  intro r hr
  unfold RelList.composition at hr
  rcases foldl_dedup_subset _ _ r hr with h | h
  · cases h
  · obtain ⟨r1, hr1, h'⟩ := List.mem_flatMap.1 h
    obtain ⟨r2, hr2, rfl⟩ := List.mem_map.1 h'
    exact RelD_composition (ha r1 hr1) (hb r2 hr2)

theorem RelLD_add {a b : RelList} (ha : RelLD P a) (hb : RelLD P b) : RelLD P (RelList.add a b) := by
  intro r hr
  unfold RelList.add at hr
  obtain ⟨r1, hr1, h'⟩ := List.mem_flatMap.1 hr
  obtain ⟨r2, hr2, rfl⟩ := List.mem_map.1 h'
  exact RelD_sum (ha r1 hr1) (hb r2 hr2)

theorem mem_mapM_ok' {α β : Type} (f : α → Except String β) :
    ∀ (l : List α) (rs : List β), l.mapM f = .ok rs → ∀ r ∈ rs, ∃ a ∈ l, f a = .ok r := by
  intro l
  induction l with
  | nil =>
    intro rs h r hr
    simp only [List.mapM_nil, pure, Except.pure, Except.ok.injEq] at h
    subst h; cases hr
  | cons a t ih =>
    intro rs h r hr
    rw [List.mapM_cons] at h
    obtain ⟨b, hb, h⟩ := bind_ok h
    obtain ⟨bs, hbs, h⟩ := bind_ok h
    cases h
    rcases List.mem_cons.1 hr with rfl | hr
    · exact ⟨a, List.mem_cons_self .., hb⟩
    · obtain ⟨a', ha', hf⟩ := ih bs hbs r hr
      exact ⟨a', List.mem_cons_of_mem _ ha', hf⟩

theorem RelLD_fixpoint {a f : RelList} (ha : RelLD P a) (h : RelList.fixpoint a = .ok f) :
    RelLD P f := by
  intro r hr
  obtain ⟨r0, hr0, hf⟩ := mem_mapM_ok' _ _ _ h r hr
  exact RelD_fixpoint (ha r0 hr0) hf

theorem RelLD_replaceColumn {a a' : RelList} {vec : List Poly} {x : String}
    (hv : ∀ p ∈ vec, AllD P p) (h : RelList.replaceColumn a vec x = .ok a') : RelLD P a' := by
  intro r hr
  obtain ⟨r0, _, hf⟩ := mem_mapM_ok' _ _ _ h r hr
  exact RelD_replaceColumn hv hf

theorem RelLD_whileCorrection {a a' : RelList} {g g' : DG.Graph} (ha : RelLD P a)
    (h : RelList.whileCorrection a g = .ok (a', g')) : RelLD P a' := by
  unfold RelList.whileCorrection at h
  exact foldlM_inv _ (fun _ (s : RelList × DG.Graph) => RelLD P s.1) a
    (fun pre y post s s' ht hi hs => by
      obtain ⟨acc, g0⟩ := s
      dsimp only at hs
      obtain ⟨res, h1, h2⟩ := bind_ok hs
      obtain ⟨r1, g1⟩ := res
      cases h2
      have hy : y ∈ a := by rw [ht]; simp
      exact RelLD_append hi (RelLD_singleton (RelD_whileCorrection (ha y hy) h1)))
    a [] ([], g) (a', g') rfl RelLD_nil h

theorem RelLD_loopCorrection {a a' : RelList} {x : String} {g g' : DG.Graph} (ha : RelLD P a)
    (h : RelList.loopCorrection a x g = .ok (a', g')) : RelLD P a' := by
  unfold RelList.loopCorrection at h
  exact foldlM_inv _ (fun _ (s : RelList × DG.Graph) => RelLD P s.1) a
    (fun pre y post s s' ht hi hs => by
      obtain ⟨acc, g0⟩ := s
      dsimp only at hs
      obtain ⟨res, h1, h2⟩ := bind_ok hs
      obtain ⟨r1, g1⟩ := res
      cases h2
      have hy : y ∈ a := by rw [ht]; simp
      exact RelLD_append hi (RelLD_singleton (RelD_loopCorrection (ha y hy) h1)))
    a [] ([], g) (a', g') rfl RelLD_nil h

end
end Refine
end Mwp
