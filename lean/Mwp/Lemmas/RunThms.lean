/-
  The file-level drivers (Mwp/Model/Run.lean) assemble a file's result per function,
  independently of the other functions: an entry of `Run.run` is exactly what the function gives
  when analysed alone (`run_eq_filterMap`), a failure is a failure of one function
  (`run_ok_iff`), a later definition with the same name replaces the earlier entry
  (`run_dup`); the same for loop mode (`runLoops_*`, `loopsOfFunc_*`).
-/
import Mwp.Model.Run
namespace Mwp
namespace Run
open Analysis Syntax

/-! ## the coverage pass keeps the function's name (no side condition: any tree) -/

theorem funcName_funcDef_decl (nm : Option String) (ty ty' : Node) (i i' : Option Node) (b b' : Node) :
    funcName (.funcDef (.decl nm ty i) b) = funcName (.funcDef (.decl nm ty' i') b') := by
  cases nm <;> rfl

theorem funcName_funcDef (d b b' : Node) : funcName (.funcDef d b) = funcName (.funcDef d b') := by
  cases d <;> first | rfl | exact funcName_funcDef_decl _ _ _ _ _ _ _

theorem covN_funcName (f : Node) (c : Cov) (h : covN f = .ok c) : funcName c.mod = funcName f := by
  cases f
  case funcDef d b =>
    unfold covN at h
    simp only [bind, Except.bind, pure, Except.pure, throw, throwThe, MonadExceptOf.throw] at h
    repeat' split at h
    all_goals (try cases h)
    · exact funcName_funcDef_decl _ _ _ _ _ _ _
    · exact funcName_funcDef _ _ _
  case decl nm ty i =>
    cases ty <;> cases i <;> simp only [covN, pure, Except.pure, Except.ok.injEq] at h <;> subst h <;> rfl
  case compound l =>
    cases l <;> simp only [covN, bind, Except.bind, pure, Except.pure] at h
    · cases h; rfl
    · split at h
      · cases h
      · cases h; rfl
  case ret e =>
    cases e <;> simp only [covN, bind, Except.bind, pure, Except.pure] at h
    · cases h; rfl
    · repeat' split at h
      all_goals (try cases h)
      all_goals rfl
  all_goals (try simp only [covN, bind, Except.bind, pure, Except.pure] at h)
  all_goals (repeat' split at h)
  all_goals (try cases h)
  all_goals (try rfl)

theorem coverage_funcName (f : Node) (k : Nat) (m : Node) (h : Syntax.coverage f = .ok (k, m)) :
    funcName m = funcName f := by
  unfold Syntax.coverage at h
  cases hc : covN f with
  | error e => rw [hc] at h; cases h
  | ok c =>
    rw [hc] at h
    simp only [bind, Except.bind] at h
    split at h
    · cases h
    · cases h
      exact covN_funcName f c hc

/-- whatever tree the syntax gate hands on, it carries the function's name -/
theorem syntaxCheck_funcName (f : Node) (strict : Bool) (n : Node)
    (h : syntaxCheck f strict = .ok (some n)) : funcName n = funcName f := by
  unfold syntaxCheck at h
  cases hc : Syntax.coverage f with
  | error e => rw [hc] at h; cases h
  | ok p =>
    obtain ⟨k, m⟩ := p
    rw [hc] at h
    simp only [bind, Except.bind] at h
    split at h
    · cases h
    · simp only [pure, Except.pure, Except.ok.injEq, Option.some.injEq] at h
      subst h
      split
      · exact coverage_funcName f k m hc
      · rfl

theorem func_name (n : Node) (stop : Bool) (r : FuncRes) (h : func n stop = .ok r) :
    r.name = funcName n := by
  unfold func at h
  simp only [bind, Except.bind] at h
  repeat' split at h
  all_goals (try cases h)
  all_goals rfl

/-- (a) the entry of a function is filed under the function's own name -/
theorem runOne_name (f : Node) (fin strict : Bool) (r : FuncRes)
    (h : runOne f fin strict = .ok (some r)) : r.name = funcName f := by
  unfold runOne at h
  cases hs : syntaxCheck f strict with
  | error e => rw [hs] at h; cases h
  | ok o =>
    rw [hs] at h
    cases o with
    | none => cases h
    | some n =>
      simp only [bind, Except.bind] at h
      cases hf : func n (!fin) with
      | error e => rw [hf] at h; cases h
      | ok r' =>
        rw [hf] at h
        simp only [pure, Except.pure, Except.ok.injEq, Option.some.injEq] at h
        subst h
        rw [func_name n _ r' hf]
        exact syntaxCheck_funcName f strict n hs

/-- a fully supported function is analysed as it is, in either mode -/
theorem runOne_of_coverage_zero (f m : Node) (fin strict : Bool)
    (h : Syntax.coverage f = .ok (0, m)) :
    runOne f fin strict = (do let r ← func f (!fin); pure (some r)) := by
  unfold runOne syntaxCheck
  rw [h]
  rfl

/-- a function with `k + 1` unsupported statements is refused in strict mode; otherwise the tree
    with those statements removed is analysed -/
theorem runOne_of_coverage_pos (f m : Node) (k : Nat) (fin : Bool)
    (h : Syntax.coverage f = .ok (k + 1, m)) :
    runOne f fin true = .ok none ∧
    runOne f fin false = (do let r ← func m (!fin); pure (some r)) := by
  unfold runOne syntaxCheck
  rw [h]
  constructor
  · simp [bind, Except.bind, pure, Except.pure]
  · simp [bind, Except.bind, pure, Except.pure]

/-! ## `dictSet` -/

theorem dictSet_fresh {α : Type} (d : List (String × α)) (key : String) (v : α)
    (h : ∀ e ∈ d, e.1 ≠ key) : dictSet d key v = d ++ [(key, v)] := by
  unfold dictSet
  have : d.any (fun e => e.1 == key) = false := by
    rw [List.any_eq_false]
    intro e he
    simpa using h e he
  simp only [this, Bool.false_eq_true, if_false]

theorem dictSet_keys {α : Type} (d : List (String × α)) (key : String) (v : α) :
    ∀ e ∈ dictSet d key v, e.1 = key ∨ ∃ e' ∈ d, e'.1 = e.1 := by
  intro e he
  unfold dictSet at he
  split at he
  · simp only [List.mem_map] at he
    obtain ⟨e', he', rfl⟩ := he
    split
    · exact .inl rfl
    · exact .inr ⟨e', he', rfl⟩
  · rcases List.mem_append.1 he with h | h
    · exact .inr ⟨e, h, rfl⟩
    · simp only [List.mem_singleton] at h
      subst h; exact .inl rfl

/-! ## `Run.run` -/

/-- the step of the fold in `Run.run` -/
def runStep (fin strict : Bool) (acc : List (String × FuncRes)) (f : Node) :
    M (List (String × FuncRes)) := do
  match ← runOne f fin strict with
  | none => pure acc
  | some r => pure (dictSet acc r.name r)

theorem run_eq_foldlM (fs : List Node) (fin strict : Bool) :
    run fs fin strict = fs.foldlM (runStep fin strict) [] := rfl

theorem runStep_ok (fin strict : Bool) (acc : List (String × FuncRes)) (f : Node) :
    (∃ acc', runStep fin strict acc f = .ok acc') ↔ ∃ o, runOne f fin strict = .ok o := by
  unfold runStep
  cases h : runOne f fin strict with
  | error e => simp [bind, Except.bind]
  | ok o => cases o <;> simp [bind, Except.bind, pure, Except.pure]

theorem foldlM_runStep_ok (fin strict : Bool) (fs : List Node) :
    ∀ acc, (∃ res, fs.foldlM (runStep fin strict) acc = .ok res) ↔
      ∀ f ∈ fs, ∃ o, runOne f fin strict = .ok o := by
  induction fs with
  | nil => intro acc; simp [pure, Except.pure]
  | cons f t ih =>
    intro acc
    rw [List.foldlM_cons]
    cases hs : runStep fin strict acc f with
    | error e =>
      have : ¬ ∃ o, runOne f fin strict = .ok o := by
        rw [← runStep_ok fin strict acc f, hs]; simp
      simp only [bind, Except.bind, List.mem_cons, forall_eq_or_imp]
      constructor
      · rintro ⟨_, h⟩; cases h
      · rintro ⟨h, _⟩; exact absurd h this
    | ok acc' =>
      have : ∃ o, runOne f fin strict = .ok o := (runStep_ok fin strict acc f).1 ⟨acc', hs⟩
      simp only [bind, Except.bind, List.mem_cons, forall_eq_or_imp]
      rw [ih acc']
      exact ⟨fun h => ⟨this, h⟩, fun h => h.2⟩

/-- (b) the analysis of a file succeeds iff the analysis of each of its functions does: one
    function neither masks nor causes the failure of another -/
theorem run_ok_iff (fs : List Node) (fin strict : Bool) :
    (∃ res, run fs fin strict = .ok res) ↔ ∀ f ∈ fs, ∃ o, runOne f fin strict = .ok o :=
  foldlM_runStep_ok fin strict fs []

/-- the entry a function contributes when analysed alone -/
def entryOf (fin strict : Bool) (f : Node) : Option (String × FuncRes) :=
  match runOne f fin strict with
  | .ok (some r) => some (r.name, r)
  | _ => none

theorem foldlM_runStep_eq (fin strict : Bool) (fs : List Node) :
    ∀ (acc res : List (String × FuncRes)), (fs.map funcName).Nodup →
      (∀ e ∈ acc, ∀ f ∈ fs, e.1 ≠ funcName f) →
      fs.foldlM (runStep fin strict) acc = .ok res →
      res = acc ++ fs.filterMap (entryOf fin strict) := by
  induction fs with
  | nil =>
    intro acc res _ _ h
    simp only [List.foldlM_nil, pure, Except.pure, Except.ok.injEq] at h
    simp [h]
  | cons f t ih =>
    intro acc res hnd hacc h
    rw [List.map_cons, List.nodup_cons] at hnd
    rw [List.foldlM_cons] at h
    cases ho : runOne f fin strict with
    | error e =>
      simp only [runStep, ho, bind, Except.bind] at h
      cases h
    | ok o =>
      cases o with
      | none =>
        simp only [runStep, ho, bind, Except.bind, pure, Except.pure] at h
        rw [ih acc res hnd.2 (fun e he g hg => hacc e he g (List.mem_cons_of_mem _ hg)) h]
        simp [entryOf, ho]
      | some r =>
        have hname := runOne_name f fin strict r ho
        simp only [runStep, ho, bind, Except.bind, pure, Except.pure] at h
        have hfresh : ∀ e ∈ acc, e.1 ≠ r.name := by
          intro e he; rw [hname]; exact hacc e he f List.mem_cons_self
        rw [dictSet_fresh acc r.name r hfresh] at h
        rw [ih (acc ++ [(r.name, r)]) res hnd.2 ?_ h]
        · simp [entryOf, ho]
        · intro e he g hg
          rcases List.mem_append.1 he with he | he
          · exact hacc e he g (List.mem_cons_of_mem _ hg)
          · simp only [List.mem_singleton] at he
            subst he
            simp only
            rw [hname]
            intro heq
            exact hnd.1 (heq ▸ List.mem_map_of_mem hg)

/-- (c) with pairwise distinct function names, the result of a file is the list of the entries
    its functions give when analysed alone, in source order -/
theorem run_eq_filterMap (fs : List Node) (fin strict : Bool) (res : List (String × FuncRes))
    (hnd : (fs.map funcName).Nodup) (h : run fs fin strict = .ok res) :
    res = fs.filterMap (fun f => match runOne f fin strict with
      | .ok (some r) => some (r.name, r)
      | _ => none) := by
  have := foldlM_runStep_eq fin strict fs [] res hnd (fun _ he => by cases he) h
  rw [List.nil_append] at this
  exact this

/-- a file with one function -/
theorem run_singleton (f : Node) (fin strict : Bool) (r : FuncRes)
    (h : runOne f fin strict = .ok (some r)) : run [f] fin strict = .ok [(r.name, r)] := by
  simp only [run_eq_foldlM, List.foldlM_cons, List.foldlM_nil, runStep, h, bind, Except.bind,
    pure, Except.pure]
  rfl

/-- the entry of a function in a file is the entry it has in the file consisting of it alone -/
theorem run_entry_alone (fs : List Node) (fin strict : Bool) (res : List (String × FuncRes))
    (hnd : (fs.map funcName).Nodup) (h : run fs fin strict = .ok res)
    (f : Node) (hf : f ∈ fs) (r : FuncRes) (hr : runOne f fin strict = .ok (some r)) :
    (r.name, r) ∈ res ∧ run [f] fin strict = .ok [(r.name, r)] := by
  refine ⟨?_, run_singleton f fin strict r hr⟩
  rw [run_eq_filterMap fs fin strict res hnd h, List.mem_filterMap]
  exact ⟨f, hf, by rw [hr]⟩

/-- (d) without the hypothesis on names: the fold unrolled on the right — the last function's
    entry is written with `d[name] = r`, replacing an earlier entry of that name in place -/
theorem run_dup (fs : List Node) (f : Node) (fin strict : Bool) :
    run (fs ++ [f]) fin strict = (do
      let acc ← run fs fin strict
      match ← runOne f fin strict with
      | none => pure acc
      | some r => pure (dictSet acc r.name r)) := by
  rw [run_eq_foldlM, List.foldlM_append, run_eq_foldlM]
  simp only [List.foldlM_cons, List.foldlM_nil, bind_pure]
  rfl

/-! ## loop mode -/

/-- (e, definitional) the loops of a function that get a result: the gate on each discovered loop -/
theorem loopsOfFunc_eq (f : Node) (strict : Bool) :
    loopsOfFunc f strict = (do
      let loops ← Syntax.loopsN f
      let rs ← loops.mapM (fun l => loopOne l strict)
      pure (rs.filterMap id)) := rfl

theorem mapM_ok_map {α β : Type} (f : α → M β) (g : α → β) :
    ∀ l : List α, (∀ a ∈ l, f a = .ok (g a)) → l.mapM f = .ok (l.map g) := by
  intro l
  induction l with
  | nil => intro _; rfl
  | cons a t ih =>
    intro h
    rw [List.mapM_cons, h a List.mem_cons_self, ih fun b hb => h b (List.mem_cons_of_mem _ hb)]
    rfl

theorem mapM_ok_all {α β : Type} (f : α → M β) :
    ∀ (l : List α) (rs : List β), l.mapM f = .ok rs → ∀ a ∈ l, ∃ b, f a = .ok b := by
  intro l
  induction l with
  | nil => intro _ _ a ha; cases ha
  | cons a t ih =>
    intro rs h b hb
    rw [List.mapM_cons] at h
    cases ha : f a with
    | error e => rw [ha] at h; cases h
    | ok x =>
      rw [ha] at h
      cases ht : t.mapM f with
      | error e => rw [ht] at h; cases h
      | ok xs =>
        rcases List.mem_cons.1 hb with rfl | hb'
        · exact ⟨x, ha⟩
        · exact ih xs ht b hb'

/-- (e) per discovered loop: `loopsOfFunc` succeeds iff loop discovery and the gate on every
    discovered loop do, and then lists, in discovery order, what each loop gives alone -/
theorem loopsOfFunc_ok_iff (f : Node) (strict : Bool) (ls : List Node) :
    loopsOfFunc f strict = .ok ls ↔
      ∃ loops, Syntax.loopsN f = .ok loops ∧ (∀ l ∈ loops, ∃ o, loopOne l strict = .ok o) ∧
        ls = loops.filterMap (fun l => match loopOne l strict with
          | .ok (some n) => some n
          | _ => none) := by
  unfold loopsOfFunc
  cases hl : Syntax.loopsN f with
  | error e => simp [bind, Except.bind]
  | ok loops =>
    simp only [bind, Except.bind, Except.ok.injEq, exists_eq_left']
    let g : Node → Option Node := fun l => match loopOne l strict with
      | .ok o => o
      | .error _ => none
    have hg : loops.filterMap (fun l => match loopOne l strict with
          | .ok (some n) => some n
          | _ => none) = (loops.map g).filterMap id := by
      rw [List.filterMap_map]
      congr 1
      funext l
      simp only [g, Function.comp, id]
      cases loopOne l strict with
      | error e => rfl
      | ok o => cases o <;> rfl
    constructor
    · intro h
      cases hm : loops.mapM (fun l => loopOne l strict) with
      | error e => rw [hm] at h; cases h
      | ok rs =>
        have hall := mapM_ok_all _ loops rs hm
        refine ⟨hall, ?_⟩
        have hm' := mapM_ok_map (fun l => loopOne l strict) g loops (by
          intro l hl'
          obtain ⟨o, ho⟩ := hall l hl'
          simp only [g, ho])
        rw [hm] at hm'
        rw [hm] at h
        simp only [pure, Except.pure, Except.ok.injEq] at h
        rw [← h, hg, Except.ok.inj hm']
    · rintro ⟨hall, rfl⟩
      have hm' := mapM_ok_map (fun l => loopOne l strict) g loops (by
        intro l hl'
        obtain ⟨o, ho⟩ := hall l hl'
        simp only [g, ho])
      rw [hm', hg]
      rfl

/-- the step of the fold in `Run.runLoops` -/
def loopStepF (strict : Bool) (acc : List (String × List Node)) (f : Node) :
    M (List (String × List Node)) := do
  let ls ← loopsOfFunc f strict
  pure (dictSet acc (funcName f) ls)

theorem runLoops_eq_foldlM (fs : List Node) (strict : Bool) :
    runLoops fs strict = fs.foldlM (loopStepF strict) [] := rfl

theorem foldlM_loopStepF_ok (strict : Bool) (fs : List Node) :
    ∀ acc, (∃ res, fs.foldlM (loopStepF strict) acc = .ok res) ↔
      ∀ f ∈ fs, ∃ ls, loopsOfFunc f strict = .ok ls := by
  induction fs with
  | nil => intro acc; simp [pure, Except.pure]
  | cons f t ih =>
    intro acc
    rw [List.foldlM_cons]
    simp only [List.mem_cons, forall_eq_or_imp]
    cases hl : loopsOfFunc f strict with
    | error e =>
      simp only [loopStepF, hl, bind, Except.bind]
      constructor
      · rintro ⟨_, h⟩; cases h
      · rintro ⟨⟨_, h⟩, _⟩; cases h
    | ok ls =>
      simp only [loopStepF, hl, bind, Except.bind, pure, Except.pure]
      rw [ih]
      exact ⟨fun h => ⟨⟨ls, rfl⟩, h⟩, fun h => h.2⟩

/-- (e)/(b) loop mode: a file succeeds iff each function does -/
theorem runLoops_ok_iff (fs : List Node) (strict : Bool) :
    (∃ res, runLoops fs strict = .ok res) ↔ ∀ f ∈ fs, ∃ ls, loopsOfFunc f strict = .ok ls :=
  foldlM_loopStepF_ok strict fs []

theorem foldlM_loopStepF_eq (strict : Bool) (fs : List Node) :
    ∀ (acc res : List (String × List Node)), (fs.map funcName).Nodup →
      (∀ e ∈ acc, ∀ f ∈ fs, e.1 ≠ funcName f) →
      fs.foldlM (loopStepF strict) acc = .ok res →
      res = acc ++ fs.map (fun f => (funcName f,
        match loopsOfFunc f strict with | .ok ls => ls | .error _ => [])) := by
  induction fs with
  | nil =>
    intro acc res _ _ h
    simp only [List.foldlM_nil, pure, Except.pure, Except.ok.injEq] at h
    simp [h]
  | cons f t ih =>
    intro acc res hnd hacc h
    rw [List.map_cons, List.nodup_cons] at hnd
    rw [List.foldlM_cons] at h
    cases hl : loopsOfFunc f strict with
    | error e =>
      simp only [loopStepF, hl, bind, Except.bind] at h
      cases h
    | ok ls =>
      simp only [loopStepF, hl, bind, Except.bind, pure, Except.pure] at h
      rw [dictSet_fresh acc (funcName f) ls (fun e he => hacc e he f List.mem_cons_self)] at h
      rw [ih (acc ++ [(funcName f, ls)]) res hnd.2 ?_ h]
      · simp [hl]
      · intro e he g hg
        rcases List.mem_append.1 he with he | he
        · exact hacc e he g (List.mem_cons_of_mem _ hg)
        · simp only [List.mem_singleton] at he
          subst he
          simp only
          intro heq
          exact hnd.1 (heq ▸ List.mem_map_of_mem hg)

/-- (e)/(c) loop mode: with pairwise distinct function names, the result of a file has one entry
    per function, in source order, holding the loops the function gives when analysed alone -/
theorem runLoops_eq_map (fs : List Node) (strict : Bool) (res : List (String × List Node))
    (hnd : (fs.map funcName).Nodup) (h : runLoops fs strict = .ok res) :
    res = fs.map (fun f => (funcName f,
      match loopsOfFunc f strict with | .ok ls => ls | .error _ => [])) := by
  have := foldlM_loopStepF_eq strict fs [] res hnd (fun _ he => by cases he) h
  simpa using this

/-- the same, reading the per-function results off a table `L` -/
theorem runLoops_of_all (fs : List Node) (strict : Bool) (L : Node → List Node)
    (hnd : (fs.map funcName).Nodup) (hall : ∀ f ∈ fs, loopsOfFunc f strict = .ok (L f)) :
    runLoops fs strict = .ok (fs.map fun f => (funcName f, L f)) := by
  obtain ⟨res, h⟩ := (runLoops_ok_iff fs strict).2 fun f hf => ⟨L f, hall f hf⟩
  rw [h, runLoops_eq_map fs strict res hnd h]
  congr 1
  apply List.map_congr_left
  intro f hf
  rw [hall f hf]

end Run
end Mwp
