/-
  Helper lemmas for C18: unfolding equations of `Analysis.compute` at the shallow statement
  shapes the unary rewriting produces, and cast transparency of `binaryOp` / `unaryAsgn`.
-/
import Mwp.Lemmas.RefineLeaf
namespace Mwp
namespace Misc18
open Mwp.Analysis

theorem incDecParts_id (op x : String) :
    incDecParts op (.id x) = .ok (x, String.ofList (op.toList.drop (op.length - 1))) := rfl

theorem rmCast_cast (e : Node) : (Node.cast e).rmCast = e.rmCast := by
  rw [Node.rmCast]

/-- `x++;` and friends -/
theorem compute_unop_incdec (q idx dg op x) (h : Gen.incDec.contains op = true) :
    compute q idx dg (.unop op (.id x)) = (do
      let (i, rl) ← binaryOp idx x (String.ofList (op.toList.drop (op.length - 1))) (.id x) (.const "int" "1")
      pure ⟨i, rl, false, dg, []⟩) := by
  rw [compute]
  simp only [h, Node.rmCast, Node.isId, Bool.and_self, if_true, incDecParts_id]
  rfl

theorem compute_unop_skip (q idx dg op e)
    (h : ¬ (Gen.incDec.contains op = true ∧ e.rmCast.isId = true)) :
    compute q idx dg (.unop op e) = .ok (skip idx dg) := by
  rw [compute]
  have : (Gen.incDec.contains op && e.rmCast.isId) = false := by
    cases h1 : Gen.incDec.contains op <;> cases h2 : e.rmCast.isId <;> simp_all
  simp only [this]
  rfl

theorem compute_assign_binop (q idx dg aop x op l r) :
    compute q idx dg (.assign aop (.id x) (.binop op l r)) = (do
      let (i, rl) ← binaryOp idx x op l r
      pure ⟨i, rl, false, dg, []⟩) := by
  have e : (Node.binop op l r).rmCast = .binop op l r := rfl
  rw [compute]
  simp only [e]

theorem compute_assign_id (q idx dg aop x y) :
    compute q idx dg (.assign aop (.id x) (.id y)) = (do
      pure ⟨idx, ← idAsgn x y, false, dg, []⟩) := by
  have e : (Node.id y).rmCast = .id y := rfl
  rw [compute]
  simp only [e]

theorem compute_assign_const (q idx dg aop x ty v) :
    compute q idx dg (.assign aop (.id x) (.const ty v)) =
      .ok ⟨idx, constAsgn x, false, dg, []⟩ := by
  have e : (Node.const ty v).rmCast = .const ty v := rfl
  rw [compute]
  simp only [e]
  rfl

theorem compute_assign_unop (q idx dg aop x op e) :
    compute q idx dg (.assign aop (.id x) (.unop op e)) = (do
      match ← unaryAsgn idx x op e with
      | some (i, rl) => pure ⟨i, rl, false, dg, []⟩
      | none => pure (skip idx dg ["Assignment"])) := by
  have e : (Node.unop op e).rmCast = .unop op e := rfl
  rw [compute]
  simp only [e, Node.cls]
  rfl

/-- casts around the whole right-hand side (any number) are stripped before dispatch -/
theorem compute_assign_cast (q idx dg aop x r) :
    compute q idx dg (.assign aop (.id x) (.cast r)) = compute q idx dg (.assign aop (.id x) r) := by
  rw [compute, compute]
  simp only [rmCast_cast, Node.cls]

theorem binaryOp_cast (idx x op l r) :
    binaryOp idx x op (.cast l) (.cast r) = binaryOp idx x op l r := by
  unfold binaryOp
  rw [rmCast_cast, rmCast_cast]

theorem unaryAsgn_cast (idx x op e) : unaryAsgn idx x op (.cast e) = unaryAsgn idx x op e := by
  unfold unaryAsgn
  rw [rmCast_cast]

/-- the value of a constant operand is not looked at -/
theorem binaryOp_const_value (idx x op l ty v ty' v') :
    binaryOp idx x op l (.const ty v) = binaryOp idx x op l (.const ty' v') := by
  unfold binaryOp
  rfl

/-- `x = x ± 1` never raises -/
theorem binaryOp_self_ok (idx : Nat) (x op : String) (hop : op = "+" ∨ op = "-") :
    ∃ rl, binaryOp idx x op (.id x) (.const "int" "1") = .ok (idx + 1, rl) := by
  by_cases hx : x = ""
  · subst hx
    rcases hop with rfl | rfl <;> exact ⟨_, rfl⟩
  · obtain ⟨rel, h, _⟩ := Refine.binaryOp_den idx x op (.id x) (.const "int" "1") (.var x) .const
      rfl rfl (by rcases hop with h | h <;> simp [h]) hx (by simpa [Refine.atomOk] using hx) rfl
    exact ⟨_, h⟩

/-- `{ s1; s2; }` for two non-exiting pieces -/
theorem compute_pair (q idx dg) (n1 n2 : Node) (o1 o2 : Out)
    (h1 : compute q idx dg n1 = .ok o1) (he1 : o1.exit = false)
    (h2 : compute q o1.index o1.dg n2 = .ok o2) (he2 : o2.exit = false) :
    compute q idx dg (.compound (some [n1, n2])) =
      .ok ⟨o2.index, composeAll [o1.rels, o2.rels], false, o2.dg, [] ++ o1.skipped ++ o2.skipped⟩ := by
  rw [compute, computeList, h1]
  simp only [bind, Except.bind, he1]
  rw [computeList, h2]
  simp only [bind, Except.bind, he2]
  rw [computeList]
  rfl

/-- postfix: copy first, then step -/
theorem asgn_post (q idx dg) (y x op bop : String) (hop : bop = "+" ∨ bop = "-")
    (hu : unaryAsgn idx y op (.id x) = (do
      let (i1, fst) ← binaryOp idx x bop (.id x) (.const "int" "1")
      let snd ← idAsgn y x
      pure (some (i1, composeAll [snd, fst])))) :
    compute q idx dg (.assign "=" (.id y) (.unop op (.id x))) =
      compute q idx dg (.compound (some [.assign "=" (.id y) (.id x),
        .assign "=" (.id x) (.binop bop (.id x) (.const "int" "1"))])) := by
  obtain ⟨rl, hb⟩ := binaryOp_self_ok idx x bop hop
  rw [compute_assign_unop, hu, hb]
  cases hi : idAsgn y x with
  | error e =>
    have h1 : compute q idx dg (.assign "=" (.id y) (.id x)) = .error e := by
      rw [compute_assign_id, hi]; rfl
    rw [compute, computeList, h1]
    rfl
  | ok snd =>
    have h1 : compute q idx dg (.assign "=" (.id y) (.id x)) = .ok ⟨idx, snd, false, dg, []⟩ := by
      rw [compute_assign_id, hi]; rfl
    have h2 : compute q idx dg (.assign "=" (.id x) (.binop bop (.id x) (.const "int" "1")))
        = .ok ⟨idx + 1, rl, false, dg, []⟩ := by
      rw [compute_assign_binop, hb]; rfl
    rw [compute_pair q idx dg _ _ _ _ h1 rfl h2 rfl]
    rfl

/-- prefix: step first, then copy -/
theorem asgn_pre (q idx dg) (y x op bop : String)
    (hu : unaryAsgn idx y op (.id x) = (do
      let (i1, fst) ← binaryOp idx x bop (.id x) (.const "int" "1")
      let snd ← idAsgn y x
      pure (some (i1, composeAll [fst, snd])))) :
    compute q idx dg (.assign "=" (.id y) (.unop op (.id x))) =
      compute q idx dg (.compound (some [.assign "=" (.id x) (.binop bop (.id x) (.const "int" "1")),
        .assign "=" (.id y) (.id x)])) := by
  rw [compute_assign_unop, hu]
  cases hb : binaryOp idx x bop (.id x) (.const "int" "1") with
  | error e =>
    have h1 : compute q idx dg (.assign "=" (.id x) (.binop bop (.id x) (.const "int" "1")))
        = .error e := by
      rw [compute_assign_binop, hb]; rfl
    rw [compute, computeList, h1]
    rfl
  | ok p =>
    obtain ⟨i1, fst⟩ := p
    have h1 : compute q idx dg (.assign "=" (.id x) (.binop bop (.id x) (.const "int" "1")))
        = .ok ⟨i1, fst, false, dg, []⟩ := by
      rw [compute_assign_binop, hb]; rfl
    cases hi : idAsgn y x with
    | error e =>
      have h2 : compute q i1 dg (.assign "=" (.id y) (.id x)) = .error e := by
        rw [compute_assign_id, hi]; rfl
      rw [compute, computeList, h1]
      simp only [bind, Except.bind]
      rw [computeList, h2]
      rfl
    | ok snd =>
      have h2 : compute q i1 dg (.assign "=" (.id y) (.id x)) = .ok ⟨i1, snd, false, dg, []⟩ := by
        rw [compute_assign_id, hi]; rfl
      rw [compute_pair q idx dg _ _ _ _ h1 rfl h2 rfl]
      rfl

end Misc18
end Mwp
