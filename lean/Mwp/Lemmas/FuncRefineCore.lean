/-
  From one statement to a whole function, part 2: what `cmds` returns on the body of a function
  definition (`cmds_core`), in both modes:
  * no statement set the exit flag: ONE well-formed relation over (at least) the function's
    variables, all deltas in range, which means what the calculus derives for the body;
  * early exit: a delta-graph history that collapsed, all of whose tuples are well formed and match
    failing choice vectors only -- hence the derivation fails everywhere (`fails_of_collapse`).
-/
import Mwp.Lemmas.FuncRefineCmds
import Mwp.Lemmas.FuncRefineDeltaC
import Mwp.Lemmas.FuncRefineGhost
import Mwp.Props.C04
namespace Mwp
namespace Refine
open Mwp.Props.C16 Mwp.Lemmas.Poly Spec RelFix Analysis

/-! ## choice vectors -/

theorem relabelAt0_getElem? (cmd : Cmd) (c : Choice) (k : Nat) :
    (relabelAt 0 cmd c)[k]? = (c[k]?).map (swapAlt (cmd.swaps.getD k false)) := by
  unfold relabelAt
  rw [List.getElem?_map, List.getElem?_zipIdx]
  cases c[k]? with
  | none => rfl
  | some v =>
    simp only [Option.map_some, Nat.zero_add, ge_iff_le, Nat.zero_le, decide_true, Bool.true_and,
      Nat.sub_zero, swapAlt]
    cases cmd.swaps.getD k false <;> simp

theorem relabelAt0_invol (cmd : Cmd) (c : Choice) : relabelAt 0 cmd (relabelAt 0 cmd c) = c := by
  apply List.ext_getElem?
  intro k
  rw [relabelAt0_getElem?, relabelAt0_getElem?, Option.map_map]
  cases c[k]? with
  | none => rfl
  | some v => simp [swapAlt_invol]

theorem valid_of_vec {n : Nat} {c : Choice} (hl : c.length = n) (h3 : ∀ v ∈ c, v < 3) : Valid 0 n c := by
  intro k _ hk
  have hk' : k < c.length := by omega
  exact ⟨c[k], List.getElem?_eq_getElem hk', h3 _ (List.getElem_mem hk')⟩

theorem vec_of_valid {n : Nat} {c : Choice} (hl : c.length = n) (hv : Valid 0 n c) : ∀ v ∈ c, v < 3 := by
  intro v hv'
  obtain ⟨k, hk, rfl⟩ := List.getElem_of_mem hv'
  obtain ⟨a, ha, ha3⟩ := hv k (Nat.zero_le _) (by omega)
  rw [List.getElem?_eq_getElem hk] at ha
  cases ha
  exact ha3

theorem vecOK_iff (n : Nat) (v : List Nat) :
    Choices.VecOK Gen.domain n v ↔ v.length = n ∧ ∀ x ∈ v, x < 3 := by
  unfold Choices.VecOK
  have : ∀ x : Nat, x ∈ Gen.domain ↔ x < 3 := by
    intro x
    simp only [Gen.domain, List.mem_cons, List.not_mem_nil, or_false]
    omega
  simp only [this]

/-- the calculus numbering of a valid implementation vector is a valid vector -/
theorem relabelAt0_vec (cmd : Cmd) {c : Choice} (hl : c.length = cmd.arity) (h3 : ∀ v ∈ c, v < 3) :
    (relabelAt 0 cmd c).length = cmd.arity ∧ ∀ v ∈ relabelAt 0 cmd c, v < 3 := by
  have hl' : (relabelAt 0 cmd c).length = cmd.arity := by rw [relabelAt_length]; exact hl
  refine ⟨hl', vec_of_valid hl' ?_⟩
  exact Relab.valid (swaps_length cmd) (relabelAt_relab 0 cmd c) (valid_of_vec hl h3)

theorem exists_bound (t : List Delta) : ∃ B, ∀ d ∈ t, d.2 < B := by
  induction t with
  | nil => exact ⟨0, fun d hd => by cases hd⟩
  | cons a t ih =>
    obtain ⟨B, hB⟩ := ih
    refine ⟨max B (a.2 + 1), ?_⟩
    intro d hd
    rcases List.mem_cons.1 hd with rfl | hd
    · omega
    · have := hB d hd; omega

/-! ## relations: ∞ somewhere, cell-wise -/

theorem hasInf_iff_cell {r : Relation} (wr : r.WF) (c : Choice) :
    HasInf r c ↔ ∃ row ∈ r.mat, ∃ p ∈ row, p.evalD c = .i := by
  constructor
  · rintro ⟨a, b, hab⟩
    have hm := Relation.mem_of_den_i hab
    rcases idx_cases r.vars a with ⟨h, _⟩ | ⟨_, i, hi, hai, _⟩
    · exact absurd hm.1 h
    rcases idx_cases r.vars b with ⟨h, _⟩ | ⟨_, j, hj, hbj, _⟩
    · exact absurd hm.2 h
    rw [Relation.den_of_idx hai hbj] at hab
    have hsq := wf_sq wr
    obtain ⟨row, hrow, hp⟩ := get_mem hsq hi hj
    exact ⟨row, hrow, _, hp, hab⟩
  · rintro ⟨row, hrow, p, hp, he⟩
    obtain ⟨i, hi, rfl⟩ := List.getElem_of_mem hrow
    obtain ⟨j, hj, rfl⟩ := List.getElem_of_mem hp
    apply cell_inf_hasInf wr
    refine ⟨i, j, ?_⟩
    have : Matrix.get r.mat i j = r.mat[i][j] := by
      unfold Matrix.get
      simp [List.getD_eq_getElem?_getD, hi, hj]
    rw [this]; exact he

theorem fin_iff_not_hasInf (r : Relation) (c : Choice) : Fin' r c ↔ ¬ HasInf r c := by
  unfold Fin' HasInf
  constructor
  · rintro h ⟨a, b, hab⟩; exact h a b hab
  · intro h a b hab; exact h ⟨a, b, hab⟩

/-! ## discharging the value hypothesis of the ghost induction -/

theorem fixV3 : FixV3 := by
  intro q idx dg b rb r ra f hco hr hra hf row hrow p hp m hm d hd
  have hb := (compute_dbnd q idx dg b rb hco).2.2
  have hr' : RelD (Bnd rb.index) r := hb r (by rw [hr]; exact List.mem_singleton.2 rfl)
  have hra' : RelD (Bnd rb.index) ra := by
    rcases hra with rfl | ⟨X, rfl⟩ <;> exact RelD_new_none _
  have hf' := RelD_fixpoint (RelD_composition hra' hr') hf
  exact (matD_iff_mem.1 hf' row hrow p hp m hm d hd).1

/-! ## side conditions on a function definition -/

/-- The side conditions under which the function-level theorems hold, as one decidable check:
    the node is a function definition whose body is a block `{ … }` of statements of the supported
    fragment; `namesOkA` holds for every statement; the reading of the body has fresh
    loop guards (`guardsFresh`, implied by `guardsPlain`); and every variable the reading mentions
    is among the variables `Variables` records for the function (this only excludes the reserved
    names `true` / `false` -- which `Variables` drops -- used as variables). -/
def FuncOk (node : Node) : Bool :=
  match node with
  | .funcDef _ (.compound (some l)) =>
    namesOkAL l &&
      (match desugarL l, Syntax.variables node with
       | some cs, .ok vs => guardsFreshL cs && (varsL cs).all (fun v => vs.contains v)
       | _, _ => false)
  | _ => false

theorem FuncOk.unpack {node : Node} (h : FuncOk node = true) :
    ∃ d l cs vs, node = .funcDef d (.compound (some l)) ∧ desugarL l = some cs ∧
      Syntax.variables node = .ok vs ∧ namesOkAL l = true ∧
      guardsFreshL cs = true ∧ (∀ v ∈ varsL cs, v ∈ vs) ∧ desugarFunc node = some (.seq cs) ∧
      funcBody node = l := by
  unfold FuncOk at h
  split at h
  · rename_i d l
    simp only [Bool.and_eq_true] at h
    obtain ⟨hn, h3⟩ := h
    split at h3
    · rename_i cs vs hdl hvs
      simp only [Bool.and_eq_true, List.all_eq_true, List.contains_eq_mem, decide_eq_true_eq] at h3
      refine ⟨d, l, cs, vs, rfl, hdl, hvs, hn, h3.1, h3.2, ?_, rfl⟩
      simp only [desugarFunc, desugar, hdl, Option.map_some]
    · cases h3
  · cases h

/-! ## what `cmds` returns on the body -/

theorem cmds_core (stop : Bool) (vs : List String) (hnd : vs.Nodup) (hne : ∀ v ∈ vs, v ≠ "")
    (l : List Node) (cs : List Cmd) (hd : desugarL l = some cs) (hn : namesOkAL l = true)
    (hg : guardsFreshL cs = true)
    (dI : Bool) (index : Nat) (rels : RelList) (sk : List String)
    (h : cmds (RelList.identity vs) 0 l stop = .ok (dI, index, rels, sk)) :
    ∃ r0, rels = [r0] ∧ r0.WF ∧ (∀ v ∈ vs, v ∈ r0.vars) ∧ (stop = false → dI = false) ∧
      (dI = false → index = (Cmd.seq cs).arity ∧ RelD (Bnd index) r0 ∧
        ∀ (U : List String), U.Nodup → (∀ v ∈ vs, v ∈ U) → (∀ v ∈ (Cmd.seq cs).vars, v ∈ U) →
        ∀ (c : Choice), Valid 0 (Cmd.seq cs).arity c → ∀ c', Relab 0 (Cmd.seq cs).swaps c c' →
          Agrees U 0 (.seq cs) r0 c c') ∧
      (dI = true → ∃ ops g, DG.run ops = .ok g ∧ DG.isEmpty g = true ∧
        ∀ t ∈ DG.inserted ops, TupOk 0 (.seq cs) t) := by
  rw [cmds_eq_go] at h
  have wid := Relation.identity_wf vs hnd hne
  obtain ⟨out, hcl, e1, e2, e3, r0, e5, w0, e7⟩ :=
    go_computeList stop l cs hd hn hg (Relation.identity vs) 0 [] [] _ wid h
  simp only at e1 e2 e3 e5
  have R := computeList_refG l cs hd hn hg (fun n _ => nodeRefG n) (!stop) 0 [] (Relation.identity vs)
    [] out wid hcl
  have D := computeList_dbnd (!stop) 0 [] [Relation.identity vs] [] l out
    (RelLD_singleton (RelD_identity vs)) hcl
  have G := computeList_ghostW fixV3 l cs hd hn hg (!stop) 0 [] (Relation.identity vs) [] out wid hcl
  refine ⟨r0, e5, w0, ?_, ?_, ?_, ?_⟩
  · intro v hv
    exact e7 v (by rw [Relation.identity_vars vs hne]; exact hv)
  · intro hs
    subst hs
    rw [e1]
    exact R.noexit rfl
  · intro hdI
    have he : out.exit = false := by rw [← e1]; exact hdI
    obtain ⟨hi, r, hr, _, hA⟩ := seq_agrees hne R he
    have hrr : r = r0 := by
      have := e3 he
      rw [e5, hr] at this
      exact ((List.cons.inj this).1).symm
    subst hrr
    refine ⟨by rw [e2, hi, Nat.zero_add], ?_, hA⟩
    rw [e2]
    exact D.2.2 r (by rw [hr]; exact List.mem_singleton.2 rfl)
  · intro hdI
    have he : out.exit = true := by rw [← e1]; exact hdI
    obtain ⟨ops, hops, hP⟩ := G
    exact ⟨ops, out.dg, hops, D.2.1 he, hP⟩

/-! ## a collapsed delta graph: the derivation fails everywhere -/

theorem fails_of_collapse (cmd : Cmd) (ops : List DG.Op) (g : DG.Graph) (hrun : DG.run ops = .ok g)
    (hemp : DG.isEmpty g = true) (hP : ∀ t ∈ DG.inserted ops, TupOk 0 cmd t)
    (U : List String) (hU : U.Nodup) (hsub : ∀ v ∈ cmd.vars, v ∈ U)
    (c' : Choice) (hl : c'.length = cmd.arity) (h3 : ∀ v ∈ c', v < 3) : sem U cmd 0 c' = none := by
  -- the implementation vector whose calculus numbering is `c'`
  obtain ⟨hl0, h30⟩ := relabelAt0_vec cmd hl h3
  have hrel0 : Relab 0 cmd.swaps (relabelAt 0 cmd c') c' := (relabelAt_relab 0 cmd c').symm
  let v : Nat → Nat := fun j => (relabelAt 0 cmd c').getD j 0
  have hv3 : ∀ j, v j < 3 := by
    intro j
    show (relabelAt 0 cmd c').getD j 0 < 3
    rcases getD_mem_or (relabelAt 0 cmd c') j 0 with h | h
    · rw [h]; omega
    · exact h30 _ h
  obtain ⟨t, ht, hm⟩ := Mwp.Props.C11.collapse_sound ops g (fun t ht => (hP t ht).2) hrun hemp v hv3
  obtain ⟨B, hB⟩ := exists_bound t
  -- pad the vector so that every index of `t` is in range
  let cb : Choice := (List.range (cmd.arity + B)).map v
  have hcb : ∀ k, k < cmd.arity + B → cb[k]? = some (v k) := by
    intro k hk
    show ((List.range (cmd.arity + B)).map v)[k]? = some (v k)
    rw [List.getElem?_map, List.getElem?_range hk]; rfl
  have hval : Valid 0 cmd.arity cb := by
    intro k _ hk
    exact ⟨v k, hcb k (by omega), hv3 k⟩
  have hmt : matchesT t cb = true := by
    unfold matchesT
    rw [List.all_eq_true]
    intro d hd
    rw [hcb d.2 (by have := hB d hd; omega), hm d hd]
    simp
  have hrel : Relab 0 cmd.swaps cb c' := by
    intro k hk
    rw [swaps_length] at hk
    have h1 := hrel0 k (by rw [swaps_length]; exact hk)
    rw [h1]
    congr 1
    rw [Nat.zero_add, hcb k (by omega)]
    show (relabelAt 0 cmd c')[k]? = some ((relabelAt 0 cmd c').getD k 0)
    rw [List.getD_eq_getElem?_getD, List.getElem?_eq_getElem (by omega)]
    rfl
  exact (hP t ht).1 U hU hsub cb hval hmt c' hrel

end Refine
end Mwp
