/-
  (C07, part 1) unfolding lemmas for `Coverage`; the removal pass keeps node classes; a fully
  supported tree is left untouched.
-/
import Mwp.Lemmas.SyntaxThmsVars
namespace Mwp
open Mwp Mwp.Syntax

theorem throw_eq {α : Type} (e : String) : (throw e : M α) = .error e := rfl

theorem error_bind {α β : Type} (e : String) (f : α → M β) :
    ((Except.error e : M α) >>= f) = .error e := rfl

theorem isId_ctorIdx (n : Node) : n.isId = (n.ctorIdx == 0) := by cases n <;> rfl
theorem isConst_ctorIdx (n : Node) : n.isConst = (n.ctorIdx == 1) := by cases n <;> rfl
theorem isBinop_ctorIdx (n : Node) : n.isBinop = (n.ctorIdx == 2) := by cases n <;> rfl
theorem isUnop_ctorIdx (n : Node) : n.isUnop = (n.ctorIdx == 3) := by cases n <;> rfl
theorem isCast_ctorIdx (n : Node) : n.isCast = (n.ctorIdx == 4) := by cases n <;> rfl
theorem isCompound_ctorIdx (n : Node) : n.isCompound = (n.ctorIdx == 13) := by cases n <;> rfl

/-! ### unfolding lemmas for the constructors whose equations `simp` cannot pick by itself -/

/-- `Coverage.Decl` accepts exactly the uninitialised scalar declarations -/
def declOK : Node → Option Node → Bool
  | .typeDecl, none => true
  | _, _ => false

theorem covN_decl (nm : Option String) (ty : Node) (init : Option Node) :
    covN (.decl nm ty init) = .ok ⟨if declOK ty init then 0 else 1, 0, .decl nm ty init⟩ := by
  cases ty <;> cases init <;> simp only [covN] <;> rfl

theorem covN_for (init cond next : Option Node) (b : Node) :
    covN (.for_ init cond next b) =
      if (lcP init cond next b).1 then
        covBody b >>= fun r => .ok ⟨0, r.1, .for_ init cond next r.2⟩
      else .ok ⟨1, 0, .for_ init cond next b⟩ := by
  simp only [covN, loopCompat_for, ok_bind]
  cases (lcP init cond next b).1 <;> rfl

theorem covN_funcDef_some (nm : Option String) (a : Node) (i : Option Node) (b : Node) (x : Cov) :
    covN (.funcDef (.decl nm (.funcDecl (some a)) i) b) = .ok x ↔
      ∃ ca cb, covN a = .ok ca ∧ ca.up = 0 ∧ covN b = .ok cb ∧ cb.up = 0 ∧
        x = ⟨0, ca.inner + cb.inner, .funcDef (.decl nm (.funcDecl (some ca.mod)) i) cb.mod⟩ := by
  simp only [covN, bind_eq_ok, pure_eq_ok, throw_eq, error_bind, ok_bind]
  constructor
  · rintro ⟨ca, ha, h⟩
    split at h
    · cases h
    · rw [bind_eq_ok] at h
      obtain ⟨cb, hb, h⟩ := h
      split at h
      · cases h
      · cases h
        exact ⟨ca, cb, ha, by omega, hb, by omega, rfl⟩
  · rintro ⟨ca, cb, ha, hua, hb, hub, rfl⟩
    refine ⟨ca, ha, ?_⟩
    rw [if_neg (by omega), bind_eq_ok]
    refine ⟨cb, hb, ?_⟩
    rw [if_neg (by omega)]

theorem covN_funcDef_other (d b : Node) (x : Cov)
    (hd : ∀ nm a i, d ≠ .decl nm (.funcDecl (some a)) i) :
    covN (.funcDef d b) = .ok x ↔
      ∃ cb, covN b = .ok cb ∧ cb.up = 0 ∧ x = ⟨0, cb.inner, .funcDef d cb.mod⟩ := by
  rw [covN]
  · simp only [bind_eq_ok, pure_eq_ok, throw_eq, error_bind, ok_bind, Nat.zero_add]
    constructor
    · rintro ⟨cb, hb, h⟩
      split at h
      · cases h
      · cases h
        exact ⟨cb, hb, by omega, rfl⟩
    · rintro ⟨cb, hb, hub, rfl⟩
      refine ⟨cb, hb, ?_⟩
      rw [if_neg (by omega)]
  · intro nm a i h; exact hd nm a i h

theorem covN_cast (e : Node) :
    covN (.cast e) = covN e >>= fun c => .ok ⟨c.up, c.inner, .cast c.mod⟩ := by
  simp only [covN]; rfl

theorem covN_assign (op : String) (l r : Node) :
    covN (.assign op l r) =
      if !(op == "=" && l.isId && allowRhs r.rmCast) then .ok ⟨1, 0, .assign op l r⟩
      else covN r >>= fun c => .ok ⟨c.up, c.inner, .assign op l c.mod⟩ := by
  simp only [covN]; rfl

theorem covN_unop (op : String) (e : Node) :
    covN (.unop op e) =
      if Gen.uOps.contains op && (e.rmCast.isId || e.rmCast.isConst || nestedOk op e.rmCast) then
        covN e >>= fun c => .ok ⟨c.up, c.inner, .unop op c.mod⟩
      else .ok ⟨1, 0, .unop op e⟩ := by
  simp only [covN]; rfl

theorem covBody_nc (n : Node) (h : n.isCompound = false) :
    covBody n = covN n >>= fun c =>
      .ok (if c.up > 0 then (c.up + c.inner, .empty) else (c.inner, c.mod)) := by
  cases n
  case compound => cases h
  all_goals (simp only [covBody]; rfl)

theorem isCompound_elim {n : Node} (h : n.isCompound = true) : ∃ items, n = .compound items := by
  cases n
  case compound items => exact ⟨items, rfl⟩
  all_goals cases h

/-- the removal pass never changes the class of a node it keeps -/
theorem covN_ctorIdx (n : Node) (c : Cov) (h : covN n = .ok c) : c.mod.ctorIdx = n.ctorIdx := by
  cases n
  case decl => simp only [covN_decl, Except.ok.injEq] at h; subst h; rfl
  case for_ =>
    rw [covN_for] at h
    split at h
    · simp only [bind_eq_ok, Except.ok.injEq] at h
      obtain ⟨a, _, rfl⟩ := h; rfl
    · cases h; rfl
  case assign =>
    rw [covN_assign] at h
    split at h
    · cases h; rfl
    · simp only [bind_eq_ok, Except.ok.injEq] at h
      obtain ⟨a, _, rfl⟩ := h; rfl
  case funcDef d b =>
    by_cases hd : ∃ nm a i, d = .decl nm (.funcDecl (some a)) i
    · obtain ⟨nm, a, i, rfl⟩ := hd
      rw [covN_funcDef_some] at h
      obtain ⟨ca, cb, _, _, _, _, rfl⟩ := h; rfl
    · rw [covN_funcDef_other _ _ _ (fun nm a i h => hd ⟨nm, a, i, h⟩)] at h
      obtain ⟨cb, _, _, rfl⟩ := h; rfl
  case ifs =>
    simp only [covN] at h
    split at h
    · simp only [pure_eq_ok, Except.ok.injEq] at h; subst h; rfl
    simp only [bind_eq_ok, pure_eq_ok, Except.ok.injEq] at h
    obtain ⟨a, _, b, _, rfl⟩ := h; rfl
  case compound items =>
    cases items <;> simp only [covN, bind_eq_ok, pure_eq_ok, Except.ok.injEq] at h
    · subst h; rfl
    · obtain ⟨a, _, rfl⟩ := h; rfl
  case ret e =>
    cases e with
    | none => simp only [covN, pure_eq_ok, Except.ok.injEq] at h; subst h; rfl
    | some x =>
      simp only [covN] at h
      split at h
      · simp only [pure_eq_ok, Except.ok.injEq] at h; subst h; rfl
      simp only [bind_eq_ok, pure_eq_ok, Except.ok.injEq] at h
      obtain ⟨a, _, rfl⟩ := h; rfl
  all_goals
    simp only [covN] at h
    try split at h
    all_goals
      simp only [bind_eq_ok, pure_eq_ok, Except.ok.injEq] at h
      first
      | (obtain ⟨a, _, rfl⟩ := h; rfl)
      | (subst h; rfl)

/-! ### (C07, part 1) a fully supported tree is left untouched -/

mutual
theorem covN_untouched : (n : Node) → ∀ c, covN n = .ok c → c.up = 0 → c.inner = 0 → c.mod = n
  | .id _ | .const .. | .brk | .cont | .empty | .typeDecl | .ternary .. | .arrayRef ..
  | .switch .. | .goto _ | .funcCall .. | .binop .. | .other .. | .funcDecl _
  | .compound none | .ret none => by
    intro c h _ _
    simp only [covN, pure_eq_ok, Except.ok.injEq] at h
    subst h
    first | rfl | (split <;> rfl)
  | .decl .. => by
    intro c h _ _
    simp only [covN_decl, Except.ok.injEq] at h
    subst h; rfl
  | .cast e => by
    intro c h hu hi
    simp only [covN_cast, bind_eq_ok, Except.ok.injEq] at h
    obtain ⟨a, ha, rfl⟩ := h
    rw [covN_untouched e a ha hu hi]
  | .label _ e => by
    intro c h hu hi
    simp only [covN, bind_eq_ok, pure_eq_ok, Except.ok.injEq] at h
    obtain ⟨a, ha, rfl⟩ := h
    rw [covN_untouched e a ha hu hi]
  | .ret (some e) => by
    intro c h hu hi
    simp only [covN] at h
    split at h
    · simp only [pure_eq_ok, Except.ok.injEq] at h; subst h; rfl
    simp only [bind_eq_ok, pure_eq_ok, Except.ok.injEq] at h
    obtain ⟨a, ha, rfl⟩ := h
    rw [covN_untouched e a ha hu hi]
  | .unop op e => by
    intro c h hu hi
    rw [covN_unop] at h
    split at h
    · simp only [bind_eq_ok, Except.ok.injEq] at h
      obtain ⟨a, ha, rfl⟩ := h
      rw [covN_untouched e a ha hu hi]
    · cases h; rfl
  | .assign op l r => by
    intro c h hu hi
    rw [covN_assign] at h
    split at h
    · cases h; rfl
    · simp only [bind_eq_ok, Except.ok.injEq] at h
      obtain ⟨a, ha, rfl⟩ := h
      rw [covN_untouched r a ha hu hi]
  | .case_ _ l | .default_ l | .compound (some l) | .declList l | .exprList l | .paramList l => by
    intro c h _ hi
    simp only [covN, bind_eq_ok, pure_eq_ok, Except.ok.injEq] at h
    obtain ⟨a, ha, rfl⟩ := h
    rw [covList_untouched l a.1 a.2 ha hi]
  | .while_ _ b | .doWhile _ b => by
    intro c h _ hi
    simp only [covN] at h
    split at h
    · simp only [pure_eq_ok, Except.ok.injEq] at h; subst h; rfl
    simp only [bind_eq_ok, pure_eq_ok, Except.ok.injEq] at h
    obtain ⟨a, ha, rfl⟩ := h
    rw [covBody_untouched b a.1 a.2 ha hi]
  | .for_ init cond next b => by
    intro c h hu hi
    rw [covN_for] at h
    split at h
    · simp only [bind_eq_ok, Except.ok.injEq] at h
      obtain ⟨a, ha, rfl⟩ := h
      rw [covBody_untouched b a.1 a.2 ha hi]
    · cases h; rfl
  | .ifs _ t f => by
    intro c h _ hi
    simp only [covN] at h
    split at h
    · simp only [pure_eq_ok, Except.ok.injEq] at h; subst h; rfl
    simp only [bind_eq_ok, pure_eq_ok, Except.ok.injEq] at h
    obtain ⟨a, ha, b, hb, rfl⟩ := h
    have hi : a.1 + b.1 = 0 := hi
    rw [covSlot_untouched t a.1 a.2 ha (by omega), covSlot_untouched f b.1 b.2 hb (by omega)]
  | .funcDef d b => by
    intro c h _ hi
    cases d with
    | decl nm ty i =>
      cases ty with
      | funcDecl oa =>
        cases oa with
        | some a =>
          rw [covN_funcDef_some] at h
          obtain ⟨ca, cb, ha, hua, hb, hub, rfl⟩ := h
          have hi : ca.inner + cb.inner = 0 := hi
          rw [covN_untouched a ca ha hua (by omega), covN_untouched b cb hb hub (by omega)]
        | none =>
          rw [covN_funcDef_other _ _ _ (by intro _ _ _ h; cases h)] at h
          obtain ⟨cb, hb, hub, rfl⟩ := h
          rw [covN_untouched b cb hb hub hi]
      | _ =>
        rw [covN_funcDef_other _ _ _ (by intro _ _ _ h; cases h)] at h
        obtain ⟨cb, hb, hub, rfl⟩ := h
        rw [covN_untouched b cb hb hub hi]
    | _ =>
      rw [covN_funcDef_other _ _ _ (by intro _ _ _ h; cases h)] at h
      obtain ⟨cb, hb, hub, rfl⟩ := h
      rw [covN_untouched b cb hb hub hi]
termination_by n => (sizeOf n, 0)
theorem covList_untouched :
    (l : List Node) → ∀ k l', covList l = .ok (k, l') → k = 0 → l' = l
  | [] => by
    intro k l' h _
    simp only [covList, pure_eq_ok, Except.ok.injEq, Prod.mk.injEq] at h
    exact h.2.symm
  | n :: ns => by
    intro k l' h hk
    simp only [covList, bind_eq_ok, pure_eq_ok, Except.ok.injEq] at h
    obtain ⟨c, hc, r, hr, h⟩ := h
    split at h
    · cases h; omega
    · cases h
      have hk : c.inner + r.1 = 0 := hk
      rw [covN_untouched n c hc (by omega) (by omega), covList_untouched ns r.1 r.2 hr (by omega)]
termination_by l => (sizeOf l, 0)
theorem covSlot_untouched :
    (o : Option Node) → ∀ k o', covSlot o = .ok (k, o') → k = 0 → o' = o
  | none => by
    intro k l' h _
    simp only [covSlot, pure_eq_ok, Except.ok.injEq, Prod.mk.injEq] at h
    exact h.2.symm
  | some n => by
    intro k l' h hk
    simp only [covSlot, bind_eq_ok, pure_eq_ok, Except.ok.injEq] at h
    obtain ⟨c, hc, h⟩ := h
    split at h
    · cases h; omega
    · cases h
      rw [covN_untouched n c hc (by omega) hk]
termination_by o => (sizeOf o, 0)
theorem covBody_untouched (b : Node) :
    ∀ k b', covBody b = .ok (k, b') → k = 0 → b' = b := by
  intro k b' h hk
  cases hc : b.isCompound
  · rw [covBody_nc b hc] at h
    simp only [bind_eq_ok, Except.ok.injEq] at h
    obtain ⟨c, hc, h⟩ := h
    split at h
    · cases h; omega
    · cases h
      exact covN_untouched b c hc (by omega) hk
  · obtain ⟨items, rfl⟩ := isCompound_elim hc
    cases items with
    | none =>
      simp only [covBody, pure_eq_ok, Except.ok.injEq, Prod.mk.injEq] at h
      exact h.2.symm
    | some l =>
      simp only [covBody, bind_eq_ok, pure_eq_ok, Except.ok.injEq] at h
      obtain ⟨a, ha, h⟩ := h
      cases h
      rw [covList_untouched l a.1 a.2 ha hk]
termination_by (sizeOf b, 1)
end

end Mwp
