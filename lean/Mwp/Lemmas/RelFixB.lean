/-
  RelFix, part B: `Relation.while_correction`.  The nested `foldlM`s are characterised as a
  map over the cells plus the list of delta tuples handed to the delta graph, in order.
-/
import Mwp.Lemmas.RelFixA

namespace Mwp

/-- what `while_correction` does to one value: the pointwise W rule with failure as ∞ -/
def wCorr (diag : Bool) (v : Scalar) : Scalar :=
  if v == .p || v == .i || (diag && v == .w) then .i else v

namespace RelFix
open Mwp Mwp.Props.C16 Mwp.Lemmas.Poly

/-! ## generic tools for the `foldlM` walkers -/

theorem bind_ok {α β : Type} {e : Except String α} {f : α → Except String β} {r : β}
    (h : (e >>= f) = .ok r) : ∃ a, e = .ok a ∧ f a = .ok r := by
  cases e with
  | error s => cases h
  | ok a => exact ⟨a, rfl, h⟩

/-- a `foldlM` that appends one output per input and threads the graph through `insertNode`s -/
theorem foldlM_collect {α β : Type}
    (step : List β × DG.Graph → α → Except String (List β × DG.Graph))
    (φ : α → β) (ν : α → List DG.Node)
    (hstep : ∀ acc g x r, step (acc, g) x = .ok r →
      r.1 = acc ++ [φ x] ∧ (ν x).foldlM DG.insertNode g = .ok r.2) :
    ∀ (xs : List α) (acc : List β) (g : DG.Graph) (r : List β × DG.Graph),
      xs.foldlM step (acc, g) = .ok r →
      r.1 = acc ++ xs.map φ ∧ (xs.flatMap ν).foldlM DG.insertNode g = .ok r.2 := by
  intro xs
  induction xs with
  | nil =>
    intro acc g r h
    rw [List.foldlM_nil] at h
    cases h
    simp [pure, Except.pure]
  | cons x t ih =>
    intro acc g r h
    rw [List.foldlM_cons] at h
    obtain ⟨r1, h1, h2⟩ := bind_ok h
    obtain ⟨e1, e2⟩ := hstep acc g x r1 h1
    obtain ⟨acc1, g1⟩ := r1
    simp only at e1 e2
    obtain ⟨e3, e4⟩ := ih acc1 g1 r h2
    refine ⟨?_, ?_⟩
    · rw [e3, e1]; simp
    · rw [List.flatMap_cons, List.foldlM_append, e2]
      exact e4

theorem getD_zipIdx_map {α β : Type} (l : List α) (f : α × Nat → β) (i : Nat) (d : β) :
    (l.zipIdx.map f)[i]?.getD d = match l[i]? with
      | some a => f (a, i)
      | none => d := by
  rw [List.getElem?_map, List.getElem?_zipIdx]
  cases l[i]? <;> simp

/-- cell `(i,j)` of a matrix rebuilt cell by cell with a function that fixes `Poly.zero` -/
theorem get_zipIdx_map (m : Matrix) (F : Nat → Nat → Poly → Poly)
    (hF : ∀ i j, F i j Poly.zero = Poly.zero) (i j : Nat) :
    Matrix.get (m.zipIdx.map fun ri => ri.1.zipIdx.map fun pj => F ri.2 pj.2 pj.1) i j =
      F i j (Matrix.get m i j) := by
  unfold Matrix.get
  simp only [List.getD_eq_getElem?_getD, getD_zipIdx_map]
  cases m[i]? with
  | none => simp [hF]
  | some row =>
    simp only [Option.getD_some, getD_zipIdx_map]
    cases row[j]? with
    | none => simp [hF]
    | some p => simp

theorem evalD_eq_i_of_mem {p : Poly} {m : Mono} {c : Choice} (hm : m ∈ p)
    (hc : m.matchesC c = true) (hs : m.scalar = .i) : p.evalD c = .i := by
  unfold Poly.evalD
  apply sumAll_eq_i
  unfold Poly.matching
  rw [← hs]
  exact List.mem_map.2 ⟨m, List.mem_filter.2 ⟨hm, hc⟩, rfl⟩

theorem exists_of_evalD_eq_i {p : Poly} {c : Choice} (h : p.evalD c = .i) :
    ∃ m ∈ p, m.matchesC c = true ∧ m.scalar = .i := by
  induction p with
  | nil => cases h
  | cons x t ih =>
    rw [evalD_cons] at h
    by_cases hx : termAt x c = .i
    · unfold termAt at hx
      split at hx
      · rename_i hm; exact ⟨x, List.mem_cons_self .., hm, hx⟩
      · cases hx
    · have : Poly.evalD t c = .i := by
        revert h hx
        cases termAt x c <;> cases Poly.evalD t c <;> simp [Scalar.add_def, Gen.sumTable]
      obtain ⟨m, hm, h1, h2⟩ := ih this
      exact ⟨m, List.mem_cons_of_mem _ hm, h1, h2⟩

/-! ## one polynomial -/

def wpred (diag : Bool) (m : Mono) : Bool := m.scalar == .p || (m.scalar == .w && diag)
def wfix (diag : Bool) (m : Mono) : Mono := if wpred diag m then { m with scalar := .i } else m
def wnu (diag : Bool) (m : Mono) : List DG.Node := if wpred diag m then [m.deltas] else []

theorem whileFixPoly_spec (diag : Bool) (p : Poly) (g : DG.Graph) (r : Poly × DG.Graph)
    (h : Relation.whileFixPoly diag p g = .ok r) :
    r.1 = p.map (wfix diag) ∧ (p.flatMap (wnu diag)).foldlM DG.insertNode g = .ok r.2 := by
  unfold Relation.whileFixPoly at h
  have := foldlM_collect _ (wfix diag) (wnu diag) ?_ p [] g r h
  · simpa using this
  · intro acc g x r hr
    dsimp only at hr
    unfold wfix wnu wpred
    split at hr
    · rename_i hc
      obtain ⟨g1, h1, h2⟩ := bind_ok hr
      cases h2
      simp only [hc, if_true]
      refine ⟨trivial, ?_⟩
      rw [List.foldlM_cons, h1]
      rfl
    · rename_i hc
      cases hr
      simp only [hc]
      exact ⟨rfl, rfl⟩

theorem wfix_deltas (d : Bool) (m : Mono) : (wfix d m).deltas = m.deltas := by
  unfold wfix; split <;> rfl

theorem wfix_matches (d : Bool) (m : Mono) (c : Choice) : (wfix d m).matchesC c = m.matchesC c := by
  unfold Mono.matchesC; rw [wfix_deltas]

theorem wfix_scalar (d : Bool) (m : Mono) : (wfix d m).scalar = wCorr d m.scalar := by
  obtain ⟨s, ds⟩ := m
  cases s <;> cases d <;> rfl

theorem wCorr_add (d : Bool) (a b : Scalar) : wCorr d (a + b) = wCorr d a + wCorr d b := by
  cases a <;> cases b <;> cases d <;> rfl

theorem evalD_map_wfix (d : Bool) (p : Poly) (c : Choice) :
    Poly.evalD (p.map (wfix d)) c = wCorr d (p.evalD c) := by
  induction p with
  | nil => cases d <;> rfl
  | cons x t ih =>
    rw [List.map_cons, evalD_cons, evalD_cons, ih, wCorr_add]
    congr 1
    unfold termAt
    rw [wfix_matches, wfix_scalar]
    split
    · rfl
    · cases d <;> rfl

theorem WF_map_wfix (d : Bool) (p : Poly) (hp : p.WF = true) : Poly.WF (p.map (wfix d)) = true := by
  rw [WF_iff] at hp ⊢
  intro m hm
  obtain ⟨m0, hm0, rfl⟩ := List.mem_map.1 hm
  unfold Mono.WF
  rw [wfix_deltas]
  exact hp m0 hm0

theorem map_wfix_zero (d : Bool) : Poly.zero.map (wfix d) = Poly.zero := by
  cases d <;> rfl

/-! ## the whole matrix -/

def wMat (m : Matrix) : Matrix :=
  m.zipIdx.map fun ri => ri.1.zipIdx.map fun pj => pj.1.map (wfix (ri.2 == pj.2))

def wNodes (m : Matrix) : List DG.Node :=
  m.zipIdx.flatMap fun ri => ri.1.zipIdx.flatMap fun pj => pj.1.flatMap (wnu (ri.2 == pj.2))

theorem whileCorrection_spec (r r' : Relation) (g g' : DG.Graph)
    (hw : Relation.whileCorrection r g = .ok (r', g')) :
    r' = { r with mat := wMat r.mat } ∧ (wNodes r.mat).foldlM DG.insertNode g = .ok g' := by
  unfold Relation.whileCorrection at hw
  obtain ⟨res, h1, h2⟩ := bind_ok hw
  obtain ⟨rows, g1⟩ := res
  cases h2
  have := foldlM_collect _
    (fun ri : List Poly × Nat => ri.1.zipIdx.map fun pj => pj.1.map (wfix (ri.2 == pj.2)))
    (fun ri : List Poly × Nat => ri.1.zipIdx.flatMap fun pj => pj.1.flatMap (wnu (ri.2 == pj.2)))
    ?_ r.mat.zipIdx [] g (rows, g') h1
  · simp only [List.nil_append] at this
    refine ⟨?_, this.2⟩
    rw [this.1]; rfl
  · intro acc g x rr hr
    obtain ⟨row, i⟩ := x
    dsimp only at hr
    obtain ⟨res2, h3, h4⟩ := bind_ok hr
    obtain ⟨cells, g2⟩ := res2
    cases h4
    have := foldlM_collect _
      (fun pj : Poly × Nat => pj.1.map (wfix (i == pj.2)))
      (fun pj : Poly × Nat => pj.1.flatMap (wnu (i == pj.2)))
      ?_ row.zipIdx [] g (cells, g2) h3
    · simp only [List.nil_append] at this
      refine ⟨?_, this.2⟩
      simp only [this.1]
    · intro acc g x rr hr
      obtain ⟨p, j⟩ := x
      dsimp only at hr
      obtain ⟨res3, h5, h6⟩ := bind_ok hr
      obtain ⟨p', g3⟩ := res3
      cases h6
      have := whileFixPoly_spec (i == j) p g (p', g3) h5
      simp only at this
      exact ⟨by rw [this.1], this.2⟩

theorem get_wMat (m : Matrix) (i j : Nat) :
    Matrix.get (wMat m) i j = (Matrix.get m i j).map (wfix (i == j)) :=
  get_zipIdx_map m (fun i j p => p.map (wfix (i == j))) (fun _ _ => map_wfix_zero _) i j

theorem wMat_wf (r : Relation) (h : r.WF) : Relation.WF { r with mat := wMat r.mat } := by
  obtain ⟨h1, h2, h3, h4, h5⟩ := h
  refine ⟨h1, h2, ?_, ?_, ?_⟩
  · show (wMat r.mat).length = r.vars.length
    simp [wMat, h3]
  · intro row hr
    show row.length = r.vars.length
    simp only [wMat, List.mem_map] at hr
    obtain ⟨⟨row0, i⟩, hm, rfl⟩ := hr
    simp only [List.length_map, List.length_zipIdx]
    exact h4 row0 (List.mem_zipIdx hm |>.2.2 ▸ List.getElem_mem _)
  · intro row hr p hp
    simp only [wMat, List.mem_map] at hr
    obtain ⟨⟨row0, i⟩, hm, rfl⟩ := hr
    simp only [List.mem_map] at hp
    obtain ⟨⟨p0, j⟩, hm', rfl⟩ := hp
    apply WF_map_wfix
    have hrow0 : row0 ∈ r.mat := List.mem_zipIdx hm |>.2.2 ▸ List.getElem_mem _
    have hp0 : p0 ∈ row0 := List.mem_zipIdx hm' |>.2.2 ▸ List.getElem_mem _
    exact h5 row0 hrow0 p0 hp0

end RelFix

open RelFix

theorem Relation.whileCorrection_cells (r r' : Relation) (g g' : DG.Graph) (h : r.WF)
    (hw : Relation.whileCorrection r g = .ok (r', g')) (c : Choice) :
    r'.vars = r.vars ∧ r'.WF ∧
    ∀ i j, i < r.vars.length → j < r.vars.length →
      (Matrix.get r'.mat i j).evalD c = wCorr (i == j) ((Matrix.get r.mat i j).evalD c) := by
  obtain ⟨e, _⟩ := whileCorrection_spec r r' g g' hw
  subst e
  refine ⟨rfl, wMat_wf r h, ?_⟩
  intro i j _ _
  show (Matrix.get (wMat r.mat) i j).evalD c = _
  rw [get_wMat, evalD_map_wfix]

/-- the tuples handed to the delta graph are exactly the delta lists of the rewritten monomials:
    every one of them matches only choices at which the corrected relation has ∞ -/
theorem Relation.whileCorrection_inserted (r r' : Relation) (g g' : DG.Graph) (_h : r.WF)
    (hw : Relation.whileCorrection r g = .ok (r', g')) :
    ∃ ts : List DG.Node, (ts.foldlM DG.insertNode g = .ok g') ∧
      ∀ t ∈ ts, ∀ c : Choice, (t.all fun d => c[d.2]? == some d.1) = true →
        ∃ i j, (Matrix.get r'.mat i j).evalD c = .i := by
  obtain ⟨e, hg⟩ := whileCorrection_spec r r' g g' hw
  subst e
  refine ⟨wNodes r.mat, hg, ?_⟩
  intro t ht c hc
  simp only [wNodes, List.mem_flatMap] at ht
  obtain ⟨⟨row, i⟩, hri, ⟨p, j⟩, hpj, m, hm, htm⟩ := ht
  simp only at hpj hm htm
  unfold wnu at htm
  split at htm
  · rename_i hpred
    simp only [List.mem_singleton] at htm
    subst htm
    refine ⟨i, j, ?_⟩
    show (Matrix.get (wMat r.mat) i j).evalD c = .i
    have hrow : r.mat[i]? = some row := List.mem_zipIdx_iff_getElem?.1 hri
    have hp : row[j]? = some p := List.mem_zipIdx_iff_getElem?.1 hpj
    have hget : Matrix.get r.mat i j = p := by
      unfold Matrix.get
      simp only [List.getD_eq_getElem?_getD, hrow, hp, Option.getD_some]
    rw [get_wMat, hget]
    apply evalD_eq_i_of_mem (m := wfix (i == j) m) (List.mem_map.2 ⟨m, hm, rfl⟩)
    · rw [wfix_matches]; exact hc
    · unfold wfix; rw [if_pos hpred]
  · cases htm

end Mwp
