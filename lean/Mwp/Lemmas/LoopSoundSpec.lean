/-
  Loop mode soundness, spec side: the calculus with failure as a value (`Spec.semI`) on names --
  path-local matrix product (`mulNP`), the path-local closure (it is the dense closure on
  failure-free matrices: `closureP_eq_closure`; it keeps the support: `closureP_supp`), rules W
  and L on names (`wInf_matOf`, `lInf_matOf`), and the coincidence of `semI` with `sem` on
  loop-free commands (`semI_of_sem`).
-/
import Mwp.Lemmas.FuncRefine
import Mwp.Spec.CalculusInf
namespace Mwp
namespace LoopSound
open Mwp.Props.C16 Mwp.Lemmas.Poly Spec RelFix Refine

/-! ## `pathProd` -/

theorem pathProd_o_left (b : Scalar) : pathProd .o b = .o := by cases b <;> rfl
theorem pathProd_o_right (a : Scalar) : pathProd a .o = .o := by cases a <;> rfl
theorem pathProd_m_left (b : Scalar) : pathProd .m b = b := by cases b <;> rfl
theorem pathProd_m_right (a : Scalar) : pathProd a .m = a := by cases a <;> rfl

/-- on failure-free coefficients the path product is the semiring product of the code -/
theorem pathProd_fin {a b : Scalar} (ha : a ≠ .i) (hb : b ≠ .i) : pathProd a b = a * b := by
  cases a <;> cases b <;> first | rfl | exact absurd rfl ha | exact absurd rfl hb

theorem pathProd_assoc (a b c : Scalar) : pathProd (pathProd a b) c = pathProd a (pathProd b c) := by
  cases a <;> cases b <;> cases c <;> rfl

theorem pathProd_add_left (a b c : Scalar) : pathProd a (b + c) = pathProd a b + pathProd a c := by
  cases a <;> cases b <;> cases c <;> rfl

theorem pathProd_add_right (a b c : Scalar) : pathProd (a + b) c = pathProd a c + pathProd b c := by
  cases a <;> cases b <;> cases c <;> rfl

theorem pathProd_eq_i {a b : Scalar} (h : pathProd a b = .i) :
    a ≠ .o ∧ b ≠ .o ∧ (a = .i ∨ b = .i) := by
  cases a <;> cases b <;> simp_all [pathProd, docProd]

theorem pathProd_ne_o {a b : Scalar} (ha : a ≠ .o) (hb : b ≠ .o) : pathProd a b ≠ .o := by
  cases a <;> cases b <;> simp_all [pathProd, docProd]

theorem mul_ne_i_iff {a b : Scalar} : a * b ≠ .i ↔ a ≠ .i ∧ b ≠ .i := by
  cases a <;> cases b <;> decide

theorem add_ne_i_iff {a b : Scalar} : a + b ≠ .i ↔ a ≠ .i ∧ b ≠ .i := by
  cases a <;> cases b <;> decide

theorem add_eq_i {a b : Scalar} (h : a + b = .i) : a = .i ∨ b = .i := by
  cases a <;> cases b <;> simp_all [Scalar.add_def, Gen.sumTable]

/-! ## path product of matrices on names -/

def mulNP (U : List String) (g h : NF) : NF :=
  fun x y => sumScalars (U.map fun k => pathProd (g x k) (h k y))

theorem sumScalars_pathProd_left (a : Scalar) (l : List Scalar) :
    pathProd a (sumScalars l) = sumScalars (l.map (pathProd a)) := by
  induction l with
  | nil => exact pathProd_o_right a
  | cons x t ih => rw [sumScalars_cons, pathProd_add_left, ih, List.map_cons, sumScalars_cons]

theorem sumScalars_pathProd_right (c : Scalar) (l : List Scalar) :
    pathProd (sumScalars l) c = sumScalars (l.map (fun a => pathProd a c)) := by
  induction l with
  | nil => exact pathProd_o_left c
  | cons x t ih => rw [sumScalars_cons, pathProd_add_right, ih, List.map_cons, sumScalars_cons]

theorem mulNP_assoc (U : List String) (a b c : NF) (x y : String) :
    mulNP U (mulNP U a b) c x y = mulNP U a (mulNP U b c) x y := by
  unfold mulNP
  have hL : ∀ l, pathProd (sumScalars (U.map fun k => pathProd (a x k) (b k l))) (c l y) =
      sumScalars (U.map fun k => pathProd (pathProd (a x k) (b k l)) (c l y)) := by
    intro l; rw [sumScalars_pathProd_right, List.map_map]; rfl
  have hR : ∀ k, pathProd (a x k) (sumScalars (U.map fun l => pathProd (b k l) (c l y))) =
      sumScalars (U.map fun l => pathProd (pathProd (a x k) (b k l)) (c l y)) := by
    intro k; rw [sumScalars_pathProd_left, List.map_map]
    apply sumScalars_map_congr
    intro l _
    exact (pathProd_assoc _ _ _).symm
  simp only [hL, hR]
  exact sumAll_swap U U (fun l k => pathProd (pathProd (a x k) (b k l)) (c l y))

theorem sumS_eq_sumScalars (l : List Scalar) : SMat.sumS l = sumScalars l := sumS_eq l

theorem mulP_matOf (U : List String) (g h : NF) :
    mulP (matOf U g) (matOf U h) = matOf U (mulNP U g h) := by
  unfold mulP matOf
  rw [mk_length]
  show _ = mk U.length _
  unfold mk
  apply List.map_congr_left
  intro i hi
  apply List.map_congr_left
  intro j hj
  have hi' := List.mem_range.1 hi
  have hj' := List.mem_range.1 hj
  rw [sumS_eq_sumScalars]
  simp only [dn, mulNP]
  rw [map_eq_map_range_getD U "" (fun k => pathProd (g (U.getD i "") k) (h k (U.getD j "")))]
  apply sumScalars_map_congr
  intro k hk
  have hk' := List.mem_range.1 hk
  have h1 := get_mk U.length (dn U g) hi' hk'
  have h2 := get_mk U.length (dn U h) hk' hj'
  unfold mk at h1 h2
  exact congrArg₂ pathProd h1 h2

theorem mulNP_idS_left {U : List String} {x : String} (hx : x ∈ U) (h : NF) (y : String) :
    mulNP U idS h x y = h x y := by
  unfold mulNP
  rw [sumScalars_map_single U _ x, if_pos hx, idS_self, pathProd_m_left]
  intro k _ hk
  rw [idS_of_ne (fun e => hk e.symm), pathProd_o_left]

theorem mulNP_idS_right {U : List String} {y : String} (hy : y ∈ U) (g : NF) (x : String) :
    mulNP U g idS x y = g x y := by
  unfold mulNP
  rw [sumScalars_map_single U _ y, if_pos hy, idS_self, pathProd_m_right]
  intro k _ hk
  rw [idS_of_ne hk, pathProd_o_right]

/-! ## the two closures on names -/

def stepNP (U : List String) (a s : NF) : NF := fun x y => idS x y + mulNP U a s x y
def stepN (U : List String) (a s : NF) : NF := fun x y => idS x y + mulN U a s x y

theorem mul_matOf' (U : List String) (g h : NF) :
    SMat.mul (matOf U g) (matOf U h) = matOf U (mulN U g h) := by
  show SMat.mul (matOf U g) (mk U.length (dn U h)) = _
  rw [mul_matOf, fmul_dn]; rfl

theorem closureFromP_succ {U : List String} (hU : U.Nodup) (a s : NF) (fuel : Nat) :
    closureFromP (matOf U a) (fuel + 1) (matOf U s) =
      if matOf U (stepNP U a s) = matOf U s then matOf U s
      else closureFromP (matOf U a) fuel (matOf U (stepNP U a s)) := by
  have hs : SMat.add (SMat.identity (matOf U a).length) (mulP (matOf U a) (matOf U s))
      = matOf U (stepNP U a s) := by
    have : (matOf U a).length = U.length := mk_length _ _
    rw [this, identity_matOf hU, mulP_matOf, add_matOf]; rfl
  rw [closureFromP]
  simp only [hs, beq_iff_eq]

theorem closureFrom_succ' {U : List String} (hU : U.Nodup) (a s : NF) (fuel : Nat) :
    SMat.closureFrom (matOf U a) (fuel + 1) (matOf U s) =
      if matOf U (stepN U a s) = matOf U s then matOf U s
      else SMat.closureFrom (matOf U a) fuel (matOf U (stepN U a s)) := by
  have hs : SMat.add (SMat.identity (matOf U a).length) (SMat.mul (matOf U a) (matOf U s))
      = matOf U (stepN U a s) := by
    have : (matOf U a).length = U.length := mk_length _ _
    rw [this, identity_matOf hU, mul_matOf', add_matOf]; rfl
  rw [SMat.closureFrom]
  simp only [hs, beq_iff_eq]

/-- no ∞ among the cells of the universe -/
def FinN (U : List String) (g : NF) : Prop := ∀ x ∈ U, ∀ y ∈ U, g x y ≠ .i

theorem mulNP_eq_mulN {U : List String} {a s : NF} (ha : FinN U a) (hs : FinN U s) :
    ∀ x ∈ U, ∀ y ∈ U, mulNP U a s x y = mulN U a s x y := by
  intro x hx y hy
  unfold mulNP mulN
  apply sumScalars_map_congr
  intro k hk
  exact pathProd_fin (ha x hx k hk) (hs k hk y hy)

theorem stepN_fin {U : List String} {a s : NF} (ha : FinN U a) (hs : FinN U s) : FinN U (stepN U a s) := by
  intro x hx y hy
  unfold stepN
  apply add_ne_i (idS_ne_i x y)
  apply sumScalars_ne_i
  intro t ht
  obtain ⟨k, hk, rfl⟩ := List.mem_map.1 ht
  exact mul_ne_i (ha x hx k hk) (hs k hk y hy)

/-- on a failure-free matrix the path-local closure is the dense closure -/
theorem closureFromP_eq_closureFrom {U : List String} (hU : U.Nodup) {a : NF} (ha : FinN U a) :
    ∀ fuel s, FinN U s →
      closureFromP (matOf U a) fuel (matOf U s) = SMat.closureFrom (matOf U a) fuel (matOf U s) := by
  intro fuel
  induction fuel with
  | zero => intro s _; rfl
  | succ fuel ih =>
    intro s hs
    have e : matOf U (stepNP U a s) = matOf U (stepN U a s) := by
      apply matOf_congr
      intro x hx y hy
      unfold stepNP stepN
      rw [mulNP_eq_mulN ha hs x hx y hy]
    rw [closureFromP_succ hU, closureFrom_succ' hU, e, ih _ (stepN_fin ha hs)]

theorem closureP_eq_closure {U : List String} (hU : U.Nodup) {a : NF} (ha : FinN U a) :
    closureP (matOf U a) = SMat.closure (matOf U a) := by
  unfold closureP SMat.closure
  have : (matOf U a).length = U.length := mk_length _ _
  rw [this, identity_matOf hU]
  exact closureFromP_eq_closureFrom hU ha _ _ (fun x _ y _ => idS_ne_i x y)

/-- an invariant of the path-local iteration holds for the path-local closure -/
theorem closureFromP_inv {U : List String} (hU : U.Nodup) (a : NF) (P : NF → Prop)
    (hstep : ∀ s, P s → P (stepNP U a s)) :
    ∀ fuel s, P s → ∃ s', closureFromP (matOf U a) fuel (matOf U s) = matOf U s' ∧ P s' := by
  intro fuel
  induction fuel with
  | zero => intro s hs; exact ⟨s, rfl, hs⟩
  | succ fuel ih =>
    intro s hs
    rw [closureFromP_succ hU]
    split
    · exact ⟨s, rfl, hs⟩
    · exact ih _ (hstep s hs)

theorem closureP_inv {U : List String} (hU : U.Nodup) (a : NF) (P : NF → Prop) (h0 : P idS)
    (hstep : ∀ s, P s → P (stepNP U a s)) : ∃ s', closureP (matOf U a) = matOf U s' ∧ P s' := by
  unfold closureP
  have : (matOf U a).length = U.length := mk_length _ _
  rw [this, identity_matOf hU]
  exact closureFromP_inv hU a P hstep _ _ h0

/-- identity outside the variables `vs` -/
def Supp (U vs : List String) (g : NF) : Prop :=
  ∀ x ∈ U, ∀ y ∈ U, (x ∉ vs ∨ y ∉ vs) → g x y = idS x y

theorem Supp_idS (U vs : List String) : Supp U vs idS := fun _ _ _ _ _ => rfl

theorem mulNP_supp {U vs : List String} {a b : NF} (ha : Supp U vs a) (hb : Supp U vs b) :
    Supp U vs (mulNP U a b) := by
  intro x hx y hy hxy
  by_cases hxv : x ∈ vs
  · have hyv : y ∉ vs := hxy.resolve_left (fun h => h hxv)
    have e : ∀ k ∈ U, pathProd (a x k) (b k y) = pathProd (a x k) (idS k y) := by
      intro k hk; rw [hb k hk y hy (Or.inr hyv)]
    unfold mulNP
    rw [sumScalars_map_congr U _ _ e]
    exact (mulNP_idS_right hy a x).trans (ha x hx y hy (Or.inr hyv))
  · have e : ∀ k ∈ U, pathProd (a x k) (b k y) = pathProd (idS x k) (b k y) := by
      intro k hk; rw [ha x hx k hk (Or.inl hxv)]
    unfold mulNP
    rw [sumScalars_map_congr U _ _ e]
    exact (mulNP_idS_left hx b y).trans (hb x hx y hy (Or.inl hxv))

theorem stepNP_supp {U vs : List String} {a s : NF} (ha : Supp U vs a) (hs : Supp U vs s) :
    Supp U vs (stepNP U a s) := by
  intro x hx y hy hxy
  unfold stepNP
  rw [mulNP_supp ha hs x hx y hy hxy, sum_idem]

theorem closureP_supp {U vs : List String} (hU : U.Nodup) {a : NF} (ha : Supp U vs a) :
    ∃ s', closureP (matOf U a) = matOf U s' ∧ Supp U vs s' :=
  closureP_inv hU a (Supp U vs) (Supp_idS U vs) (fun _ hs => stepNP_supp ha hs)

/-! ## rules W and L with failure as ∞, on names -/

theorem zipIdx_map_mk (n : Nat) (h : SF) (f : Scalar → Nat → Nat → Scalar) :
    ((mk n h).zipIdx.map fun (row, i) => row.zipIdx.map fun (v, j) => f v i j)
      = mk n (fun i j => f (h i j) i j) := by
  unfold mk
  apply List.ext_getElem
  · simp
  · intro i h1 h2
    simp only [List.getElem_map, List.getElem_zipIdx, List.getElem_range, Nat.zero_add]
    apply List.ext_getElem
    · simp
    · intro j h3 h4
      simp only [List.getElem_map, List.getElem_zipIdx, List.getElem_range, Nat.zero_add]

/-- rule W on names -/
def wN (g : NF) : NF := fun x y => wCorr (x == y) (g x y)

theorem wInf_matOf {U : List String} (hU : U.Nodup) (g : NF) : wInf (matOf U g) = matOf U (wN g) := by
  unfold wInf matOf
  refine (zipIdx_map_mk _ _ (fun v i j =>
    if (v == Scalar.p || v == Scalar.i || i == j && v == Scalar.w) = true then Scalar.i else v)).trans ?_
  apply mk_congr
  intro i hi j hj
  have : (U.getD i "" == U.getD j "") = (i == j) := by
    by_cases h : i = j
    · subst h; rw [beq_self_eq_true, beq_self_eq_true]
    · have h' : U.getD i "" ≠ U.getD j "" := (getD_inj hU hi hj).not.2 h
      rw [beq_eq_false_iff_ne.2 h', beq_eq_false_iff_ne.2 h]
  show _ = wCorr (U.getD i "" == U.getD j "") (g (U.getD i "") (U.getD j ""))
  rw [this]
  rfl

/-- rule L on names: first the diagonal … -/
def dN (g : NF) : NF := fun x y => if x = y ∧ g x y ≠ .m then .i else g x y
/-- … then `X →p y` wherever some `z →p y` -/
def lN (U : List String) (X : String) (g : NF) : NF := fun x y =>
  if x = X ∧ ∃ z ∈ U, dN g z y = .p then dN g x y + .p else dN g x y

theorem lInf_matOf {U : List String} (hU : U.Nodup) {X : String} (hX : X ∈ U) (g : NF) :
    lInf (Spec.idxOf U X) (matOf U g) = matOf U (lN U X g) := by
  rcases idx_cases U X with ⟨h, _⟩ | ⟨_, ell, hell, hXe, _⟩
  · exact absurd hX h
  rw [idxOf_eq hXe]
  unfold lInf
  have hlen : (matOf U g).length = U.length := mk_length _ _
  have hd : ((matOf U g).zipIdx.map fun (row, i) => row.zipIdx.map fun (v, j) =>
      if (i == j && v != .m) = true then Scalar.i else v) = matOf U (dN g) := by
    unfold matOf
    refine (zipIdx_map_mk _ _ (fun v i j => if (i == j && v != Scalar.m) = true then Scalar.i else v)).trans ?_
    apply mk_congr
    intro i hi j hj
    show _ = dN g (U.getD i "") (U.getD j "")
    unfold dN
    have : (U.getD i "" = U.getD j "") ↔ i = j := getD_inj hU hi hj
    by_cases h : i = j
    · subst h
      simp only [dn, beq_self_eq_true, Bool.true_and, bne_iff_ne, ne_eq, true_and]
    · have h' := this.not.2 h
      simp only [dn, beq_eq_false_iff_ne.2 h, Bool.false_and, Bool.false_eq_true, if_false, h', false_and]
  simp only [hd, hlen]
  unfold matOf
  have : (mk U.length (dn U (dN g))).zipIdx.map (fun (row, i) =>
      if (i == ell) = true then
        row.zipIdx.map fun (v, j) =>
          if ((List.range U.length).any fun i' => SMat.get (mk U.length (dn U (dN g))) i' j == Scalar.p) = true
          then docSum v Scalar.p else v
      else row) =
    (mk U.length (dn U (dN g))).zipIdx.map (fun (row, i) => row.zipIdx.map fun (v, j) =>
      if (i == ell) = true ∧
        ((List.range U.length).any fun i' => SMat.get (mk U.length (dn U (dN g))) i' j == Scalar.p) = true
      then docSum v Scalar.p else v) := by
    apply List.map_congr_left
    rintro ⟨row, i⟩ _
    by_cases h : (i == ell) = true
    · simp only [h, if_true, true_and]
    · simp only [h]
      symm
      apply List.ext_getElem
      · simp
      · intro k h1 h2
        simp
  rw [this, zipIdx_map_mk (f := fun v i j => if (i == ell) = true ∧
        ((List.range U.length).any fun i' => SMat.get (mk U.length (dn U (dN g))) i' j == Scalar.p) = true
      then docSum v Scalar.p else v)]
  apply mk_congr
  intro i hi j hj
  simp only [dn, lN]
  have h1 : ((i == ell) = true) ↔ U.getD i "" = X := by
    rw [beq_iff_eq, ← idx_getD hXe "", getD_inj hU hi hell]
  have h2 : ((List.range U.length).any fun i' => SMat.get (mk U.length (dn U (dN g))) i' j == .p) = true ↔
      ∃ z ∈ U, dN g z (U.getD j "") = .p := by
    simp only [List.any_eq_true, List.mem_range, beq_iff_eq]
    constructor
    · rintro ⟨i', hi', h⟩
      rw [get_mk _ _ hi' hj] at h
      exact ⟨_, getD_mem U i' "" hi', h⟩
    · rintro ⟨z, hz, h⟩
      obtain ⟨i', hi', rfl⟩ := mem_getD_idx hz
      exact ⟨i', hi', by rw [get_mk _ _ hi' hj]; exact h⟩
  by_cases hc : U.getD i "" = X ∧ ∃ z ∈ U, dN g z (U.getD j "") = .p
  · rw [if_pos hc, if_pos ⟨h1.2 hc.1, h2.2 hc.2⟩, sum_documented]
  · rw [if_neg hc, if_neg (fun h => hc ⟨h1.1 h.1, h2.1 h.2⟩)]

theorem column_matOf (U : List String) (g : NF) {j : Nat} (hj : j < U.length) :
    SMat.column (matOf U g) j = U.map fun x => g x (U.getD j "") := by
  unfold SMat.column matOf mk
  rw [List.map_map, map_eq_map_range_getD U "" (fun x => g x (U.getD j ""))]
  apply List.map_congr_left
  intro i _
  simp [dn, hj]

/-! ## loop-free commands: the two calculi coincide -/

theorem operandFlow_ne_i (op : String) (a b : Atom) (alt : Nat) (v : String) :
    operandFlow op a b alt v ≠ .i := by
  cases a <;> cases b <;> simp only [operandFlow] <;> (repeat' split) <;> simp

mutual
theorem semI_of_sem {U : List String} (hU : U.Nodup) : ∀ (cmd : Cmd), cmd.loopFree = true →
    (∀ v ∈ cmd.vars, v ∈ U) → ∀ (idx : Nat) (c : Choice) (i : Nat) (M : SMat),
    sem U cmd idx c = some (i, M) → ∃ g, M = matOf U g ∧ FinN U g ∧ semI U cmd idx c = (i, M)
  | .skip, _, _, idx, c, i, M, h => by
    simp only [sem, Option.some.injEq, Prod.mk.injEq] at h
    obtain ⟨rfl, rfl⟩ := h
    exact ⟨idS, identity_matOf hU, fun x _ y _ => idS_ne_i x y, by simp only [semI]⟩
  | .asgnVar x y, _, hsub, idx, c, i, M, h => by
    simp only [sem] at h
    split at h
    · rename_i hxy
      simp only [Option.some.injEq, Prod.mk.injEq] at h
      obtain ⟨rfl, rfl⟩ := h
      exact ⟨idS, identity_matOf hU, fun x _ y _ => idS_ne_i x y, by simp only [semI, hxy, if_true]⟩
    · rename_i hxy
      simp only [Option.some.injEq, Prod.mk.injEq] at h
      obtain ⟨rfl, rfl⟩ := h
      refine ⟨_, setColumn_matOf U hU x (hsub x (by simp [Cmd.vars])) _, ?_, by simp only [semI, hxy]; rfl⟩
      intro u _ v _
      simp only
      split
      · split <;> simp
      · exact idS_ne_i u v
  | .asgnConst x, _, hsub, idx, c, i, M, h => by
    simp only [sem, Option.some.injEq, Prod.mk.injEq] at h
    obtain ⟨rfl, rfl⟩ := h
    refine ⟨_, setColumn_matOf U hU x (hsub x (by simp [Cmd.vars])) _, ?_, by simp only [semI]⟩
    intro u _ v _
    simp only
    split
    · simp
    · exact idS_ne_i u v
  | .bin op x a b, _, hsub, idx, c, i, M, h => by
    simp only [sem] at h
    split at h
    · cases h
    · rename_i alt hc
      split at h
      · cases h
      · simp only [Option.some.injEq, Prod.mk.injEq] at h
        obtain ⟨rfl, rfl⟩ := h
        refine ⟨_, setColumn_matOf U hU x (hsub x (by simp [Cmd.vars])) _, ?_, ?_⟩
        · intro u _ v _
          simp only
          split
          · exact operandFlow_ne_i op a b alt u
          · exact idS_ne_i u v
        · simp only [semI, hc, Option.getD_some]
  | .seq l, hlf, hsub, idx, c, i, M, h => by
    simp only [sem] at h
    rw [Cmd.loopFree] at hlf
    rw [Cmd.vars] at hsub
    obtain ⟨g, h1, h2, h3⟩ := semISeq_of_semSeq hU l hlf hsub idx c i M h
    exact ⟨g, h1, h2, by simp only [semI]; exact h3⟩
  | .ite t f, hlf, hsub, idx, c, i, M, h => by
    simp only [Cmd.loopFree, Bool.and_eq_true] at hlf
    rw [Cmd.vars] at hsub
    simp only [sem] at h
    split at h
    · cases h
    · rename_i i1 a h1
      split at h
      · cases h
      · rename_i i2 b h2
        simp only [Option.some.injEq, Prod.mk.injEq] at h
        obtain ⟨rfl, rfl⟩ := h
        obtain ⟨ga, ea, fa, sa⟩ := semI_of_sem hU t hlf.1 (fun v hv => hsub v (List.mem_append_left _ hv)) idx c i1 a h1
        obtain ⟨gb, eb, fb, sb⟩ := semI_of_sem hU f hlf.2 (fun v hv => hsub v (List.mem_append_right _ hv)) i1 c i2 b h2
        subst ea; subst eb
        refine ⟨_, add_matOf U ga gb, fun x hx y hy => add_ne_i (fa x hx y hy) (fb x hx y hy), ?_⟩
        simp only [semI, sa, sb]
  | .while_ _, hlf, _, _, _, _, _, _ => by simp [Cmd.loopFree] at hlf
  | .loop _ _, hlf, _, _, _, _, _, _ => by simp [Cmd.loopFree] at hlf
theorem semISeq_of_semSeq {U : List String} (hU : U.Nodup) : ∀ (l : List Cmd), loopFreeL l = true →
    (∀ v ∈ varsL l, v ∈ U) → ∀ (idx : Nat) (c : Choice) (i : Nat) (M : SMat),
    semSeq U l idx c = some (i, M) → ∃ g, M = matOf U g ∧ FinN U g ∧ semISeq U l idx c = (i, M)
  | [], _, _, idx, c, i, M, h => by
    simp only [semSeq, Option.some.injEq, Prod.mk.injEq] at h
    obtain ⟨rfl, rfl⟩ := h
    exact ⟨idS, identity_matOf hU, fun x _ y _ => idS_ne_i x y, by simp only [semISeq]⟩
  | cmd :: rest, hlf, hsub, idx, c, i, M, h => by
    simp only [loopFreeL, Bool.and_eq_true] at hlf
    rw [varsL] at hsub
    simp only [semSeq] at h
    split at h
    · cases h
    · rename_i i1 a h1
      split at h
      · cases h
      · rename_i i2 b h2
        simp only [Option.some.injEq, Prod.mk.injEq] at h
        obtain ⟨rfl, rfl⟩ := h
        obtain ⟨ga, ea, fa, sa⟩ := semI_of_sem hU cmd hlf.1 (fun v hv => hsub v (List.mem_append_left _ hv)) idx c i1 a h1
        obtain ⟨gb, eb, fb, sb⟩ := semISeq_of_semSeq hU rest hlf.2 (fun v hv => hsub v (List.mem_append_right _ hv)) i1 c i2 b h2
        subst ea; subst eb
        refine ⟨_, mul_matOf' U ga gb, ?_, ?_⟩
        · intro x hx y hy
          apply sumScalars_ne_i
          intro t ht
          obtain ⟨k, hk, rfl⟩ := List.mem_map.1 ht
          exact mul_ne_i (fa x hx k hk) (fb k hk y hy)
        · simp only [semISeq, sa, sb]
          rw [mulP_matOf, mul_matOf']
          congr 1
          exact matOf_congr (mulNP_eq_mulN fa fb)
end

end LoopSound
end Mwp