/-
  Cell-level algebra of `Matrix.sum` / `Matrix.prod` (pymwp matrix_sum / matrix_prod):
  at every choice vector they are the semiring matrix sum / product.
  Semiring facts go through `Mwp.Props.C16`, polynomial facts through `Mwp.Lemmas.Poly` (C09).
-/
import Mwp.Lemmas.RelDefs
import Mwp.Lemmas.Poly
namespace Mwp
open Mwp.Props.C16 Mwp.Lemmas.Poly

/-! ## `sumScalars` -/

theorem sumScalars_eq_sumAll (l : List Scalar) : sumScalars l = Poly.sumAll l := rfl

theorem sumScalars_nil : sumScalars [] = .o := rfl

theorem sumScalars_cons (s : Scalar) (l : List Scalar) :
    sumScalars (s :: l) = s + sumScalars l := sumAll_cons s l

theorem sumScalars_append (l₁ l₂ : List Scalar) :
    sumScalars (l₁ ++ l₂) = sumScalars l₁ + sumScalars l₂ := sumAll_append l₁ l₂

/-- the sum of pointwise sums is the sum of the sums -/
theorem sumScalars_map_add {α : Type} (l : List α) (f g : α → Scalar) :
    sumScalars (l.map fun k => f k + g k) = sumScalars (l.map f) + sumScalars (l.map g) := by
  induction l with
  | nil => rfl
  | cons a t ih =>
    simp only [List.map_cons, sumScalars_cons, ih]
    ac_rfl

theorem sumScalars_map_congr {α : Type} (l : List α) (f g : α → Scalar)
    (h : ∀ k ∈ l, f k = g k) : sumScalars (l.map f) = sumScalars (l.map g) := by
  rw [List.map_congr_left h]

theorem sumScalars_map_o {α : Type} (l : List α) (f : α → Scalar) (h : ∀ k ∈ l, f k = .o) :
    sumScalars (l.map f) = .o := by
  induction l with
  | nil => rfl
  | cons a t ih =>
    rw [List.map_cons, sumScalars_cons, h a (List.mem_cons_self ..),
      ih (fun k hk => h k (List.mem_cons_of_mem _ hk)), sum_zero_left]

/-- an ∞ summand makes the sum ∞ -/
theorem sumScalars_eq_i_of_mem {l : List Scalar} (h : Scalar.i ∈ l) : sumScalars l = .i := by
  induction l with
  | nil => cases h
  | cons a t ih =>
    rw [sumScalars_cons]
    rcases List.mem_cons.1 h with h | h
    · rw [← h]; exact (infty_absorbs_sum _).1
    · rw [ih h]; exact (infty_absorbs_sum _).2

/-- a sum is ∞ only if a summand is -/
theorem mem_of_sumScalars_eq_i {l : List Scalar} (h : sumScalars l = .i) : Scalar.i ∈ l := by
  induction l with
  | nil => cases h
  | cons a t ih =>
    rw [sumScalars_cons] at h
    rcases add_left_or_right a (sumScalars t) with h' | h'
    · rw [h'] at h; rw [h]; exact List.mem_cons_self ..
    · rw [h'] at h; exact List.mem_cons_of_mem _ (ih h)

/-- all summands `o` except possibly at `x` -/
theorem sumScalars_map_single {α : Type} [DecidableEq α] (l : List α) (f : α → Scalar) (x : α)
    (h : ∀ k ∈ l, k ≠ x → f k = .o) :
    sumScalars (l.map f) = if x ∈ l then f x else .o := by
  induction l with
  | nil => rfl
  | cons a t ih =>
    rw [List.map_cons, sumScalars_cons, ih (fun k hk => h k (List.mem_cons_of_mem _ hk))]
    by_cases hax : a = x
    · subst hax
      rw [if_pos (List.mem_cons_self ..)]
      split
      · exact sum_idem _
      · exact sum_zero_right _
    · rw [h a (List.mem_cons_self ..) hax, sum_zero_left]
      by_cases hx : x ∈ t
      · rw [if_pos hx, if_pos (List.mem_cons_of_mem _ hx)]
      · rw [if_neg hx, if_neg]
        intro hm
        rcases List.mem_cons.1 hm with hm | hm
        · exact hax hm.symm
        · exact hx hm

/-! ## The ∞-indicator -/

/-- `∞` if the scalar is `∞`, else `0` -/
def infOf (s : Scalar) : Scalar := if s = .i then .i else .o

theorem infOf_add (a b : Scalar) : infOf (a + b) = infOf a + infOf b := by
  cases a <;> cases b <;> rfl

theorem infOf_o : infOf .o = .o := rfl

/-- the value-level fact behind `matrix_prod`: the dropped `0 × ∞` is restored by the ∞-parts -/
theorem times_plus_inf (a b : Scalar) : a * b + infOf a + infOf b = a * b := by
  cases a <;> cases b <;> rfl

/-- with a missing left term (`Poly.times` gives 0) -/
theorem o_plus_inf_left (b : Scalar) : Scalar.o + infOf .o + infOf b = .o * b := by
  cases b <;> rfl

theorem o_plus_inf_right (a : Scalar) : Scalar.o + infOf a + infOf .o = a * .o := by
  cases a <;> rfl

theorem termAt_eq_or (m : Mono) (c : Choice) : termAt m c = m.scalar ∨ termAt m c = .o := by
  unfold termAt; split <;> simp

theorem evalD_filter_inf (p : Poly) (c : Choice) :
    Poly.evalD (p.filter (fun m => m.scalar == .i)) c = infOf (Poly.evalD p c) := by
  induction p with
  | nil => rfl
  | cons m t ih =>
    rw [List.filter_cons, evalD_cons, infOf_add]
    split
    · rename_i h
      have hm : m.scalar = .i := by simpa using h
      rw [evalD_cons, ih]
      congr 1
      rcases termAt_eq_or m c with h' | h'
      · rw [h', hm]; rfl
      · rw [h']; rfl
    · rename_i h
      have hm : m.scalar ≠ .i := by simpa using h
      rw [ih]
      have : infOf (termAt m c) = .o := by
        rcases termAt_eq_or m c with h' | h'
        · rw [h']; unfold infOf; rw [if_neg hm]
        · rw [h']; rfl
      rw [this, sum_zero_left]

theorem evalD_inftyPart (p : Poly) (hp : p.WF = true) (c : Choice) :
    Poly.evalD (Matrix.inftyPart p) c = infOf (Poly.evalD p c) := by
  unfold Matrix.inftyPart
  rw [evalD_ofList, map_copy_of_WF (WF_filter p _ hp), evalD_filter_inf]

theorem WF_inftyPart (p : Poly) (hp : p.WF = true) : Poly.WF (Matrix.inftyPart p) = true := by
  unfold Matrix.inftyPart
  rw [map_copy_of_WF (WF_filter p _ hp)]
  exact WF_ofList _ (WF_filter p _ hp)

/-! ## `eval?` versus `evalD` -/

theorem eval?_none_evalD {p : Poly} {c : Choice} (h : Poly.eval? p c = none) :
    Poly.evalD p c = .o := by
  unfold Poly.eval? at h
  unfold Poly.evalD
  cases hm : Poly.matching p c with
  | nil => rfl
  | cons s ss => rw [hm] at h; cases h

theorem eval?_some_evalD {p : Poly} {c : Choice} {s : Scalar} (h : Poly.eval? p c = some s) :
    Poly.evalD p c = s := by
  unfold Poly.eval? at h
  unfold Poly.evalD
  cases hm : Poly.matching p c with
  | nil => rw [hm] at h; cases h
  | cons t ts =>
    rw [hm] at h
    simp only [Option.some.injEq] at h
    rw [← h, foldl_eq_sumAll]

/-- one summand of the product cell, with the two ∞-indicators -/
theorem times_cell (p q : Poly) (c : Choice) (hp : p.WF = true) :
    Poly.evalD (Poly.times p q) c + infOf (Poly.evalD p c) + infOf (Poly.evalD q c)
      = Poly.evalD p c * Poly.evalD q c := by
  rw [evalD_times p q c hp]
  cases h1 : Poly.eval? p c with
  | none =>
    rw [eval?_none_evalD h1]
    exact o_plus_inf_left _
  | some a =>
    cases h2 : Poly.eval? q c with
    | none =>
      rw [eval?_none_evalD h2]
      exact o_plus_inf_right _
    | some b =>
      rw [eval?_some_evalD h1, eval?_some_evalD h2]
      exact times_plus_inf a b

/-! ## Folding `Poly.add` -/

theorem foldl_add_spec {α : Type} (l : List α) (f : α → Poly) (init : Poly) (c : Choice)
    (hinit : init.WF = true) (hf : ∀ x ∈ l, (f x).WF = true) :
    (l.foldl (fun t x => Poly.add t (f x)) init).WF = true ∧
    Poly.evalD (l.foldl (fun t x => Poly.add t (f x)) init) c
      = Poly.evalD init c + sumScalars (l.map fun x => Poly.evalD (f x) c) := by
  induction l generalizing init with
  | nil => exact ⟨hinit, (sum_zero_right _).symm⟩
  | cons a t ih =>
    have ha := hf a (List.mem_cons_self ..)
    have := ih (Poly.add init (f a)) (WF_add _ _ hinit ha)
      (fun x hx => hf x (List.mem_cons_of_mem _ hx))
    refine ⟨this.1, ?_⟩
    rw [List.foldl_cons, this.2, evalD_add _ _ c hinit ha, List.map_cons, sumScalars_cons, sum_assoc]

/-! ## Indexing -/

theorem getD_map_range {α : Type} (n : Nat) (f : Nat → α) (i : Nat) (hi : i < n) (d : α) :
    ((List.range n).map f).getD i d = f i := by
  simp [List.getD, hi]

theorem Matrix.get_tabulate (n m : Nat) (f : Nat → Nat → Poly) (i j : Nat) (hi : i < n) (hj : j < m) :
    Matrix.get ((List.range n).map fun i => (List.range m).map fun j => f i j) i j = f i j := by
  unfold Matrix.get
  rw [getD_map_range n _ i hi, getD_map_range m _ j hj]

/-- `l.map f` through indices -/
theorem map_eq_map_range_getD {α β : Type} (l : List α) (d : α) (f : α → β) :
    l.map f = (List.range l.length).map fun k => f (l.getD k d) := by
  apply List.ext_getElem
  · simp
  · intro i h1 h2
    simp only [List.length_map] at h1
    simp [List.getD, h1]

theorem getD_mem {α : Type} (l : List α) (i : Nat) (d : α) (hi : i < l.length) : l.getD i d ∈ l := by
  simp only [List.getD, List.getElem?_eq_getElem hi, Option.getD_some]
  exact List.getElem_mem hi

theorem getD_of_le {α : Type} (l : List α) (i : Nat) (d : α) (h : l.length ≤ i) : l.getD i d = d := by
  rw [List.getD, List.getElem?_eq_none h]; rfl

/-- every cell of a matrix of well-formed polynomials is well formed (also out of range) -/
theorem Matrix.get_wf (a : Matrix) (hwa : ∀ row ∈ a, ∀ p ∈ row, Poly.WF p = true) (i j : Nat) :
    Poly.WF (Matrix.get a i j) = true := by
  unfold Matrix.get
  by_cases hi : i < a.length
  · by_cases hj : j < (a.getD i []).length
    · exact hwa _ (getD_mem a i [] hi) _ (getD_mem _ j _ hj)
    · rw [getD_of_le _ j _ (by omega)]; exact WF_zero
  · rw [getD_of_le a i _ (by omega)]; exact WF_zero

/-! ## `Matrix.sum` -/

theorem Matrix.sum_length (a b : Matrix) : (Matrix.sum a b).length = a.length := by
  simp [Matrix.sum]

theorem Matrix.sum_row_length (a b : Matrix) : ∀ row ∈ Matrix.sum a b, row.length = a.length := by
  intro row h
  simp only [Matrix.sum, List.mem_map] at h
  obtain ⟨i, _, rfl⟩ := h
  simp

theorem Matrix.sum_cell_wf (a b : Matrix)
    (hwa : ∀ row ∈ a, ∀ p ∈ row, Poly.WF p = true) (hwb : ∀ row ∈ b, ∀ p ∈ row, Poly.WF p = true) :
    ∀ row ∈ Matrix.sum a b, ∀ p ∈ row, Poly.WF p = true := by
  intro row h p hp
  simp only [Matrix.sum, List.mem_map] at h
  obtain ⟨i, _, rfl⟩ := h
  simp only [List.mem_map] at hp
  obtain ⟨j, _, rfl⟩ := hp
  exact WF_add _ _ (Matrix.get_wf a hwa i j) (Matrix.get_wf b hwb i j)

/-- cell-level: matrix sum is the pointwise semiring sum -/
theorem Matrix.sum_eval (a b : Matrix) (n : Nat) (ha : a.length = n) (_hb : b.length = n)
    (_hra : ∀ row ∈ a, row.length = n) (_hrb : ∀ row ∈ b, row.length = n)
    (hwa : ∀ row ∈ a, ∀ p ∈ row, Poly.WF p = true) (hwb : ∀ row ∈ b, ∀ p ∈ row, Poly.WF p = true)
    (i j : Nat) (hi : i < n) (hj : j < n) (c : Choice) :
    (Matrix.get (Matrix.sum a b) i j).evalD c
      = (Matrix.get a i j).evalD c + (Matrix.get b i j).evalD c := by
  unfold Matrix.sum
  simp only [ha]
  rw [Matrix.get_tabulate n n _ i j hi hj]
  exact evalD_add _ _ c (Matrix.get_wf a hwa i j) (Matrix.get_wf b hwb i j)

/-! ## `Matrix.prod` -/

/-- the cell formula of `matrix_prod` -/
def Matrix.prodCell (a b : Matrix) (i j : Nat) : Poly :=
  Poly.add (Poly.add
    ((List.range a.length).foldl
      (fun total k => Poly.add total (Poly.times (Matrix.get a i k) (Matrix.get b k j))) Poly.zero)
    ((a.getD i []).foldl (fun t p => Poly.add t (Matrix.inftyPart p)) Poly.zero))
    (b.foldl (fun t row => Poly.add t (Matrix.inftyPart (row.getD j Poly.zero))) Poly.zero)

theorem Matrix.prod_eq (a b : Matrix) :
    Matrix.prod a b = (List.range a.length).map fun i => (List.range b.length).map fun j =>
      Matrix.prodCell a b i j := by
  unfold Matrix.prod Matrix.prodCell
  simp only
  apply List.map_congr_left
  intro i hi
  apply List.map_congr_left
  intro j hj
  have hi' : i < a.length := List.mem_range.1 hi
  have hj' : j < b.length := List.mem_range.1 hj
  congr 2
  · simp [List.getD, hi']
  · rw [getD_map_range _ _ j hj']

theorem Matrix.prod_length (a b : Matrix) : (Matrix.prod a b).length = a.length := by
  simp [Matrix.prod_eq]

theorem Matrix.prod_row_length (a b : Matrix) :
    ∀ row ∈ Matrix.prod a b, row.length = b.length := by
  intro row h
  rw [Matrix.prod_eq] at h
  simp only [List.mem_map] at h
  obtain ⟨i, _, rfl⟩ := h
  simp

theorem Matrix.getD_row_wf (a : Matrix) (hwa : ∀ row ∈ a, ∀ p ∈ row, Poly.WF p = true) (i : Nat) :
    ∀ p ∈ a.getD i [], Poly.WF p = true := by
  intro p hp
  by_cases hi : i < a.length
  · exact hwa _ (getD_mem a i [] hi) p hp
  · rw [getD_of_le a i _ (by omega)] at hp; cases hp

theorem Matrix.getD_cell_wf (row : List Poly) (h : ∀ p ∈ row, Poly.WF p = true) (j : Nat) :
    Poly.WF (row.getD j Poly.zero) = true := by
  by_cases hj : j < row.length
  · exact h _ (getD_mem row j _ hj)
  · rw [getD_of_le row j _ (by omega)]; exact WF_zero

theorem Matrix.prodCell_spec (a b : Matrix)
    (hwa : ∀ row ∈ a, ∀ p ∈ row, Poly.WF p = true) (hwb : ∀ row ∈ b, ∀ p ∈ row, Poly.WF p = true)
    (i j : Nat) (c : Choice) :
    Poly.WF (Matrix.prodCell a b i j) = true ∧
    Poly.evalD (Matrix.prodCell a b i j) c =
      sumScalars ((List.range a.length).map fun k =>
        Poly.evalD (Poly.times (Matrix.get a i k) (Matrix.get b k j)) c)
      + sumScalars ((a.getD i []).map fun p => infOf (Poly.evalD p c))
      + sumScalars (b.map fun row => infOf (Poly.evalD (row.getD j Poly.zero) c)) := by
  have h1 := foldl_add_spec (List.range a.length)
    (fun k => Poly.times (Matrix.get a i k) (Matrix.get b k j)) Poly.zero c WF_zero
    (fun k _ => WF_times _ _ (Matrix.get_wf a hwa i k))
  have h2 := foldl_add_spec (a.getD i []) (fun p => Matrix.inftyPart p) Poly.zero c WF_zero
    (fun p hp => WF_inftyPart p (Matrix.getD_row_wf a hwa i p hp))
  have h3 := foldl_add_spec b (fun row => Matrix.inftyPart (row.getD j Poly.zero)) Poly.zero c WF_zero
    (fun row hr => WF_inftyPart _ (Matrix.getD_cell_wf row (hwb row hr) j))
  unfold Matrix.prodCell
  refine ⟨WF_add _ _ (WF_add _ _ h1.1 h2.1) h3.1, ?_⟩
  rw [evalD_add _ _ c (WF_add _ _ h1.1 h2.1) h3.1, evalD_add _ _ c h1.1 h2.1, h1.2, h2.2, h3.2,
    evalD_zero, sum_zero_left, sum_zero_left, sum_zero_left]
  congr 1
  · congr 1
    apply sumScalars_map_congr
    intro p hp
    exact evalD_inftyPart p (Matrix.getD_row_wf a hwa i p hp) c
  · apply sumScalars_map_congr
    intro row hr
    exact evalD_inftyPart _ (Matrix.getD_cell_wf row (hwb row hr) j) c

theorem Matrix.prod_cell_wf (a b : Matrix)
    (hwa : ∀ row ∈ a, ∀ p ∈ row, Poly.WF p = true) (hwb : ∀ row ∈ b, ∀ p ∈ row, Poly.WF p = true) :
    ∀ row ∈ Matrix.prod a b, ∀ p ∈ row, Poly.WF p = true := by
  intro row h p hp
  rw [Matrix.prod_eq] at h
  simp only [List.mem_map] at h
  obtain ⟨i, _, rfl⟩ := h
  simp only [List.mem_map] at hp
  obtain ⟨j, _, rfl⟩ := hp
  exact (Matrix.prodCell_spec a b hwa hwb i j []).1

/-- cell-level: matrix product is EXACTLY the semiring matrix product at every choice
    (including 0 × ∞ = ∞: the row/column ∞-parts added by `prod` restore what `Poly.times`
    drops) -/
theorem Matrix.prod_eval (a b : Matrix) (n : Nat) (ha : a.length = n) (hb : b.length = n)
    (hra : ∀ row ∈ a, row.length = n) (_hrb : ∀ row ∈ b, row.length = n)
    (hwa : ∀ row ∈ a, ∀ p ∈ row, Poly.WF p = true) (hwb : ∀ row ∈ b, ∀ p ∈ row, Poly.WF p = true)
    (i j : Nat) (hi : i < n) (hj : j < n) (c : Choice) :
    (Matrix.get (Matrix.prod a b) i j).evalD c
      = sumScalars ((List.range n).map fun k =>
          (Matrix.get a i k).evalD c * (Matrix.get b k j).evalD c) := by
  rw [Matrix.prod_eq, Matrix.get_tabulate a.length b.length _ i j (ha ▸ hi) (hb ▸ hj),
    (Matrix.prodCell_spec a b hwa hwb i j c).2]
  have hrow : (a.getD i []).length = n := hra _ (getD_mem a i [] (ha ▸ hi))
  rw [map_eq_map_range_getD (a.getD i []) Poly.zero, map_eq_map_range_getD b [], hrow, ha, hb,
    ← sumScalars_map_add, ← sumScalars_map_add]
  apply sumScalars_map_congr
  intro k _
  exact times_cell _ _ c (Matrix.get_wf a hwa i k)

end Mwp
