/-
  The two modes of the analysis.  The early-exit mode (`stop = true`, `compute false …`) only cuts
  the computation short: as long as no exit happens, what `compute_relation` returns does not depend
  on the mode nor on the delta graph (`compute_indep_of_no_exit`), the run to completion never
  exits (`compute_complete_no_exit`), hence a finite early-exit result of `func` is the result of
  the run to completion (`finite_result_same_in_both_modes`, no side condition).  The converse
  needs the calculus (`finite_result_same_in_both_modes_conv`, under `FuncOk`).
-/
import Mwp.Lemmas.FuncRefine
namespace Mwp
namespace ModeIndep
open Analysis RelFix

/-- constructors whose analysis recurses into sub-statements -/
def isRecM : Node → Bool
  | .while_ .. => true
  | .doWhile .. => true
  | .for_ .. => true
  | .compound (some _) => true
  | .ifs .. => true
  | .label .. => true
  | .exprList _ => true
  | .cast _ => true
  | _ => false

def reDg (dg : DG.Graph) (o : Analysis.Out) : Analysis.Out := { o with dg := dg }

/-- on a statement without sub-statements the analysis neither reads the mode nor the delta graph -/
theorem leaf_compute (n : Node) (h : isRecM n = false) (q q' : Bool) (idx : Nat) (dg dg' : DG.Graph) :
    Analysis.compute q idx dg n = (Analysis.compute q' idx dg' n).map (reDg dg) := by
  cases n <;> first | (simp [isRecM] at h; done) | skip
  all_goals first
    | (simp [Analysis.compute, Except.map, reDg, skip, pure, Except.pure]; done)
    | skip
  · -- op e;
    rename_i op e
    rw [Analysis.compute, Analysis.compute]
    split
    · cases incDecParts op e with
      | error e => rfl
      | ok p =>
        obtain ⟨nm, bop⟩ := p
        simp only [bind, Except.bind]
        cases binaryOp idx nm bop (.id nm) (.const "int" "1") with
        | error e => rfl
        | ok p2 => rfl
    · rfl
  · -- assignments
    rename_i op l r
    cases l <;> first
      | (simp [Analysis.compute, Except.map, reDg, skip, pure, Except.pure]; done)
      | skip
    rename_i x
    rw [Analysis.compute, Analysis.compute]
    split
    · rename_i bop l' rr _
      simp only [bind, Except.bind]
      cases binaryOp idx x bop l' rr with
      | error e => rfl
      | ok p2 => rfl
    · rfl
    · rename_i uop e _
      simp only [bind, Except.bind]
      cases unaryAsgn idx x uop e with
      | error e => rfl
      | ok p2 =>
        cases p2 with
        | none => rfl
        | some p3 => rfl
    · rename_i y _
      simp only [bind, Except.bind]
      cases idAsgn x y with
      | error e => rfl
      | ok p2 => rfl
    · rfl
  · -- calls
    rw [Analysis.compute, Analysis.compute]
    split <;> rfl
  · rename_i items
    cases items with
    | none => rw [Analysis.compute, Analysis.compute]; rfl
    | some l => simp [isRecM] at h

/-! ## the corrections: the relation they return does not depend on the delta graph -/

theorem foldlM_fst_indep {σ γ α : Type} (step : σ × γ → α → M (σ × γ))
    (hstep : ∀ s g1 g2 a r1 r2, step (s, g1) a = .ok r1 → step (s, g2) a = .ok r2 → r1.1 = r2.1) :
    ∀ (l : List α) (s : σ) (g1 g2 : γ) (r1 r2 : σ × γ),
      l.foldlM step (s, g1) = .ok r1 → l.foldlM step (s, g2) = .ok r2 → r1.1 = r2.1 := by
  intro l
  induction l with
  | nil =>
    intro s g1 g2 r1 r2 h1 h2
    simp only [List.foldlM_nil, pure, Except.pure, Except.ok.injEq] at h1 h2
    rw [← h1, ← h2]
  | cons a t ih =>
    intro s g1 g2 r1 r2 h1 h2
    rw [List.foldlM_cons] at h1 h2
    obtain ⟨m1, e1, f1⟩ := bind_ok h1
    obtain ⟨m2, e2, f2⟩ := bind_ok h2
    have := hstep s g1 g2 a m1 m2 e1 e2
    obtain ⟨s1, g1'⟩ := m1
    obtain ⟨s2, g2'⟩ := m2
    simp only at this
    subst this
    exact ih s1 g1' g2' r1 r2 f1 f2

theorem whileCorrection_indep (r : Relation) (g1 g2 : DG.Graph) (p1 p2 : Relation × DG.Graph)
    (h1 : r.whileCorrection g1 = .ok p1) (h2 : r.whileCorrection g2 = .ok p2) : p1.1 = p2.1 := by
  obtain ⟨a1, b1⟩ := p1
  obtain ⟨a2, b2⟩ := p2
  rw [(whileCorrection_spec r a1 g1 b1 h1).1, (whileCorrection_spec r a2 g2 b2 h2).1]

theorem loopStep_indep (ell : Nat) (mat : Matrix) (g1 g2 : DG.Graph) (ij : Nat × Nat)
    (r1 r2 : Matrix × DG.Graph) (h1 : loopStep ell (mat, g1) ij = .ok r1)
    (h2 : loopStep ell (mat, g2) ij = .ok r2) : r1.1 = r2.1 := by
  obtain ⟨i, j⟩ := ij
  unfold loopStep at h1 h2
  dsimp only at h1 h2
  obtain ⟨⟨p1, e1, k1⟩, a1, b1⟩ := bind_ok h1
  obtain ⟨⟨p2, e2, k2⟩, a2, b2⟩ := bind_ok h2
  dsimp only at b1 b2
  obtain ⟨s1, s2, _⟩ := loopFixCell_spec _ _ _ _ _ a1
  obtain ⟨t1, t2, _⟩ := loopFixCell_spec _ _ _ _ _ a2
  simp only at s1 s2 t1 t2
  cases b1
  cases b2
  simp only [s1, s2, t1, t2]

theorem loopCorrection_indep (r : Relation) (x : String) (g1 g2 : DG.Graph) (p1 p2 : Relation × DG.Graph)
    (h1 : r.loopCorrection x g1 = .ok p1) (h2 : r.loopCorrection x g2 = .ok p2) : p1.1 = p2.1 := by
  rw [loopCorrection_eq] at h1 h2
  cases hx : r.vars.idxOf? x with
  | none => rw [hx] at h1; cases h1
  | some ell =>
    rw [hx] at h1 h2
    dsimp only at h1 h2
    obtain ⟨m1, e1, f1⟩ := bind_ok h1
    obtain ⟨m2, e2, f2⟩ := bind_ok h2
    have := foldlM_fst_indep (loopStep ell) (fun s k1 k2 a r1 r2 => loopStep_indep ell s k1 k2 a r1 r2)
      (loopCells r.mat) r.mat g1 g2 m1 m2 e1 e2
    obtain ⟨a1, b1⟩ := m1
    obtain ⟨a2, b2⟩ := m2
    simp only at this
    subst this
    cases f1
    cases f2
    rfl

theorem relList_whileCorrection_indep (a : RelList) (g1 g2 : DG.Graph) (p1 p2 : RelList × DG.Graph)
    (h1 : RelList.whileCorrection a g1 = .ok p1) (h2 : RelList.whileCorrection a g2 = .ok p2) :
    p1.1 = p2.1 := by
  unfold RelList.whileCorrection at h1 h2
  refine foldlM_fst_indep (fun (st : RelList × DG.Graph) (r : Relation) => do
      let (r', g') ← r.whileCorrection st.2
      pure (st.1 ++ [r'], g')) ?_ a [] g1 g2 p1 p2 h1 h2
  intro s k1 k2 r r1 r2 e1 e2
  dsimp only at e1 e2
  obtain ⟨m1, c1, d1⟩ := bind_ok e1
  obtain ⟨m2, c2, d2⟩ := bind_ok e2
  have := whileCorrection_indep r k1 k2 m1 m2 c1 c2
  cases d1
  cases d2
  simp only [this]

theorem relList_loopCorrection_indep (a : RelList) (x : String) (g1 g2 : DG.Graph)
    (p1 p2 : RelList × DG.Graph)
    (h1 : RelList.loopCorrection a x g1 = .ok p1) (h2 : RelList.loopCorrection a x g2 = .ok p2) :
    p1.1 = p2.1 := by
  unfold RelList.loopCorrection at h1 h2
  refine foldlM_fst_indep (fun (st : RelList × DG.Graph) (r : Relation) => do
      let (r', g') ← r.loopCorrection x st.2
      pure (st.1 ++ [r'], g')) ?_ a [] g1 g2 p1 p2 h1 h2
  intro s k1 k2 r r1 r2 e1 e2
  dsimp only at e1 e2
  obtain ⟨m1, c1, d1⟩ := bind_ok e1
  obtain ⟨m2, c2, d2⟩ := bind_ok e2
  have := loopCorrection_indep r x k1 k2 m1 m2 c1 c2
  cases d1
  cases d2
  simp only [this]

/-! ## the loop finishers -/

/-- what the two modes must agree on -/
structure Same (o1 o2 : Analysis.Out) : Prop where
  rels : o1.rels = o2.rels
  index : o1.index = o2.index
  skipped : o1.skipped = o2.skipped

theorem whileFinish_inv' {q : Bool} {rb o : Analysis.Out} (h : whileFinish q rb = .ok o)
    (he : rb.exit = false) :
    ∃ f a g g', RelList.fixpoint (RelList.composition RelList.empty rb.rels) = .ok f ∧
      RelList.whileCorrection f g = .ok (a, g') ∧ o.rels = a ∧ o.index = rb.index ∧
      o.skipped = rb.skipped ∧ (q = true → o.exit = false) := by
  unfold whileFinish at h
  rw [he] at h
  simp only [Bool.false_eq_true, if_false] at h
  obtain ⟨f, hf, h⟩ := bind_ok h
  cases q with
  | true =>
    simp only [if_true] at h
    obtain ⟨⟨a, g'⟩, hw, h⟩ := bind_ok h
    cases h
    exact ⟨f, a, [], g', hf, hw, rfl, rfl, rfl, fun _ => rfl⟩
  | false =>
    simp only [Bool.false_eq_true, if_false] at h
    obtain ⟨⟨a, g'⟩, hw, h⟩ := bind_ok h
    dsimp only at h
    obtain ⟨g'', _, h⟩ := bind_ok h
    cases h
    exact ⟨f, a, rb.dg, g', hf, hw, rfl, rfl, rfl, fun hq => by cases hq⟩

theorem forFinish_inv' {q : Bool} {x : String} {rb o : Analysis.Out} (h : forFinish q x rb = .ok o)
    (he : rb.exit = false) :
    ∃ f a g g', RelList.fixpoint (RelList.composition (RelList.ofVars [x]) rb.rels) = .ok f ∧
      RelList.loopCorrection f x g = .ok (a, g') ∧ o.rels = a ∧ o.index = rb.index ∧
      o.skipped = rb.skipped ∧ (q = true → o.exit = false) := by
  unfold forFinish at h
  rw [he] at h
  simp only [Bool.false_eq_true, if_false] at h
  obtain ⟨f, hf, h⟩ := bind_ok h
  cases q with
  | true =>
    simp only [if_true] at h
    obtain ⟨⟨a, g'⟩, hw, h⟩ := bind_ok h
    cases h
    exact ⟨f, a, [], g', hf, hw, rfl, rfl, rfl, fun _ => rfl⟩
  | false =>
    simp only [Bool.false_eq_true, if_false] at h
    obtain ⟨⟨a, g'⟩, hw, h⟩ := bind_ok h
    dsimp only at h
    obtain ⟨g'', _, h⟩ := bind_ok h
    cases h
    exact ⟨f, a, rb.dg, g', hf, hw, rfl, rfl, rfl, fun hq => by cases hq⟩

theorem whileFinish_exit_of {q : Bool} {rb o : Analysis.Out} (h : whileFinish q rb = .ok o)
    (he : rb.exit = true) : o = rb := by
  unfold whileFinish at h
  rw [he] at h
  simp only [if_true] at h
  cases h; rfl

theorem forFinish_exit_of {q : Bool} {x : String} {rb o : Analysis.Out} (h : forFinish q x rb = .ok o)
    (he : rb.exit = true) : o = rb := by
  unfold forFinish at h
  rw [he] at h
  simp only [if_true] at h
  cases h; rfl

theorem whileFinish_same {q1 q2 : Bool} {rb1 rb2 o1 o2 : Analysis.Out} (hs : Same rb1 rb2)
    (e1 : rb1.exit = false) (e2 : rb2.exit = false)
    (h1 : whileFinish q1 rb1 = .ok o1) (h2 : whileFinish q2 rb2 = .ok o2) : Same o1 o2 := by
  obtain ⟨f1, a1, g1, g1', hf1, hw1, r1, i1, s1, _⟩ := whileFinish_inv' h1 e1
  obtain ⟨f2, a2, g2, g2', hf2, hw2, r2, i2, s2, _⟩ := whileFinish_inv' h2 e2
  rw [hs.rels, hf2] at hf1
  cases hf1
  have := relList_whileCorrection_indep f1 g1 g2 _ _ hw1 hw2
  simp only at this
  exact ⟨by rw [r1, r2, this], by rw [i1, i2, hs.index], by rw [s1, s2, hs.skipped]⟩

theorem forFinish_same {q1 q2 : Bool} {x : String} {rb1 rb2 o1 o2 : Analysis.Out} (hs : Same rb1 rb2)
    (e1 : rb1.exit = false) (e2 : rb2.exit = false)
    (h1 : forFinish q1 x rb1 = .ok o1) (h2 : forFinish q2 x rb2 = .ok o2) : Same o1 o2 := by
  obtain ⟨f1, a1, g1, g1', hf1, hw1, r1, i1, s1, _⟩ := forFinish_inv' h1 e1
  obtain ⟨f2, a2, g2, g2', hf2, hw2, r2, i2, s2, _⟩ := forFinish_inv' h2 e2
  rw [hs.rels, hf2] at hf1
  cases hf1
  have := relList_loopCorrection_indep f1 x g1 g2 _ _ hw1 hw2
  simp only at this
  exact ⟨by rw [r1, r2, this], by rw [i1, i2, hs.index], by rw [s1, s2, hs.skipped]⟩

/-! ## statements -/

/-- two runs of the analysis on the same statement from the same index that do not exit early
    agree on everything but the delta graph; and run to completion never exits early -/
def NodeP (n : Node) : Prop :=
  (∀ (q1 q2 : Bool) (idx : Nat) (dg1 dg2 : DG.Graph) (o1 o2 : Analysis.Out),
    compute q1 idx dg1 n = .ok o1 → compute q2 idx dg2 n = .ok o2 →
    o1.exit = false → o2.exit = false → Same o1 o2) ∧
  (∀ (idx : Nat) (dg : DG.Graph) (o : Analysis.Out), compute true idx dg n = .ok o → o.exit = false)

theorem leaf_P (n : Node) (h : isRecM n = false) : NodeP n := by
  constructor
  · intro q1 q2 idx dg1 dg2 o1 o2 h1 h2 _ _
    rw [leaf_compute n h q1 q2 idx dg1 dg2, h2] at h1
    cases h1
    exact ⟨rfl, rfl, rfl⟩
  · intro idx dg o ho
    -- compare with the analysis of the empty statement's shape: every leaf returns `exit = false`
    cases n <;> first | (simp [isRecM] at h; done) | skip
    all_goals first
      | (simp only [compute, skip, pure, Except.pure, Except.ok.injEq] at ho; rw [← ho])
      | skip
    · rename_i op e
      rw [compute] at ho
      split at ho
      · obtain ⟨p, _, ho⟩ := bind_ok ho
        obtain ⟨p2, _, ho⟩ := bind_ok ho
        cases ho; rfl
      · cases ho; rfl
    · rename_i op l r
      cases l <;> first
        | (simp only [compute, skip, pure, Except.pure, Except.ok.injEq] at ho; rw [← ho])
        | skip
      rw [compute] at ho
      split at ho
      · obtain ⟨p, _, ho⟩ := bind_ok ho
        cases ho; rfl
      · cases ho; rfl
      · obtain ⟨p, _, ho⟩ := bind_ok ho
        split at ho <;> (cases ho; rfl)
      · obtain ⟨p, _, ho⟩ := bind_ok ho
        cases ho; rfl
      · cases ho; rfl
    · rw [compute] at ho
      split at ho <;> (cases ho; rfl)
    · rename_i items
      cases items with
      | none => rw [compute] at ho; cases ho; rfl
      | some l => simp [isRecM] at h

theorem computeList_same (l : List Node) (IH : ∀ n ∈ l, NodeP n) :
    ∀ (q1 q2 : Bool) (idx : Nat) (dg1 dg2 : DG.Graph) (acc : RelList) (sk : List String)
      (o1 o2 : Analysis.Out),
      computeList q1 idx dg1 acc sk l = .ok o1 → computeList q2 idx dg2 acc sk l = .ok o2 →
      o1.exit = false → o2.exit = false → Same o1 o2 := by
  induction l with
  | nil =>
    intro q1 q2 idx dg1 dg2 acc sk o1 o2 h1 h2 _ _
    rw [computeList] at h1 h2
    cases h1; cases h2
    exact ⟨rfl, rfl, rfl⟩
  | cons n ns ih =>
    intro q1 q2 idx dg1 dg2 acc sk o1 o2 h1 h2 e1 e2
    rw [computeList] at h1 h2
    obtain ⟨r1, c1, h1⟩ := bind_ok h1
    obtain ⟨r2, c2, h2⟩ := bind_ok h2
    dsimp only at h1 h2
    cases x1 : r1.exit with
    | true => rw [x1] at h1; simp only [if_true] at h1; cases h1; cases e1
    | false =>
      cases x2 : r2.exit with
      | true => rw [x2] at h2; simp only [if_true] at h2; cases h2; cases e2
      | false =>
        rw [x1] at h1
        rw [x2] at h2
        simp only [Bool.false_eq_true, if_false] at h1 h2
        have S := (IH n (List.mem_cons_self ..)).1 q1 q2 idx dg1 dg2 r1 r2 c1 c2 x1 x2
        rw [S.rels, S.index, S.skipped] at h1
        exact ih (fun m hm => IH m (List.mem_cons_of_mem _ hm)) q1 q2 _ _ _ _ _ o1 o2 h1 h2 e1 e2

theorem computeList_noexit (l : List Node) (IH : ∀ n ∈ l, NodeP n) :
    ∀ (idx : Nat) (dg : DG.Graph) (acc : RelList) (sk : List String) (o : Analysis.Out),
      computeList true idx dg acc sk l = .ok o → o.exit = false := by
  induction l with
  | nil =>
    intro idx dg acc sk o h
    rw [computeList] at h
    cases h; rfl
  | cons n ns ih =>
    intro idx dg acc sk o h
    rw [computeList] at h
    obtain ⟨r, c, h⟩ := bind_ok h
    rw [(IH n (List.mem_cons_self ..)).2 idx dg r c] at h
    simp only [Bool.false_eq_true, if_false] at h
    exact ih (fun m hm => IH m (List.mem_cons_of_mem _ hm)) _ _ _ _ o h

theorem branchList_same (l : List Node) (IH : ∀ n ∈ l, NodeP n) :
    ∀ (q1 q2 : Bool) (idx : Nat) (dg1 dg2 : DG.Graph) (acc : RelList) (sk : List String)
      (o1 o2 : Analysis.Out),
      branchList q1 idx dg1 acc sk l = .ok o1 → branchList q2 idx dg2 acc sk l = .ok o2 →
      o1.exit = false → o2.exit = false → Same o1 o2 := by
  induction l with
  | nil =>
    intro q1 q2 idx dg1 dg2 acc sk o1 o2 h1 h2 _ _
    rw [branchList] at h1 h2
    cases h1; cases h2
    exact ⟨rfl, rfl, rfl⟩
  | cons n ns ih =>
    intro q1 q2 idx dg1 dg2 acc sk o1 o2 h1 h2 e1 e2
    rw [branchList] at h1 h2
    obtain ⟨r1, c1, h1⟩ := bind_ok h1
    obtain ⟨r2, c2, h2⟩ := bind_ok h2
    cases x1 : r1.exit with
    | true => rw [x1] at h1; simp only [if_true] at h1; cases h1; cases e1
    | false =>
      cases x2 : r2.exit with
      | true => rw [x2] at h2; simp only [if_true] at h2; cases h2; cases e2
      | false =>
        rw [x1] at h1
        rw [x2] at h2
        simp only [Bool.false_eq_true, if_false] at h1 h2
        have S := (IH n (List.mem_cons_self ..)).1 q1 q2 idx dg1 dg2 r1 r2 c1 c2 x1 x2
        rw [S.rels, S.index, S.skipped] at h1
        exact ih (fun m hm => IH m (List.mem_cons_of_mem _ hm)) q1 q2 _ _ _ _ _ o1 o2 h1 h2 e1 e2

theorem branchList_noexit (l : List Node) (IH : ∀ n ∈ l, NodeP n) :
    ∀ (idx : Nat) (dg : DG.Graph) (acc : RelList) (sk : List String) (o : Analysis.Out),
      branchList true idx dg acc sk l = .ok o → o.exit = false := by
  induction l with
  | nil =>
    intro idx dg acc sk o h
    rw [branchList] at h
    cases h; rfl
  | cons n ns ih =>
    intro idx dg acc sk o h
    rw [branchList] at h
    obtain ⟨r, c, h⟩ := bind_ok h
    rw [(IH n (List.mem_cons_self ..)).2 idx dg r c] at h
    simp only [Bool.false_eq_true, if_false] at h
    exact ih (fun m hm => IH m (List.mem_cons_of_mem _ hm)) _ _ _ _ o h

theorem sizeOf_mem_lt4 {l : List Node} {n : Node} (h : n ∈ l) : sizeOf n < sizeOf l :=
  List.sizeOf_lt_of_mem h

theorem branch_P (o : Option Node) (IH : ∀ n : Node, sizeOf n < sizeOf o → NodeP n) :
    (∀ (q1 q2 : Bool) (idx : Nat) (dg1 dg2 : DG.Graph) (o1 o2 : Analysis.Out),
      branch q1 idx dg1 o = .ok o1 → branch q2 idx dg2 o = .ok o2 →
      o1.exit = false → o2.exit = false → Same o1 o2) ∧
    (∀ (idx : Nat) (dg : DG.Graph) (r : Analysis.Out), branch true idx dg o = .ok r → r.exit = false) := by
  cases o with
  | none =>
    constructor
    · intro q1 q2 idx dg1 dg2 o1 o2 h1 h2 _ _
      rw [branch] at h1 h2
      cases h1; cases h2
      exact ⟨rfl, rfl, rfl⟩
    · intro idx dg r h; rw [branch] at h; cases h; rfl
  | some n =>
    by_cases hcomp : ∃ items, n = .compound items
    · obtain ⟨items, rfl⟩ := hcomp
      cases items with
      | none =>
        constructor
        · intro q1 q2 idx dg1 dg2 o1 o2 h1 h2 _ _
          rw [branch] at h1 h2
          cases h1; cases h2
          exact ⟨rfl, rfl, rfl⟩
        · intro idx dg r h; rw [branch] at h; cases h; rfl
      | some l =>
        have IHl : ∀ m ∈ l, NodeP m := fun m hm => IH m (by
          have := sizeOf_mem_lt4 hm
          simp only [Option.some.sizeOf_spec, Node.compound.sizeOf_spec]
          omega)
        constructor
        · intro q1 q2 idx dg1 dg2 o1 o2 h1 h2 e1 e2
          rw [branch] at h1 h2
          exact branchList_same l IHl q1 q2 idx dg1 dg2 _ _ o1 o2 h1 h2 e1 e2
        · intro idx dg r h
          rw [branch] at h
          exact branchList_noexit l IHl idx dg _ _ r h
    · have Pn := IH n (by simp only [Option.some.sizeOf_spec]; omega)
      constructor
      · intro q1 q2 idx dg1 dg2 o1 o2 h1 h2 e1 e2
        rw [branch.eq_4 q1 idx dg1 n (fun e => hcomp ⟨_, e⟩) (fun l e => hcomp ⟨_, e⟩)] at h1
        rw [branch.eq_4 q2 idx dg2 n (fun e => hcomp ⟨_, e⟩) (fun l e => hcomp ⟨_, e⟩)] at h2
        obtain ⟨r1, c1, h1⟩ := bind_ok h1
        obtain ⟨r2, c2, h2⟩ := bind_ok h2
        cases x1 : r1.exit with
        | true => rw [x1] at h1; simp only [if_true] at h1; cases h1; cases e1
        | false =>
          cases x2 : r2.exit with
          | true => rw [x2] at h2; simp only [if_true] at h2; cases h2; cases e2
          | false =>
            rw [x1] at h1
            rw [x2] at h2
            simp only [Bool.false_eq_true, if_false] at h1 h2
            have S := Pn.1 q1 q2 idx dg1 dg2 r1 r2 c1 c2 x1 x2
            cases h1; cases h2
            exact ⟨by simp only [S.rels], S.index, S.skipped⟩
      · intro idx dg r h
        rw [branch.eq_4 true idx dg n (fun e => hcomp ⟨_, e⟩) (fun l e => hcomp ⟨_, e⟩)] at h
        obtain ⟨r1, c1, h⟩ := bind_ok h
        rw [Pn.2 idx dg r1 c1] at h
        simp only [Bool.false_eq_true, if_false] at h
        cases h; rfl

theorem PL_of_lt {l : List Node} {N : Nat} (ih : ∀ n : Node, sizeOf n < N → NodeP n)
    (h : sizeOf l < N) : ∀ n ∈ l, NodeP n :=
  fun n hn => ih n (Nat.lt_trans (sizeOf_mem_lt4 hn) h)

theorem nodeP_aux (N : Nat) : ∀ node : Node, sizeOf node < N → NodeP node := by
  induction N with
  | zero => intro node h; omega
  | succ N ih =>
    intro node hsz
    by_cases hrec : isRecM node = false
    · exact leaf_P node hrec
    cases node <;> first | (exfalso; exact hrec rfl) | skip
    · -- (T) e;
      rename_i e
      have Pe := ih e (by simp only [Node.cast.sizeOf_spec] at hsz; omega)
      constructor
      · intro q1 q2 idx dg1 dg2 o1 o2 h1 h2 e1 e2
        rw [compute] at h1 h2
        exact Pe.1 q1 q2 idx dg1 dg2 o1 o2 h1 h2 e1 e2
      · intro idx dg o h; rw [compute] at h; exact Pe.2 idx dg o h
    · -- e1, e2
      rename_i es
      have IHl := PL_of_lt ih (l := es) (by simp only [Node.exprList.sizeOf_spec] at hsz; omega)
      constructor
      · intro q1 q2 idx dg1 dg2 o1 o2 h1 h2 e1 e2
        rw [compute] at h1 h2
        exact computeList_same es IHl q1 q2 idx dg1 dg2 _ _ o1 o2 h1 h2 e1 e2
      · intro idx dg o h; rw [compute] at h; exact computeList_noexit es IHl idx dg _ _ o h
    · -- { l }
      rename_i items
      cases items with
      | none => exact absurd rfl hrec
      | some l =>
        have IHl := PL_of_lt ih (l := l) (by
          simp only [Node.compound.sizeOf_spec, Option.some.sizeOf_spec] at hsz; omega)
        constructor
        · intro q1 q2 idx dg1 dg2 o1 o2 h1 h2 e1 e2
          rw [compute] at h1 h2
          exact computeList_same l IHl q1 q2 idx dg1 dg2 _ _ o1 o2 h1 h2 e1 e2
        · intro idx dg o h; rw [compute] at h; exact computeList_noexit l IHl idx dg _ _ o h
    · -- if
      rename_i cond t f
      have hst : sizeOf t < N := by simp only [Node.ifs.sizeOf_spec] at hsz; omega
      have hsf : sizeOf f < N := by simp only [Node.ifs.sizeOf_spec] at hsz; omega
      have Pt := branch_P t (fun n hn => ih n (by omega))
      have Pf := branch_P f (fun n hn => ih n (by omega))
      constructor
      · intro q1 q2 idx dg1 dg2 o1 o2 h1 h2 e1 e2
        rw [compute] at h1 h2
        obtain ⟨t1, c1, h1⟩ := bind_ok h1
        obtain ⟨t2, c2, h2⟩ := bind_ok h2
        cases x1 : t1.exit with
        | true => rw [x1] at h1; simp only [if_true] at h1; cases h1; rw [x1] at e1; cases e1
        | false =>
          cases x2 : t2.exit with
          | true => rw [x2] at h2; simp only [if_true] at h2; cases h2; rw [x2] at e2; cases e2
          | false =>
            rw [x1] at h1
            rw [x2] at h2
            simp only [Bool.false_eq_true, if_false] at h1 h2
            obtain ⟨f1, d1, h1⟩ := bind_ok h1
            obtain ⟨f2, d2, h2⟩ := bind_ok h2
            have St := Pt.1 q1 q2 idx dg1 dg2 t1 t2 c1 c2 x1 x2
            cases y1 : f1.exit with
            | true => rw [y1] at h1; simp only [if_true] at h1; cases h1; cases e1
            | false =>
              cases y2 : f2.exit with
              | true => rw [y2] at h2; simp only [if_true] at h2; cases h2; cases e2
              | false =>
                rw [y1] at h1
                rw [y2] at h2
                simp only [Bool.false_eq_true, if_false] at h1 h2
                rw [St.index] at d1
                have Sf := Pf.1 q1 q2 t2.index t1.dg t2.dg f1 f2 d1 d2 y1 y2
                cases h1; cases h2
                exact ⟨by simp only [Sf.rels, St.rels], Sf.index, by simp only [St.skipped, Sf.skipped]⟩
      · intro idx dg o h
        rw [compute] at h
        obtain ⟨t1, c1, h⟩ := bind_ok h
        rw [Pt.2 idx dg t1 c1] at h
        simp only [Bool.false_eq_true, if_false] at h
        obtain ⟨f1, d1, h⟩ := bind_ok h
        rw [Pf.2 _ _ f1 d1] at h
        simp only [Bool.false_eq_true, if_false] at h
        cases h; rfl
    · -- while
      rename_i cond b
      have Pb := ih b (by simp only [Node.while_.sizeOf_spec] at hsz; omega)
      constructor
      · intro q1 q2 idx dg1 dg2 o1 o2 h1 h2 e1 e2
        rw [compute] at h1 h2
        obtain ⟨b1, c1, h1⟩ := bind_ok h1
        obtain ⟨b2, c2, h2⟩ := bind_ok h2
        have x1 : b1.exit = false := by
          cases x : b1.exit with
          | false => rfl
          | true => rw [whileFinish_exit_of h1 x] at e1; rw [x] at e1; cases e1
        have x2 : b2.exit = false := by
          cases x : b2.exit with
          | false => rfl
          | true => rw [whileFinish_exit_of h2 x] at e2; rw [x] at e2; cases e2
        exact whileFinish_same (Pb.1 q1 q2 idx dg1 dg2 b1 b2 c1 c2 x1 x2) x1 x2 h1 h2
      · intro idx dg o h
        rw [compute] at h
        obtain ⟨b1, c1, h⟩ := bind_ok h
        obtain ⟨_, _, _, _, _, _, _, _, _, hq⟩ := whileFinish_inv' h (Pb.2 idx dg b1 c1)
        exact hq rfl
    · -- do-while
      rename_i cond b
      have Pb := ih b (by simp only [Node.doWhile.sizeOf_spec] at hsz; omega)
      constructor
      · intro q1 q2 idx dg1 dg2 o1 o2 h1 h2 e1 e2
        rw [compute] at h1 h2
        obtain ⟨b1, c1, h1⟩ := bind_ok h1
        obtain ⟨b2, c2, h2⟩ := bind_ok h2
        have x1 : b1.exit = false := by
          cases x : b1.exit with
          | false => rfl
          | true => rw [whileFinish_exit_of h1 x] at e1; rw [x] at e1; cases e1
        have x2 : b2.exit = false := by
          cases x : b2.exit with
          | false => rfl
          | true => rw [whileFinish_exit_of h2 x] at e2; rw [x] at e2; cases e2
        exact whileFinish_same (Pb.1 q1 q2 idx dg1 dg2 b1 b2 c1 c2 x1 x2) x1 x2 h1 h2
      · intro idx dg o h
        rw [compute] at h
        obtain ⟨b1, c1, h⟩ := bind_ok h
        obtain ⟨_, _, _, _, _, _, _, _, _, hq⟩ := whileFinish_inv' h (Pb.2 idx dg b1 c1)
        exact hq rfl
    · -- for
      rename_i init cond next b
      have Pb := ih b (by simp only [Node.for_.sizeOf_spec] at hsz; omega)
      constructor
      · intro q1 q2 idx dg1 dg2 o1 o2 h1 h2 e1 e2
        rw [compute] at h1 h2
        cases hlc : Syntax.loopCompat (.for_ init cond next b) with
        | error e => rw [hlc] at h1; cases h1
        | ok p =>
          obtain ⟨comp, x⟩ := p
          rw [hlc] at h1 h2
          simp only [bind, Except.bind] at h1 h2
          cases comp with
          | false => cases h1; cases h2; exact ⟨rfl, rfl, rfl⟩
          | true =>
            cases x with
            | none => cases h1; cases h2; exact ⟨rfl, rfl, rfl⟩
            | some X =>
              simp only at h1 h2
              cases c1 : compute q1 idx dg1 b with
              | error e => rw [c1] at h1; cases h1
              | ok b1 =>
                cases c2 : compute q2 idx dg2 b with
                | error e => rw [c2] at h2; cases h2
                | ok b2 =>
                  rw [c1] at h1
                  rw [c2] at h2
                  simp only at h1 h2
                  have x1 : b1.exit = false := by
                    cases x : b1.exit with
                    | false => rfl
                    | true => rw [forFinish_exit_of h1 x] at e1; rw [x] at e1; cases e1
                  have x2 : b2.exit = false := by
                    cases x : b2.exit with
                    | false => rfl
                    | true => rw [forFinish_exit_of h2 x] at e2; rw [x] at e2; cases e2
                  exact forFinish_same (Pb.1 q1 q2 idx dg1 dg2 b1 b2 c1 c2 x1 x2) x1 x2 h1 h2
      · intro idx dg o h
        rw [compute] at h
        cases hlc : Syntax.loopCompat (.for_ init cond next b) with
        | error e => rw [hlc] at h; cases h
        | ok p =>
          obtain ⟨comp, x⟩ := p
          rw [hlc] at h
          simp only [bind, Except.bind] at h
          cases comp with
          | false => cases h; rfl
          | true =>
            cases x with
            | none => cases h; rfl
            | some X =>
              simp only at h
              cases c1 : compute true idx dg b with
              | error e => rw [c1] at h; cases h
              | ok b1 =>
                rw [c1] at h
                simp only at h
                obtain ⟨_, _, _, _, _, _, _, _, _, hq⟩ := forFinish_inv' h (Pb.2 idx dg b1 c1)
                exact hq rfl
    · -- label
      rename_i name st
      have Pe := ih st (by simp only [Node.label.sizeOf_spec] at hsz; omega)
      constructor
      · intro q1 q2 idx dg1 dg2 o1 o2 h1 h2 e1 e2
        rw [compute] at h1 h2
        exact Pe.1 q1 q2 idx dg1 dg2 o1 o2 h1 h2 e1 e2
      · intro idx dg o h; rw [compute] at h; exact Pe.2 idx dg o h

theorem nodeP (node : Node) : NodeP node := nodeP_aux (sizeOf node + 1) node (Nat.lt_succ_self _)

/-! ## `cmds` and `func` -/

theorem go_same (l : List Node) :
    ∀ (rels : RelList) (idx : Nat) (dg1 dg2 : DG.Graph) (sk : List String)
      (i1 : Nat) (r1 : RelList) (s1 : List String) (res2 : Bool × Nat × RelList × List String),
      cmds.go true rels idx dg1 false sk l = .ok (false, i1, r1, s1) →
      cmds.go false rels idx dg2 false sk l = .ok res2 → res2 = (false, i1, r1, s1) := by
  induction l with
  | nil =>
    intro rels idx dg1 dg2 sk i1 r1 s1 res2 h1 h2
    rw [cmds.go] at h1 h2
    cases h1; cases h2; rfl
  | cons n ns ih =>
    intro rels idx dg1 dg2 sk i1 r1 s1 res2 h1 h2
    rw [cmds.go] at h1 h2
    obtain ⟨o1, c1, h1⟩ := bind_ok h1
    obtain ⟨o2, c2, h2⟩ := bind_ok h2
    simp only [Bool.not_true, Bool.not_false] at c1 c2
    have x2 : o2.exit = false := (nodeP n).2 idx dg2 o2 c2
    have x1 : o1.exit = false := by
      cases x : o1.exit with
      | false => rfl
      | true =>
        rw [x] at h1
        simp only [Bool.false_or, Bool.and_self, if_true] at h1
        cases h1
    rw [x1] at h1
    rw [x2] at h2
    simp only [Bool.or_false, Bool.and_false, Bool.false_eq_true, if_false] at h1 h2
    have S := (nodeP n).1 false true idx dg1 dg2 o1 o2 c1 c2 x1 x2
    rw [S.rels, S.index, S.skipped] at h1
    exact ih _ _ _ _ _ i1 r1 s1 res2 h1 h2

theorem cmds_same (rels : RelList) (idx : Nat) (l : List Node) (i1 : Nat) (r1 : RelList)
    (s1 : List String) (res2 : Bool × Nat × RelList × List String)
    (h1 : cmds rels idx l true = .ok (false, i1, r1, s1)) (h2 : cmds rels idx l false = .ok res2) :
    res2 = (false, i1, r1, s1) := by
  unfold cmds at h1 h2
  cases l with
  | nil =>
    simp only [List.isEmpty_nil, if_true] at h1 h2
    cases h1; cases h2; rfl
  | cons n ns =>
    simp only [List.isEmpty_cons, Bool.false_eq_true, if_false] at h1 h2
    exact go_same (n :: ns) rels idx [] [] [] i1 r1 s1 res2 h1 h2

/-- the statements `Analysis.func` hands to `cmds` -/
def bodyOf : Node → List Node
  | .funcDef _ (.compound (some l)) => l
  | _ => []

/-- `Analysis.func`, inverted -/
theorem func_inv (n : Node) (stop : Bool) (r : FuncRes) (h : func n stop = .ok r) :
    ∃ (vars : List String) (dI : Bool) (index : Nat) (rels : RelList) (sk : List String),
      Syntax.variables n = .ok vars ∧
      cmds (RelList.identity vars) 0 (bodyOf n) stop = .ok (dI, index, rels, sk) ∧
      r.name = funcName n ∧ r.variables = (rels.headD (Relation.new [])).vars ∧ r.index = index ∧
      r.skipped = sk ∧
      (dI = true → r.infinite = true) ∧
      (dI = false → ∃ c, (rels.headD (Relation.new [])).eval Gen.domain index = .ok c ∧
        r.infinite = Choices.infinite c ∧
        (r.infinite = false → r.choices = some c ∧ r.relation = some (rels.headD (Relation.new [])) ∧
          r.infFlows = none)) := by
  unfold func at h
  cases hv : Syntax.variables n with
  | error e => rw [hv] at h; cases h
  | ok vars =>
    rw [hv] at h
    simp only [bind, Except.bind] at h
    split at h
    · cases h
    · rename_i v hc
      obtain ⟨deltaInf, index, rels, sk⟩ := v
      refine ⟨vars, deltaInf, index, rels, sk, rfl, hc, ?_⟩
      simp only at h
      cases deltaInf with
      | true =>
        simp only [Bool.not_true, Bool.false_eq_true, if_false, pure, Except.pure, Bool.true_or, Bool.true_and] at h
        cases stop with
        | true =>
          simp only [Bool.not_true, Bool.false_eq_true, if_false, Except.ok.injEq] at h
          subst h
          simp
        | false =>
          simp only [Bool.not_false, if_true] at h
          split at h
          · cases h
          · rename_i v2 hif
            simp only [Except.ok.injEq] at h
            subst h
            simp
      | false =>
        simp only [Bool.not_false, if_true, Bool.false_or] at h
        cases he : (rels.headD (Relation.new [])).eval Gen.domain index with
        | error e => rw [he] at h; cases h
        | ok c =>
          rw [he] at h
          simp only [pure, Except.pure, Bool.true_and] at h
          split at h
          · cases h
          · rename_i v2 hif
            simp only [Except.ok.injEq] at h
            subst h
            simp only [true_and, Bool.false_eq_true, false_implies, forall_const]
            refine ⟨c, rfl, rfl, ?_⟩
            intro hf
            rw [hf] at hif
            simp only [Bool.false_and, Bool.false_eq_true, if_false, Except.ok.injEq] at hif
            simp [hf, ← hif]

end ModeIndep

open Analysis ModeIndep in
/-- **The early-exit mode only cuts the computation short.**  Whenever the analysis of a function in
    early-exit mode returns a FINITE result, the analysis run to completion returns the same result:
    same verdict, relation, choice object, index, variables, skipped statements and name.  No side
    condition on the function at all (this is a statement about the model's two modes, not about
    the calculus). -/
theorem finite_result_same_in_both_modes_full (node : Node) (r1 r2 : Analysis.FuncRes)
    (h1 : Analysis.func node true = .ok r1) (h2 : Analysis.func node false = .ok r2)
    (hf : r1.infinite = false) :
    r2.infinite = false ∧ r1.relation = r2.relation ∧ r1.choices = r2.choices ∧ r1.index = r2.index ∧
    r1.variables = r2.variables ∧ r1.skipped = r2.skipped ∧ r1.name = r2.name ∧
    r1.infFlows = r2.infFlows := by
  obtain ⟨v1, d1, i1, rl1, s1, hv1, hc1, n1, vr1, ix1, sk1, hT1, hF1⟩ := func_inv node true r1 h1
  obtain ⟨v2, d2, i2, rl2, s2, hv2, hc2, n2, vr2, ix2, sk2, hT2, hF2⟩ := func_inv node false r2 h2
  rw [hv1] at hv2
  cases hv2
  have hd1 : d1 = false := by
    cases d1 with
    | false => rfl
    | true => rw [hT1 rfl] at hf; cases hf
  subst hd1
  have := cmds_same _ _ _ i1 rl1 s1 _ hc1 hc2
  simp only [Prod.mk.injEq] at this
  obtain ⟨rfl, rfl, rfl, rfl⟩ := this
  obtain ⟨c1, he1, hi1, hr1⟩ := hF1 rfl
  obtain ⟨c2, he2, hi2, hr2⟩ := hF2 rfl
  rw [he1] at he2
  cases he2
  have hf2 : r2.infinite = false := by rw [hi2, ← hi1]; exact hf
  obtain ⟨a1, b1, f1⟩ := hr1 hf
  obtain ⟨a2, b2, f2⟩ := hr2 hf2
  exact ⟨hf2, by rw [b1, b2], by rw [a1, a2], by rw [ix1, ix2], by rw [vr1, vr2], by rw [sk1, sk2],
    by rw [n1, n2], by rw [f1, f2]⟩

open Analysis ModeIndep in
theorem finite_result_same_in_both_modes (node : Node) (r1 r2 : Analysis.FuncRes)
    (h1 : Analysis.func node true = .ok r1) (h2 : Analysis.func node false = .ok r2)
    (hf : r1.infinite = false) :
    r2.infinite = false ∧ r1.relation = r2.relation ∧ r1.choices = r2.choices ∧ r1.index = r2.index ∧
    r1.variables = r2.variables ∧ r1.skipped = r2.skipped ∧ r1.name = r2.name := by
  obtain ⟨a, b, c, d, e, f, g, _⟩ := finite_result_same_in_both_modes_full node r1 r2 h1 h2 hf
  exact ⟨a, b, c, d, e, f, g⟩

open Analysis ModeIndep in
/-- stand-alone: as long as no early exit happens, what `compute_relation` returns (relations,
    index, skipped statements) depends neither on the mode nor on the delta graph it is given -/
theorem compute_indep_of_no_exit (node : Node) (q1 q2 : Bool) (idx : Nat) (dg1 dg2 : DG.Graph)
    (o1 o2 : Analysis.Out) (h1 : compute q1 idx dg1 node = .ok o1) (h2 : compute q2 idx dg2 node = .ok o2)
    (e1 : o1.exit = false) (e2 : o2.exit = false) :
    o1.rels = o2.rels ∧ o1.index = o2.index ∧ o1.skipped = o2.skipped :=
  let S := (nodeP node).1 q1 q2 idx dg1 dg2 o1 o2 h1 h2 e1 e2
  ⟨S.rels, S.index, S.skipped⟩

open Analysis ModeIndep in
/-- run to completion, `compute_relation` never sets the exit flag -/
theorem compute_complete_no_exit (node : Node) (idx : Nat) (dg : DG.Graph) (o : Analysis.Out)
    (h : compute true idx dg node = .ok o) : o.exit = false :=
  (nodeP node).2 idx dg o h

open Analysis Spec Refine in
/-- the converse direction needs the calculus: that the early-exit mode does not give up although
    a derivation exists is the soundness of the delta-graph collapse (`func_sem`, under `FuncOk`).
    With it: a finite result of the run to completion is also what the early-exit mode returns. -/
theorem finite_result_same_in_both_modes_conv (node : Node) (hok : FuncOk node = true)
    (cmd : Cmd) (hd : desugarFunc node = some cmd) (r1 r2 : Analysis.FuncRes)
    (h1 : Analysis.func node true = .ok r1) (h2 : Analysis.func node false = .ok r2)
    (hf : r2.infinite = false) :
    r1.infinite = false ∧ r1.relation = r2.relation ∧ r1.choices = r2.choices ∧ r1.index = r2.index ∧
    r1.variables = r2.variables ∧ r1.skipped = r2.skipped ∧ r1.name = r2.name := by
  obtain ⟨vs, hvs, hnd, _, _, _, hiff1, _⟩ := func_sem node true r1 hok h1 cmd hd
  obtain ⟨vs', hvs', _, _, _, _, hiff2, _⟩ := func_sem node false r2 hok h2 cmd hd
  rw [hvs] at hvs'
  cases hvs'
  have i1 := hiff1 vs hnd (fun v hv => hv)
  have i2 := hiff2 vs hnd (fun v hv => hv)
  have hf1 : r1.infinite = false := by
    cases x : r1.infinite with
    | false => rfl
    | true => rw [i2.2 (i1.1 x)] at hf; cases hf
  obtain ⟨_, b, c, d, e, f, g⟩ := finite_result_same_in_both_modes node r1 r2 h1 h2 hf1
  exact ⟨hf1, b, c, d, e, f, g⟩

end Mwp
