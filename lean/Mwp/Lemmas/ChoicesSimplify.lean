/-
  C04, part 3: soundness of `uniqueSequences`, `exceptOne` and of the whole `Choices.simplify`.
-/
import Mwp.Lemmas.ChoicesSimplifyB

namespace Mwp.Choices

/-! ## `uniqueSequences` -/

theorem unique_go_spec (fuel : Nat) (rest acc : List Seq) (hf : rest.length < fuel) :
    (∀ s ∈ uniqueSequences.go fuel rest acc, s ∈ rest ∨ s ∈ acc) ∧
    ∀ v, Avoids (uniqueSequences.go fuel rest acc) v ↔ Avoids (rest ++ acc) v := by
  induction fuel generalizing rest acc with
  | zero => exact absurd hf (Nat.not_lt_zero _)
  | succ fuel ih =>
    cases rest with
    | nil =>
      have hgo : uniqueSequences.go (fuel + 1) [] acc = acc := rfl
      rw [hgo]
      exact ⟨fun s hs => Or.inr hs, fun v => by simp⟩
    | cons f rest =>
      rw [uniqueSequences.go]
      have hlen : (removeSubset f rest).length < fuel := by
        have := List.length_filter_le (fun it => !subsetOf f it) rest
        simp only [List.length_cons] at hf
        unfold removeSubset
        omega
      rcases ih (removeSubset f rest) (insertNew acc f) hlen with ⟨hmem, hav⟩
      constructor
      · intro s hs
        rcases hmem s hs with h | h
        · exact Or.inl (List.mem_cons_of_mem _ (mem_removeSubset.1 h).1)
        · rcases (mem_insertNew _ _ _).1 h with h | rfl
          · exact Or.inr h
          · exact Or.inl List.mem_cons_self
      · intro v
        rw [hav v]
        constructor
        · intro h s hs
          have hf' : matchesSeq f v = false :=
            h f (List.mem_append_right _ ((mem_insertNew _ _ _).2 (Or.inr rfl)))
          rcases List.mem_append.1 hs with hs | hs
          · rcases List.mem_cons.1 hs with rfl | hs
            · exact hf'
            · cases hsub : subsetOf f s
              · exact h s (List.mem_append_left _ (mem_removeSubset.2 ⟨hs, hsub⟩))
              · exact avoids_of_subset hsub hf'
          · exact h s (List.mem_append_right _ ((mem_insertNew _ _ _).2 (Or.inl hs)))
        · intro h s hs
          rcases List.mem_append.1 hs with hs | hs
          · exact h s (List.mem_append_left _ (List.mem_cons_of_mem _ (mem_removeSubset.1 hs).1))
          · rcases (mem_insertNew _ _ _).1 hs with hs | rfl
            · exact h s (List.mem_append_right _ hs)
            · exact h s (List.mem_append_left _ List.mem_cons_self)

theorem uniqueSequences_spec {domain : List Nat} {n : Nat} {seqs : List Seq}
    (hg : Good domain n seqs) :
    Good domain n (uniqueSequences seqs) ∧ Equiv domain n (uniqueSequences seqs) seqs := by
  unfold uniqueSequences
  rcases unique_go_spec (seqs.length + 1) (sortByLen seqs) []
      (by rw [length_sortByLen]; exact Nat.lt_succ_self _) with ⟨hmem, hav⟩
  constructor
  · intro s hs
    rcases hmem s hs with h | h
    · exact hg s ((mem_sortByLen _ _).1 h)
    · exact nomatch h
  · intro v _
    rw [hav v, List.append_nil]
    constructor
    · intro h s hs; exact h s ((mem_sortByLen _ _).2 hs)
    · intro h s hs; exact h s ((mem_sortByLen _ _).1 hs)

/-! ## `exceptOne` -/

/-- `v` avoids every singleton of the set -/
def AvoidsSingles (seqs : List Seq) (v : List Nat) : Prop :=
  ∀ d : Delta, [d] ∈ seqs → v[d.2]? ≠ some d.1

theorem avoidsSingles_of_avoids {seqs : List Seq} {v : List Nat} (h : Avoids seqs v) :
    AvoidsSingles seqs v := by
  intro d hd
  have := h [d] hd
  rw [matchesSeq_eq_false] at this
  rcases this with ⟨d', hd', hne⟩
  rcases List.mem_singleton.1 hd' with rfl
  exact hne

/-- the invariant of the inner `foldl` of `except_one` -/
structure ExInv (domain : List Nat) (n : Nat) (seqs acc : List Seq) : Prop where
  good : Good domain n acc
  singles : ∀ d : Delta, [d] ∈ seqs → [d] ∈ acc
  equiv : Equiv domain n acc seqs

theorem exStep_inv {domain : List Nat} {n : Nat} {seqs acc : List Seq} {f : Delta} {p : Seq}
    (hg : Good domain n seqs)
    (hf : ∀ v, VecOK domain n v → AvoidsSingles seqs v → v[f.2]? = some f.1)
    (hp : p ∈ seqs) (hl : p.length > 1) (hinv : ExInv domain n seqs acc) :
    ExInv domain n seqs (insertNew (acc.filter (· != p)) (p.filter (· != f))) := by
  have hsing : ∀ d : Delta, [d] ∈ seqs →
      [d] ∈ insertNew (acc.filter (· != p)) (p.filter (· != f)) := by
    intro d hd
    refine (mem_insertNew _ _ _).2 (Or.inl (List.mem_filter.2 ⟨hinv.singles d hd, ?_⟩))
    have : [d] ≠ p := by
      rintro rfl
      simp at hl
    simpa using this
  refine ⟨?_, hsing, ?_⟩
  · intro s hs
    rcases (mem_insertNew _ _ _).1 hs with hs | rfl
    · exact hinv.good s (List.mem_filter.1 hs).1
    · exact ⟨(hg p hp).1.sublist List.filter_sublist, filter_ne_nil (hg p hp).1 hl f⟩
  · intro v hv
    constructor
    · intro hav
      refine (hinv.equiv v hv).1 ?_
      intro s hs
      by_cases hsp : s = p
      · subst hsp
        have hfv := hf v hv (fun d hd => avoidsSingles_of_avoids hav d (hsing d hd))
        have := hav _ ((mem_insertNew _ _ _).2 (Or.inr rfl))
        rw [matchesSeq_eq_false] at this ⊢
        rcases this with ⟨d, hd, hne⟩
        exact ⟨d, (List.mem_filter.1 hd).1, hne⟩
      · exact hav s ((mem_insertNew _ _ _).2 (Or.inl (List.mem_filter.2 ⟨hs, by simpa using hsp⟩)))
    · intro hav s hs
      rcases (mem_insertNew _ _ _).1 hs with hs | rfl
      · exact (hinv.equiv v hv).2 hav s (List.mem_filter.1 hs).1
      · have hfv := hf v hv (avoidsSingles_of_avoids hav)
        have := hav p hp
        rw [matchesSeq_eq_false] at this ⊢
        rcases this with ⟨d, hd, hne⟩
        refine ⟨d, List.mem_filter.2 ⟨hd, ?_⟩, hne⟩
        have : d ≠ f := by
          rintro rfl
          exact hne hfv
        simpa using this

theorem exFold_inv {domain : List Nat} {n : Nat} {seqs : List Seq} {f : Delta}
    (hg : Good domain n seqs)
    (hf : ∀ v, VecOK domain n v → AvoidsSingles seqs v → v[f.2]? = some f.1)
    (hit : List Seq) (hhit : ∀ p ∈ hit, p ∈ seqs ∧ p.length > 1) (acc : List Seq)
    (hinv : ExInv domain n seqs acc) :
    ExInv domain n seqs
      (hit.foldl (fun acc p => insertNew (acc.filter (· != p)) (p.filter (· != f))) acc) := by
  induction hit generalizing acc with
  | nil => exact hinv
  | cons p t ih =>
    rw [List.foldl_cons]
    have hp := hhit p List.mem_cons_self
    exact ih (fun q hq => hhit q (List.mem_cons_of_mem _ hq)) _
      (exStep_inv hg hf hp.1 hp.2 hinv)

/-- when every value of the domain but `c` is excluded at `index` by singletons of the set,
    every vector avoiding the singletons has `c` at `index` -/
theorem forced_value {domain : List Nat} {n : Nat} {seqs : List Seq} (hg : Good domain n seqs)
    {v0 index : Nat} {l1 : List Delta} (h0 : [(v0, index)] ∈ seqs)
    (hl1 : ∀ d ∈ l1, [d] ∈ seqs) {f : Delta}
    (hfind : (domain.filter (fun c => c != v0 &&
        !((l1.filter (fun d => d.2 == index)).map (·.1)).contains c)).map
          (fun c => (c, index)) = [f]) :
    ∀ v, VecOK domain n v → AvoidsSingles seqs v → v[f.2]? = some f.1 := by
  intro v hv hav
  have hidx : index < n := by
    have := ((hg _ h0).1.2 (v0, index) List.mem_cons_self).1
    exact this
  have hiv : index < v.length := by rw [hv.1]; exact hidx
  have hx : v[index] ∈ domain := hv.2 _ (List.getElem_mem hiv)
  have hne0 : v[index] ≠ v0 := by
    intro h
    have := hav (v0, index) h0
    rw [List.getElem?_eq_getElem hiv, h] at this
    exact this rfl
  have hnv : v[index] ∉ (l1.filter (fun d => d.2 == index)).map (·.1) := by
    intro h
    rcases List.mem_map.1 h with ⟨d, hd, hdv⟩
    rcases List.mem_filter.1 hd with ⟨hdl, hdi⟩
    have hdi : d.2 = index := by simpa using hdi
    have := hav d (hl1 d hdl)
    rw [hdi, List.getElem?_eq_getElem hiv, hdv] at this
    exact this rfl
  have hmem : (v[index], index) ∈ (domain.filter (fun c => c != v0 &&
        !((l1.filter (fun d => d.2 == index)).map (·.1)).contains c)).map
          (fun c => (c, index)) := by
    refine List.mem_map.2 ⟨v[index], List.mem_filter.2 ⟨hx, ?_⟩, rfl⟩
    simp only [Bool.and_eq_true, bne_iff_ne, ne_eq, Bool.not_eq_true', List.contains_eq_mem,
      decide_eq_false_iff_not]
    exact ⟨hne0, hnv⟩
  rw [hfind] at hmem
  rcases List.mem_singleton.1 hmem with hfe
  rw [← hfe]
  exact List.getElem?_eq_getElem hiv

theorem exceptOne_go_spec {domain : List Nat} {n : Nat} (singles : List Delta) (seqs : List Seq)
    (hg : Good domain n seqs) (hs : ∀ d ∈ singles, [d] ∈ seqs) :
    Good domain n (exceptOne.go domain singles seqs) ∧
    Equiv domain n (exceptOne.go domain singles seqs) seqs := by
  induction singles generalizing seqs with
  | nil => rw [exceptOne.go]; exact ⟨hg, Equiv.refl _⟩
  | cons d l1 ih =>
    rcases d with ⟨v0, index⟩
    have h0 := hs (v0, index) List.mem_cons_self
    have hl1 : ∀ d ∈ l1, [d] ∈ seqs := fun d hd => hs d (List.mem_cons_of_mem _ hd)
    rw [exceptOne.go]
    split
    · rename_i f hfind
      have hf := forced_value hg h0 hl1 hfind
      have hinv := exFold_inv hg hf (seqs.filter (fun s => s.contains f && s.length > 1))
        (fun p hp => by
          have := List.mem_filter.1 hp
          refine ⟨this.1, ?_⟩
          have h2 := this.2
          simp only [Bool.and_eq_true, decide_eq_true_eq] at h2
          exact h2.2)
        seqs ⟨hg, fun _ h => h, Equiv.refl _⟩
      rcases ih _ hinv.good (fun d hd => hinv.singles d (hl1 d hd)) with ⟨hg', he'⟩
      exact ⟨hg', he'.trans hinv.equiv⟩
    · exact ih seqs hg hl1

theorem exceptOne_spec {domain : List Nat} {n : Nat} {seqs : List Seq}
    (hg : Good domain n seqs) :
    Good domain n (exceptOne domain seqs) ∧ Equiv domain n (exceptOne domain seqs) seqs := by
  unfold exceptOne
  apply exceptOne_go_spec _ _ hg
  intro d hd
  rcases List.mem_filterMap.1 hd with ⟨s, hs, hsd⟩
  split at hsd
  · cases hsd; exact hs
  · exact nomatch hsd

/-! ## `simplify` -/

theorem loop_spec {domain : List Nat} {n : Nat} (fuel : Nat) {seqs : List Seq}
    (hg : Good domain n seqs) :
    ∃ s', simplify.loop domain fuel seqs = pure s' ∧ Good domain n s' ∧
      Equiv domain n s' seqs := by
  induction fuel generalizing seqs with
  | zero => exact ⟨seqs, rfl, hg, Equiv.refl _⟩
  | succ fuel ih =>
    rw [simplify.loop]
    rcases reduceAll_spec false (totalLen seqs + 1) hg with ⟨s1, h1, hg1, he1⟩
    rw [h1, pure_bind]
    rcases reduceAll_spec true (totalLen s1 + 1) hg1 with ⟨s2, h2, hg2, he2⟩
    rw [h2, pure_bind]
    rcases uniqueSequences_spec hg2 with ⟨hg3, he3⟩
    rcases exceptOne_spec (domain := domain) hg3 with ⟨hg4, he4⟩
    have he : Equiv domain n (exceptOne domain (uniqueSequences s2)) seqs :=
      ((he4.trans he3).trans he2).trans he1
    dsimp only
    split
    · exact ⟨_, rfl, hg4, he⟩
    · rcases ih hg4 with ⟨s', hr, hgs, hes⟩
      exact ⟨s', hr, hgs, hes.trans he⟩

/-- `simplify` never raises on well-formed input, keeps sequences well formed, and preserves
    exactly the set of vectors that avoid every sequence.  (Neither `domain.Nodup` nor
    `domain ≠ []` is needed.) -/
theorem simplify_ok' (domain : List Nat) (n : Nat) (inf : List Seq)
    (hwf : ∀ s ∈ inf, WFSeq domain n s) :
    ∃ s', simplify domain inf = .ok s' ∧ (∀ t ∈ s', WFSeq domain n t) ∧
      ∀ v, VecOK domain n v → (Avoids s' v ↔ Avoids inf v) := by
  unfold simplify
  split
  · rename_i hc
    have hmem : [] ∈ inf := List.contains_iff_mem.1 hc
    refine ⟨[[]], rfl, ?_, ?_⟩
    · intro t ht
      rcases List.mem_singleton.1 ht with rfl
      exact WFSeq.nil _ _
    · intro v _
      constructor
      · intro h
        exact absurd (h [] List.mem_cons_self) (by simp [matchesSeq])
      · intro h
        exact absurd (h [] hmem) (by simp [matchesSeq])
  · rename_i hc
    have hnm : [] ∉ inf := fun h => hc (List.contains_iff_mem.2 h)
    have hg : Good domain n (dedup inf) := by
      intro s hs
      have hs' := (mem_dedup _ _).1 hs
      exact ⟨hwf s hs', fun h => hnm (h ▸ hs')⟩
    rcases loop_spec (inf.length + 2) hg with ⟨s', hr, hgs, hes⟩
    refine ⟨s', hr, fun t ht => (hgs t ht).1, ?_⟩
    intro v hv
    rw [hes v hv]
    constructor
    · intro h s hs; exact h s ((mem_dedup _ _).2 hs)
    · intro h s hs; exact h s ((mem_dedup _ _).1 hs)

/-- `simplify` never raises on well-formed input, keeps sequences well formed, and preserves
    exactly the set of vectors that avoid every sequence. -/
theorem simplify_ok (domain : List Nat) (n : Nat) (inf : List Seq)
    (_hd : domain.Nodup) (_hne : domain ≠ [])
    (hwf : ∀ s ∈ inf, WFSeq domain n s) :
    ∃ s', simplify domain inf = .ok s' ∧ (∀ t ∈ s', WFSeq domain n t) ∧
      ∀ v, VecOK domain n v → (Avoids s' v ↔ Avoids inf v) :=
  simplify_ok' domain n inf hwf

end Mwp.Choices
