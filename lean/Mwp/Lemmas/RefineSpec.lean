/-
  Refinement, spec side: dense matrices of `Spec.Calculus` over a universe `U` as functions on
  names (`matOf`), the leaf matrices (`setColumn_matOf`), products/sums, and the bookkeeping of
  choice vectors (`Valid`, `Relab`, `relabelAt_relab`, `swaps_length`).
-/
import Mwp.Lemmas.RefineLeaf
namespace Mwp
namespace Refine
open Mwp.Props.C16 Mwp.Lemmas.Poly Spec RelFix

/-! ## dense matrices over a universe as functions on names -/

def dn (U : List String) (g : String → String → Scalar) : SF :=
  fun i j => g (U.getD i "") (U.getD j "")

def matOf (U : List String) (g : String → String → Scalar) : SMat := mk U.length (dn U g)

theorem getD_inj {U : List String} (hU : U.Nodup) {i j : Nat} (hi : i < U.length) (hj : j < U.length) :
    U.getD i "" = U.getD j "" ↔ i = j := by
  constructor
  · intro h
    have h1 := idx_of_get hU i hi ""
    have h2 := idx_of_get hU j hj ""
    rw [h, h2] at h1
    exact (Option.some.inj h1).symm
  · intro h; rw [h]

theorem dn_idS {U : List String} (hU : U.Nodup) : EqOn U.length (dn U idS) fI := by
  intro i hi j hj
  simp only [dn, idS, fI, getD_inj hU hi hj]
  by_cases h : i = j <;> simp [h]

theorem identity_matOf {U : List String} (hU : U.Nodup) : SMat.identity U.length = matOf U idS := by
  rw [identity_eq]; exact (mk_congr (dn_idS hU)).symm

theorem matOf_congr {U : List String} {g h : String → String → Scalar}
    (H : ∀ x ∈ U, ∀ y ∈ U, g x y = h x y) : matOf U g = matOf U h := by
  apply mk_congr
  intro i hi j hj
  exact H _ (getD_mem U i "" hi) _ (getD_mem U j "" hj)

theorem den_matOf (U : List String) (g : String → String → Scalar) {x y : String} (hx : x ∈ U) (hy : y ∈ U) :
    SMat.den U (matOf U g) x y = g x y := by
  rcases idx_cases U x with ⟨h, _⟩ | ⟨_, i, hi, hxi, _⟩
  · exact absurd hx h
  rcases idx_cases U y with ⟨h, _⟩ | ⟨_, j, hj, hyj, _⟩
  · exact absurd hy h
  simp only [SMat.den, hxi, hyj, matOf]
  rw [get_mk _ _ hi hj, dn, idx_getD hxi, idx_getD hyj]

theorem idxOf_eq {U : List String} {x : String} {j : Nat} (h : U.idxOf? x = some j) : Spec.idxOf U x = j := by
  simp [Spec.idxOf, h]

theorem setColumn_matOf (U : List String) (hU : U.Nodup) (x : String) (hx : x ∈ U) (col : String → Scalar) :
    SMat.setColumn (SMat.identity U.length) (Spec.idxOf U x) (U.map col)
      = matOf U (fun u v => if v = x then col u else idS u v) := by
  rcases idx_cases U x with ⟨h, _⟩ | ⟨_, j, hj, hxj, _⟩
  · exact absurd hx h
  rw [idxOf_eq hxj, identity_eq]
  unfold SMat.setColumn matOf mk
  apply List.ext_getElem
  · simp
  · intro i h1 h2
    have hi : i < U.length := by simpa using h2
    simp only [List.getElem_map, List.getElem_zip, List.getElem_range]
    apply List.ext_getElem
    · simp
    · intro k h3 h4
      have hk : k < U.length := by simpa using h4
      simp only [List.getElem_set, List.getElem_map, List.getElem_range, dn]
      have hUk : U.getD k "" = x ↔ k = j := by
        rw [← idx_getD hxj "", getD_inj hU hk hj]
      have hUi : U.getD i "" = U[i] := by simp [List.getD_eq_getElem?_getD, hi]
      by_cases hkj : j = k
      · subst hkj
        rw [if_pos rfl, if_pos (hUk.2 rfl), hUi]
      · rw [if_neg hkj, if_neg (fun e => hkj (hUk.1 e).symm)]
        exact (dn_idS hU i hi k hk).symm

/-! ## products and sums -/

/-- matrix product over the universe, on names -/
def mulN (U : List String) (g h : String → String → Scalar) : String → String → Scalar :=
  fun x y => sumScalars (U.map fun k => g x k * h k y)

theorem fmul_dn (U : List String) (g h : String → String → Scalar) :
    fmul U.length (dn U g) (dn U h) = dn U (mulN U g h) := by
  funext i j
  simp only [fmul, dn, mulN]
  rw [map_eq_map_range_getD U "" (fun k => g (U.getD i "") k * h k (U.getD j ""))]
  rfl

theorem mul_matOf (U : List String) (g : String → String → Scalar) (S : SF) :
    SMat.mul (matOf U g) (mk U.length S) = mk U.length (fmul U.length (dn U g) S) :=
  mul_mk _ _ _

theorem add_matOf (U : List String) (g h : String → String → Scalar) :
    SMat.add (matOf U g) (matOf U h) = matOf U (fun x y => g x y + h x y) :=
  add_mk _ _ _

theorem fmul_fI_right {n : Nat} {a : SF} (hfin : ∀ i, i < n → ∀ j, j < n → a i j ≠ .i) :
    EqOn n (fmul n a fI) a := by
  intro i hi j hj
  unfold fmul
  rw [sumAll_single hj]
  · simp only [fI, beq_self_eq_true, if_true]
    exact prod_unit_right _
  · intro k hk hkj
    have : (k == j) = false := by simpa using hkj
    simp only [fI, this]
    exact (zero_annihilates _ (hfin i hi k hk)).2

theorem fmul_fI_left {n : Nat} {a : SF} (hfin : ∀ i, i < n → ∀ j, j < n → a i j ≠ .i) :
    EqOn n (fmul n fI a) a := by
  intro i hi j hj
  unfold fmul
  rw [sumAll_single hi]
  · simp only [fI, beq_self_eq_true, if_true]
    exact prod_unit_left _
  · intro k hk hki
    have : (i == k) = false := by simpa using fun e => hki e.symm
    simp only [fI, this]
    exact (zero_annihilates _ (hfin k hk j hj)).1

/-- if `I·S` has no ∞ then neither has `S`, and `I·S = S` -/
theorem fmul_fI_left_of_result {n : Nat} {S : SF}
    (h : ∀ i, i < n → ∀ j, j < n → fmul n fI S i j ≠ .i) : EqOn n (fmul n fI S) S := by
  apply fmul_fI_left
  intro k hk j hj hS
  exact h k hk j hj (fmul_eq_i hk (Or.inr hS))

theorem mul_ne_i {a b : Scalar} (ha : a ≠ .i) (hb : b ≠ .i) : a * b ≠ .i := by
  cases a <;> cases b <;> simp_all <;> decide

theorem add_ne_i {a b : Scalar} (ha : a ≠ .i) (hb : b ≠ .i) : a + b ≠ .i := by
  cases a <;> cases b <;> simp_all <;> decide

/-! ## choice vectors: validity and relabelling -/

/-- every derivation index in `[idx, idx+n)` carries one of the three alternatives -/
def Valid (idx n : Nat) (c : Choice) : Prop :=
  ∀ k, idx ≤ k → k < idx + n → ∃ a, c[k]? = some a ∧ a < 3

/-- `c'` is `c` in the calculus' numbering on the index range of a command with swap list `sws`
    starting at `idx` (nothing is said about other positions) -/
def Relab (idx : Nat) (sws : List Bool) (c c' : Choice) : Prop :=
  ∀ k, k < sws.length → c'[idx + k]? = (c[idx + k]?).map (swapAlt (sws.getD k false))

theorem Valid.left {idx n m : Nat} {c : Choice} (h : Valid idx (n + m) c) : Valid idx n c :=
  fun k h1 h2 => h k h1 (by omega)

theorem Valid.right {idx n m : Nat} {c : Choice} (h : Valid idx (n + m) c) : Valid (idx + n) m c :=
  fun k h1 h2 => h k (by omega) (by omega)

theorem Relab.left {idx : Nat} {s1 s2 : List Bool} {c c' : Choice} (h : Relab idx (s1 ++ s2) c c') :
    Relab idx s1 c c' := by
  intro k hk
  have := h k (by rw [List.length_append]; omega)
  rw [this]
  congr 2
  simp [List.getD_eq_getElem?_getD, List.getElem?_append_left hk]

theorem Relab.right {idx : Nat} {s1 s2 : List Bool} {c c' : Choice} (h : Relab idx (s1 ++ s2) c c') :
    Relab (idx + s1.length) s2 c c' := by
  intro k hk
  have := h (s1.length + k) (by rw [List.length_append]; omega)
  rw [← Nat.add_assoc] at this
  rw [this]
  congr 2
  simp [List.getD_eq_getElem?_getD, List.getElem?_append_right]

theorem relabelAt_relab (idx : Nat) (cmd : Cmd) (c : Choice) :
    Relab idx cmd.swaps c (relabelAt idx cmd c) := by
  intro k _
  unfold relabelAt
  rw [List.getElem?_map, List.getElem?_zipIdx]
  cases c[idx + k]? with
  | none => rfl
  | some v =>
    simp only [Option.map_some, Nat.zero_add]
    congr 1
    have : (idx + k ≥ idx) := by omega
    simp only [this, decide_true, Bool.true_and, Nat.add_sub_cancel_left, swapAlt]
    cases cmd.swaps.getD k false <;> simp

mutual
theorem swaps_length : ∀ cmd : Cmd, cmd.swaps.length = cmd.arity
  | .skip => rfl
  | .asgnVar .. => rfl
  | .asgnConst .. => rfl
  | .bin .. => rfl
  | .seq l => by simp only [Cmd.swaps, Cmd.arity]; exact swapsL_length l
  | .ite t f => by simp only [Cmd.swaps, Cmd.arity, List.length_append, swaps_length t, swaps_length f]
  | .while_ b => by simp only [Cmd.swaps, Cmd.arity]; exact swaps_length b
  | .loop _ b => by simp only [Cmd.swaps, Cmd.arity]; exact swaps_length b
theorem swapsL_length : ∀ l : List Cmd, (swapsL l).length = arityL l
  | [] => rfl
  | c :: cs => by simp only [swapsL, arityL, List.length_append, swaps_length c, swapsL_length cs]
end

end Refine
end Mwp
