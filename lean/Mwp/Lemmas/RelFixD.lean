/-
  RelFix, part D: one step of the `Relation.loop_correction` walk.  The monomial loop
  (`loopFixCell`) as a map + a fold of `Poly.add`s + a list of inserted nodes; `setCell`
  lemmas; what one walked cell does to the matrix.
-/
import Mwp.Lemmas.RelFixB
import Mwp.Lemmas.RelAlgMatrix

namespace Mwp.RelFix
open Mwp Mwp.Props.C16 Mwp.Lemmas.Poly

/-! ## the monomial loop -/

def lpred (diag : Bool) (m : Mono) : Bool := diag && m.scalar != .m
def lfix (diag : Bool) (m : Mono) : Mono := if lpred diag m then { m with scalar := .i } else m
def lnu (diag : Bool) (m : Mono) : List DG.Node := if lpred diag m then [m.deltas] else []

/-- successive `matrix[ell][j] = matrix[ell][j].add(Polynomial(mon.copy()))` -/
def addMonos (e : Poly) (ms : List Mono) : Poly := ms.foldl (fun e m => Poly.add e [m.copy]) e

theorem foldlM_collect3 {α β γ : Type}
    (step : List β × γ × DG.Graph → α → Except String (List β × γ × DG.Graph))
    (φ : α → β) (ψ : γ → α → γ) (ν : α → List DG.Node)
    (hstep : ∀ acc e g x r, step (acc, e, g) x = .ok r →
      r.1 = acc ++ [φ x] ∧ r.2.1 = ψ e x ∧ (ν x).foldlM DG.insertNode g = .ok r.2.2) :
    ∀ (xs : List α) (acc : List β) (e : γ) (g : DG.Graph) (r : List β × γ × DG.Graph),
      xs.foldlM step (acc, e, g) = .ok r →
      r.1 = acc ++ xs.map φ ∧ r.2.1 = xs.foldl ψ e ∧
        (xs.flatMap ν).foldlM DG.insertNode g = .ok r.2.2 := by
  intro xs
  induction xs with
  | nil =>
    intro acc e g r h
    rw [List.foldlM_nil] at h
    cases h
    simp [pure, Except.pure]
  | cons x t ih =>
    intro acc e g r h
    rw [List.foldlM_cons] at h
    obtain ⟨r1, h1, h2⟩ := bind_ok h
    obtain ⟨e1, e2, e3⟩ := hstep acc e g x r1 h1
    obtain ⟨acc1, el1, g1⟩ := r1
    simp only at e1 e2 e3
    obtain ⟨e4, e5, e6⟩ := ih acc1 el1 g1 r h2
    refine ⟨?_, ?_, ?_⟩
    · rw [e4, e1]; simp
    · rw [e5, e2]; rfl
    · rw [List.flatMap_cons, List.foldlM_append, e3]
      exact e6

theorem foldl_psi_eq (d : Bool) (p : Poly) (e : Poly) :
    p.foldl (fun e x => if (lfix d x).scalar == .p then Poly.add e [(lfix d x).copy] else e) e =
      addMonos e ((p.map (lfix d)).filter (fun m => m.scalar == .p)) := by
  induction p generalizing e with
  | nil => rfl
  | cons x t ih =>
    rw [List.foldl_cons, ih, List.map_cons, List.filter_cons]
    split
    · rfl
    · rfl

theorem loopFixCell_spec (diag : Bool) (p e : Poly) (g : DG.Graph) (r : Poly × Poly × DG.Graph)
    (h : Relation.loopFixCell diag p e g = .ok r) :
    r.1 = p.map (lfix diag) ∧
    r.2.1 = addMonos e ((p.map (lfix diag)).filter (fun m => m.scalar == .p)) ∧
    (p.flatMap (lnu diag)).foldlM DG.insertNode g = .ok r.2.2 := by
  unfold Relation.loopFixCell at h
  have := foldlM_collect3 _ (lfix diag)
    (fun e x => if (lfix diag x).scalar == .p then Poly.add e [(lfix diag x).copy] else e)
    (lnu diag) ?_ p [] e g r h
  · rw [foldl_psi_eq] at this
    simpa using this
  · intro acc e g x r hr
    dsimp only at hr
    obtain ⟨⟨mon', g1⟩, h1, h2⟩ := bind_ok hr
    dsimp only at h2
    cases h2
    unfold lfix lnu lpred
    split at h1
    · rename_i hc
      obtain ⟨g2, h3, h4⟩ := bind_ok h1
      cases h4
      simp only [hc, if_true]
      refine ⟨trivial, trivial, ?_⟩
      rw [List.foldlM_cons, h3]
      rfl
    · rename_i hc
      cases h1
      simp only [hc]
      exact ⟨rfl, rfl, rfl⟩

theorem lfix_false (m : Mono) : lfix false m = m := rfl

theorem map_lfix_false (p : Poly) : p.map (lfix false) = p := by
  have : lfix false = id := by funext m; rfl
  rw [this, List.map_id]

theorem flatMap_lnu_false (p : Poly) : p.flatMap (lnu false) = [] := by
  induction p with
  | nil => rfl
  | cons x t ih => rw [List.flatMap_cons, ih]; rfl

theorem lfix_true_scalar (m : Mono) :
    (lfix true m).scalar = if m.scalar = .m then .m else .i := by
  obtain ⟨s, ds⟩ := m
  cases s <;> rfl

theorem filter_p_map_lfix_true (p : Poly) :
    (p.map (lfix true)).filter (fun m => m.scalar == .p) = [] := by
  rw [List.filter_eq_nil_iff]
  intro m hm
  obtain ⟨m0, _, rfl⟩ := List.mem_map.1 hm
  rw [lfix_true_scalar]
  split <;> simp

theorem lfix_deltas (d : Bool) (m : Mono) : (lfix d m).deltas = m.deltas := by
  unfold lfix; split <;> rfl

theorem lfix_matches (d : Bool) (m : Mono) (c : Choice) : (lfix d m).matchesC c = m.matchesC c := by
  unfold Mono.matchesC; rw [lfix_deltas]

theorem WF_map_lfix (d : Bool) (p : Poly) (hp : p.WF = true) : Poly.WF (p.map (lfix d)) = true := by
  rw [WF_iff] at hp ⊢
  intro m hm
  obtain ⟨m0, hm0, rfl⟩ := List.mem_map.1 hm
  unfold Mono.WF
  rw [lfix_deltas]
  exact hp m0 hm0

/-! ## `addMonos` -/

theorem WF_filter' (p : Poly) (f : Mono → Bool) (hp : p.WF = true) : Poly.WF (p.filter f) = true := by
  rw [WF_iff] at hp ⊢
  intro m hm
  exact hp m (List.mem_filter.1 hm).1

theorem addMonos_spec (ms : List Mono) (hms : Poly.WF ms = true) (c : Choice) :
    ∀ e : Poly, e.WF = true →
      Poly.WF (addMonos e ms) = true ∧ Poly.evalD (addMonos e ms) c = e.evalD c + Poly.evalD ms c := by
  induction ms with
  | nil =>
    intro e he
    exact ⟨he, by rw [evalD_nil, sum_zero_right]; rfl⟩
  | cons x t ih =>
    intro e he
    have hx : x.WF = true := (WF_iff _).1 hms x (List.mem_cons_self ..)
    have ht : Poly.WF t = true := (WF_iff _).2 fun m hm => (WF_iff _).1 hms m (List.mem_cons_of_mem _ hm)
    have hx1 : Poly.WF [x.copy] = true := by
      rw [copy_of_WF hx, WF_iff]
      intro m hm
      rw [List.mem_singleton.1 hm]; exact hx
    have h1 := WF_add e [x.copy] he hx1
    obtain ⟨h2, h3⟩ := ih ht (Poly.add e [x.copy]) h1
    refine ⟨h2, ?_⟩
    show Poly.evalD (addMonos (Poly.add e [x.copy]) t) c = _
    rw [h3, evalD_add e [x.copy] c he hx1, copy_of_WF hx, evalD_cons x t, evalD_cons, evalD_nil,
      sum_zero_right, sum_assoc]

/-! ## square matrices and `setCell` -/

structure Sq (n : Nat) (m : Matrix) : Prop where
  len : m.length = n
  rows : ∀ row ∈ m, row.length = n
  wf : ∀ row ∈ m, ∀ p ∈ row, Poly.WF p = true

theorem Sq.getD_row {n : Nat} {m : Matrix} (h : Sq n m) {i : Nat} (hi : i < n) :
    (m.getD i []).length = n :=
  h.rows _ (getD_mem m i [] (by rw [h.len]; exact hi))

theorem Sq.get_wf {n : Nat} {m : Matrix} (h : Sq n m) (i j : Nat) : Poly.WF (Matrix.get m i j) = true :=
  Matrix.get_wf m h.wf i j

theorem Sq.setCell {n : Nat} {m : Matrix} (h : Sq n m) (i j : Nat) (p : Poly) (hp : p.WF = true) :
    Sq n (Matrix.setCell m i j p) := by
  unfold Matrix.setCell
  refine ⟨by rw [List.length_set]; exact h.len, ?_, ?_⟩
  · intro row hr
    rcases List.mem_or_eq_of_mem_set hr with hr | rfl
    · exact h.rows row hr
    · rw [List.length_set]
      by_cases hi : i < m.length
      · exact h.rows _ (getD_mem m i [] hi)
      · -- the set is out of range: this row cannot be a member
        exfalso
        rw [List.set_eq_of_length_le (by omega)] at hr
        have := h.rows _ hr
        rw [List.length_set, getD_of_le m i [] (by omega)] at this
        have hn : n = 0 := by simpa using this.symm
        have : m = [] := List.eq_nil_of_length_eq_zero (by rw [h.len, hn])
        rw [this] at hr
        cases hr
  · intro row hr q hq
    rcases List.mem_or_eq_of_mem_set hr with hr | rfl
    · exact h.wf row hr q hq
    · rcases List.mem_or_eq_of_mem_set hq with hq | rfl
      · exact Matrix.getD_row_wf m h.wf i q hq
      · exact hp

theorem get_setCell {n : Nat} {m : Matrix} (h : Sq n m) {i j : Nat} (hi : i < n) (hj : j < n)
    (p : Poly) (a b : Nat) :
    Matrix.get (Matrix.setCell m i j p) a b = if a = i ∧ b = j then p else Matrix.get m a b := by
  have hil : i < m.length := by rw [h.len]; exact hi
  have hrow := h.getD_row hi
  unfold Matrix.get Matrix.setCell
  simp only [List.getD_eq_getElem?_getD] at hrow ⊢
  rw [List.getElem?_set]
  by_cases hai : a = i
  · subst hai
    simp only [if_true, hil, Option.getD_some, List.getElem?_set, true_and]
    by_cases hbj : b = j
    · subst hbj
      simp [hrow, hj]
    · have : ¬ j = b := fun e => hbj e.symm
      simp [hbj, this]
  · have : ¬ i = a := fun e => hai e.symm
    simp [hai, this]

/-! ## one walked cell -/

/-- the body of the cell loop of `loopCorrection` -/
def loopStep (ell : Nat) : Matrix × DG.Graph → Nat × Nat → M (Matrix × DG.Graph) :=
  fun (mat, g) (i, j) => do
      let p := Matrix.get mat i j
      let (p', ellCell', g') ← Relation.loopFixCell (i == j) p (Matrix.get mat ell j) g
      let mat1 := Matrix.setCell mat i j p'
      let mat2 := if ellCell' == Matrix.get mat ell j then mat1 else Matrix.setCell mat1 ell j ellCell'
      pure (mat2, g')

def loopCells (m : Matrix) : List (Nat × Nat) :=
  (List.range m.length).flatMap fun i => (List.range ((m.getD i []).length)).map fun j => (i, j)

theorem loopCorrection_eq (r : Relation) (x : String) (g : DG.Graph) :
    Relation.loopCorrection r x g =
      (match r.vars.idxOf? x with
      | none => throw "ValueError"
      | some ell => do
        let (mat, g) ← (loopCells r.mat).foldlM (loopStep ell) (r.mat, g)
        pure ({ r with mat := mat }, g)) := by
  unfold Relation.loopCorrection
  rfl

/-- cell `(a,b)` after walking cell `(i,j)` -/
def stepCell (ell : Nat) (mat : Matrix) (i j a b : Nat) : Poly :=
  if a = i ∧ b = j ∧ i = j then (Matrix.get mat i i).map (lfix true)
  else if a = ell ∧ b = j ∧ i ≠ j then
    addMonos (Matrix.get mat ell j) ((Matrix.get mat i j).filter (fun m => m.scalar == .p))
  else Matrix.get mat a b

def stepNodes (mat : Matrix) (i j : Nat) : List DG.Node :=
  if i = j then (Matrix.get mat i i).flatMap (lnu true) else []

theorem loopStep_spec {n ell : Nat} {mat : Matrix} (hs : Sq n mat) {i j : Nat} (hi : i < n)
    (hj : j < n) (hell : ell < n) (g : DG.Graph) (res : Matrix × DG.Graph)
    (h : loopStep ell (mat, g) (i, j) = .ok res) :
    Sq n res.1 ∧ (∀ a b, Matrix.get res.1 a b = stepCell ell mat i j a b) ∧
      (stepNodes mat i j).foldlM DG.insertNode g = .ok res.2 := by
  unfold loopStep at h
  dsimp only at h
  obtain ⟨⟨p', e', g1⟩, h1, h2⟩ := bind_ok h
  dsimp only at h2
  obtain ⟨s1, s2, s3⟩ := loopFixCell_spec _ _ _ _ _ h1
  simp only at s1 s2 s3
  have hP := hs.get_wf i j
  have hE := hs.get_wf ell j
  by_cases hij : i = j
  · -- diagonal: the cell is rewritten in place, nothing is added to row `ell`
    subst hij
    have hd : (i == i) = true := beq_self_eq_true i
    rw [hd] at s1 s2 s3
    rw [filter_p_map_lfix_true] at s2
    have he : e' = Matrix.get mat ell i := s2
    rw [he, if_pos (beq_self_eq_true _)] at h2
    cases h2
    have hp' : Poly.WF p' = true := by rw [s1]; exact WF_map_lfix _ _ hP
    refine ⟨hs.setCell i i p' hp', ?_, ?_⟩
    · intro a b
      rw [get_setCell hs hi hi, stepCell, s1]
      by_cases hab : a = i ∧ b = i
      · rw [if_pos hab, if_pos ⟨hab.1, hab.2, rfl⟩]
      · rw [if_neg hab, if_neg (fun hh => hab ⟨hh.1, hh.2.1⟩), if_neg (fun hh => hh.2.2 rfl)]
    · unfold stepNodes
      rw [if_pos rfl]
      exact s3
  · -- off the diagonal: the cell is unchanged, its `p` monomials go to `(ell, j)`
    have hd : (i == j) = false := by simpa using hij
    rw [hd] at s1 s2 s3
    rw [map_lfix_false] at s1 s2
    rw [flatMap_lnu_false] at s3
    have hg : g1 = g := by cases s3; rfl
    have hfw : Poly.WF ((Matrix.get mat i j).filter (fun m => m.scalar == .p)) = true :=
      WF_filter' _ _ hP
    have he'w : Poly.WF e' = true := by rw [s2]; exact (addMonos_spec _ hfw [] _ hE).1
    have hs1 : Sq n (Matrix.setCell mat i j p') := hs.setCell i j p' (by rw [s1]; exact hP)
    have hget1 : ∀ a b, Matrix.get (Matrix.setCell mat i j p') a b = Matrix.get mat a b := by
      intro a b
      rw [get_setCell hs hi hj, s1]
      split
      · rename_i hab; rw [hab.1, hab.2]
      · rfl
    have hnodes : (stepNodes mat i j).foldlM DG.insertNode g = .ok g := by
      unfold stepNodes; rw [if_neg hij]; rfl
    have hcell : ∀ a b, stepCell ell mat i j a b =
        if a = ell ∧ b = j then e' else Matrix.get mat a b := by
      intro a b
      unfold stepCell
      rw [if_neg (fun hh => hij hh.2.2), s2]
      by_cases hab : a = ell ∧ b = j
      · rw [if_pos hab, if_pos ⟨hab.1, hab.2, hij⟩]
      · rw [if_neg hab, if_neg (fun hh => hab ⟨hh.1, hh.2.1⟩)]
    split at h2
    · rename_i heq
      have heq' : e' = Matrix.get mat ell j := by simpa using heq
      cases h2
      refine ⟨hs1, ?_, by rw [hg]; exact hnodes⟩
      intro a b
      rw [hget1, hcell]
      split
      · rename_i hab; rw [hab.1, hab.2, heq']
      · rfl
    · cases h2
      refine ⟨hs1.setCell ell j e' he'w, ?_, by rw [hg]; exact hnodes⟩
      intro a b
      rw [get_setCell hs1 hell hj, hcell, hget1]

end Mwp.RelFix
