/-
  Shared specification-side definitions for C04 (used by the lemma files and by Props/C04).
-/
import Mwp.Model.Choices
import Mwp.Model.Monomial
namespace Mwp.Choices

/-- well-formed delta sequence for vectors of length `n` over `domain`:
    strictly increasing indices, all below `n`, values in the domain -/
def WFSeq (domain : List Nat) (n : Nat) (s : Seq) : Prop :=
  Mono.sortedDeltas s = true ∧ ∀ d ∈ s, d.2 < n ∧ d.1 ∈ domain

/-- a concrete choice vector of the right shape -/
def VecOK (domain : List Nat) (n : Nat) (v : List Nat) : Prop :=
  v.length = n ∧ ∀ x ∈ v, x ∈ domain

/-- `v` matches none of the sequences (the brute-force complement) -/
def Avoids (inf : List Seq) (v : List Nat) : Prop := ∀ s ∈ inf, matchesSeq s v = false

/-- `v` lies in the box described by the compact vector `w` -/
def InBox (w : Vect) (v : List Nat) : Prop :=
  v.length = w.length ∧ ∀ i (h : i < v.length) (h' : i < w.length), v[i] ∈ w[i]

end Mwp.Choices
