/-
  Loop mode soundness: `Relation.loop_correction` cell by cell without the all-or-nothing hypotheses
  of the refinement development (a diagonal cell other than `m` fails, the other cells keep their
  meaning), `loopCorrection_cells_fine`.
-/
import Mwp.Lemmas.RefineLoopsFor
namespace Mwp
namespace LoopSound
open RelFix Mwp.Props.C16 Mwp.Lemmas.Poly

/-- rule L on one diagonal-corrected value -/
def dV (F : Nat → Nat → Scalar) (a b : Nat) : Scalar := if a = b ∧ F a b ≠ .m then .i else F a b

open Classical in
/-- `loop_correction`, cell by cell, WITHOUT the all-or-nothing hypotheses of
    `Relation.loopCorrection_cells_scoped'`: at a choice where the relation is failure-free (and no
    diagonal cell is empty) every cell of the result is rule L of the calculus with failure as ∞
    (a diagonal cell other than `m` fails -- only that cell); and where the relation fails on all
    its cells, so does the result. -/
theorem loopCorrection_cells_fine (r r' : Relation) (g g' : DG.Graph) (x : String)
    (h : r.WF) (hx : x ∈ r.vars)
    (hcanon : ∀ row ∈ r.mat, ∀ p ∈ row, (1 < p.length → ∀ m ∈ p, m.scalar ≠ .o))
    (hcol : ∀ i, i ≠ r.vars.idxOf x → ∀ m ∈ Matrix.get r.mat i (r.vars.idxOf x), m.scalar ≠ .p)
    (hl : Relation.loopCorrection r x g = .ok (r', g')) (c : Choice) :
    r'.vars = r.vars ∧ r'.WF ∧
    ((∀ i j, i < r.vars.length → j < r.vars.length → (Matrix.get r.mat i j).evalD c = .i) →
      ∀ i j, i < r.vars.length → j < r.vars.length → (Matrix.get r'.mat i j).evalD c = .i) ∧
    ((∀ i j, (Matrix.get r.mat i j).evalD c ≠ .i) →
      (∀ i, i < r.vars.length → (Matrix.get r.mat i i).evalD c ≠ .o) →
      ∀ i j, i < r.vars.length → j < r.vars.length →
        (Matrix.get r'.mat i j).evalD c =
          if i = r.vars.idxOf x ∧ (∃ i', i' < r.vars.length ∧
              dV (fun a b => (Matrix.get r.mat a b).evalD c) i' j = .p)
          then dV (fun a b => (Matrix.get r.mat a b).evalD c) i j + .p
          else dV (fun a b => (Matrix.get r.mat a b).evalD c) i j) := by
  obtain ⟨mat', _, e, hwalk⟩ := loopCorrection_walk r r' g g' x hl
  subst e
  have hell : r.vars.idxOf x < r.vars.length := List.idxOf_lt_length_of_mem hx
  have hsq := wf_sq h
  have inv := walk_cells' r h c (r.vars.idxOf x) hell hcol g (mat', g') hwalk
  simp only at inv
  generalize r.vars.idxOf x = ell at *
  have hmem : ∀ a b, a < r.vars.length → b < r.vars.length → (a, b) ∈ loopCells r.mat :=
    fun a b ha hb => (mem_loopCells hsq a b).2 ⟨ha, hb⟩
  have hdiag' : ∀ a, a < r.vars.length →
      Matrix.get mat' a a = (Matrix.get r.mat a a).map (lfix true) := by
    intro a ha
    rw [inv.diag a ha, if_pos (hmem a a ha ha)]
  refine ⟨rfl, ⟨h.1, h.2.1, inv.sq.len, inv.sq.rows, inv.sq.wf⟩, ?_, ?_⟩
  · -- everything fails
    intro hall i j hi hj
    show (Matrix.get mat' i j).evalD c = .i
    by_cases hij : i = j
    · subst hij
      rw [hdiag' i hi]
      exact evalD_map_lfix_i (hall i i hi hi)
    · by_cases hie : i = ell
      · subst hie
        have hje : j ≠ i := fun e => hij e.symm
        rw [inv.rowl j hje, hall i j hi hj]
        exact (infty_absorbs_sum _).1
      · rw [inv.other i j hie hij]
        exact hall i j hi hj
  · -- nothing fails
    intro hfin hdne a b ha hb
    show (Matrix.get mat' a b).evalD c = _
    -- a diagonal cell: `m` stays, anything else fails
    have hdiagV : ∀ a, a < r.vars.length → (Matrix.get mat' a a).evalD c =
        dV (fun a b => (Matrix.get r.mat a b).evalD c) a a := by
      intro a ha
      rw [hdiag' a ha]
      unfold dV
      by_cases hV : (Matrix.get r.mat a a).evalD c = .m
      · rw [if_neg (fun hh => hh.2 hV)]
        apply evalD_map_lfix_of
        intro m hm h1
        have hs : m.scalar ∈ Poly.matching (Matrix.get r.mat a a) c := mem_matching.2 ⟨m, hm, h1, rfl⟩
        have habs := sumAll_absorb hs
        change m.scalar + (Matrix.get r.mat a a).evalD c = (Matrix.get r.mat a a).evalD c at habs
        rw [hV] at habs
        have hom : m.scalar = .o ∨ m.scalar = .m := by
          revert habs
          cases m.scalar <;> simp [Scalar.add_def, Gen.sumTable]
        rcases hom with ho | hm'
        · exfalso
          have hne : Poly.sumAll (Poly.matching (Matrix.get r.mat a a) c) ≠ .o := by
            show (Matrix.get r.mat a a).evalD c ≠ .o
            rw [hV]; simp
          have h2 := sumAll_mem hne
          change (Matrix.get r.mat a a).evalD c ∈ _ at h2
          rw [hV] at h2
          obtain ⟨m1, hm1, _, hs1⟩ := mem_matching.1 h2
          have hne' : m ≠ m1 := by
            intro e
            rw [e, hs1] at ho
            cases ho
          obtain ⟨row, hrow, hcell⟩ := get_mem hsq ha ha
          exact hcanon row hrow _ hcell (two_mem_length hm hm1 hne') m hm ho
        · exact hm'
      · rw [if_pos ⟨rfl, hV⟩]
        -- some matching monomial is not `m`
        have hne : Poly.sumAll (Poly.matching (Matrix.get r.mat a a) c) ≠ .o := hdne a ha
        have h2 := sumAll_mem hne
        change (Matrix.get r.mat a a).evalD c ∈ _ at h2
        obtain ⟨m1, hm1, hmt, hs1⟩ := mem_matching.1 h2
        apply evalD_eq_i_of_mem (m := lfix true m1) (List.mem_map.2 ⟨m1, hm1, rfl⟩)
        · rw [lfix_matches]; exact hmt
        · rw [lfix_true_scalar, if_neg (by rw [hs1]; exact hV)]
    -- `dV` off the diagonal
    have hdVoff : ∀ {a b : Nat}, a ≠ b → dV (fun a b => (Matrix.get r.mat a b).evalD c) a b =
        (Matrix.get r.mat a b).evalD c := by
      intro a b hab; unfold dV; rw [if_neg (fun hh => hab hh.1)]
    have hdVdiag_ne_p : ∀ a, dV (fun a b => (Matrix.get r.mat a b).evalD c) a a ≠ .p := by
      intro a; unfold dV; split
      · simp
      · rename_i hh
        have : (Matrix.get r.mat a a).evalD c = .m := by
          apply Classical.byContradiction; intro hne; exact hh ⟨rfl, hne⟩
        show (Matrix.get r.mat a a).evalD c ≠ .p
        rw [this]; simp
    by_cases hae : a = ell
    · subst hae
      by_cases hbe : b = a
      · subst hbe
        -- the guard's own diagonal cell: column `ell` has no `p`
        have hno : ¬ (b = b ∧ ∃ i', i' < r.vars.length ∧
            dV (fun a b => (Matrix.get r.mat a b).evalD c) i' b = .p) := by
          rintro ⟨_, i', hi', hp⟩
          by_cases hib : i' = b
          · subst hib; exact hdVdiag_ne_p i' hp
          · rw [hdVoff hib] at hp
            exact evalD_ne_p_of_no_p c (hcol i' hib) hp
        rw [if_neg hno]
        exact hdiagV b hb
      · rw [inv.rowl b hbe, hdVoff (fun e => hbe e.symm)]
        have hC : ∀ s ∈ contrib r c a b (loopCells r.mat), ∃ a', a' < r.vars.length ∧ a' ≠ b ∧
            a' ≠ a ∧ s = kap c (Matrix.get r.mat a' b) := by
          intro s hs
          unfold contrib at hs
          obtain ⟨y, hy, rfl⟩ := List.mem_map.1 hs
          obtain ⟨hy1, hy2⟩ := List.mem_filter.1 hy
          obtain ⟨y1, y2⟩ := y
          simp only [Bool.and_eq_true, beq_iff_eq, bne_iff_ne, ne_eq] at hy2
          obtain ⟨⟨e1, e2⟩, e3⟩ := hy2
          subst e1
          exact ⟨y1, ((mem_loopCells hsq y1 y2).1 hy1).1, e2, e3, rfl⟩
        have hCop : ∀ s ∈ contrib r c a b (loopCells r.mat), s = .o ∨ s = .p := by
          intro s hs
          obtain ⟨a', _, _, _, rfl⟩ := hC s hs
          exact kap_o_or_p c _
        by_cases hex : ∃ i', i' < r.vars.length ∧ dV (fun a b => (Matrix.get r.mat a b).evalD c) i' b = .p
        · rw [if_pos ⟨rfl, hex⟩]
          obtain ⟨i', hi', hp⟩ := hex
          have hib : i' ≠ b := fun e => hdVdiag_ne_p b (e ▸ hp)
          rw [hdVoff hib] at hp
          by_cases hia : i' = a
          · subst hia
            rw [hp]
            rcases sumAll_o_or_p hCop with e | e <;> rw [e] <;> rfl
          · have hin : kap c (Matrix.get r.mat i' b) ∈ contrib r c a b (loopCells r.mat) := by
              unfold contrib
              apply List.mem_map.2
              refine ⟨(i', b), List.mem_filter.2 ⟨hmem i' b hi' hb, ?_⟩, rfl⟩
              simp [hib, hia]
            rw [kap_of_evalD_p hp] at hin
            have habs := sumAll_absorb hin
            have : Poly.sumAll (contrib r c a b (loopCells r.mat)) = .p := by
              rcases sumAll_o_or_p hCop with e | e
              · rw [e] at habs; cases habs
              · exact e
            rw [this]
        · rw [if_neg (fun hh => hex hh.2)]
          have hall : ∀ s ∈ contrib r c a b (loopCells r.mat), s = .o := by
            intro s hs
            obtain ⟨a', ha', hab, _, rfl⟩ := hC s hs
            rcases kap_o_or_p c (Matrix.get r.mat a' b) with e | e
            · exact e
            · exfalso
              rcases evalD_of_kap_p e with e' | e'
              · exact hex ⟨a', ha', by rw [hdVoff hab]; exact e'⟩
              · exact hfin a' b e'
          have : Poly.sumAll (contrib r c a b (loopCells r.mat)) = .o := by
            have hmap : contrib r c a b (loopCells r.mat) =
                (contrib r c a b (loopCells r.mat)).map (fun _ => Scalar.o) := by
              conv => lhs; rw [← List.map_id (contrib r c a b (loopCells r.mat))]
              apply List.map_congr_left
              intro s hs; exact hall s hs
            rw [hmap]; exact sumAll_map_o _
          rw [this, sum_zero_right]
    · rw [if_neg (fun hh => hae hh.1)]
      by_cases hab : a = b
      · subst hab; exact hdiagV a ha
      · rw [inv.other a b hae hab, hdVoff hab]

end LoopSound
end Mwp
