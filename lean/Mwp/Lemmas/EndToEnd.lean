/-
  End to end on the MODEL of the analysis: every bound triple the analysis reports at a valid
  choice is respected by every execution.  Chains
    * `Props.C01b.valid_choices_are_derivations` (a valid choice of the reported choice object is a
      derivation of the calculus, and `apply_choice` gives its matrix),
    * `Spec.ExecSound.exec_shape` (= `Props.C03.exec_respects_derivation_any_guard`: a derived
      matrix is respected by every terminating exact execution),
    * the bridge `mem_boundAt`: the triple `Analysis.boundAt` reports for `x` lists the same
      variables as column `x` of the applied matrix (`colM/colW/colP`; `Bound.columnTriple` sorts
      and de-duplicates the names, `Spec.Shape` only asks for membership).
-/
import Mwp.Props.C01b
import Mwp.Lemmas.ExecSound
import Mwp.Lemmas.FuncTotal
namespace Mwp
namespace EndToEnd
open Mwp.Analysis Mwp.Spec Mwp.Refine

/-! ## `vars'` (ExecSound) and `vars` (Refine) are the same list -/

mutual
theorem vars'_eq : ∀ cmd : Cmd, cmd.vars' = cmd.vars
  | .skip => by simp only [Cmd.vars', Cmd.vars]
  | .asgnVar _ _ => by simp only [Cmd.vars', Cmd.vars]
  | .asgnConst _ => by simp only [Cmd.vars', Cmd.vars]
  | .bin _ _ a b => by
    cases a <;> cases b <;> simp only [Cmd.vars', Cmd.vars, Atom.vars']
  | .seq l => by simp only [Cmd.vars', Cmd.vars, varsL'_eq l]
  | .ite t f => by simp only [Cmd.vars', Cmd.vars, vars'_eq t, vars'_eq f]
  | .while_ b => by simp only [Cmd.vars', Cmd.vars, vars'_eq b]
  | .loop _ b => by simp only [Cmd.vars', Cmd.vars, vars'_eq b]
theorem varsL'_eq : ∀ l : List Cmd, varsL' l = varsL l
  | [] => by simp only [varsL', varsL]
  | c :: cs => by simp only [varsL', varsL, vars'_eq c, varsL'_eq cs]
end

/-! ## `Shape` reads its three lists only through membership -/

theorem shape_congr (q : PolyN) {M W P M' W' P' : List Var}
    (hM : ∀ v, v ∈ M ↔ v ∈ M') (hW : ∀ v, v ∈ W ↔ v ∈ W') (hP : ∀ v, v ∈ P ↔ v ∈ P') :
    Shape q M W P = Shape q M' W' P' := by
  have cM : M.contains = M'.contains := by
    funext v; rw [Bool.eq_iff_iff]; simp [hM v]
  have cW : W.contains = W'.contains := by
    funext v; rw [Bool.eq_iff_iff]; simp [hW v]
  have cP : P.contains = P'.contains := by
    funext v; rw [Bool.eq_iff_iff]; simp [hP v]
  unfold Shape
  rw [cM, cW, cP]

/-! ## `Bound.normNames` keeps the members -/

theorem mem_insertName (x n : String) (l : List String) :
    x ∈ Bound.insertName n l ↔ x = n ∨ x ∈ l := by
  induction l with
  | nil => simp [Bound.insertName]
  | cons a t ih =>
    unfold Bound.insertName
    split
    · simp
    · split
      · rename_i h; subst h; simp
      · simp only [List.mem_cons, ih]
        constructor
        · rintro (h | h | h)
          · exact .inr (.inl h)
          · exact .inl h
          · exact .inr (.inr h)
        · rintro (h | h | h)
          · exact .inr (.inl h)
          · exact .inl h
          · exact .inr (.inr h)

theorem mem_normNames (x : String) (l : List String) : x ∈ Bound.normNames l ↔ x ∈ l := by
  unfold Bound.normNames
  induction l with
  | nil => simp
  | cons a t ih => rw [List.foldr_cons, mem_insertName, ih, List.mem_cons]

/-! ## the bridge -/

/-- the rows of column `col` with coefficient `s`, as `Bound.columnTriple` and as `colM/W/P`
    select them -/
theorem column_select (U : List String) (M : SMat) (col : Nat) (s : Scalar) :
    (((U.zipIdx).map fun (rv, row) => (rv, (M.getD row []).getD col Scalar.o)).filter
        (fun e => e.2 == s)).map (·.1)
      = ((U.zipIdx).filter fun (_, i) => SMat.get M i col == s).map (·.1) := by
  rw [List.filter_map, List.map_map]
  rfl

/-- an entry of the reported bound is about a variable of the relation, and its three name lists
    have the members of column `x` of the applied matrix -/
theorem mem_boundAt {rel : Relation} {c : Choice} {x : String} {m w p : List String}
    (hnd : rel.vars.Nodup) (h : (x, m, w, p) ∈ boundAt rel c) :
    x ∈ rel.vars ∧
      (∀ v, v ∈ m ↔ v ∈ colM rel.vars (rel.applyChoice c) x) ∧
      (∀ v, v ∈ w ↔ v ∈ colW rel.vars (rel.applyChoice c) x) ∧
      (∀ v, v ∈ p ↔ v ∈ colP rel.vars (rel.applyChoice c) x) := by
  unfold boundAt at h
  simp only [List.mem_map] at h
  obtain ⟨⟨name, col⟩, hmem, heq⟩ := h
  simp only [Prod.mk.injEq] at heq
  obtain ⟨hname, htri⟩ := heq
  subst hname
  obtain ⟨_, hcol, hget⟩ := List.mem_zipIdx hmem
  simp only [Nat.zero_add, Nat.sub_zero] at hcol hget
  have hx : name ∈ rel.vars := by rw [hget]; exact List.getElem_mem _
  have hidx : idxOf rel.vars name = col := by
    have := idx_of_get hnd col hcol ""
    rw [List.getD_eq_getElem?_getD, List.getElem?_eq_getElem hcol, Option.getD_some, ← hget] at this
    simp [idxOf, this]
  unfold Bound.columnTriple at htri
  simp only [Prod.mk.injEq] at htri
  obtain ⟨hm, hw, hp⟩ := htri
  refine ⟨hx, ?_, ?_, ?_⟩
  · intro v
    rw [← hm, mem_normNames, column_select, colM, hidx]
  · intro v
    rw [← hw, mem_normNames, column_select, colW, hidx]
  · intro v
    rw [← hp, mem_normNames, column_select, colP, hidx]

end EndToEnd

open Mwp.Analysis Mwp.Spec Mwp.Refine EndToEnd in
/-- **End to end on the model.**  For a `FuncOk` function reported not infinite, at any valid choice
    of the reported choice object, after any terminating exact execution of the function body
    (any branch outcomes, any loop counts) the final value of every variable has the shape the
    reported bound triple prescribes. -/
theorem reported_bounds_hold (node : Node) (stop : Bool) (r : Analysis.FuncRes)
    (hok : Refine.FuncOk node = true) (h : Analysis.func node stop = .ok r)
    (cmd : Spec.Cmd) (hd : Spec.desugarFunc node = some cmd) (hf : r.infinite = false)
    (rel : Relation) (hr : r.relation = some rel) (ch : Choices.T) (hc : r.choices = some ch)
    (c : Choice) (hlen : c.length = cmd.arity) (hc3 : ∀ v ∈ c, v < 3)
    (hv : Choices.isValid ch c = true)
    (fuel : Nat) (path p' : Spec.Path) (σ : Spec.Store)
    (he : Spec.exec fuel cmd path [] = some (p', σ)) :
    ∀ x m w p, (x, m, w, p) ∈ Analysis.boundAt rel c → Spec.Shape (σ.get x) m w p = true := by
  obtain ⟨h1, h2⟩ := Props.C01b.valid_choices_are_derivations node stop r hok h cmd hd hf rel hr
    ch hc c hlen hc3
  obtain ⟨k, M, e⟩ := h1.1 hv
  obtain ⟨hvars, hM⟩ := h2 k M e
  obtain ⟨vs, _, _, hcov, hsub, hnd, _, _⟩ := func_sem node stop r hok h cmd hd
  have hcov' : ∀ v ∈ cmd.vars', v ∈ r.variables := by
    intro v hv'
    rw [vars'_eq] at hv'
    exact hsub v (hcov v hv')
  have hsound := ExecSound.exec_shape r.variables hnd cmd hcov' (relabel cmd c) k M e fuel path p' σ he
  intro x m w p hmem
  obtain ⟨hx, em, ew, ep⟩ := mem_boundAt (by rw [hvars]; exact hnd) hmem
  rw [hvars, hM] at em ew ep
  rw [shape_congr (σ.get x) em ew ep]
  exact hsound x (hvars ▸ hx)

open Mwp.Analysis Mwp.Spec Mwp.Refine EndToEnd in
/-- The same without assuming that the analysis succeeds: on a `FuncOk` function it does, and if it
    reports "not infinite" it reports a relation and a choice object with at least one valid
    choice, and every valid choice's bound is respected by every execution. -/
theorem reported_bounds_hold_total (node : Node) (stop : Bool)
    (hok : Refine.FuncOk node = true) (cmd : Spec.Cmd) (hd : Spec.desugarFunc node = some cmd) :
    ∃ r, Analysis.func node stop = .ok r ∧
      (r.infinite = false → ∃ rel ch, r.relation = some rel ∧ r.choices = some ch ∧
        (∃ c : Choice, c.length = cmd.arity ∧ (∀ v ∈ c, v < 3) ∧ Choices.isValid ch c = true) ∧
        ∀ c : Choice, c.length = cmd.arity → (∀ v ∈ c, v < 3) → Choices.isValid ch c = true →
          ∀ (fuel : Nat) (path p' : Spec.Path) (σ : Spec.Store),
            Spec.exec fuel cmd path [] = some (p', σ) →
            ∀ x m w p, (x, m, w, p) ∈ Analysis.boundAt rel c →
              Spec.Shape (σ.get x) m w p = true) := by
  obtain ⟨r, h⟩ := func_total node stop hok cmd hd
  refine ⟨r, h, ?_⟩
  intro hf
  obtain ⟨_, _, _, _, _, _, _, hfin⟩ := func_sem node stop r hok h cmd hd
  obtain ⟨rel, ch, hr, hc, _, _, _, _, ⟨f, _, hl, h3, hvf⟩, _⟩ := hfin hf
  refine ⟨rel, ch, hr, hc, ⟨f, hl, h3, hvf⟩, ?_⟩
  intro c hlen hc3 hv fuel path p' σ he
  exact reported_bounds_hold node stop r hok h cmd hd hf rel hr ch hc c hlen hc3 hv fuel path p' σ he

/-! ## non-vacuity: `int f(int x,int y,int z){ while (x < 10) { x = y + z; } }`, the valid choice
    `[2]`, the path "two iterations" -/
namespace EndToEnd
open Mwp.Analysis Mwp.Spec Mwp.Refine

private def fEx : Node :=
  .funcDef (.decl (some "f") (.funcDecl (some (.paramList
    [.decl (some "x") .typeDecl none, .decl (some "y") .typeDecl none, .decl (some "z") .typeDecl none]))) none)
    (.compound (some [
      .while_ (.binop "<" (.id "x") (.const "int" "10"))
        (.compound (some [.assign "=" (.id "x") (.binop "+" (.id "y") (.id "z"))]))]))
private def cEx : Cmd := .seq [.while_ (.seq [.bin "+" "x" (.var "y") (.var "z")])]
private def σEx : Store := [("x", [["y"], ["z"]])]

example : FuncOk fEx = true := by decide
example : desugarFunc fEx = some cEx := by rfl
example : exec 10 cEx [2] [] = some ([], σEx) := by decide
-- the analysis succeeds, is finite, accepts exactly `[2]`, and reports at `[2]`:
-- x ≤ max(x, y + z), y ≤ y, z ≤ z
example : (func fEx true).toOption.map (fun r => (r.infinite, r.variables)) = some (false, ["x", "y", "z"]) := by
  decide
example : (func fEx true).toOption.map (fun r => r.choices.map (fun ch =>
    (Spec.allChoices 1).filter (Choices.isValid ch))) = some (some [[2]]) := by decide
example : (func fEx true).toOption.map (fun r => r.relation.map (fun rel => (boundAt rel [2]).map (·.1)))
    = some (some ["x", "y", "z"]) := by decide
example : (func fEx true).toOption.map (fun r => r.relation.map (fun rel => (boundAt rel [2]).map (·.2.1)))
    = some (some [["x"], ["y"], ["z"]]) := by decide
example : (func fEx true).toOption.map (fun r => r.relation.map (fun rel => (boundAt rel [2]).map (·.2.2.1)))
    = some (some [["y", "z"], [], []]) := by decide
example : (func fEx true).toOption.map (fun r => r.relation.map (fun rel => (boundAt rel [2]).map (·.2.2.2)))
    = some (some [[], [], []]) := by decide
-- the theorem instantiated at this function, choice and path
example (r : FuncRes) (h : func fEx true = .ok r) (rel : Relation) (hr : r.relation = some rel)
    (ch : Choices.T) (hc : r.choices = some ch) :
    ∀ x m w p, (x, m, w, p) ∈ boundAt rel [2] → Shape (σEx.get x) m w p = true := by
  have hf : r.infinite = false := by
    have : (func fEx true).toOption.map (·.infinite) = some false := by decide
    rw [h] at this; exact Option.some.inj this
  have hv : Choices.isValid ch [2] = true := by
    have : (func fEx true).toOption.map (fun r => r.choices.map (fun ch => Choices.isValid ch [2]))
        = some (some true) := by decide
    rw [h] at this
    simp only [Except.toOption, Option.map_some, hc, Option.some.injEq] at this
    exact this
  exact reported_bounds_hold fEx true r (by decide) h cEx (by rfl) hf rel hr ch hc [2] rfl (by decide)
    hv 10 [2] [] σEx (by decide)
-- and the conclusion is a non-trivial sentence: `y + z` against ({x}, {y, z}, ∅) holds, against
-- the triple of another alternative (({y}, ∅, {z}), alternative 0) it would too, but not against
-- ({x}, {y}, ∅)
example : Shape (σEx.get "x") ["x"] ["y", "z"] [] = true ∧ Shape (σEx.get "x") ["x"] ["y"] [] = false := by
  decide

end EndToEnd
end Mwp
