/-
  Shared definitions for the refinement theorems (model `Analysis.compute` vs `Spec.sem`).
-/
import Mwp.Lemmas.RelDefs
import Mwp.Model.Analysis
namespace Mwp
open Spec

/-- meaning of a dense spec matrix over universe `U` as a function on names
    (identity outside `U`), comparable with `Relation.den` -/
def Spec.SMat.den (U : List String) (M : SMat) (x y : String) : Scalar :=
  match U.idxOf? x, U.idxOf? y with
  | some i, some j => SMat.get M i j
  | _, _ => if x = y then .m else .o

/-- translate an implementation choice vector into the calculus numbering for a command whose
    first binary operation has derivation index `idx` (positions `idx, idx+1, …` are swapped
    0↔1 where `cmd.swaps` says so) -/
def Spec.relabelAt (idx : Nat) (cmd : Cmd) (c : Choice) : Choice :=
  c.zipIdx.map fun (v, k) =>
    if k ≥ idx && (cmd.swaps.getD (k - idx) false) then (if v == 0 then 1 else if v == 1 then 0 else v) else v

mutual
/-- commands without loops -/
def Spec.Cmd.loopFree : Cmd → Bool
  | .while_ _ => false
  | .loop _ _ => false
  | .seq l => loopFreeL l
  | .ite t f => t.loopFree && f.loopFree
  | _ => true
def Spec.loopFreeL : List Cmd → Bool
  | [] => true
  | c :: cs => c.loopFree && loopFreeL cs
end

mutual
/-- variables a command mentions -/
def Spec.Cmd.vars : Cmd → List String
  | .skip => []
  | .asgnVar x y => [x, y]
  | .asgnConst x => [x]
  | .bin _ x a b =>
    x :: ((match a with | .var y => [y] | .const => []) ++ (match b with | .var z => [z] | .const => []))
  | .seq l => varsL l
  | .ite t f => t.vars ++ f.vars
  | .while_ b => b.vars
  | .loop X b => X :: b.vars
def Spec.varsL : List Cmd → List String
  | [] => []
  | c :: cs => c.vars ++ varsL cs
end

end Mwp
