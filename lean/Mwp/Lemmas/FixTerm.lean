/-
  Termination of the `while True` loop of `Relation.fixpoint` (pymwp/relation.py), for every
  well-formed relation, with no bound on sizes or on the number of deltas.

  Proof idea (parts A–D):
  * A: every cell of `fix` is in canonical form (well-formed monomials, strictly sorted by
       `Poly.compare`, antichain for `Mono.inclusion`, `Poly.zero` or no zero coefficient);
       `Poly.add p q` keeps the canonical form of `p` for any well-formed `q`.
  * B: two canonical polynomials with the same value at every choice vector are the same list
       (generic choice vectors: the values a monomial asks for, a fresh value elsewhere).
  * C: at each choice vector the scalar chain `Sₖ` of the loop is monotone in a poset of height
       `4n²` and obeys `Sₖ₊₁ = I ⊕ Sₖ·A`, so it is stationary from round `4n²` on -- at every
       choice vector simultaneously.
  * D: at round `4n²` at the latest, `fix' = fix ⊕ current'` has the values of `fix`
       everywhere, hence is `fix`, and the positional test `equal` succeeds.

  So the number of rounds is at most `4n² + 1` (`n` = number of variables), and the fuel
  `Relation.fixFuel r = 8(n+1)² + 64` of the model is never exhausted
  (`Relation.fixpoint_terminates`).
-/
import Mwp.Lemmas.FixTermD

namespace Mwp
open Mwp.RelFix Mwp.FixTerm

/-- explicit bound on the number of rounds of the loop: `4n² + 1`, `n` the number of variables
    (independent of the polynomials in the cells) -/
def Relation.termBound (r : Relation) : Nat := 4 * r.vars.length * r.vars.length + 1

/-- the loop stops: with at least `termBound r` fuel the fuelled loop returns a result, after at
    most `termBound r` rounds -/
theorem Relation.fixpointAux_terminates (r : Relation) (h : r.WF) :
    ∀ fuel, r.termBound ≤ fuel → ∃ f k,
      Relation.fixpointAux r fuel
        (Relation.new r.vars (some (Matrix.identity r.vars.length)))
        (Relation.new r.vars (some (Matrix.identity r.vars.length))) 0 = .ok (f, k) ∧
      k ≤ r.termBound := by
  intro fuel hf
  rw [new_some_eq _ _ h.2.1 (by simp [Matrix.identity])]
  exact fixpointAux_stops r h fuel _ _ 0 (Inv_start r h) (Nat.zero_le _)
    (by unfold Relation.termBound at hf; omega)

/-- more fuel never changes the answer -/
theorem Relation.fixpointAux_fuel_mono (r fix cur : Relation) (k fuel fuel' : Nat) (f : Relation)
    (n : Nat) (h : Relation.fixpointAux r fuel fix cur k = .ok (f, n)) (hle : fuel ≤ fuel') :
    Relation.fixpointAux r fuel' fix cur k = .ok (f, n) :=
  fuel_mono r fuel fuel' fix cur k (f, n) h hle

theorem Relation.termBound_le_fixFuel (r : Relation) : r.termBound ≤ r.fixFuel := by
  unfold Relation.termBound Relation.fixFuel
  have e : 8 * (r.vars.length + 1) * (r.vars.length + 1) =
      8 * (r.vars.length * r.vars.length) + 16 * r.vars.length + 8 := by
    rw [Nat.mul_assoc, Nat.add_mul, Nat.mul_add, Nat.mul_add]; omega
  rw [e, Nat.mul_assoc]
  omega

/-- the fuel of the model is never exhausted: `Relation.fixpoint` returns a relation for every
    well-formed input (no `"Diverged"`) -/
theorem Relation.fixpoint_terminates (r : Relation) (h : r.WF) : ∃ f, Relation.fixpoint r = .ok f := by
  obtain ⟨f, k, hfk, _⟩ := Relation.fixpointAux_terminates r h r.fixFuel r.termBound_le_fixFuel
  refine ⟨f, ?_⟩
  unfold Relation.fixpoint
  simp only [hfk]
  rfl

/-- total correctness: the result exists and means the reflexive-transitive closure at every
    choice vector -/
theorem Relation.fixpoint_total (r : Relation) (h : r.WF) :
    ∃ f, Relation.fixpoint r = .ok f ∧ f.vars = r.vars ∧ f.WF ∧
      ∀ c, f.toSMat c = Spec.SMat.closure (r.toSMat c) := by
  obtain ⟨f, hf⟩ := Relation.fixpoint_terminates r h
  exact ⟨f, hf, (Relation.fixpoint_toSMat r f h hf []).1, (Relation.fixpoint_toSMat r f h hf []).2.1,
    fun c => (Relation.fixpoint_toSMat r f h hf c).2.2⟩

/-! ## non-vacuity: a 2×2 relation with delta-indexed polynomials that needs 4 rounds -/

namespace FixTerm

def rEx : Relation := ⟨["x", "y"],
  [[ [⟨.m, [(0, 0)]⟩, ⟨.w, [(1, 0)]⟩], [⟨.w, [(1, 0)]⟩] ],
   [ [⟨.p, [(0, 1)]⟩, ⟨.m, [(1, 1)]⟩], [⟨.m, []⟩] ]]⟩

theorem rEx_wf : rEx.WF := ⟨by decide, by decide, by decide, by decide, by decide⟩

def rExStart : Relation := Relation.new rEx.vars (some (Matrix.identity rEx.vars.length))

/-- three rounds are not enough ... -/
example : (match Relation.fixpointAux rEx 3 rExStart rExStart 0 with
    | .error e => e == "Diverged" | .ok _ => false) = true := by decide

/-- ... the fourth one stops, well within `termBound rEx = 17` -/
example : (Relation.fixpointAux rEx rEx.termBound rExStart rExStart 0).toOption.map (·.2) = some 4 := by
  decide

example : rEx.termBound = 17 := by decide

end FixTerm
end Mwp
