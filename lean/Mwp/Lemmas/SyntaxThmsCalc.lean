/-
  (C05) what the syntax check accepts in full, the calculus reading `desugar` can read --
  outside explicitly excluded shapes (see `SyntaxThmsDefs`).
-/
import Mwp.Lemmas.SyntaxThmsDefs
import Mwp.Lemmas.SyntaxThmsCov2
namespace Mwp
open Mwp Mwp.Syntax Mwp.Spec

/-! ### readable by `desugar` ⇒ nothing unmodellable (pure specification fact) -/

theorem isSome_map {α β : Type} (f : α → β) (o : Option α) : (o.map f).isSome = o.isSome := by
  cases o <;> rfl

theorem countedFor_of_desugar (i c x : Option Node) (b : Node)
    (h : (desugar (.for_ i c x b)).isSome = true) :
    countedFor (.for_ i c x b) = true ∧ (desugar b).isSome = true := by
  rw [countedFor_for]
  simp only [desugar, loopCompat_for] at h
  rcases lcP_cases i c x b with ⟨X, hX⟩ | hX
  · rw [hX] at h ⊢
    simp only [isSome_map] at h
    exact ⟨rfl, h⟩
  · rw [hX] at h
    cases h

mutual
theorem unmodellable_of_desugar :
    (n : Node) → (desugar n).isSome = true → unmodellable n = []
  | .ifs c t f => by
    intro h
    simp only [desugar] at h
    split at h
    · cases h
    simp only [unmodellable]
    cases ht : desugarO t with
    | none => rw [ht] at h; cases h
    | some a =>
      cases hf : desugarO f with
      | none => rw [ht, hf] at h; cases h
      | some b =>
        rw [unmodellableO_of_desugar t (by rw [ht]; rfl), unmodellableO_of_desugar f (by rw [hf]; rfl)]
        rfl
  | .while_ _ b | .doWhile _ b => by
    intro h
    simp only [desugar] at h
    split at h
    · cases h
    simp only [isSome_map] at h
    simp only [unmodellable]
    exact unmodellable_of_desugar b h
  | .for_ i c x b => by
    intro h
    obtain ⟨h1, h2⟩ := countedFor_of_desugar i c x b h
    simp only [unmodellable, h1, if_true]
    exact unmodellable_of_desugar b h2
  | .compound none => by intro _; simp only [unmodellable]
  | .compound (some l) => by
    intro h
    simp only [desugar, isSome_map] at h
    simp only [unmodellable]
    exact unmodellableL_of_desugar l h
  | .funcDef _ _ => by
    intro h
    simp only [desugar] at h
    cases h
  | .id _ | .const .. | .binop .. | .unop .. | .cast _ | .assign .. | .funcCall .. | .exprList _
  | .ternary .. | .arrayRef .. | .decl .. | .typeDecl | .declList _ | .ret _ | .brk | .cont
  | .empty | .label .. | .goto _ | .switch .. | .case_ .. | .default_ _ | .paramList _
  | .funcDecl _ | .other .. => by
    intro h
    simp only [unmodellable, h, if_true]
theorem unmodellableL_of_desugar :
    (l : List Node) → (desugarL l).isSome = true → unmodellableL l = []
  | [] => by intro _; simp only [unmodellableL]
  | n :: ns => by
    intro h
    simp only [desugarL] at h
    simp only [unmodellableL]
    cases hn : desugar n with
    | none => rw [hn] at h; cases h
    | some a =>
      cases hl : desugarL ns with
      | none => rw [hn, hl] at h; cases h
      | some b =>
        rw [unmodellable_of_desugar n (by rw [hn]; rfl), unmodellableL_of_desugar ns (by rw [hl]; rfl)]
        rfl
theorem unmodellableO_of_desugar :
    (o : Option Node) → (desugarO o).isSome = true → unmodellableO o = []
  | none => by intro _; simp only [unmodellableO]
  | some n => by
    intro h
    simp only [desugarO] at h
    simp only [unmodellableO]
    exact unmodellable_of_desugar n h
end

/-! ### what `Coverage` accepts, `desugar` reads -/

/-- both local conditions at once -/
def good (n : Node) : Bool :=
  stmtCtor n && noIncDecOfConstAt n

theorem allowOperand_elim {n : Node} (h : allowOperand n = true) :
    (∃ y, n = .id y) ∨ ∃ t v, n = .const t v := by
  cases n
  case id y => exact .inl ⟨y, rfl⟩
  case const t v => exact .inr ⟨t, v, rfl⟩
  all_goals cases h

theorem noSE_of_allowOperand (l : Node) (h : allowOperand l.rmCast = true) :
    hasSideEffect l = false := by
  cases l with
  | cast e =>
    simp only [hasSideEffect]
    exact noSE_of_allowOperand e (by simpa only [Node.rmCast] using h)
  | id => simp only [hasSideEffect]
  | const => simp only [hasSideEffect]
  | _ => cases h

theorem atomOf_of_allowOperand (l : Node) (h : allowOperand l.rmCast = true) :
    ∃ a, atomOf l = some a := by
  unfold atomOf
  rcases allowOperand_elim h with ⟨y, hy⟩ | ⟨t, v, hv⟩
  · rw [hy]; exact ⟨_, rfl⟩
  · rw [hv]; exact ⟨_, rfl⟩

theorem covN_binop_up (op : String) (l r : Node) (c : Cov) (h : covN (.binop op l r) = .ok c)
    (hu : c.up = 0) :
    Gen.binOps.contains op = true ∧ allowOperand l.rmCast = true ∧ allowOperand r.rmCast = true := by
  simp only [covN, pure_eq_ok, Except.ok.injEq] at h
  split at h
  · rename_i hc
    simpa only [Bool.and_eq_true, and_assoc] using hc
  · subst h; cases hu

theorem uOps_cases {op : String} (h : Gen.uOps.contains op = true) :
    op = "!" ∨ op = "+" ∨ op = "++" ∨ op = "-" ∨ op = "--" ∨ op = "p++" ∨ op = "p--" ∨
      op = "sizeof" := by
  simpa [Gen.uOps] using h

theorem binOps_cases {op : String} (h : Gen.binOps.contains op = true) :
    op = "*" ∨ op = "+" ∨ op = "-" := by
  simpa [Gen.binOps] using h

theorem covN_rmCast (r : Node) (a : Cov) (h : covN r = .ok a) :
    ∃ a', covN r.rmCast = .ok a' ∧ a'.up = a.up := by
  cases r with
  | cast e =>
    simp only [covN_cast, bind_eq_ok, Except.ok.injEq] at h
    obtain ⟨a', ha', rfl⟩ := h
    simp only [Node.rmCast]
    exact covN_rmCast e a' ha'
  | _ => exact ⟨a, h, rfl⟩

/-- what `Coverage.UnaryOp` lets through as a cast-free operand, seen from outside: an
    identifier, a constant, or a unary operation that is not `++`/`--` -/
def operandShape : Node → Bool
  | .id _ => true
  | .const .. => true
  | .unop op _ => !Gen.incDec.contains op
  | _ => false

theorem hasSideEffect_rmCast (e : Node) : hasSideEffect e.rmCast = hasSideEffect e := by
  cases e with
  | cast e' =>
    simp only [Node.rmCast, hasSideEffect]
    exact hasSideEffect_rmCast e'
  | _ => rfl

theorem operandShape_of_cond {op : String} {m : Node}
    (h : (m.isId || m.isConst || nestedOk op m) = true) : operandShape m = true := by
  cases m
  case id => rfl
  case const => rfl
  case unop op' e =>
    simp only [Node.isId, Node.isConst, nestedOk, Bool.false_or, Bool.and_eq_true] at h
    exact h.2
  all_goals cases h

/-- an operand accepted under a unary operator has no side effect unless it is (a cast of) an
    increment / decrement -/
theorem noSE_of_covN (n : Node) :
    ∀ c, covN n = .ok c → c.up = 0 → operandShape n.rmCast = true → hasSideEffect n = false := by
  intro c h hu hs
  cases n with
  | id => simp only [hasSideEffect]
  | const => simp only [hasSideEffect]
  | cast e =>
    simp only [covN_cast, bind_eq_ok, Except.ok.injEq] at h
    obtain ⟨a, ha, rfl⟩ := h
    simp only [hasSideEffect]
    exact noSE_of_covN e a ha hu (by simpa only [Node.rmCast] using hs)
  | unop op e =>
    rw [covN_unop] at h
    split at h
    · rename_i hc
      simp only [bind_eq_ok, Except.ok.injEq] at h
      obtain ⟨a, ha, rfl⟩ := h
      simp only [Bool.and_eq_true] at hc
      have hse := noSE_of_covN e a ha hu (operandShape_of_cond hc.2)
      have hid : Gen.incDec.contains op = false := by
        simpa only [Node.rmCast, operandShape, Bool.not_eq_true'] using hs
      simp only [hasSideEffect, incDec_test, hid, hse, Bool.or_self]
    · cases h; cases hu
  | _ => cases hs

theorem desugar_assign_isSome (x : String) (r : Node) (a : Cov) (ha : covN r = .ok a)
    (hu : a.up = 0) (hal : allowRhs r.rmCast = true)
    (h3 : noIncDecOfConstAt (.assign "=" (.id x) r) = true) :
    (desugar (.assign "=" (.id x) r)).isSome = true := by
  obtain ⟨a', ha', hu'⟩ := covN_rmCast r a ha
  rw [hu] at hu'
  simp only [noIncDecOfConstAt, rhsUnop?] at h3
  simp only [desugar]
  generalize r.rmCast = e at *
  cases e
  case id => rfl
  case const => rfl
  case binop op l rr =>
    obtain ⟨hop, hl, hrr⟩ := covN_binop_up op l rr a' ha' hu'
    obtain ⟨al, hal⟩ := atomOf_of_allowOperand l hl
    obtain ⟨ar, har⟩ := atomOf_of_allowOperand rr hrr
    simp only [hal, har]
    rcases binOps_cases hop with rfl | rfl | rfl <;> rfl
  case unop op e =>
    rw [covN_unop] at ha'
    split at ha'
    case isFalse => cases ha'; cases hu'
    rename_i hc
    simp only [Bool.and_eq_true] at hc
    obtain ⟨hop, h2⟩ := hc
    simp only [bind_eq_ok, Except.ok.injEq] at ha'
    obtain ⟨ae, hae, rfl⟩ := ha'
    simp only at h3 ⊢
    by_cases hns : (op == "!" || op == "sizeof") = true
    · have hse := noSE_of_covN e ae hae hu' (operandShape_of_cond h2)
      simp only [hns, if_true, hse]; rfl
    · simp only [hns]
      generalize e.rmCast = e' at *
      cases e'
      case id y =>
        rcases uOps_cases hop with rfl | rfl | rfl | rfl | rfl | rfl | rfl | rfl <;>
          first | rfl | (exfalso; revert hns; decide)
      case const =>
        simp only [Node.isConst, Bool.and_true] at h3
        rcases uOps_cases hop with rfl | rfl | rfl | rfl | rfl | rfl | rfl | rfl <;>
          first | rfl | (exfalso; revert hns; decide) | (exfalso; revert h3; decide)
      case unop =>
        simp only [Node.isId, Node.isConst, nestedOk, Bool.false_or, Bool.and_eq_true] at h2
        exact absurd h2.1 hns
      all_goals cases h2
  all_goals cases hal

theorem good_elim {n : Node} (h : good n = true) :
    stmtCtor n = true ∧ noIncDecOfConstAt n = true := by
  simpa only [good, Bool.and_eq_true, and_assoc] using h

mutual
theorem covN_desugar : (n : Node) → ∀ c, covN n = .ok c → c.up = 0 → c.inner = 0 →
    stmtAll good n = true → (desugar n).isSome = true
  | .id _ | .const .. | .brk | .cont | .empty | .compound none => by
    intro c _ _ _ _
    simp only [desugar]; rfl
  | .ret none => by
    intro c _ _ _ _
    simp only [desugar, changesVariableO]; rfl
  | .ret (some x) => by
    intro c h hu _ _
    simp only [covN] at h
    split at h
    · simp only [pure_eq_ok, Except.ok.injEq] at h; subst h; cases hu
    rename_i hc
    simp only [desugar, changesVariableO, ← hasEffect_eq_changesVariable, hc,
      Bool.false_eq_true, if_false]
    rfl
  | .typeDecl | .declList _ | .paramList _ | .case_ .. | .default_ _ | .funcDef .. => by
    intro c _ _ _ hg
    simp only [stmtAll, Bool.and_eq_true] at hg
    first | cases (good_elim hg).1 | cases (good_elim hg.1).1
  | .ternary .. | .arrayRef .. | .switch .. | .goto _ | .funcDecl _ => by
    intro c h hu _ _
    simp only [covN, pure_eq_ok, Except.ok.injEq] at h
    subst h; cases hu
  | .funcCall name args => by
    intro c h hu _ _
    simp only [covN, pure_eq_ok, Except.ok.injEq] at h
    split at h
    · rename_i hc
      simp only [desugar, hc, if_true]; rfl
    · subst h; cases hu
  | .binop op l r => by
    intro c h hu _ _
    obtain ⟨_, hl, hr⟩ := covN_binop_up op l r c h hu
    simp only [desugar, hasSideEffect, noSE_of_allowOperand l hl, noSE_of_allowOperand r hr]
    rfl
  | .other cls nm ks => by
    intro c h hu _ hg
    simp only [covN, pure_eq_ok, Except.ok.injEq] at h
    split at h
    · rename_i hc
      simp only [stmtAll] at hg
      have := (good_elim hg).1
      simp only [stmtCtor, hc] at this
      cases this
    · subst h; cases hu
  | .decl nm ty init => by
    intro c h hu _ _
    simp only [covN_decl, Except.ok.injEq] at h
    subst h
    cases ty <;> cases init <;> first | (simp only [desugar]; rfl) | cases hu
  | .unop op e => by
    intro c h hu _ _
    rw [covN_unop] at h
    split at h
    · rename_i hc
      simp only [bind_eq_ok, Except.ok.injEq] at h
      obtain ⟨a, ha, rfl⟩ := h
      simp only [Bool.and_eq_true] at hc
      have hse : hasSideEffect e.rmCast = false := by
        rw [hasSideEffect_rmCast]
        exact noSE_of_covN e a ha hu (operandShape_of_cond hc.2)
      simp only [desugar]
      split
      · split
        · rfl
        · split <;> rfl
      · simp only [hse]; rfl
    · cases h; cases hu
  | .assign op l r => by
    intro c h hu hi hg
    rw [covN_assign] at h
    split at h
    · cases h; cases hu
    · rename_i hc
      simp only [bind_eq_ok, Except.ok.injEq] at h
      obtain ⟨a, ha, rfl⟩ := h
      simp only [Bool.not_eq_true, Bool.not_eq_false', Bool.and_eq_true, beq_iff_eq] at hc
      obtain ⟨⟨rfl, hl⟩, hal⟩ := hc
      simp only [stmtAll] at hg
      obtain ⟨_, h3⟩ := good_elim hg
      cases l with
      | id x => exact desugar_assign_isSome x r a ha hu hal h3
      | _ => cases hl
  | .cast e => by
    intro c h hu hi hg
    simp only [covN_cast, bind_eq_ok, Except.ok.injEq] at h
    obtain ⟨a, ha, rfl⟩ := h
    simp only [stmtAll, Bool.and_eq_true] at hg
    simp only [desugar]
    exact covN_desugar e a ha hu hi hg.2
  | .label _ e => by
    intro c h hu hi hg
    simp only [covN, bind_eq_ok, pure_eq_ok, Except.ok.injEq] at h
    obtain ⟨a, ha, rfl⟩ := h
    simp only [stmtAll, Bool.and_eq_true] at hg
    simp only [desugar]
    exact covN_desugar e a ha hu hi hg.2
  | .exprList l | .compound (some l) => by
    intro c h _ hi hg
    simp only [covN, bind_eq_ok, pure_eq_ok, Except.ok.injEq] at h
    obtain ⟨a, ha, rfl⟩ := h
    simp only [stmtAll, Bool.and_eq_true] at hg
    simp only [desugar, isSome_map]
    exact covList_desugar l a.1 a.2 ha hi hg.2
  | .while_ _ b | .doWhile _ b => by
    intro c h hu hi hg
    simp only [covN] at h
    split at h
    · simp only [pure_eq_ok, Except.ok.injEq] at h; subst h; cases hu
    rename_i hc
    simp only [bind_eq_ok, pure_eq_ok, Except.ok.injEq] at h
    obtain ⟨a, ha, rfl⟩ := h
    simp only [stmtAll, Bool.and_eq_true] at hg
    simp only [desugar, ← hasEffect_eq_changesVariable, hc, Bool.false_eq_true, if_false, isSome_map]
    exact covBody_desugar b a.1 a.2 ha hi hg.2
  | .for_ init cond next b => by
    intro c h hu hi hg
    rw [covN_for] at h
    split at h
    · rename_i hl
      simp only [bind_eq_ok, Except.ok.injEq] at h
      obtain ⟨a, ha, rfl⟩ := h
      simp only [stmtAll, Bool.and_eq_true] at hg
      simp only [desugar, loopCompat_for]
      rcases lcP_cases init cond next b with ⟨X, hX⟩ | hX
      · rw [hX]
        simp only [isSome_map]
        exact covBody_desugar b a.1 a.2 ha hi hg.2
      · rw [hX] at hl; cases hl
    · cases h; cases hu
  | .ifs _ t f => by
    intro c h hu hi hg
    simp only [covN] at h
    split at h
    · simp only [pure_eq_ok, Except.ok.injEq] at h; subst h; cases hu
    rename_i hc
    simp only [bind_eq_ok, pure_eq_ok, Except.ok.injEq] at h
    obtain ⟨a, ha, b, hb, rfl⟩ := h
    have hi : a.1 + b.1 = 0 := hi
    simp only [stmtAll, Bool.and_eq_true] at hg
    have h1 := covSlot_desugar t a.1 a.2 ha (by omega) hg.1.2
    have h2 := covSlot_desugar f b.1 b.2 hb (by omega) hg.2
    simp only [desugar, ← hasEffect_eq_changesVariable, hc, Bool.false_eq_true, if_false]
    cases ht : desugarO t with
    | none => rw [ht] at h1; cases h1
    | some x =>
      cases hf : desugarO f with
      | none => rw [hf] at h2; cases h2
      | some y => rfl
termination_by n => (sizeOf n, 0)
theorem covList_desugar : (l : List Node) → ∀ k l', covList l = .ok (k, l') → k = 0 →
    stmtAllL good l = true → (desugarL l).isSome = true
  | [] => by
    intro k l' _ _ _
    simp only [desugarL]; rfl
  | n :: ns => by
    intro k l' h hk hg
    simp only [covList, bind_eq_ok, pure_eq_ok, Except.ok.injEq] at h
    obtain ⟨c, hc, r, hr, h⟩ := h
    simp only [stmtAllL, Bool.and_eq_true] at hg
    split at h
    · cases h; omega
    · cases h
      have hk : c.inner + r.1 = 0 := hk
      have h1 := covN_desugar n c hc (by omega) (by omega) hg.1
      have h2 := covList_desugar ns r.1 r.2 hr (by omega) hg.2
      simp only [desugarL]
      cases hn : desugar n with
      | none => rw [hn] at h1; cases h1
      | some x =>
        cases hl : desugarL ns with
        | none => rw [hl] at h2; cases h2
        | some y => rfl
termination_by l => (sizeOf l, 0)
theorem covSlot_desugar : (o : Option Node) → ∀ k o', covSlot o = .ok (k, o') → k = 0 →
    stmtAllO good o = true → (desugarO o).isSome = true
  | none => by
    intro k l' _ _ _
    simp only [desugarO]; rfl
  | some n => by
    intro k l' h hk hg
    simp only [covSlot, bind_eq_ok, pure_eq_ok, Except.ok.injEq] at h
    obtain ⟨c, hc, h⟩ := h
    simp only [stmtAllO] at hg
    split at h
    · cases h; omega
    · cases h
      simp only [desugarO]
      exact covN_desugar n c hc (by omega) hk hg
termination_by o => (sizeOf o, 0)
theorem covBody_desugar (b : Node) : ∀ k b', covBody b = .ok (k, b') → k = 0 →
    stmtAll good b = true → (desugar b).isSome = true := by
  intro k b' h hk hg
  cases hc : b.isCompound
  · rw [covBody_nc b hc] at h
    simp only [bind_eq_ok, Except.ok.injEq] at h
    obtain ⟨c, hcv, h⟩ := h
    split at h
    · cases h; omega
    · cases h
      exact covN_desugar b c hcv (by omega) hk hg
  · obtain ⟨items, rfl⟩ := isCompound_elim hc
    cases items with
    | none => simp only [desugar]; rfl
    | some l =>
      simp only [covBody, bind_eq_ok, pure_eq_ok, Except.ok.injEq] at h
      obtain ⟨a, ha, h⟩ := h
      cases h
      simp only [stmtAll, Bool.and_eq_true] at hg
      simp only [desugar, isSome_map]
      exact covList_desugar l a.1 a.2 ha hk hg.2
termination_by (sizeOf b, 1)
end

/-! ### assembling the hypotheses -/

mutual
theorem stmtAll_and (p q : Node → Bool) : (n : Node) →
    stmtAll (fun n => p n && q n) n = (stmtAll p n && stmtAll q n)
  | .cast e | .label _ e | .while_ _ e | .doWhile _ e | .for_ _ _ _ e | .funcDef _ e => by
    simp only [stmtAll, stmtAll_and p q e]; ac_rfl
  | .exprList l | .compound (some l) => by
    simp only [stmtAll, stmtAllL_and p q l]; ac_rfl
  | .ifs _ t f => by
    simp only [stmtAll, stmtAllO_and p q t, stmtAllO_and p q f]; ac_rfl
  | .id _ | .const .. | .binop .. | .unop .. | .assign .. | .funcCall ..
  | .ternary .. | .arrayRef .. | .decl .. | .typeDecl | .declList _ | .ret _ | .brk | .cont
  | .empty | .goto _ | .switch .. | .case_ .. | .default_ _ | .paramList _
  | .funcDecl _ | .other .. | .compound none => by
    simp only [stmtAll]
theorem stmtAllL_and (p q : Node → Bool) : (l : List Node) →
    stmtAllL (fun n => p n && q n) l = (stmtAllL p l && stmtAllL q l)
  | [] => by simp only [stmtAllL]; rfl
  | n :: ns => by
    simp only [stmtAllL, stmtAll_and p q n, stmtAllL_and p q ns]; ac_rfl
theorem stmtAllO_and (p q : Node → Bool) : (o : Option Node) →
    stmtAllO (fun n => p n && q n) o = (stmtAllO p o && stmtAllO q o)
  | none => by simp only [stmtAllO]; rfl
  | some n => by simp only [stmtAllO, stmtAll_and p q n]
end

theorem stmtAll_good (n : Node) (h0 : stmtAll stmtCtor n = true)
    (h3 : stmtAll noIncDecOfConstAt n = true) : stmtAll good n = true := by
  have : good = fun n => stmtCtor n && noIncDecOfConstAt n := rfl
  rw [this, stmtAll_and, h0, h3]
  rfl

theorem isFunc_elim {f : Node} (h : f.isFunc = true) : ∃ d b, f = .funcDef d b := by
  cases f
  case funcDef d b => exact ⟨d, b, rfl⟩
  all_goals cases h

/-- (C05) If the syntax check reports full support, every statement is readable by `desugar`,
    outside one explicitly excluded shape of `x = op e` (`x = ++c`) and for trees whose statement
    positions hold statements or expressions. -/
theorem full_implies_modellable_partial (f : Node) (m : Node) (hf : f.isFunc = true)
    (h : coverage f = .ok (0, m))
    (hid : NoIncDecOfConst f) (hs : StmtShaped f) : Spec.unmodellable f = [] := by
  obtain ⟨d, b, rfl⟩ := isFunc_elim hf
  obtain ⟨c, hc, hu, hi, _⟩ := coverage_inv _ m 0 h
  simp only [NoIncDecOfConst, stmtAll, Bool.and_eq_true] at hid
  simp only [StmtShaped] at hs
  have hg := stmtAll_good b hs hid.2
  have key : ∃ cb, covN b = .ok cb ∧ cb.up = 0 ∧ cb.inner = 0 := by
    by_cases hd : ∃ nm a i, d = .decl nm (.funcDecl (some a)) i
    · obtain ⟨nm, a, i, rfl⟩ := hd
      rw [covN_funcDef_some] at hc
      obtain ⟨ca, cb, _, _, hb, hub, rfl⟩ := hc
      have hi : ca.inner + cb.inner = 0 := hi
      exact ⟨cb, hb, hub, by omega⟩
    · rw [covN_funcDef_other _ _ _ (fun nm a i h => hd ⟨nm, a, i, h⟩)] at hc
      obtain ⟨cb, hb, hub, rfl⟩ := hc
      exact ⟨cb, hb, hub, hi⟩
  obtain ⟨cb, hb, hub, hib⟩ := key
  simp only [unmodellable]
  exact unmodellable_of_desugar b (covN_desugar b cb hb hub hib hg)

end Mwp
