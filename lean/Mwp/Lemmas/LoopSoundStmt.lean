/-
  Loop mode soundness: the invariant `CInv` holds for the relation `compute_relation` returns (run to
  completion) for every supported statement, loops nested at will, at every choice vector valid on
  the statement's index range (`compute_ci`), by induction on the size of the syntax tree.
-/
import Mwp.Lemmas.LoopSoundInv
import Mwp.Lemmas.RefineLoops
namespace Mwp
namespace LoopSound
open Mwp.Props.C16 Mwp.Lemmas.Poly Spec RelFix Refine Analysis

/-- what the analysis of one statement (run to completion) guarantees at one choice vector -/
structure CI (U : List String) (c c' : Choice) (idx : Nat) (cmd : Cmd) (out : Analysis.Out) : Prop where
  exit : out.exit = false
  index : out.index = idx + cmd.arity
  main : ∃ r g, out.rels = [r] ∧ r.WF ∧ (∀ v ∈ r.vars, v ∈ cmd.vars) ∧
    semI U cmd idx c' = (idx + cmd.arity, matOf U g) ∧ CInv U r c g

def NodeCI (n : Node) : Prop :=
  ∀ cmd, desugar n = some cmd → namesOkA n = true → guardsFresh cmd = true →
    ∀ (idx : Nat) (dg : DG.Graph) (out : Analysis.Out), Analysis.compute true idx dg n = .ok out →
    ∀ (U : List String), U.Nodup → (∀ v ∈ cmd.vars, v ∈ U) →
    ∀ (c : Choice), Valid idx cmd.arity c → ∀ c', Relab idx cmd.swaps c c' → CI U c c' idx cmd out

theorem emptyRel_cinv (U : List String) (c : Choice) : CInv U (Relation.new []) c idS :=
  CInv.of_eq (fun x _ y _ => emptyRel_den c x y)

theorem leaf_ci (n : Node) (hleaf : isRec n = false) : NodeCI n := by
  intro cmd hd hn _ idx dg out hco U hU hsub c hval c' hrel
  have hlf := desugar_leaf_loopFree n hleaf cmd hd
  rw [namesOkA_leaf n hleaf] at hn
  obtain ⟨out', ho', R⟩ := compute_refines_aux0 (B := bareClasses) (sizeOf n + 1) n (Nat.lt_succ_self _)
    cmd hd hlf ⟨hn, Or.inl rfl⟩ true idx dg
  rw [ho'] at hco
  cases hco
  obtain ⟨r, hr, wr, vr, semr⟩ := R.rel
  obtain ⟨fr, sr⟩ := semr U hU hsub c hval
  obtain ⟨g, hg, _, hsi⟩ := semI_of_sem hU cmd hlf hsub idx c' _ _ (sr c' hrel)
  exact ⟨R.exit, R.index, r, r.den c, hr, wr, vr, hsi, CInv.of_eq (fun _ _ _ _ => rfl)⟩

/-! ## statement lists -/

theorem computeList_ci (l : List Node) :
    ∀ (cs : List Cmd), desugarL l = some cs → namesOkAL l = true → guardsFreshL cs = true →
    (∀ n ∈ l, NodeCI n) →
    ∀ (idx : Nat) (dg : DG.Graph) (ra : Relation) (sk : List String) (out : Analysis.Out), ra.WF →
      Analysis.computeList true idx dg [ra] sk l = .ok out →
    ∀ (U : List String), U.Nodup → (∀ v ∈ ra.vars, v ∈ U) → (∀ v ∈ varsL cs, v ∈ U) →
    ∀ (c : Choice), Valid idx (arityL cs) c → ∀ c', Relab idx (swapsL cs) c c' →
    ∀ ga, CInv U ra c ga →
      out.exit = false ∧ out.index = idx + arityL cs ∧
      ∃ r gs, out.rels = [r] ∧ r.WF ∧ (∀ v ∈ r.vars, v ∈ ra.vars ∨ v ∈ varsL cs) ∧
        semISeq U cs idx c' = (idx + arityL cs, matOf U gs) ∧ CInv U r c (mulNP U ga gs) := by
  induction l with
  | nil =>
    intro cs hd _ _ _ idx dg ra sk out hra hco U hU hsa _ c _ c' _ ga hga
    simp only [desugarL, Option.some.injEq] at hd
    subst hd
    rw [Analysis.computeList] at hco
    cases hco
    refine ⟨rfl, rfl, ra, idS, rfl, hra, fun v hv => Or.inl hv, ?_, ?_⟩
    · simp only [semISeq, arityL, Nat.add_zero, identity_matOf hU]
    · exact hga.congr (fun x _ y hy => (mulNP_idS_right hy ga x).symm)
  | cons n ns ih =>
    intro cs hd hn hg IH idx dg ra sk out hra hco U hU hsa hsl c hval c' hrel ga hga
    rw [desugarL] at hd
    cases hdn : desugar n with
    | none => simp [hdn] at hd
    | some cmd =>
      cases hdl : desugarL ns with
      | none => simp [hdn, hdl] at hd
      | some cs' =>
        simp only [hdn, hdl, Option.some.injEq] at hd
        subst hd
        simp only [namesOkAL, guardsFreshL, Bool.and_eq_true] at hn hg
        rw [Analysis.computeList] at hco
        cases ho1 : Analysis.compute true idx dg n with
        | error e => rw [ho1] at hco; cases hco
        | ok o1 =>
          rw [ho1] at hco
          simp only [bind, Except.bind] at hco
          have hs1 : ∀ v ∈ cmd.vars, v ∈ U := fun v hv => hsl v (by rw [varsL]; exact List.mem_append_left _ hv)
          have hs2 : ∀ v ∈ varsL cs', v ∈ U := fun v hv => hsl v (by rw [varsL]; exact List.mem_append_right _ hv)
          rw [arityL] at hval
          rw [swapsL] at hrel
          have C1 := IH n (List.mem_cons_self ..) cmd hdn hn.1 hg.1 idx dg o1 ho1 U hU hs1 c hval.left c' hrel.left
          obtain ⟨r1, g1, hr1, w1, v1, s1, i1⟩ := C1.main
          rw [C1.exit] at hco
          simp only [Bool.false_eq_true, if_false] at hco
          have hacc : RelList.composition [ra] o1.rels = [Relation.composition ra r1] := by
            rw [hr1, relList_composition_single]
          rw [hacc] at hco
          have wacc := Relation.composition_wf ra r1 hra w1
          have hsacc : ∀ v ∈ (Relation.composition ra r1).vars, v ∈ U := by
            intro v hv
            rcases (Relation.composition_vars_mem ra r1 hra w1 v).1 hv with h | h
            · exact hsa v h
            · exact hs1 v (v1 v h)
          have iacc := CInv.comp hU hra w1 hsa (fun v hv => hs1 v (v1 v hv)) hga i1
          have hval2 : Valid o1.index (arityL cs') c := by rw [C1.index]; exact hval.right
          have hrel2 : Relab o1.index (swapsL cs') c c' := by
            rw [C1.index, ← swaps_length cmd]; exact hrel.right
          obtain ⟨he, hi, r, gs', hr, wr, vr, ss, ir⟩ := ih cs' hdl hn.2 hg.2
            (fun m hm => IH m (List.mem_cons_of_mem _ hm)) o1.index o1.dg _ _ out wacc hco U hU hsacc hs2
            c hval2 c' hrel2 _ iacc
          refine ⟨he, by rw [hi, C1.index, arityL, Nat.add_assoc], r, mulNP U g1 gs', hr, wr, ?_, ?_, ?_⟩
          · intro v hv
            rcases vr v hv with h | h
            · rcases (Relation.composition_vars_mem ra r1 hra w1 v).1 h with h | h
              · exact Or.inl h
              · exact Or.inr (by rw [varsL]; exact List.mem_append_left _ (v1 v h))
            · exact Or.inr (by rw [varsL]; exact List.mem_append_right _ h)
          · simp only [semISeq, s1]
            rw [← C1.index, ss, mulP_matOf, C1.index, arityL, Nat.add_assoc]
          · exact ir.congr (fun x _ y _ => mulNP_assoc U ga g1 gs' x y)

/-- a statement list analysed from the empty relation list is the sequence command -/
theorem seq_ci (l : List Node) (cs : List Cmd) (hdl : desugarL l = some cs) (hn : namesOkAL l = true)
    (hg : guardsFreshL cs = true) (IH : ∀ n ∈ l, NodeCI n) (idx : Nat) (dg : DG.Graph)
    (out : Analysis.Out) (hco : Analysis.computeList true idx dg RelList.empty [] l = .ok out)
    (U : List String) (hU : U.Nodup) (hsub : ∀ v ∈ (Cmd.seq cs).vars, v ∈ U)
    (c : Choice) (hval : Valid idx (Cmd.seq cs).arity c) (c' : Choice)
    (hrel : Relab idx (Cmd.seq cs).swaps c c') : CI U c c' idx (.seq cs) out := by
  rw [Cmd.vars] at hsub
  rw [Cmd.arity] at hval
  rw [Cmd.swaps] at hrel
  obtain ⟨he, hi, r, gs, hr, wr, vr, ss, ir⟩ := computeList_ci l cs hdl hn hg IH idx dg (Relation.new []) []
    out emptyRel_wf hco U hU (by intro v hv; cases hv) hsub c hval c' hrel idS (emptyRel_cinv U c)
  refine ⟨he, by rw [Cmd.arity]; exact hi, r, gs, hr, wr, ?_, ?_, ?_⟩
  · intro v hv
    rcases vr v hv with h | h
    · cases h
    · rw [Cmd.vars]; exact h
  · rw [semI, ss, Cmd.arity]
  · exact ir.congr (fun x hx y _ => mulNP_idS_left hx gs y)

theorem sizeOf_mem_lt3 {l : List Node} {n : Node} (h : n ∈ l) : sizeOf n < sizeOf l :=
  List.sizeOf_lt_of_mem h

theorem ciL_of_lt {l : List Node} {N : Nat} (ih : ∀ n : Node, sizeOf n < N → NodeCI n)
    (h : sizeOf l < N) : ∀ n ∈ l, NodeCI n :=
  fun n hn => ih n (Nat.lt_trans (sizeOf_mem_lt3 hn) h)

/-- `Analysis.if_branch` -/
theorem branch_ci (o : Option Node) (IH : ∀ n : Node, sizeOf n < sizeOf o → NodeCI n)
    (a : Cmd) (hd : desugarO o = some a) (hn : namesOkAO o = true) (hg : guardsFresh a = true)
    (idx : Nat) (dg : DG.Graph) (out : Analysis.Out) (hco : Analysis.branch true idx dg o = .ok out)
    (U : List String) (hU : U.Nodup) (hsub : ∀ v ∈ a.vars, v ∈ U)
    (c : Choice) (hval : Valid idx a.arity c) (c' : Choice) (hrel : Relab idx a.swaps c c') :
    CI U c c' idx a out := by
  have hskip : CI U c c' idx .skip (Analysis.skip idx dg []) := by
    refine ⟨rfl, rfl, Relation.new [], idS, rfl, emptyRel_wf, (by intro v hv; cases hv), ?_, emptyRel_cinv U c⟩
    simp only [semI, Cmd.arity, Nat.add_zero, identity_matOf hU]
  cases o with
  | none =>
    rw [desugarO] at hd
    cases hd
    rw [Analysis.branch] at hco
    cases hco
    exact hskip
  | some n =>
    rw [desugarO] at hd
    rw [namesOkAO] at hn
    by_cases hcomp : ∃ items, n = .compound items
    · obtain ⟨items, rfl⟩ := hcomp
      cases items with
      | none =>
        rw [desugar] at hd
        cases hd
        rw [Analysis.branch] at hco
        cases hco
        exact hskip
      | some l =>
        rw [desugar] at hd
        rw [namesOkA] at hn
        rw [Analysis.branch] at hco
        cases hdl : desugarL l with
        | none => simp [hdl] at hd
        | some cs =>
          simp only [hdl, Option.map_some, Option.some.injEq] at hd
          subst hd
          rw [guardsFresh] at hg
          obtain ⟨out', ho', e1, _, e3⟩ := branchList_computeList l true idx dg RelList.empty [] out hco
          have C := seq_ci l cs hdl hn hg (fun m hm => IH m (by
            have := sizeOf_mem_lt3 hm
            simp only [Option.some.sizeOf_spec, Node.compound.sizeOf_spec]
            omega)) idx dg out' ho' U hU hsub c hval c' hrel
          have : out' = out := e3 (by rw [← e1]; exact C.exit)
          rw [← this]; exact C
    · rw [Analysis.branch.eq_4 true idx dg n (fun e => hcomp ⟨_, e⟩) (fun l e => hcomp ⟨_, e⟩)] at hco
      cases ho1 : Analysis.compute true idx dg n with
      | error e => rw [ho1] at hco; cases hco
      | ok o1 =>
        rw [ho1] at hco
        simp only [bind, Except.bind] at hco
        have C := IH n (by simp only [Option.some.sizeOf_spec]; omega) a hd hn hg idx dg o1 ho1 U hU hsub
          c hval c' hrel
        rw [C.exit] at hco
        simp only [Bool.false_eq_true, if_false] at hco
        cases hco
        obtain ⟨r, g, hr, wr, vr, sr, ir⟩ := C.main
        refine ⟨rfl, C.index, Relation.composition (Relation.new []) r, g, ?_,
          Relation.composition_wf _ r emptyRel_wf wr, ?_, sr, ?_⟩
        · simp only [hr, RelList.empty, relList_composition_single]
        · intro v hv
          rcases (Relation.composition_vars_mem _ r emptyRel_wf wr v).1 hv with h | h
          · cases h
          · exact vr v h
        · have := CInv.comp hU emptyRel_wf wr (by intro v hv; cases hv) (fun v hv => hsub v (vr v hv))
            (emptyRel_cinv U c) ir
          exact this.congr (fun x hx y _ => mulNP_idS_left hx g y)

/-! ## the induction -/

theorem compute_ci_aux (N : Nat) : ∀ node : Node, sizeOf node < N → NodeCI node := by
  induction N with
  | zero => intro node h; omega
  | succ N ih =>
    intro node hsz
    by_cases hrec : isRec node = false
    · exact leaf_ci node hrec
    intro cmd hd hn hg idx dg out hco U hU hsub c hval c' hrel
    cases node <;> first | (exfalso; exact hrec rfl) | skip
    · -- (T) e;
      rename_i e
      rw [desugar] at hd
      rw [namesOkA] at hn
      rw [Analysis.compute] at hco
      exact ih e (by simp only [Node.cast.sizeOf_spec] at hsz; omega) cmd hd hn hg idx dg out hco U hU hsub
        c hval c' hrel
    · -- e1, e2
      rename_i es
      rw [desugar] at hd
      rw [namesOkA] at hn
      rw [Analysis.compute] at hco
      cases hdl : desugarL es with
      | none => simp [hdl] at hd
      | some cs =>
        simp only [hdl, Option.map_some, Option.some.injEq] at hd
        subst hd
        rw [guardsFresh] at hg
        exact seq_ci es cs hdl hn hg (ciL_of_lt ih (by
          simp only [Node.exprList.sizeOf_spec] at hsz; omega)) idx dg out hco U hU hsub c hval c' hrel
    · -- { l }
      rename_i items
      cases items with
      | none => exact absurd rfl hrec
      | some l =>
        rw [desugar] at hd
        rw [namesOkA] at hn
        rw [Analysis.compute] at hco
        cases hdl : desugarL l with
        | none => simp [hdl] at hd
        | some cs =>
          simp only [hdl, Option.map_some, Option.some.injEq] at hd
          subst hd
          rw [guardsFresh] at hg
          exact seq_ci l cs hdl hn hg (ciL_of_lt ih (by
            simp only [Node.compound.sizeOf_spec, Option.some.sizeOf_spec] at hsz; omega))
            idx dg out hco U hU hsub c hval c' hrel
    · -- if
      rename_i cond t f
      rw [desugar] at hd
      by_cases hcv : changesVariable cond = true
      · rw [if_pos hcv] at hd; cases hd
      rw [if_neg hcv] at hd
      rw [namesOkA] at hn
      simp only [Bool.and_eq_true] at hn
      cases ha : desugarO t with
      | none => simp [ha] at hd
      | some a =>
        cases hb : desugarO f with
        | none => simp [ha, hb] at hd
        | some b =>
          simp only [ha, hb, Option.some.injEq] at hd
          subst hd
          simp only [guardsFresh, Bool.and_eq_true] at hg
          rw [Cmd.vars] at hsub
          rw [Cmd.arity] at hval
          rw [Cmd.swaps] at hrel
          have hst : sizeOf t < N := by
            simp only [Node.ifs.sizeOf_spec] at hsz; omega
          have hsf : sizeOf f < N := by
            simp only [Node.ifs.sizeOf_spec] at hsz; omega
          rw [Analysis.compute] at hco
          cases hrt : Analysis.branch true idx dg t with
          | error e => rw [hrt] at hco; cases hco
          | ok rt =>
            rw [hrt] at hco
            simp only [bind, Except.bind] at hco
            have Ct := branch_ci t (fun n hn' => ih n (by omega)) a ha hn.1 hg.1 idx dg rt hrt U hU
              (fun v hv => hsub v (List.mem_append_left _ hv)) c hval.left c' hrel.left
            rw [Ct.exit] at hco
            simp only [Bool.false_eq_true, if_false] at hco
            cases hrf : Analysis.branch true rt.index rt.dg f with
            | error e => rw [hrf] at hco; cases hco
            | ok rf =>
              rw [hrf] at hco
              simp only at hco
              have Cf := branch_ci f (fun n hn' => ih n (by omega)) b hb hn.2 hg.2 rt.index rt.dg rf hrf U hU
                (fun v hv => hsub v (List.mem_append_right _ hv)) c
                (by rw [Ct.index]; exact hval.right) c'
                (by rw [Ct.index, ← swaps_length a]; exact hrel.right)
              rw [Cf.exit] at hco
              simp only [Bool.false_eq_true, if_false] at hco
              cases hco
              obtain ⟨r1, g1, hr1, w1, v1, s1, i1⟩ := Ct.main
              obtain ⟨r2, g2, hr2, w2, v2, s2, i2⟩ := Cf.main
              refine ⟨rfl, ?_, Relation.sum r2 r1, fun x y => g1 x y + g2 x y, ?_,
                Relation.sum_wf r2 r1 w2 w1, ?_, ?_, ?_⟩
              · show rf.index = _
                rw [Cf.index, Ct.index, Cmd.arity, Nat.add_assoc]
              · simp only [hr1, hr2, relList_add_single]
              · intro v hv
                rw [Cmd.vars]
                rcases (Relation.sum_vars_mem r2 r1 w2 w1 v).1 hv with h | h
                · exact List.mem_append_right _ (v2 v h)
                · exact List.mem_append_left _ (v1 v h)
              · simp only [semI, s1]
                rw [← Ct.index, s2]
                simp only
                rw [add_matOf, Ct.index, Cmd.arity, Nat.add_assoc]
              · exact (CInv.sum w2 w1 i2 i1).congr (fun x _ y _ => sum_comm _ _)
    · -- while
      rename_i cond b
      rw [desugar] at hd
      by_cases hcv : changesVariable cond = true
      · rw [if_pos hcv] at hd; cases hd
      rw [if_neg hcv] at hd
      rw [namesOkA] at hn
      cases hdb : desugar b with
      | none => simp [hdb] at hd
      | some cb =>
        simp only [hdb, Option.map_some, Option.some.injEq] at hd
        subst hd
        rw [guardsFresh] at hg
        rw [Cmd.vars] at hsub
        rw [Cmd.arity] at hval
        rw [Cmd.swaps] at hrel
        rw [Analysis.compute] at hco
        cases hrb : Analysis.compute true idx dg b with
        | error e => rw [hrb] at hco; cases hco
        | ok rb =>
          rw [hrb] at hco
          simp only [bind, Except.bind] at hco
          have Cb := ih b (by simp only [Node.while_.sizeOf_spec] at hsz; omega) cb hdb hn hg idx dg rb hrb
            U hU hsub c hval c' hrel
          obtain ⟨r, gb, hr, wr, vr, sb, ib⟩ := Cb.main
          obtain ⟨f, r', g0, g', hf, hw, ho, hoi, hcase⟩ := whileFinish_inv hco Cb.exit hr
          obtain ⟨w', hvm, _, _⟩ := while_rel wr hf hw
          obtain ⟨gW, hgW, iW⟩ := CInv.while_ hU wr (fun v hv => hsub v (vr v hv)) ib hf hw
          have hex : out.exit = false := by
            rcases hcase with ⟨_, h, _⟩ | ⟨h, _⟩
            · exact h
            · cases h
          refine ⟨hex, by rw [hoi, Cb.index, Cmd.arity], r', gW, ho, w', ?_, ?_, iW⟩
          · intro v hv; rw [Cmd.vars]; exact vr v ((hvm v).1 hv)
          · simp only [semI, sb, Cmd.arity]
            rw [hgW]
    · -- do-while
      rename_i cond b
      rw [desugar] at hd
      by_cases hcv : changesVariable cond = true
      · rw [if_pos hcv] at hd; cases hd
      rw [if_neg hcv] at hd
      rw [namesOkA] at hn
      cases hdb : desugar b with
      | none => simp [hdb] at hd
      | some cb =>
        simp only [hdb, Option.map_some, Option.some.injEq] at hd
        subst hd
        rw [guardsFresh] at hg
        rw [Cmd.vars] at hsub
        rw [Cmd.arity] at hval
        rw [Cmd.swaps] at hrel
        rw [Analysis.compute] at hco
        cases hrb : Analysis.compute true idx dg b with
        | error e => rw [hrb] at hco; cases hco
        | ok rb =>
          rw [hrb] at hco
          simp only [bind, Except.bind] at hco
          have Cb := ih b (by simp only [Node.doWhile.sizeOf_spec] at hsz; omega) cb hdb hn hg idx dg rb hrb
            U hU hsub c hval c' hrel
          obtain ⟨r, gb, hr, wr, vr, sb, ib⟩ := Cb.main
          obtain ⟨f, r', g0, g', hf, hw, ho, hoi, hcase⟩ := whileFinish_inv hco Cb.exit hr
          obtain ⟨w', hvm, _, _⟩ := while_rel wr hf hw
          obtain ⟨gW, hgW, iW⟩ := CInv.while_ hU wr (fun v hv => hsub v (vr v hv)) ib hf hw
          have hex : out.exit = false := by
            rcases hcase with ⟨_, h, _⟩ | ⟨h, _⟩
            · exact h
            · cases h
          refine ⟨hex, by rw [hoi, Cb.index, Cmd.arity], r', gW, ho, w', ?_, ?_, iW⟩
          · intro v hv; rw [Cmd.vars]; exact vr v ((hvm v).1 hv)
          · simp only [semI, sb, Cmd.arity]
            rw [hgW]
    · -- for
      rename_i init cond next b
      rw [desugar] at hd
      rw [namesOkA] at hn
      rw [Analysis.compute] at hco
      cases hlc : Syntax.loopCompat (.for_ init cond next b) with
      | error e => simp [hlc] at hd
      | ok p =>
        obtain ⟨comp, x⟩ := p
        rw [hlc] at hd hco
        cases comp with
        | false => simp at hd
        | true =>
          cases x with
          | none => simp at hd
          | some X =>
            simp only at hd
            cases hdb : desugar b with
            | none => simp [hdb] at hd
            | some cb =>
              simp only [hdb, Option.map_some, Option.some.injEq] at hd
              subst hd
              simp only [guardsFresh, Bool.and_eq_true, bne_iff_ne, ne_eq, Bool.not_eq_true',
                List.contains_eq_mem, decide_eq_false_iff_not] at hg
              rw [Cmd.vars] at hsub
              rw [Cmd.arity] at hval
              rw [Cmd.swaps] at hrel
              simp only [bind, Except.bind] at hco
              cases hrb : Analysis.compute true idx dg b with
              | error e => rw [hrb] at hco; cases hco
              | ok rb =>
                rw [hrb] at hco
                simp only at hco
                have hsb : ∀ v ∈ cb.vars, v ∈ U := fun v hv => hsub v (List.mem_cons_of_mem _ hv)
                have Cb := ih b (by simp only [Node.for_.sizeOf_spec] at hsz; omega) cb hdb hn hg.2 idx dg rb hrb
                  U hU hsb c hval c' hrel
                obtain ⟨r, gb, hr, wr, vr, sb, ib⟩ := Cb.main
                obtain ⟨f, r', g0, g', hf, hl, ho, hoi, hcase⟩ := forFinish_inv hco Cb.exit hr
                have hfr : X ∉ r.vars := fun hx => hg.1.2 (vr X hx)
                obtain ⟨w', e', _, hfmem, _⟩ := for_cells wr hg.1.1 hfr hf hl
                obtain ⟨gL, hgL, iL⟩ := CInv.for_ hU wr (fun v hv => hsb v (vr v hv))
                  (hsub X (List.mem_cons_self ..)) hg.1.1 hfr ib hf hl
                have hex : out.exit = false := by
                  rcases hcase with ⟨_, h, _⟩ | ⟨h, _⟩
                  · exact h
                  · cases h
                refine ⟨hex, by rw [hoi, Cb.index, Cmd.arity], r', gL, ho, w', ?_, ?_, iL⟩
                · intro v hv
                  rw [Cmd.vars]
                  rw [e'] at hv
                  rcases (hfmem v).1 hv with h | h
                  · rw [h]; exact List.mem_cons_self ..
                  · exact List.mem_cons_of_mem _ (vr v h)
                · simp only [semI, sb, Cmd.arity]
                  rw [hgL]
    · -- label
      rename_i name st
      rw [desugar] at hd
      rw [namesOkA] at hn
      rw [Analysis.compute] at hco
      exact ih st (by simp only [Node.label.sizeOf_spec] at hsz; omega) cmd hd hn hg idx dg out hco U hU hsub
        c hval c' hrel

theorem compute_ci (node : Node) : NodeCI node := compute_ci_aux (sizeOf node + 1) node (Nat.lt_succ_self _)

end LoopSound
end Mwp
