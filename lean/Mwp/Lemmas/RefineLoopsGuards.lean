/-
  Refinement with loops, part 6: discharging `guardsFresh`.

  `Coverage.loop_compat` accepts a `for` statement only when its guard variable `X` does not occur
  among the body's variables AS RECORDED BY `Variables`.  That walker drops the reserved names
  `true` / `false` (and empty names), so the commands' own variables can be more
  (`reserved_guard_counterexample`).  When no accepted guard is a reserved or empty name
  (`guardsPlain`, a check on the syntax tree), the desugared command has fresh guards.
-/
import Mwp.Lemmas.RefineLoops
import Mwp.Lemmas.SyntaxThmsVars
namespace Mwp
namespace Refine
open Spec
open Syntax (normVars insertName loopCompat loopCompatOf)

/-- recorded by `Variables`, or one of the names it drops -/
def Rec (n : Node) (v : String) : Prop := v ∈ varsP n ∨ v ∈ Gen.reserved ∨ v = ""

theorem id_rec (x : String) : Rec (.id x) x := by
  unfold Rec
  rw [varsP]
  by_cases h1 : Gen.reserved.contains x = true
  · exact Or.inr (Or.inl (by simpa using h1))
  · by_cases h2 : x.isEmpty = true
    · exact Or.inr (Or.inr (by simpa using h2))
    · rw [if_neg h1, if_neg h2]; exact Or.inl (List.mem_singleton.2 rfl)

theorem varsP_rmCast (n : Node) : varsP n.rmCast = varsP n := by
  induction n using Node.rmCast.induct with
  | case1 e ih => rw [Node.rmCast, ih, varsP]
  | case2 n hn => rw [Node.rmCast]; exact hn

theorem rec_of_rmCast {n : Node} {y : String} (h : n.rmCast = .id y) : Rec n y := by
  have := id_rec y
  unfold Rec at *
  rw [← varsP_rmCast n, h]
  exact this

theorem Rec.mono {n m : Node} {v : String} (h : Rec n v) (hsub : ∀ w ∈ varsP n, w ∈ varsP m) : Rec m v :=
  h.elim (fun h => Or.inl (hsub v h)) Or.inr

theorem atom_rec {l : Node} {a : Atom} {y : String} (h : atomOf l = some a) (ha : atomName a = some y) :
    Rec l y := by
  unfold atomOf at h
  cases hl : l.rmCast <;> rw [hl] at h <;> simp at h
  · subst h
    cases ha
    exact rec_of_rmCast hl
  · subst h; cases ha

theorem mem_insertName (x n : String) (l : List String) : x ∈ insertName n l ↔ x = n ∨ x ∈ l := by
  induction l with
  | nil => simp [insertName]
  | cons a t ih =>
    unfold insertName
    split
    · simp
    · split
      · rename_i h; subst h; simp
      · simp only [List.mem_cons, ih]
        constructor
        · rintro (h | h | h)
          · exact Or.inr (Or.inl h)
          · exact Or.inl h
          · exact Or.inr (Or.inr h)
        · rintro (h | h | h)
          · exact Or.inr (Or.inl h)
          · exact Or.inl h
          · exact Or.inr (Or.inr h)

theorem mem_normVars' (x : String) (l : List String) : x ∈ normVars l ↔ x ∈ l := by
  induction l with
  | nil => simp [normVars]
  | cons a t ih =>
    show x ∈ insertName a (normVars t) ↔ _
    rw [mem_insertName, ih]; simp

/-- variables of the reading of `x = op e` -/
theorem unop_vars (x op : String) (e : Node) (cmd : Cmd)
    (hd : (if (op == "!" || op == "sizeof") = true then
        (if hasSideEffect e = true then none else some (Cmd.asgnConst x))
      else match e.rmCast with
        | .const .. => if (op == "-" || op == "+") = true then some (Cmd.asgnConst x) else none
        | .id y =>
          if (op == "-") = true then some (Cmd.bin "*" x (.var y) .const)
          else if (op == "+") = true then some (Cmd.asgnVar x y)
          else if (op == "p++") = true then some (Cmd.seq [.asgnVar x y, .bin "+" y (.var y) .const])
          else if (op == "p--") = true then some (Cmd.seq [.asgnVar x y, .bin "-" y (.var y) .const])
          else if (op == "++") = true then some (Cmd.seq [.bin "+" y (.var y) .const, .asgnVar x y])
          else if (op == "--") = true then some (Cmd.seq [.bin "-" y (.var y) .const, .asgnVar x y])
          else none
        | _ => none) = some cmd) :
    ∀ v ∈ cmd.vars, v = x ∨ (e.rmCast = .id v ∧ Gen.uOps.contains op = true) := by
  split at hd
  · split at hd
    · cases hd
    · cases hd; intro v hv; simp [Cmd.vars] at hv; exact Or.inl hv
  · split at hd
    · split at hd
      · cases hd; intro v hv; simp [Cmd.vars] at hv; exact Or.inl hv
      · cases hd
    · rename_i y he
      repeat' split at hd
      all_goals first
        | (cases hd; done)
        | (rename_i hop
           simp only [beq_iff_eq] at hop
           subst hop
           cases hd
           simp [Cmd.vars, Spec.varsL, he, Gen.uOps])
    · cases hd

/-- recorded among the variables of a statement list -/
def RecL (l : List Node) (v : String) : Prop := v ∈ varsPL l ∨ v ∈ Gen.reserved ∨ v = ""

theorem desugarL_vars (l : List Node)
    (IH : ∀ n ∈ l, ∀ cmd, desugar n = some cmd → ∀ v ∈ cmd.vars, Rec n v) :
    ∀ cs, desugarL l = some cs → ∀ v ∈ Spec.varsL cs, RecL l v := by
  induction l with
  | nil =>
    intro cs hd v hv
    simp only [desugarL, Option.some.injEq] at hd
    subst hd
    cases hv
  | cons n ns ih =>
    intro cs hd v hv
    rw [desugarL] at hd
    cases hdn : desugar n with
    | none => simp [hdn] at hd
    | some cmd =>
      cases hdl : desugarL ns with
      | none => simp [hdn, hdl] at hd
      | some cs' =>
        simp only [hdn, hdl, Option.some.injEq] at hd
        subst hd
        rw [Spec.varsL, List.mem_append] at hv
        unfold RecL
        rw [varsPL]
        rcases hv with h | h
        · exact (IH n (List.mem_cons_self ..) cmd hdn v h).elim
            (fun h => Or.inl (List.mem_append_left _ h)) Or.inr
        · exact (ih (fun m hm => IH m (List.mem_cons_of_mem _ hm)) cs' hdl v h).elim
            (fun h => Or.inl (List.mem_append_right _ h)) Or.inr

theorem desugarO_vars (o : Option Node)
    (IH : ∀ n, o = some n → ∀ cmd, desugar n = some cmd → ∀ v ∈ cmd.vars, Rec n v) :
    ∀ a, desugarO o = some a → ∀ v ∈ a.vars, v ∈ varsPO o ∨ v ∈ Gen.reserved ∨ v = "" := by
  intro a hd v hv
  cases o with
  | none =>
    rw [desugarO] at hd
    cases hd
    simp [Cmd.vars] at hv
  | some n =>
    rw [desugarO] at hd
    rw [varsPO]
    exact IH n rfl a hd v hv

theorem desugar_vars (N : Nat) : ∀ n : Node, sizeOf n < N → ∀ cmd, desugar n = some cmd →
    ∀ v ∈ cmd.vars, Rec n v := by
  induction N with
  | zero => intro n h; omega
  | succ N ih =>
    intro n hsz cmd hd
    rw [desugar.eq_def] at hd
    split at hd
    · split at hd
      · cases hd
      · cases hd; intro v hv; simp [Cmd.vars] at hv
    · cases hd; intro v hv; simp [Cmd.vars] at hv
    · cases hd; intro v hv; simp [Cmd.vars] at hv
    · cases hd; intro v hv; simp [Cmd.vars] at hv
    · cases hd; intro v hv; simp [Cmd.vars] at hv
    · -- x = r
      rename_i x r
      have hx : Rec (.assign "=" (.id x) r) x :=
        (id_rec x).mono (fun w hw => by rw [varsP]; exact List.mem_append_left _ hw)
      have hr : ∀ w ∈ varsP r.rmCast, w ∈ varsP (.assign "=" (.id x) r) := by
        intro w hw
        rw [varsP_rmCast] at hw
        rw [varsP]; exact List.mem_append_right _ hw
      split at hd
      · rename_i y hry
        cases hd
        intro v hv
        simp only [Cmd.vars, List.mem_cons, List.not_mem_nil, or_false] at hv
        rcases hv with rfl | rfl
        · exact hx
        · exact (id_rec v).mono (fun w hw => hr w (by rw [hry]; exact hw))
      · cases hd
        intro v hv
        simp only [Cmd.vars, List.mem_cons, List.not_mem_nil, or_false] at hv
        subst hv; exact hx
      · rename_i op l rr hry
        split at hd
        · split at hd
          · rename_i a b ha hb
            cases hd
            intro v hv
            rw [bin_vars_mem] at hv
            rcases hv with rfl | h | h
            · exact hx
            · exact (atom_rec ha h).mono (fun w hw => hr w (by
                rw [hry, varsP]; exact List.mem_append_left _ hw))
            · exact (atom_rec hb h).mono (fun w hw => hr w (by
                rw [hry, varsP]; exact List.mem_append_right _ hw))
          · cases hd
        · cases hd
      · rename_i op e hry
        intro v hv
        rcases unop_vars x op e cmd hd v hv with rfl | ⟨he, hop⟩
        · exact hx
        · exact (rec_of_rmCast he).mono (fun w hw => hr w (by
            rw [hry, varsP, if_pos hop]; exact hw))
      · cases hd
    · -- op e;
      rename_i op e
      split at hd
      · rename_i y he
        have hy : ∀ (hop : Gen.uOps.contains op = true), Rec (.unop op e) y := fun hop =>
          (rec_of_rmCast he).mono (fun w hw => by rw [varsP, if_pos hop]; exact hw)
        split at hd
        · rename_i hop
          cases hd
          intro v hv
          rw [bin_vars_mem] at hv
          have hop' : Gen.uOps.contains op = true := by
            simp only [Bool.or_eq_true, beq_iff_eq] at hop
            rcases hop with rfl | rfl <;> decide
          rcases hv with rfl | h | h
          · exact hy hop'
          · cases h; exact hy hop'
          · cases h
        · split at hd
          · rename_i hop
            cases hd
            intro v hv
            rw [bin_vars_mem] at hv
            have hop' : Gen.uOps.contains op = true := by
              simp only [Bool.or_eq_true, beq_iff_eq] at hop
              rcases hop with rfl | rfl <;> decide
            rcases hv with rfl | h | h
            · exact hy hop'
            · cases h; exact hy hop'
            · cases h
          · cases hd; intro v hv; simp [Cmd.vars] at hv
      · split at hd
        · cases hd
        · cases hd; intro v hv; simp [Cmd.vars] at hv
    · -- call
      split at hd
      · cases hd; intro v hv; simp [Cmd.vars] at hv
      · cases hd
    · -- if
      rename_i cond t f
      split at hd
      · cases hd
      split at hd
      · rename_i a b ha hb
        cases hd
        intro v hv
        rw [Cmd.vars, List.mem_append] at hv
        unfold Rec
        rw [varsP]
        have hst : sizeOf t < N := by simp only [Node.ifs.sizeOf_spec] at hsz; omega
        have hsf : sizeOf f < N := by simp only [Node.ifs.sizeOf_spec] at hsz; omega
        rcases hv with h | h
        · exact (desugarO_vars t (fun n hn => ih n (by subst hn; simp only [Option.some.sizeOf_spec] at hst; omega))
            a ha v h).elim (fun h => Or.inl (List.mem_append_left _ h)) Or.inr
        · exact (desugarO_vars f (fun n hn => ih n (by subst hn; simp only [Option.some.sizeOf_spec] at hsf; omega))
            b hb v h).elim (fun h => Or.inl (List.mem_append_right _ h)) Or.inr
      · cases hd
    · -- while
      rename_i c b
      split at hd
      · cases hd
      cases hdb : desugar b with
      | none => simp [hdb] at hd
      | some cb =>
        simp only [hdb, Option.map_some, Option.some.injEq] at hd
        subst hd
        intro v hv
        rw [Cmd.vars] at hv
        exact (ih b (by simp only [Node.while_.sizeOf_spec] at hsz; omega) cb hdb v hv).mono
          (fun w hw => by rw [varsP]; exact List.mem_append_right _ hw)
    · rename_i c b
      split at hd
      · cases hd
      cases hdb : desugar b with
      | none => simp [hdb] at hd
      | some cb =>
        simp only [hdb, Option.map_some, Option.some.injEq] at hd
        subst hd
        intro v hv
        rw [Cmd.vars] at hv
        exact (ih b (by simp only [Node.doWhile.sizeOf_spec] at hsz; omega) cb hdb v hv).mono
          (fun w hw => by rw [varsP]; exact List.mem_append_right _ hw)
    · -- for
      rename_i init cond next b
      rw [loopCompat_for] at hd
      split at hd
      · rename_i X hlc
        have hlc' : lcP init cond next b = (true, some X) := by
          simpa using hlc
        cases hdb : desugar b with
        | none => simp [hdb] at hd
        | some cb =>
          simp only [hdb, Option.map_some, Option.some.injEq] at hd
          subst hd
          intro v hv
          rw [Cmd.vars, List.mem_cons] at hv
          have hg : varsP (.for_ init cond next b) = guardOf (lcP init cond next b) ++ varsP b := by
            rw [varsP]; rfl
          unfold Rec
          rw [hg, hlc']
          rcases hv with rfl | h
          · by_cases he : v = ""
            · exact Or.inr (Or.inr he)
            · left
              apply List.mem_append_left
              unfold guardOf
              simp [he]
          · exact (ih b (by simp only [Node.for_.sizeOf_spec] at hsz; omega) cb hdb v h).elim
              (fun h => Or.inl (List.mem_append_right _ h)) Or.inr
      · cases hd
    · cases hd; intro v hv; simp [Cmd.vars] at hv
    · -- { l }
      rename_i l
      cases hdl : desugarL l with
      | none => simp [hdl] at hd
      | some cs =>
        simp only [hdl, Option.map_some, Option.some.injEq] at hd
        subst hd
        intro v hv
        rw [Cmd.vars] at hv
        have := desugarL_vars l (fun m hm => ih m (by
          have := sizeOf_mem_lt' hm
          simp only [Node.compound.sizeOf_spec, Option.some.sizeOf_spec] at hsz
          omega)) cs hdl v hv
        unfold Rec; rw [varsP]; exact this
    · -- label
      rename_i name st
      intro v hv
      exact (ih st (by simp only [Node.label.sizeOf_spec] at hsz; omega) cmd hd v hv).mono
        (fun w hw => by rw [varsP]; exact hw)
    · -- e1, e2
      rename_i es
      cases hdl : desugarL es with
      | none => simp [hdl] at hd
      | some cs =>
        simp only [hdl, Option.map_some, Option.some.injEq] at hd
        subst hd
        intro v hv
        rw [Cmd.vars] at hv
        have := desugarL_vars es (fun m hm => ih m (by
          have := sizeOf_mem_lt' hm
          simp only [Node.exprList.sizeOf_spec] at hsz
          omega)) cs hdl v hv
        unfold Rec; rw [varsP]; exact this
    · -- (T) e
      rename_i e
      intro v hv
      exact (ih e (by simp only [Node.cast.sizeOf_spec] at hsz; omega) cmd hd v hv).mono
        (fun w hw => by rw [varsP]; exact hw)
    · cases hd; intro v hv; simp [Cmd.vars] at hv
    · cases hd; intro v hv; simp [Cmd.vars] at hv
    · split at hd
      · cases hd
      · cases hd; intro v hv; simp [Cmd.vars] at hv
    · cases hd

/-! ## plain guards -/

/-- the guard `loop_compat` accepts for this `for` statement is neither empty nor reserved -/
def guardPlainAt (n : Node) : Bool :=
  match Syntax.loopCompat n with
  | .ok (true, some X) => X != "" && !Gen.reserved.contains X
  | _ => true

mutual
/-- every accepted loop guard in statement position is a plain name -/
def guardsPlain : Node → Bool
  | .while_ _ b => guardsPlain b
  | .doWhile _ b => guardsPlain b
  | .for_ i c n b => guardPlainAt (.for_ i c n b) && guardsPlain b
  | .compound (some l) => guardsPlainL l
  | .ifs _ t f => guardsPlainO t && guardsPlainO f
  | .label _ s => guardsPlain s
  | .exprList es => guardsPlainL es
  | .cast e => guardsPlain e
  | _ => true
def guardsPlainL : List Node → Bool
  | [] => true
  | n :: ns => guardsPlain n && guardsPlainL ns
def guardsPlainO : Option Node → Bool
  | none => true
  | some n => guardsPlain n
end

mutual
theorem noFor_of_loopFree : ∀ cmd : Cmd, cmd.loopFree = true → noFor cmd = true
  | .skip, _ => rfl
  | .asgnVar .., _ => rfl
  | .asgnConst .., _ => rfl
  | .bin .., _ => rfl
  | .seq l, h => by rw [Cmd.loopFree] at h; rw [noFor]; exact noForL_of_loopFreeL l h
  | .ite t f, h => by
    simp only [Cmd.loopFree, Bool.and_eq_true] at h
    simp only [noFor, Bool.and_eq_true]
    exact ⟨noFor_of_loopFree t h.1, noFor_of_loopFree f h.2⟩
  | .while_ _, h => by simp [Cmd.loopFree] at h
  | .loop _ _, h => by simp [Cmd.loopFree] at h
theorem noForL_of_loopFreeL : ∀ l : List Cmd, loopFreeL l = true → noForL l = true
  | [], _ => rfl
  | c :: cs, h => by
    simp only [loopFreeL, Bool.and_eq_true] at h
    simp only [noForL, Bool.and_eq_true]
    exact ⟨noFor_of_loopFree c h.1, noForL_of_loopFreeL cs h.2⟩
end

theorem lcP_body {init cond next : Option Node} {b : Node} {X : String}
    (h : lcP init cond next b = (true, some X)) : X ∉ varsP b := by
  unfold lcP at h
  split at h
  · cases h
  rw [Mwp.loopCompatOf_eq] at h
  split at h
  · rename_i x _
    split at h
    · cases h
    · rename_i hc
      simp only [Prod.mk.injEq, Option.some.injEq, true_and] at h
      subst h
      intro hx
      apply hc
      simp only [List.contains_eq_mem, decide_eq_true_eq]
      exact (mem_normVars' x _).2 hx
  · cases h

theorem guardsFreshL_of_plain (l : List Node)
    (IH : ∀ n ∈ l, ∀ cmd, desugar n = some cmd → guardsPlain n = true → guardsFresh cmd = true) :
    ∀ cs, desugarL l = some cs → guardsPlainL l = true → guardsFreshL cs = true := by
  induction l with
  | nil =>
    intro cs hd _
    simp only [desugarL, Option.some.injEq] at hd
    subst hd; rfl
  | cons n ns ih =>
    intro cs hd hp
    rw [desugarL] at hd
    cases hdn : desugar n with
    | none => simp [hdn] at hd
    | some cmd =>
      cases hdl : desugarL ns with
      | none => simp [hdn, hdl] at hd
      | some cs' =>
        simp only [hdn, hdl, Option.some.injEq] at hd
        subst hd
        simp only [guardsPlainL, Bool.and_eq_true] at hp
        simp only [guardsFreshL, Bool.and_eq_true]
        exact ⟨IH n (List.mem_cons_self ..) cmd hdn hp.1,
          ih (fun m hm => IH m (List.mem_cons_of_mem _ hm)) cs' hdl hp.2⟩

theorem guardsFreshO_of_plain (o : Option Node)
    (IH : ∀ n, o = some n → ∀ cmd, desugar n = some cmd → guardsPlain n = true → guardsFresh cmd = true) :
    ∀ a, desugarO o = some a → guardsPlainO o = true → guardsFresh a = true := by
  intro a hd hp
  cases o with
  | none => rw [desugarO] at hd; cases hd; rfl
  | some n =>
    rw [desugarO] at hd
    rw [guardsPlainO] at hp
    exact IH n rfl a hd hp

theorem guardsFresh_of_plain_aux (N : Nat) : ∀ n : Node, sizeOf n < N → ∀ cmd, desugar n = some cmd →
    guardsPlain n = true → guardsFresh cmd = true := by
  induction N with
  | zero => intro n h; omega
  | succ N ih =>
    intro node hsz cmd hd hp
    by_cases hrec : isRec node = false
    · exact guardsFresh_of_noFor cmd (noFor_of_loopFree cmd (desugar_leaf_loopFree node hrec cmd hd))
    cases node <;> first | (exfalso; exact hrec rfl) | skip
    · -- (T) e;
      rename_i e
      rw [desugar] at hd
      rw [guardsPlain] at hp
      exact ih e (by simp only [Node.cast.sizeOf_spec] at hsz; omega) cmd hd hp
    · -- e1, e2
      rename_i es
      rw [desugar] at hd
      rw [guardsPlain] at hp
      cases hdl : desugarL es with
      | none => simp [hdl] at hd
      | some cs =>
        simp only [hdl, Option.map_some, Option.some.injEq] at hd
        subst hd
        rw [guardsFresh]
        exact guardsFreshL_of_plain es (fun m hm => ih m (by
          have := sizeOf_mem_lt' hm
          simp only [Node.exprList.sizeOf_spec] at hsz; omega)) cs hdl hp
    · -- { l }
      rename_i items
      cases items with
      | none => exact absurd rfl hrec
      | some l =>
        rw [desugar] at hd
        rw [guardsPlain] at hp
        cases hdl : desugarL l with
        | none => simp [hdl] at hd
        | some cs =>
          simp only [hdl, Option.map_some, Option.some.injEq] at hd
          subst hd
          rw [guardsFresh]
          exact guardsFreshL_of_plain l (fun m hm => ih m (by
            have := sizeOf_mem_lt' hm
            simp only [Node.compound.sizeOf_spec, Option.some.sizeOf_spec] at hsz; omega)) cs hdl hp
    · -- if
      rename_i cond t f
      rw [desugar] at hd
      by_cases hcv : changesVariable cond = true
      · rw [if_pos hcv] at hd; cases hd
      rw [if_neg hcv] at hd
      rw [guardsPlain] at hp
      simp only [Bool.and_eq_true] at hp
      cases ha : desugarO t with
      | none => simp [ha] at hd
      | some a =>
        cases hb : desugarO f with
        | none => simp [ha, hb] at hd
        | some b =>
          simp only [ha, hb, Option.some.injEq] at hd
          subst hd
          have hst : sizeOf t < N := by simp only [Node.ifs.sizeOf_spec] at hsz; omega
          have hsf : sizeOf f < N := by simp only [Node.ifs.sizeOf_spec] at hsz; omega
          simp only [guardsFresh, Bool.and_eq_true]
          exact ⟨guardsFreshO_of_plain t (fun n hn => ih n (by
              subst hn; simp only [Option.some.sizeOf_spec] at hst; omega)) a ha hp.1,
            guardsFreshO_of_plain f (fun n hn => ih n (by
              subst hn; simp only [Option.some.sizeOf_spec] at hsf; omega)) b hb hp.2⟩
    · -- while
      rename_i cond b
      rw [desugar] at hd
      by_cases hcv : changesVariable cond = true
      · rw [if_pos hcv] at hd; cases hd
      rw [if_neg hcv] at hd
      rw [guardsPlain] at hp
      cases hdb : desugar b with
      | none => simp [hdb] at hd
      | some cb =>
        simp only [hdb, Option.map_some, Option.some.injEq] at hd
        subst hd
        rw [guardsFresh]
        exact ih b (by simp only [Node.while_.sizeOf_spec] at hsz; omega) cb hdb hp
    · -- do-while
      rename_i cond b
      rw [desugar] at hd
      by_cases hcv : changesVariable cond = true
      · rw [if_pos hcv] at hd; cases hd
      rw [if_neg hcv] at hd
      rw [guardsPlain] at hp
      cases hdb : desugar b with
      | none => simp [hdb] at hd
      | some cb =>
        simp only [hdb, Option.map_some, Option.some.injEq] at hd
        subst hd
        rw [guardsFresh]
        exact ih b (by simp only [Node.doWhile.sizeOf_spec] at hsz; omega) cb hdb hp
    · -- for
      rename_i init cond next b
      rw [desugar, loopCompat_for] at hd
      rw [guardsPlain, guardPlainAt, loopCompat_for] at hp
      split at hd
      · rename_i X hlc
        have hlc' : lcP init cond next b = (true, some X) := by simpa using hlc
        rw [hlc'] at hp
        simp only [Bool.and_eq_true, bne_iff_ne, ne_eq, Bool.not_eq_true', List.contains_eq_mem,
          decide_eq_false_iff_not] at hp
        cases hdb : desugar b with
        | none => simp [hdb] at hd
        | some cb =>
          simp only [hdb, Option.map_some, Option.some.injEq] at hd
          subst hd
          have hsb : sizeOf b < N := by simp only [Node.for_.sizeOf_spec] at hsz; omega
          simp only [guardsFresh, Bool.and_eq_true, bne_iff_ne, ne_eq, Bool.not_eq_true',
            List.contains_eq_mem, decide_eq_false_iff_not]
          refine ⟨⟨hp.1.1, ?_⟩, ih b hsb cb hdb hp.2⟩
          intro hX
          rcases desugar_vars (sizeOf b + 1) b (Nat.lt_succ_self _) cb hdb X hX with h | h | h
          · exact lcP_body hlc' h
          · exact hp.1.2 h
          · exact hp.1.1 h
      · cases hd
    · -- label
      rename_i name st
      rw [desugar] at hd
      rw [guardsPlain] at hp
      exact ih st (by simp only [Node.label.sizeOf_spec] at hsz; omega) cmd hd hp

end Refine

open Spec Refine in
/-- `guardsFresh` holds for the reading of any statement whose accepted `for` guards are plain
    names (a check on the syntax tree alone) -/
theorem guardsFresh_of_guardsPlain (node : Node) (cmd : Cmd) (hd : desugar node = some cmd)
    (hp : guardsPlain node = true) : guardsFresh cmd = true :=
  guardsFresh_of_plain_aux (sizeOf node + 1) node (Nat.lt_succ_self _) cmd hd hp

open Spec Refine in
/-- **Refinement, loops included**, with all side conditions on the syntax tree:
    `compute_refines_partial` where `guardsFresh cmd` follows from `guardsPlain node`. -/
theorem compute_refines_plain_partial (node : Node) (cmd : Cmd) (hd : desugar node = some cmd)
    (q : Bool) (idx : Nat) (dg : DG.Graph) (hnames : namesOkA node = true)
    (hplain : guardsPlain node = true)
    (out : Analysis.Out) (hc : Analysis.compute q idx dg node = .ok out) :
    (q = true → out.exit = false) ∧
    (∃ ops : List DG.Op, ops.foldlM DG.step dg = .ok out.dg ∧
      ∀ t ∈ DG.inserted ops, ∀ U : List String, U.Nodup → (∀ v ∈ cmd.vars, v ∈ U) →
        ∀ c : Choice, (∀ k, idx ≤ k → k < idx + cmd.arity → ∃ a, c[k]? = some a ∧ a < 3) →
          (t.all fun d => c[d.2]? == some d.1) = true →
          sem U cmd idx (relabelAt idx cmd c) = none) ∧
    (out.exit = false →
      out.index = idx + cmd.arity ∧
      ∃ r, out.rels = [r] ∧ r.WF ∧ (∀ v ∈ r.vars, v ∈ cmd.vars) ∧
        ∀ U : List String, U.Nodup → (∀ v ∈ cmd.vars, v ∈ U) →
        ∀ c : Choice, (∀ k, idx ≤ k → k < idx + cmd.arity → ∃ a, c[k]? = some a ∧ a < 3) →
          match sem U cmd idx (relabelAt idx cmd c) with
          | some (k, M) => k = idx + cmd.arity ∧ (∀ a b, r.den c a b ≠ .i) ∧
                           ∀ x y, x ∈ U → y ∈ U → r.den c x y = SMat.den U M x y
          | none => ∃ a b, r.den c a b = .i) :=
  compute_refines_partial node cmd hd q idx dg hnames
    (guardsFresh_of_guardsPlain node cmd hd hplain) out hc

end Mwp
