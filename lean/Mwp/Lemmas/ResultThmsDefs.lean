/-
  Well-formedness of result objects (`WFObj`): what an object of a result class satisfies when it
  was built by the analysis or restored by `from_dict`, stated clause by clause as a boolean test.
  Used as the hypothesis of the C14 theorems (Mwp/Props/C14.lean).
-/
import Mwp.Model.Result
namespace Mwp.Result
open Mwp

/-! ## Simple attributes -/

/-- (A1) the object holds exactly the attributes of the generated `_attrs` table, in order;
    (A2) an attribute whose value is `None` has constructor default `None` — `_try_set` skips
    `None`, so any other attribute would come back as its (non-`None`) default.
    With the tables as generated the attributes that may be `None` are: `Program.program_path`,
    `FuncResult.name / inf_flows / func_code`, `FuncLoops.name`, `LoopResult.loop_code`,
    `VResult.name`; of these the analysis leaves `inf_flows` at `None` for every function that is
    not infinite, and `func_code` / `program_path` when they were not supplied. -/
def attrsOK : List (String × JVal) → List (String × JVal) → Bool
  | [], [] => true
  | (k, d) :: t, (k', v) :: a => decide (k = k') && (!isNull v || isNull d) && attrsOK t a
  | _, _ => false

/-- (A3) `VResult.is_m / is_w / is_p` are booleans with `is_m → is_w → is_p` (the property setters
    maintain this; a document violating it is changed by the setters on load). -/
def flagsOK (cls : Cls) (o : Obj) : Bool :=
  match cls with
  | .vResult =>
    match o.getAttr "is_m", o.getAttr "is_w", o.getAttr "is_p" with
    | .bool m, .bool w, .bool p => (!m || w) && (!w || p)
    | _, _, _ => false
  | _ => true

/-! ## Parts -/

/-- an encoded delta list: pairs of naturals with strictly increasing indices -/
def wfDeltas (ds : List JVal) : Bool :=
  match deltasOf? ds with
  | some dl => Mono.sortedDeltas dl
  | none => false

/-- an encoded monomial `{"scalar": s, "deltas": ds}` as `Monomial.to_dict` writes it -/
def wfMono : JVal → Bool
  | .obj [(k1, .str s), (k2, .arr ds)] =>
    decide (k1 = "scalar") && decide (k2 = "deltas") && (Scalar.ofStr? s).isSome && wfDeltas ds
  | _ => false

/-- a polynomial has at least one monomial (`Polynomial.list` is never empty) -/
def wfPoly : JVal → Bool
  | .arr (m :: ms) => (m :: ms).all wfMono
  | _ => false

def wfRow : JVal → Bool
  | .arr cells => cells.all wfPoly
  | _ => false

/-- (P-relation) `{"matrix": rows}`; every cell a non-empty list of well-formed monomials; a matrix
    without rows only together with no (truthy) variable — `Relation.__init__` replaces a falsy
    matrix by the zero matrix over the variables. -/
def wfRelation (variables : JVal) : JVal → Bool
  | .obj [(k, .arr rows)] =>
    decide (k = "matrix") && rows.all wfRow && (!rows.isEmpty || nVars variables == 0)
  | _ => false

/-- (P-choices) `choices.valid` is a non-empty list: an empty one is not written back after a load
    (`if choices:` in `from_dict`), although `to_dict` writes it when `choices.index < 0`. -/
def wfChoices : JVal → Bool
  | .arr (_ :: _) => true
  | _ => false

def sortedStrict : List String → Bool
  | a :: b :: t => decide (a < b) && sortedStrict (b :: t)
  | _ => true

/-- a bound text as `bound_str` writes it: not empty, exactly three `;`-separated fields, the
    `,`-separated names of each field strictly increasing (sorted and duplicate-free) -/
def wfBoundStr (s : String) : Bool :=
  s != "" &&
  match Bound.parse s.toList with
  | [x, y, z] =>
    sortedStrict (x.map String.ofList) && sortedStrict (y.map String.ofList) &&
      sortedStrict (z.map String.ofList)
  | _ => false

def wfBoundJ : JVal → Bool
  | .str s => wfBoundStr s
  | _ => false

/-- (P-bound, FuncResult) a dict of bound texts -/
def wfBoundDict : JVal → Bool
  | .obj kvs => kvs.all fun kv => wfBoundJ kv.2
  | _ => false

def partOK (cls : Cls) (o : Obj) (p : String) (v : JVal) : Bool :=
  match cls with
  | .funcResult =>
    if p = "relation" then wfRelation (o.getAttr "variables") v
    else if p = "choices" then wfChoices v
    else if p = "bound" then wfBoundDict v
    else false
  | .vResult =>
    if p = "choices" then wfChoices v
    else if p = "bound" then wfBoundJ v
    else false
  | _ => false

/-- (P0) the parts are among the keys handled by the class, each at most once, in the order of
    `Cls.partKeys`; and each present part is well-formed. -/
def partsOK (cls : Cls) (o : Obj) : Bool :=
  decide (o.parts.map (·.1) = cls.partKeys.filter fun p => (lookup p o.parts).isSome) &&
  o.parts.all fun pv => partOK cls o pv.1 pv.2

/-! ## Nested objects -/

/-- (L) exactly the `_ser_list` attributes; every element well-formed for the element class -/
def listsOK (wfs : Cls → Obj → Bool) (cls : Cls) (o : Obj) : Bool :=
  decide (o.lists.map (·.1) = cls.serList) &&
  o.lists.all fun al => al.2.all (wfs (cls.elem al.1))

/-- (D) exactly the `_ser_dict` attributes; in each, keys are distinct, the key of an entry is the
    (JSON text of the) entry's key attribute, and every entry is well-formed -/
def dictsOK (wfs : Cls → Obj → Bool) (cls : Cls) (o : Obj) : Bool :=
  decide (o.dicts.map (·.1) = cls.dictNames) &&
  cls.serDict.all fun ak =>
    decide ((o.getDict ak.1).map (·.1)).Nodup &&
    (o.getDict ak.1).all fun kx =>
      decide (kx.1 = keyStr (kx.2.getAttr ak.2)) && wfs (cls.elem ak.1) kx.2

/-- (S) exactly the `_ser_attrs` attributes, none of them `None`, each well-formed -/
def sersOK (wfs : Cls → Obj → Bool) (cls : Cls) (o : Obj) : Bool :=
  decide (o.sers.map (·.1) = cls.serAttrs) &&
  o.sers.all fun ax =>
    match ax.2 with
    | some x => wfs (cls.elem ax.1) x
    | none => false

/-- One level of well-formedness; `wfs` is the test for nested objects. -/
def wf1 (wfs : Cls → Obj → Bool) (cls : Cls) (o : Obj) : Bool :=
  attrsOK cls.attrs o.attrs && flagsOK cls o && partsOK cls o &&
  listsOK wfs cls o && dictsOK wfs cls o && sersOK wfs cls o

def wfN : Nat → Cls → Obj → Bool
  | 0, _, _ => false
  | n + 1, cls, o => wf1 (wfN n) cls o

/-- `o` is a well-formed object of class `cls` (all clauses above, nested objects recursively). -/
def WFObj (cls : Cls) (o : Obj) : Prop := wfN depth cls o = true

instance (cls : Cls) (o : Obj) : Decidable (WFObj cls o) := by unfold WFObj; infer_instance

/-! ## Facts about the generated tables used by the proofs (checked by evaluation) -/

/-- The five groups of keys a class writes do not overlap and have no repetition; a
    `_ser_attrs` class has at least one simple attribute (so its dict is truthy); `FuncResult`
    has the attribute `name` that its `from_dict` binds. -/
def Cls.tablesOK (c : Cls) : Bool :=
  decide (c.attrNames ++ c.serAttrs ++ c.serList ++ c.dictNames ++ c.partKeys).Nodup &&
  c.serAttrs.all (fun a => !(c.elem a).attrs.isEmpty) &&
  (c != .funcResult || decide ("name" ∈ c.attrNames))

namespace Sample

/-! ## Sample objects for the non-vacuity examples of C14: every field that can be zero / false /
    empty is. -/

/-- a `Program` with `n_lines = 0` and an empty path -/
def program0 : Obj :=
  ⟨[("program_path", .str ""), ("n_lines", .num 0), ("n_func", .num 0), ("n_loops", .num 0),
    ("n_func_vars", .num 0), ("n_loop_vars", .num 0)], [], [], [], []⟩

/-- a `FuncResult` with `index = 0`, `infinite = False`, empty strings, no variables, an empty
    relation and an empty bound (a function without variables) -/
def func0 : Obj :=
  ⟨[("name", .str "f"), ("infinite", .bool false), ("start_time", .num 0), ("end_time", .num 0),
    ("variables", .arr []), ("inf_flows", .str ""), ("index", .num 0), ("func_code", .str "")],
   [("relation", .obj [("matrix", .arr [])]), ("bound", .obj [])], [], [], []⟩

/-- a `FuncResult` with a relation over two variables, choices and a bound -/
def func1 : Obj :=
  ⟨[("name", .str "g"), ("infinite", .bool false), ("start_time", .num 3), ("end_time", .num 4),
    ("variables", .arr [.str "a", .str "b"]), ("inf_flows", .null), ("index", .num 1),
    ("func_code", .null)],
   [("relation", .obj [("matrix", .arr [
      .arr [.arr [jMono .m [(0, 0)], jMono .p [(1, 0)], jMono .w [(2, 0)]], .arr [jMono .o []]],
      .arr [.arr [jMono .p [(0, 0), (1, 1)]], .arr [jMono .m []]]])]),
    ("choices", .arr [.arr [.arr [.num 0, .num 1, .num 2]]]),
    ("bound", .obj [("a", .str "a;;b"), ("b", .str "b;;")])], [], [], []⟩

def var0 : Obj :=
  ⟨[("name", .str "x"), ("is_m", .bool false), ("is_w", .bool false), ("is_p", .bool false)],
   [], [], [], []⟩

def var1 : Obj :=
  ⟨[("name", .str "y"), ("is_m", .bool false), ("is_w", .bool true), ("is_p", .bool true)],
   [("choices", .arr [.arr [.arr [.num 0]]]), ("bound", .str "y;n,x;")], [], [], []⟩

def loop0 : Obj :=
  ⟨[("loop_code", .str ""), ("start_time", .num 0), ("end_time", .num 0)], [], [],
   [("variables", [("x", var0), ("y", var1)])], []⟩

/-- a function without analysed loops: the empty list is not written at all -/
def funcLoops0 : Obj :=
  ⟨[("name", .str "h"), ("start_time", .num 0), ("end_time", .num 0)], [], [("loops", [])], [], []⟩

def funcLoops1 : Obj :=
  ⟨[("name", .str "f"), ("start_time", .num 0), ("end_time", .num 9)], [],
   [("loops", [loop0, loop0])], [], []⟩

def result0 : Obj :=
  ⟨[("start_time", .num 0), ("end_time", .num 0)], [], [],
   [("loops", [("f", funcLoops1), ("h", funcLoops0)]), ("relations", [("f", func0), ("g", func1)])],
   [("program", some program0)]⟩

end Sample

end Mwp.Result
