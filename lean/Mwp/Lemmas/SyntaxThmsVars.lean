/-
  Auxiliary facts about the `Variables` walker and `loop_compat` (neither ever throws), and
  (C19) `FindLoops` = generic pre-order loop traversal.
-/
import Mwp.Spec.Syntax
namespace Mwp
open Mwp Mwp.Syntax

/-! ### `Except` plumbing -/

theorem bind_eq_ok {α β : Type} (x : M α) (f : α → M β) (b : β) :
    (x >>= f) = .ok b ↔ ∃ a, x = .ok a ∧ f a = .ok b := by
  cases x with
  | error e => simp [bind, Except.bind]
  | ok a => simp [bind, Except.bind]

theorem ok_bind {α β : Type} (a : α) (f : α → M β) : ((Except.ok a : M α) >>= f) = f a := rfl

theorem pure_eq_ok {α : Type} (a : α) : (pure a : M α) = .ok a := rfl

/-! ### `init_vars` is total -/

/-- the value of `initVars` -/
def initP (o : Option Node) : List String × List String :=
  match initVars o with
  | .ok p => p
  | .error _ => ([], [])

theorem initVars_eq (o : Option Node) : initVars o = .ok (initP o) := by
  unfold initP
  unfold initVars
  split <;> rfl

/-! ### `Variables` is total: a pure twin -/

/-- the guard variable `Variables.For` adds -/
def guardOf (r : Bool × Option String) : List String :=
  match r.1, r.2 with
  | true, some x => if x.isEmpty then [] else [x]
  | _, _ => []

mutual
def varsP : Node → List String
  | .id n => if Gen.reserved.contains n then [] else if n.isEmpty then [] else [n]
  | .assign _ l r => varsP l ++ varsP r
  | .binop _ l r => varsP l ++ varsP r
  | .cast e => varsP e
  | .decl name ty init =>
    (match ty, name with
      | .typeDecl, some n => if n.isEmpty then [] else [n]
      | _, _ => []) ++ varsPO init
  | .doWhile c b => varsP c ++ varsP b
  | .while_ c b => varsP c ++ varsP b
  | .for_ init cond next body =>
    guardOf (if hasEffectO cond then (false, none)
      else loopCompatOf (initP init).1 (initP init).2 (normVars (varsPO cond))
        (normVars (varsPO next)) (normVars (varsP body))) ++ varsP body
  | .funcDef d b =>
    (match d with
      | .decl _ (.funcDecl a) _ => varsPO a
      | _ => []) ++ varsP b
  | .ifs _ t f => varsPO t ++ varsPO f
  | .ret e => varsPO e
  | .unop op e => if Gen.uOps.contains op then varsP e else []
  | .case_ _ ss => varsPL ss
  | .default_ ss => varsPL ss
  | .compound none => []
  | .compound (some l) => varsPL l
  | .declList ds => varsPL ds
  | .exprList es => varsPL es
  | .paramList ps => varsPL ps
  | .label _ st => varsP st
  | .other cls name _ =>
    if Gen.variablesPass.contains cls then []
      else match name with
        | some n => if n.isEmpty then [] else [n]
        | none => []
  | _ => []
def varsPL : List Node → List String
  | [] => []
  | n :: ns => varsP n ++ varsPL ns
def varsPO : Option Node → List String
  | none => []
  | some n => varsP n
end

mutual
theorem varsN_eq : (n : Node) → varsN n = .ok (varsP n)
  | .id _ => by simp only [varsN, varsP]; rfl
  | .const .. => by simp only [varsN, varsP]; rfl
  | .binop _ l r => by simp only [varsN, varsP, varsN_eq l, varsN_eq r]; rfl
  | .unop op e => by
    simp only [varsN, varsP]; split
    · exact varsN_eq e
    · rfl
  | .cast e => by simp only [varsN, varsP, varsN_eq e]
  | .assign _ l r => by simp only [varsN, varsP, varsN_eq l, varsN_eq r]; rfl
  | .funcCall .. => by simp only [varsN, varsP]; rfl
  | .exprList es => by simp only [varsN, varsP, varsL_eq es]
  | .ternary .. => by simp only [varsN, varsP]; rfl
  | .arrayRef .. => by simp only [varsN, varsP]; rfl
  | .decl _ _ init => by simp only [varsN, varsP, varsO_eq init]; rfl
  | .typeDecl => by simp only [varsN, varsP]; rfl
  | .declList es => by simp only [varsN, varsP, varsL_eq es]
  | .compound none => by simp only [varsN, varsP]; rfl
  | .compound (some es) => by simp only [varsN, varsP, varsL_eq es]
  | .ifs _ t f => by simp only [varsN, varsP, varsO_eq t, varsO_eq f]; rfl
  | .while_ l r => by simp only [varsN, varsP, varsN_eq l, varsN_eq r]; rfl
  | .doWhile l r => by simp only [varsN, varsP, varsN_eq l, varsN_eq r]; rfl
  | .for_ init cond next body => by
    simp only [varsN, varsP, initVars_eq, varsO_eq cond, varsO_eq next, varsN_eq body, ok_bind]
    split <;> rfl
  | .ret e => by simp only [varsN, varsP, varsO_eq e]
  | .brk => by simp only [varsN, varsP]; rfl
  | .cont => by simp only [varsN, varsP]; rfl
  | .empty => by simp only [varsN, varsP]; rfl
  | .label _ e => by simp only [varsN, varsP, varsN_eq e]
  | .goto _ => by simp only [varsN, varsP]; rfl
  | .switch .. => by simp only [varsN, varsP]; rfl
  | .case_ _ es => by simp only [varsN, varsP, varsL_eq es]
  | .default_ es => by simp only [varsN, varsP, varsL_eq es]
  | .paramList es => by simp only [varsN, varsP, varsL_eq es]
  | .funcDecl _ => by simp only [varsN, varsP]; rfl
  | .funcDef d b => by
    have hb := varsN_eq b
    cases d with
    | decl nm ty i =>
      cases ty with
      | funcDecl a => simp only [varsN, varsP, hb, varsO_eq a]; rfl
      | _ => simp only [varsN, varsP, hb]; rfl
    | _ => simp only [varsN, varsP, hb]; rfl
  | .other .. => by simp only [varsN, varsP]; rfl
theorem varsL_eq : (l : List Node) → varsL l = .ok (varsPL l)
  | [] => by simp only [varsL, varsPL]; rfl
  | n :: ns => by simp only [varsL, varsPL, varsN_eq n, varsL_eq ns]; rfl
theorem varsO_eq : (o : Option Node) → varsO o = .ok (varsPO o)
  | none => by simp only [varsO, varsPO]; rfl
  | some n => by simp only [varsO, varsPO, varsN_eq n]
end

/-! ### `loop_compat` on a `for` statement never throws -/

/-- the value of `loopCompat` on a `for` statement -/
def lcP (init cond next : Option Node) (body : Node) : Bool × Option String :=
  if hasEffectO cond then (false, none)
  else loopCompatOf (initP init).1 (initP init).2 (normVars (varsPO cond)) (normVars (varsPO next))
    (normVars (varsP body))

theorem varsP_for (init cond next : Option Node) (body : Node) :
    varsP (.for_ init cond next body) = guardOf (lcP init cond next body) ++ varsP body := by
  simp only [varsP, lcP]

theorem loopCompat_for (init cond next : Option Node) (body : Node) :
    loopCompat (.for_ init cond next body) = .ok (lcP init cond next body) := by
  simp only [loopCompat, lcP, initVars_eq, varsO_eq, varsN_eq, ok_bind]
  split <;> rfl

/-- the candidate guard variables of `loop_compat` (independent of the body) -/
def loopXOf (iters srcs conds nxt : List String) : List String :=
  (normVars (conds ++ srcs)).filter (fun v => !(iters ++ nxt).contains v)

theorem loopCompatOf_eq (iters srcs conds nxt body : List String) :
    loopCompatOf iters srcs conds nxt body =
      match loopXOf iters srcs conds nxt with
      | [x] => if body.contains x then (false, none) else (true, some x)
      | _ => (false, none) := rfl

theorem loopCompatOf_cases (iters srcs conds nxt body : List String) :
    (∃ x, loopCompatOf iters srcs conds nxt body = (true, some x)) ∨
      loopCompatOf iters srcs conds nxt body = (false, none) := by
  rw [loopCompatOf_eq]
  split
  · split
    · exact .inr rfl
    · exact .inl ⟨_, rfl⟩
  · exact .inr rfl

theorem lcP_cases (init cond next : Option Node) (body : Node) :
    (∃ x, lcP init cond next body = (true, some x)) ∨ lcP init cond next body = (false, none) := by
  unfold lcP
  split
  · exact .inr rfl
  · exact loopCompatOf_cases ..

/-- a `for` whose condition changes a variable is never a counted loop -/
theorem lcP_of_hasEffect (init cond next : Option Node) (body : Node)
    (h : hasEffectO cond = true) : lcP init cond next body = (false, none) := by
  simp only [lcP, h, if_true]

theorem countedFor_for (init cond next : Option Node) (body : Node) :
    Spec.countedFor (.for_ init cond next body) = (lcP init cond next body).1 := by
  unfold Spec.countedFor
  rw [loopCompat_for]
  rcases lcP_cases init cond next body with ⟨x, h⟩ | h <;> rw [h]

/-! ### the effect scan of the code is the effect scan of the specification -/

theorem incDec_test (op : String) :
    (op == "++" || op == "--" || op == "p++" || op == "p--") = Gen.incDec.contains op := by
  simp only [Gen.incDec, List.contains_cons, List.contains_nil, Bool.or_false, Bool.or_assoc]

mutual
theorem hasEffect_eq_changesVariable : (n : Node) → hasEffect n = Spec.changesVariable n
  | .id _ | .const .. | .typeDecl | .brk | .cont | .empty | .goto _ | .compound none
  | .assign .. => by
    simp only [hasEffect, Spec.changesVariable]
  | .unop op e => by
    simp only [hasEffect, Spec.changesVariable, hasEffect_eq_changesVariable e, ← incDec_test,
      Bool.or_assoc]
  | .cast e | .label _ e => by
    simp only [hasEffect, Spec.changesVariable, hasEffect_eq_changesVariable e]
  | .binop _ a b | .arrayRef a b | .while_ a b | .doWhile a b | .switch a b | .funcDef a b => by
    simp only [hasEffect, Spec.changesVariable, hasEffect_eq_changesVariable a,
      hasEffect_eq_changesVariable b]
  | .ternary a b c => by
    simp only [hasEffect, Spec.changesVariable, hasEffect_eq_changesVariable a,
      hasEffect_eq_changesVariable b, hasEffect_eq_changesVariable c]
  | .funcCall a o | .decl _ a o => by
    simp only [hasEffect, Spec.changesVariable, hasEffect_eq_changesVariable a,
      hasEffectO_eq_changesVariableO o]
  | .exprList l | .declList l | .compound (some l) | .default_ l | .paramList l | .other _ _ l => by
    simp only [hasEffect, Spec.changesVariable, hasEffectL_eq_changesVariableL l]
  | .case_ a l => by
    simp only [hasEffect, Spec.changesVariable, hasEffect_eq_changesVariable a,
      hasEffectL_eq_changesVariableL l]
  | .ifs a t f => by
    simp only [hasEffect, Spec.changesVariable, hasEffect_eq_changesVariable a,
      hasEffectO_eq_changesVariableO t, hasEffectO_eq_changesVariableO f]
  | .for_ i c x b => by
    simp only [hasEffect, Spec.changesVariable, hasEffect_eq_changesVariable b,
      hasEffectO_eq_changesVariableO i, hasEffectO_eq_changesVariableO c,
      hasEffectO_eq_changesVariableO x]
  | .ret o | .funcDecl o => by
    simp only [hasEffect, Spec.changesVariable, hasEffectO_eq_changesVariableO o]
theorem hasEffectL_eq_changesVariableL :
    (l : List Node) → hasEffectL l = Spec.changesVariableL l
  | [] => by simp only [hasEffectL, Spec.changesVariableL]
  | n :: ns => by
    simp only [hasEffectL, Spec.changesVariableL, hasEffect_eq_changesVariable n,
      hasEffectL_eq_changesVariableL ns]
theorem hasEffectO_eq_changesVariableO :
    (o : Option Node) → hasEffectO o = Spec.changesVariableO o
  | none => by simp only [hasEffectO, Spec.changesVariableO]
  | some n => by simp only [hasEffectO, Spec.changesVariableO, hasEffect_eq_changesVariable n]
end

theorem countedFor_while (c b : Node) : Spec.countedFor (.while_ c b) = !hasEffect c := by
  simp only [Spec.countedFor, hasEffect_eq_changesVariable]

theorem countedFor_doWhile (c b : Node) : Spec.countedFor (.doWhile c b) = !hasEffect c := by
  simp only [Spec.countedFor, hasEffect_eq_changesVariable]

/-! ### (C19) `FindLoops` = the generic pre-order traversal -/

mutual
theorem loopsN_eq_allLoops : (n : Node) → loopsN n = .ok (Spec.allLoops Spec.countedFor n)
  | .id _ => by simp only [loopsN, Spec.allLoops]; rfl
  | .const .. => by simp only [loopsN, Spec.allLoops]; rfl
  | .binop .. => by simp only [loopsN, Spec.allLoops]; rfl
  | .unop .. => by simp only [loopsN, Spec.allLoops]; rfl
  | .cast _ => by simp only [loopsN, Spec.allLoops]; rfl
  | .assign .. => by simp only [loopsN, Spec.allLoops]; rfl
  | .funcCall .. => by simp only [loopsN, Spec.allLoops]; rfl
  | .exprList es => by simp only [loopsN, Spec.allLoops, loopsL_eq_allLoopsL es]
  | .ternary .. => by simp only [loopsN, Spec.allLoops]; rfl
  | .arrayRef .. => by simp only [loopsN, Spec.allLoops]; rfl
  | .decl .. => by simp only [loopsN, Spec.allLoops]; rfl
  | .typeDecl => by simp only [loopsN, Spec.allLoops]; rfl
  | .declList es => by simp only [loopsN, Spec.allLoops, loopsL_eq_allLoopsL es]
  | .compound none => by simp only [loopsN, Spec.allLoops]; rfl
  | .compound (some es) => by simp only [loopsN, Spec.allLoops, loopsL_eq_allLoopsL es]
  | .ifs _ t f => by
    simp only [loopsN, Spec.allLoops, loopsO_eq_allLoopsO t, loopsO_eq_allLoopsO f]; rfl
  | .while_ c b => by
    simp only [loopsN, Spec.allLoops, loopsN_eq_allLoops b, countedFor_while, ok_bind]
    cases hasEffect c <;> rfl
  | .doWhile c b => by
    simp only [loopsN, Spec.allLoops, loopsN_eq_allLoops b, countedFor_doWhile, ok_bind]
    cases hasEffect c <;> rfl
  | .for_ init cond next b => by
    simp only [loopsN, Spec.allLoops, loopsN_eq_allLoops b, loopCompat_for, countedFor_for, ok_bind]
    cases (lcP init cond next b).1 <;> rfl
  | .ret _ => by simp only [loopsN, Spec.allLoops]; rfl
  | .brk => by simp only [loopsN, Spec.allLoops]; rfl
  | .cont => by simp only [loopsN, Spec.allLoops]; rfl
  | .empty => by simp only [loopsN, Spec.allLoops]; rfl
  | .label _ e => by simp only [loopsN, Spec.allLoops, loopsN_eq_allLoops e]
  | .goto _ => by simp only [loopsN, Spec.allLoops]; rfl
  | .switch _ b => by simp only [loopsN, Spec.allLoops, loopsN_eq_allLoops b]
  | .case_ _ es => by simp only [loopsN, Spec.allLoops, loopsL_eq_allLoopsL es]
  | .default_ es => by simp only [loopsN, Spec.allLoops, loopsL_eq_allLoopsL es]
  | .paramList es => by simp only [loopsN, Spec.allLoops, loopsL_eq_allLoopsL es]
  | .funcDecl _ => by simp only [loopsN, Spec.allLoops]; rfl
  | .funcDef _ b => by simp only [loopsN, Spec.allLoops, loopsN_eq_allLoops b]
  | .other .. => by simp only [loopsN, Spec.allLoops]; rfl
theorem loopsL_eq_allLoopsL :
    (l : List Node) → loopsL l = .ok (Spec.allLoopsL Spec.countedFor l)
  | [] => by simp only [loopsL, Spec.allLoopsL]; rfl
  | n :: ns => by
    simp only [loopsL, Spec.allLoopsL, loopsN_eq_allLoops n, loopsL_eq_allLoopsL ns]; rfl
theorem loopsO_eq_allLoopsO :
    (o : Option Node) → loopsO o = .ok (Spec.allLoopsO Spec.countedFor o)
  | none => by simp only [loopsO, Spec.allLoopsO]; rfl
  | some n => by simp only [loopsO, Spec.allLoopsO, loopsN_eq_allLoops n]
end

end Mwp
