/-
  `Relation.den` through `Relation.new`, `Relation.identity` and the four cases of
  `Relation.homogenisation`: both results are well formed, share one variable list (the union),
  and mean what the operands meant.
-/
import Mwp.Lemmas.RelAlgMatrix
namespace Mwp
open Mwp.Props.C16 Mwp.Lemmas.Poly

/-- `[x = y]` of the semiring -/
def idS (x y : String) : Scalar := if x = y then .m else .o

theorem idS_ne_i (x y : String) : idS x y ≠ .i := by
  unfold idS; split <;> simp

theorem idS_self (x : String) : idS x x = .m := by simp [idS]

theorem idS_of_ne {x y : String} (h : x ≠ y) : idS x y = .o := by simp [idS, h]

/-! ## `idxOf?` -/

theorem idx_cases (l : List String) (x : String) :
    (x ∉ l ∧ l.idxOf? x = none) ∨ (x ∈ l ∧ ∃ i, ∃ h : i < l.length, l.idxOf? x = some i ∧ l[i] = x) := by
  cases h : l.idxOf? x with
  | none => exact Or.inl ⟨List.idxOf?_eq_none_iff.1 h, rfl⟩
  | some i =>
    obtain ⟨hi, hx, _⟩ := List.idxOf?_eq_some_iff.1 h
    exact Or.inr ⟨hx ▸ List.getElem_mem hi, i, hi, rfl, hx⟩

theorem idx_lt {l : List String} {x : String} {i : Nat} (h : l.idxOf? x = some i) : i < l.length :=
  (List.idxOf?_eq_some_iff.1 h).1

theorem idx_get {l : List String} {x : String} {i : Nat} (h : l.idxOf? x = some i) :
    l[i]'(idx_lt h) = x :=
  (List.idxOf?_eq_some_iff.1 h).2.1

theorem idx_getD {l : List String} {x : String} {i : Nat} (h : l.idxOf? x = some i) (d : String) :
    l.getD i d = x := by
  rw [List.getD, List.getElem?_eq_getElem (idx_lt h), Option.getD_some, idx_get h]

theorem idx_mem {l : List String} {x : String} {i : Nat} (h : l.idxOf? x = some i) : x ∈ l := by
  rw [← idx_get h]; exact List.getElem_mem _

/-- first-occurrence indices coincide exactly for equal names (no `Nodup` needed) -/
theorem idx_eq_iff {l : List String} {x y : String} {i j : Nat}
    (hx : l.idxOf? x = some i) (hy : l.idxOf? y = some j) : i = j ↔ x = y := by
  constructor
  · intro h; subst h
    rw [← idx_get hx, ← idx_get hy]
  · intro h; subst h
    rw [hx] at hy; exact Option.some.inj hy

/-- in a list without repetition `idxOf?` inverts indexing -/
theorem idx_of_get {l : List String} (hl : l.Nodup) (i : Nat) (hi : i < l.length) (d : String) :
    l.idxOf? (l.getD i d) = some i := by
  rw [List.getD, List.getElem?_eq_getElem hi, Option.getD_some]
  rw [List.idxOf?_eq_some_iff]
  refine ⟨hi, rfl, ?_⟩
  intro j hj h
  have := (List.getElem_inj (h₀ := by omega) (h₁ := hi) hl).1 h
  omega

theorem idx_append_of_mem {l₁ : List String} (l₂ : List String) {x : String} (h : x ∈ l₁) :
    (l₁ ++ l₂).idxOf? x = l₁.idxOf? x := by
  induction l₁ with
  | nil => cases h
  | cons a t ih =>
    rw [List.cons_append, List.idxOf?_cons, List.idxOf?_cons]
    by_cases hax : a = x
    · simp [hax]
    · have : x ∈ t := by
        rcases List.mem_cons.1 h with h | h
        · exact absurd h.symm hax
        · exact h
      simp [hax, ih this]

theorem idx_append_ge {l₁ l₂ : List String} {x : String} {i : Nat} (h : x ∉ l₁)
    (hi : (l₁ ++ l₂).idxOf? x = some i) : l₁.length ≤ i := by
  apply Nat.le_of_not_lt
  intro hlt
  have := idx_get hi
  rw [List.getElem_append_left hlt] at this
  exact h (this ▸ List.getElem_mem hlt)

/-! ## `den` by cases -/

theorem Relation.den_of_idx {r : Relation} {x y : String} {i j : Nat}
    (hx : r.vars.idxOf? x = some i) (hy : r.vars.idxOf? y = some j) (c : Choice) :
    r.den c x y = (Matrix.get r.mat i j).evalD c := by
  simp only [Relation.den, hx, hy]

theorem Relation.den_of_not_mem_left {r : Relation} {x : String} (hx : x ∉ r.vars) (c : Choice)
    (y : String) : r.den c x y = idS x y := by
  simp only [Relation.den, List.idxOf?_eq_none_iff.2 hx, idS]

theorem Relation.den_of_not_mem_right {r : Relation} {y : String} (hy : y ∉ r.vars) (c : Choice)
    (x : String) : r.den c x y = idS x y := by
  simp only [Relation.den, List.idxOf?_eq_none_iff.2 hy, idS]
  split <;> first | rfl | simp_all

theorem Relation.den_nil_vars {r : Relation} (h : r.vars = []) (c : Choice) (x y : String) :
    r.den c x y = idS x y :=
  Relation.den_of_not_mem_left (by rw [h]; exact List.not_mem_nil) c y

/-- an ∞ can only sit between two of the relation's own variables -/
theorem Relation.mem_of_den_i {r : Relation} {c : Choice} {x y : String} (h : r.den c x y = .i) :
    x ∈ r.vars ∧ y ∈ r.vars := by
  constructor
  · apply Classical.byContradiction; intro hx
    rw [Relation.den_of_not_mem_left hx] at h
    exact idS_ne_i _ _ h
  · apply Classical.byContradiction; intro hy
    rw [Relation.den_of_not_mem_right hy] at h
    exact idS_ne_i _ _ h

/-! ## Tabulated matrices and `Relation.new` -/

/-- the `n × n` matrix with cell function `f` -/
def Matrix.tab (n : Nat) (f : Nat → Nat → Poly) : Matrix :=
  (List.range n).map fun i => (List.range n).map fun j => f i j

theorem Matrix.tab_length (n : Nat) (f : Nat → Nat → Poly) : (Matrix.tab n f).length = n := by
  simp [Matrix.tab]

theorem Matrix.tab_row_length (n : Nat) (f : Nat → Nat → Poly) :
    ∀ row ∈ Matrix.tab n f, row.length = n := by
  intro row h
  simp only [Matrix.tab, List.mem_map] at h
  obtain ⟨i, _, rfl⟩ := h
  simp

theorem Matrix.tab_cell_wf (n : Nat) (f : Nat → Nat → Poly) (hf : ∀ i j, (f i j).WF = true) :
    ∀ row ∈ Matrix.tab n f, ∀ p ∈ row, Poly.WF p = true := by
  intro row h p hp
  simp only [Matrix.tab, List.mem_map] at h
  obtain ⟨i, _, rfl⟩ := h
  simp only [List.mem_map] at hp
  obtain ⟨j, _, rfl⟩ := hp
  exact hf i j

theorem Matrix.get_tab (n : Nat) (f : Nat → Nat → Poly) (i j : Nat) (hi : i < n) (hj : j < n) :
    Matrix.get (Matrix.tab n f) i j = f i j :=
  Matrix.get_tabulate n n f i j hi hj

theorem filter_nonempty_eq (vs : List String) (hne : ∀ v ∈ vs, v ≠ "") :
    vs.filter (fun v => !v.isEmpty) = vs := by
  rw [List.filter_eq_self]
  intro v hv
  have := hne v hv
  simp [this]

/-- for well-formed input `Relation(variables, matrix)` stores its arguments as they are -/
theorem Relation.new_some_eq (vs : List String) (m : Matrix) (hne : ∀ v ∈ vs, v ≠ "")
    (hl : m.length = vs.length) : Relation.new vs (some m) = ⟨vs, m⟩ := by
  unfold Relation.new
  simp only [filter_nonempty_eq vs hne]
  split
  · rename_i h
    rw [List.isEmpty_iff] at h
    subst h
    have : vs = [] := List.eq_nil_of_length_eq_zero hl.symm
    subst this
    rfl
  · rfl

theorem Relation.tab_wf (vs : List String) (hv : vs.Nodup) (hne : ∀ v ∈ vs, v ≠ "")
    (f : Nat → Nat → Poly) (hf : ∀ i j, (f i j).WF = true) :
    Relation.WF ⟨vs, Matrix.tab vs.length f⟩ :=
  ⟨hv, hne, Matrix.tab_length _ _, Matrix.tab_row_length _ _, Matrix.tab_cell_wf _ _ hf⟩

theorem Relation.den_tab (vs : List String) (f : Nat → Nat → Poly) (c : Choice) (x y : String) :
    Relation.den ⟨vs, Matrix.tab vs.length f⟩ c x y =
      match vs.idxOf? x, vs.idxOf? y with
      | some i, some j => (f i j).evalD c
      | _, _ => idS x y := by
  rcases idx_cases vs x with ⟨hx, hx'⟩ | ⟨_, i, hi, hx, _⟩
  · rw [Relation.den_of_not_mem_left (r := ⟨vs, _⟩) hx, hx']
  · rcases idx_cases vs y with ⟨hy, hy'⟩ | ⟨_, j, hj, hy, _⟩
    · rw [Relation.den_of_not_mem_right (r := ⟨vs, _⟩) hy, hx, hy']
    · rw [Relation.den_of_idx (r := ⟨vs, _⟩) hx hy, hx, hy]
      simp only
      rw [Matrix.get_tab _ _ _ _ hi hj]

/-! ## Identity -/

theorem evalD_unit (c : Choice) : Poly.evalD Poly.unit c = .m := rfl

theorem WF_unit : Poly.WF Poly.unit = true := rfl

theorem evalD_idCell (i j : Nat) (c : Choice) :
    Poly.evalD (if (i == j) = true then Poly.unit else Poly.zero) c = if i = j then .m else .o := by
  by_cases h : i = j
  · simp [h, evalD_unit]
  · simp [h, evalD_zero]

theorem WF_idCell (i j : Nat) :
    Poly.WF (if (i == j) = true then Poly.unit else Poly.zero) = true := by
  split
  · exact WF_unit
  · exact WF_zero

theorem Relation.identity_eq (vs : List String) (hne : ∀ v ∈ vs, v ≠ "") :
    Relation.identity vs =
      ⟨vs, Matrix.tab vs.length fun i j => if i == j then Poly.unit else Poly.zero⟩ := by
  unfold Relation.identity
  rw [Relation.new_some_eq vs _ hne (by simp [Matrix.identity])]
  rfl

theorem Relation.identity_wf (vs : List String) (hv : vs.Nodup) (hne : ∀ v ∈ vs, v ≠ "") :
    (Relation.identity vs).WF := by
  rw [Relation.identity_eq vs hne]
  exact Relation.tab_wf vs hv hne _ WF_idCell

theorem Relation.identity_vars (vs : List String) (hne : ∀ v ∈ vs, v ≠ "") :
    (Relation.identity vs).vars = vs := by
  rw [Relation.identity_eq vs hne]

/-- (`Nodup` is not needed for the meaning: `idxOf?` takes first occurrences.) -/
theorem Relation.identity_den' (vs : List String) (hne : ∀ v ∈ vs, v ≠ "") (c : Choice)
    (x y : String) : (Relation.identity vs).den c x y = idS x y := by
  rw [Relation.identity_eq vs hne, Relation.den_tab]
  rcases idx_cases vs x with ⟨_, hx'⟩ | ⟨_, i, _, hx, _⟩
  · rw [hx']
  · rcases idx_cases vs y with ⟨_, hy'⟩ | ⟨_, j, _, hy, _⟩
    · rw [hx, hy']
    · rw [hx, hy]
      simp only
      rw [evalD_idCell, idS]
      simp only [idx_eq_iff hx hy]

theorem Relation.identity_den (vs : List String) (_hv : vs.Nodup) (hne : ∀ v ∈ vs, v ≠ "")
    (c : Choice) (x y : String) :
    (Relation.identity vs).den c x y = if x = y then .m else .o :=
  Relation.identity_den' vs hne c x y

/-! ## Homogenisation -/

/-- what `homogenisation` must deliver -/
structure HomogSpec (r1 r2 e1 e2 : Relation) : Prop where
  wf1 : e1.WF
  wf2 : e2.WF
  vars_eq : e2.vars = e1.vars
  mem : ∀ v, v ∈ e1.vars ↔ v ∈ r1.vars ∨ v ∈ r2.vars
  den1 : ∀ c x y, e1.den c x y = r1.den c x y
  den2 : ∀ c x y, e2.den c x y = r2.den c x y

theorem Relation.vars_nil_of_isEmpty {r : Relation} (h : r.WF) (he : r.isEmpty = true) :
    r.vars = [] := by
  unfold Relation.isEmpty at he
  simp only [Bool.or_eq_true, List.isEmpty_iff] at he
  rcases he with he | he
  · exact he
  · have := h.2.2.1
    rw [he] at this
    exact List.eq_nil_of_length_eq_zero this.symm

/-- the extended variable list of the general case -/
def Relation.extVars (r1 r2 : Relation) : List String :=
  r1.vars ++ r2.vars.filter (fun v => !r1.vars.contains v)

theorem Relation.mem_extVars (r1 r2 : Relation) (v : String) :
    v ∈ Relation.extVars r1 r2 ↔ v ∈ r1.vars ∨ v ∈ r2.vars := by
  unfold Relation.extVars
  simp only [List.mem_append, List.mem_filter, List.contains_eq_mem, Bool.not_eq_true',
    decide_eq_false_iff_not]
  constructor
  · rintro (h | h)
    · exact Or.inl h
    · exact Or.inr h.1
  · rintro (h | h)
    · exact Or.inl h
    · by_cases h' : v ∈ r1.vars
      · exact Or.inl h'
      · exact Or.inr ⟨h, h'⟩

theorem Relation.extVars_nodup (r1 r2 : Relation) (h1 : r1.vars.Nodup) (h2 : r2.vars.Nodup) :
    (Relation.extVars r1 r2).Nodup := by
  unfold Relation.extVars
  rw [List.nodup_append]
  refine ⟨h1, h2.sublist List.filter_sublist, ?_⟩
  intro a ha b hb hab
  subst hab
  simp only [List.mem_filter, List.contains_eq_mem, Bool.not_eq_true',
    decide_eq_false_iff_not] at hb
  exact hb.2 ha

theorem Relation.extVars_ne (r1 r2 : Relation) (h1 : ∀ v ∈ r1.vars, v ≠ "")
    (h2 : ∀ v ∈ r2.vars, v ≠ "") : ∀ v ∈ Relation.extVars r1 r2, v ≠ "" := by
  intro v hv
  rcases (Relation.mem_extVars r1 r2 v).1 hv with h | h
  · exact h1 v h
  · exact h2 v h

theorem Relation.extVars_length_le (r1 r2 : Relation) :
    r1.vars.length ≤ (Relation.extVars r1 r2).length := by
  unfold Relation.extVars; rw [List.length_append]; omega

/-- cell function of the resized first matrix -/
def Relation.ext1Cell (r1 r2 : Relation) (i j : Nat) : Poly :=
  if i < min (Relation.extVars r1 r2).length r1.mat.length
      && j < min (Relation.extVars r1 r2).length r1.mat.length
  then Matrix.get r1.mat i j else if i == j then Poly.unit else Poly.zero

/-- cell function of the re-indexed second matrix -/
def Relation.ext2Cell (r1 r2 : Relation) (mi mj : Nat) : Poly :=
  match r2.vars.idxOf? ((Relation.extVars r1 r2).getD mi ""),
        r2.vars.idxOf? ((Relation.extVars r1 r2).getD mj "") with
  | some ri, some rj => Matrix.get r2.mat ri rj
  | _, _ => if mi == mj then Poly.unit else Poly.zero

theorem Relation.homogenisation_general (r1 r2 : Relation) (hne : (r1.vars == r2.vars) = false)
    (he1 : r1.isEmpty = false) (he2 : r2.isEmpty = false) :
    Relation.homogenisation r1 r2 =
      (Relation.new (Relation.extVars r1 r2)
        (some (Matrix.tab (Relation.extVars r1 r2).length (Relation.ext1Cell r1 r2))),
       Relation.new (Relation.extVars r1 r2)
        (some (Matrix.tab (Relation.extVars r1 r2).length (Relation.ext2Cell r1 r2)))) := by
  unfold Relation.homogenisation
  rw [hne, he1, he2]
  rfl

theorem Relation.ext1Cell_wf (r1 r2 : Relation) (h1 : r1.WF) (i j : Nat) :
    (Relation.ext1Cell r1 r2 i j).WF = true := by
  unfold Relation.ext1Cell
  split
  · exact Matrix.get_wf _ h1.2.2.2.2 i j
  · exact WF_idCell i j

theorem Relation.ext2Cell_wf (r1 r2 : Relation) (h2 : r2.WF) (i j : Nat) :
    (Relation.ext2Cell r1 r2 i j).WF = true := by
  unfold Relation.ext2Cell
  split
  · exact Matrix.get_wf _ h2.2.2.2.2 _ _
  · exact WF_idCell i j

theorem Relation.ext1_den (r1 r2 : Relation) (h1 : r1.WF) (c : Choice) (x y : String) :
    Relation.den ⟨Relation.extVars r1 r2,
      Matrix.tab (Relation.extVars r1 r2).length (Relation.ext1Cell r1 r2)⟩ c x y
      = r1.den c x y := by
  rw [Relation.den_tab]
  have hle := Relation.extVars_length_le r1 r2
  have hbound : min (Relation.extVars r1 r2).length r1.mat.length = r1.vars.length := by
    rw [h1.2.2.1]; omega
  have hcell : ∀ i j, Relation.ext1Cell r1 r2 i j =
      if i < r1.vars.length && j < r1.vars.length then Matrix.get r1.mat i j
      else if i == j then Poly.unit else Poly.zero := by
    intro i j; unfold Relation.ext1Cell; rw [hbound]
  have happ : ∀ z, z ∈ r1.vars → (Relation.extVars r1 r2).idxOf? z = r1.vars.idxOf? z :=
    fun z hz => idx_append_of_mem _ hz
  have hge : ∀ z k, z ∉ r1.vars → (Relation.extVars r1 r2).idxOf? z = some k → r1.vars.length ≤ k :=
    fun z k hz hk => idx_append_ge hz hk
  rcases idx_cases r1.vars x with ⟨hx, _⟩ | ⟨hx, i, hi, hxi, _⟩
  · -- x is not a variable of r1
    rw [Relation.den_of_not_mem_left hx]
    rcases idx_cases (Relation.extVars r1 r2) x with ⟨_, hx'⟩ | ⟨_, i, _, hxi, _⟩
    · rw [hx']
    · have hi := hge x i hx hxi
      rcases idx_cases (Relation.extVars r1 r2) y with ⟨_, hy'⟩ | ⟨_, j, _, hyj, _⟩
      · rw [hxi, hy']
      · rw [hxi, hyj]
        simp only
        rw [hcell, if_neg (by simp; omega), evalD_idCell, idS]
        simp only [idx_eq_iff hxi hyj]
  · rw [happ x hx, hxi]
    rcases idx_cases r1.vars y with ⟨hy, _⟩ | ⟨hy, j, hj, hyj, _⟩
    · rw [Relation.den_of_not_mem_right hy]
      have hxy : x ≠ y := fun h => hy (h ▸ hx)
      rcases idx_cases (Relation.extVars r1 r2) y with ⟨_, hy'⟩ | ⟨_, j, _, hyj, _⟩
      · rw [hy']
      · have hj := hge y j hy hyj
        rw [hyj]
        simp only
        rw [hcell, if_neg (by simp; omega), evalD_idCell, idS_of_ne hxy, if_neg (by omega)]
    · rw [happ y hy, hyj, Relation.den_of_idx hxi hyj]
      simp only
      rw [hcell, if_pos (by simp; omega)]

theorem Relation.ext2_den (r1 r2 : Relation) (c : Choice) (x y : String) :
    Relation.den ⟨Relation.extVars r1 r2,
      Matrix.tab (Relation.extVars r1 r2).length (Relation.ext2Cell r1 r2)⟩ c x y
      = r2.den c x y := by
  rw [Relation.den_tab]
  have hsub : ∀ z, z ∉ Relation.extVars r1 r2 → z ∉ r2.vars :=
    fun z hz h => hz ((Relation.mem_extVars r1 r2 z).2 (Or.inr h))
  rcases idx_cases (Relation.extVars r1 r2) x with ⟨hx, hx'⟩ | ⟨_, i, _, hxi, _⟩
  · rw [hx', Relation.den_of_not_mem_left (hsub x hx)]
  · rcases idx_cases (Relation.extVars r1 r2) y with ⟨hy, hy'⟩ | ⟨_, j, _, hyj, _⟩
    · rw [hxi, hy', Relation.den_of_not_mem_right (hsub y hy)]
    · rw [hxi, hyj]
      simp only
      unfold Relation.ext2Cell
      rw [idx_getD hxi, idx_getD hyj]
      rcases idx_cases r2.vars x with ⟨hx, hx'⟩ | ⟨_, ri, _, hxr, _⟩
      · rw [hx', Relation.den_of_not_mem_left hx]
        simp only
        rw [evalD_idCell, idS]
        simp only [idx_eq_iff hxi hyj]
      · rcases idx_cases r2.vars y with ⟨hy, hy'⟩ | ⟨_, rj, _, hyr, _⟩
        · rw [hxr, hy', Relation.den_of_not_mem_right hy]
          simp only
          rw [evalD_idCell, idS]
          simp only [idx_eq_iff hxi hyj]
        · rw [hxr, hyr, Relation.den_of_idx hxr hyr]

theorem Relation.homogenisation_spec (r1 r2 : Relation) (h1 : r1.WF) (h2 : r2.WF) :
    HomogSpec r1 r2 (Relation.homogenisation r1 r2).1 (Relation.homogenisation r1 r2).2 := by
  by_cases hv : (r1.vars == r2.vars) = true
  · have heq : r1.vars = r2.vars := by simpa using hv
    have : Relation.homogenisation r1 r2 = (r1, r2) := by
      unfold Relation.homogenisation; rw [if_pos hv]
    rw [this]
    exact ⟨h1, h2, heq.symm, fun v => by rw [heq]; simp, fun _ _ _ => rfl, fun _ _ _ => rfl⟩
  · by_cases he1 : r1.isEmpty = true
    · have : Relation.homogenisation r1 r2 = (Relation.identity r2.vars, r2) := by
        unfold Relation.homogenisation; rw [if_neg hv, if_pos he1]
      rw [this]
      have hnil := Relation.vars_nil_of_isEmpty h1 he1
      refine ⟨Relation.identity_wf _ h2.1 h2.2.1, h2, (Relation.identity_vars _ h2.2.1).symm,
        fun v => ?_, fun c x y => ?_, fun _ _ _ => rfl⟩
      · simp only
        rw [Relation.identity_vars _ h2.2.1, hnil]; simp
      · simp only
        rw [Relation.identity_den' _ h2.2.1, Relation.den_nil_vars hnil]
    · by_cases he2 : r2.isEmpty = true
      · have : Relation.homogenisation r1 r2 = (r1, Relation.identity r1.vars) := by
          unfold Relation.homogenisation; rw [if_neg hv, if_neg he1, if_pos he2]
        rw [this]
        have hnil := Relation.vars_nil_of_isEmpty h2 he2
        refine ⟨h1, Relation.identity_wf _ h1.1 h1.2.1, Relation.identity_vars _ h1.2.1,
          fun v => ?_, fun _ _ _ => rfl, fun c x y => ?_⟩
        · simp only
          rw [hnil]; simp
        · simp only
          rw [Relation.identity_den' _ h1.2.1, Relation.den_nil_vars hnil]
      · rw [Relation.homogenisation_general r1 r2 (by simpa using hv) (by simpa using he1)
          (by simpa using he2)]
        have hnd := Relation.extVars_nodup r1 r2 h1.1 h2.1
        have hne := Relation.extVars_ne r1 r2 h1.2.1 h2.2.1
        simp only
        rw [Relation.new_some_eq _ _ hne (Matrix.tab_length _ _),
          Relation.new_some_eq _ _ hne (Matrix.tab_length _ _)]
        exact ⟨Relation.tab_wf _ hnd hne _ (Relation.ext1Cell_wf r1 r2 h1),
          Relation.tab_wf _ hnd hne _ (Relation.ext2Cell_wf r1 r2 h2), rfl,
          Relation.mem_extVars r1 r2, Relation.ext1_den r1 r2 h1, Relation.ext2_den r1 r2⟩

end Mwp
