/-
  (C05, conditions) If the syntax check reports full support, no controlling expression of the
  function changes a variable.  No side hypothesis.
-/
import Mwp.Lemmas.SyntaxThmsCov2
namespace Mwp
open Mwp Mwp.Syntax Mwp.Spec

theorem lcP_hasEffectO (init cond next : Option Node) (b : Node)
    (h : (lcP init cond next b).1 = true) : hasEffectO cond = false := by
  cases he : hasEffectO cond
  · rfl
  · rw [lcP_of_hasEffect init cond next b he] at h; cases h

mutual
theorem covN_effectfulConds : (n : Node) → ∀ c, covN n = .ok c → c.up = 0 → c.inner = 0 →
    effectfulConds n = []
  | .id _ | .const .. | .binop .. | .unop .. | .cast _ | .assign .. | .funcCall .. | .exprList _
  | .ternary .. | .arrayRef .. | .decl .. | .typeDecl | .declList _ | .ret _ | .brk | .cont
  | .empty | .goto _ | .paramList _ | .funcDecl _ | .other .. | .compound none => by
    intro _ _ _ _
    simp only [effectfulConds]
  | .switch .. => by
    intro c h hu _
    simp only [covN, pure_eq_ok, Except.ok.injEq] at h
    subst h; cases hu
  | .label _ e => by
    intro c h hu hi
    simp only [covN, bind_eq_ok, pure_eq_ok, Except.ok.injEq] at h
    obtain ⟨a, ha, rfl⟩ := h
    simp only [effectfulConds]
    exact covN_effectfulConds e a ha hu hi
  | .case_ _ l | .default_ l | .compound (some l) => by
    intro c h _ hi
    simp only [covN, bind_eq_ok, pure_eq_ok, Except.ok.injEq] at h
    obtain ⟨a, ha, rfl⟩ := h
    simp only [effectfulConds]
    exact covList_effectfulConds l a.1 a.2 ha hi
  | .while_ cnd b | .doWhile cnd b => by
    intro c h hu hi
    simp only [covN] at h
    split at h
    · simp only [pure_eq_ok, Except.ok.injEq] at h; subst h; cases hu
    rename_i hc
    simp only [bind_eq_ok, pure_eq_ok, Except.ok.injEq] at h
    obtain ⟨a, ha, rfl⟩ := h
    simp only [effectfulConds, ← hasEffect_eq_changesVariable, hc, Bool.false_eq_true, if_false,
      List.nil_append]
    exact covBody_effectfulConds b a.1 a.2 ha hi
  | .for_ init cond next b => by
    intro c h hu hi
    rw [covN_for] at h
    split at h
    · rename_i hl
      simp only [bind_eq_ok, Except.ok.injEq] at h
      obtain ⟨a, ha, rfl⟩ := h
      simp only [effectfulConds, ← hasEffectO_eq_changesVariableO,
        lcP_hasEffectO init cond next b hl, Bool.false_eq_true, if_false, List.nil_append]
      exact covBody_effectfulConds b a.1 a.2 ha hi
    · cases h; cases hu
  | .ifs cnd t f => by
    intro c h hu hi
    simp only [covN] at h
    split at h
    · simp only [pure_eq_ok, Except.ok.injEq] at h; subst h; cases hu
    rename_i hc
    simp only [bind_eq_ok, pure_eq_ok, Except.ok.injEq] at h
    obtain ⟨a, ha, b, hb, rfl⟩ := h
    have hi : a.1 + b.1 = 0 := hi
    simp only [effectfulConds, ← hasEffect_eq_changesVariable, hc, Bool.false_eq_true, if_false,
      covSlot_effectfulConds t a.1 a.2 ha (by omega),
      covSlot_effectfulConds f b.1 b.2 hb (by omega), List.append_nil]
  | .funcDef d b => by
    intro c h _ hi
    have key : ∃ cb, covN b = .ok cb ∧ cb.up = 0 ∧ cb.inner = 0 := by
      by_cases hd : ∃ nm a i, d = .decl nm (.funcDecl (some a)) i
      · obtain ⟨nm, a, i, rfl⟩ := hd
        rw [covN_funcDef_some] at h
        obtain ⟨ca, cb, _, _, hb, hub, rfl⟩ := h
        have hi : ca.inner + cb.inner = 0 := hi
        exact ⟨cb, hb, hub, by omega⟩
      · rw [covN_funcDef_other _ _ _ (fun nm a i h => hd ⟨nm, a, i, h⟩)] at h
        obtain ⟨cb, hb, hub, rfl⟩ := h
        exact ⟨cb, hb, hub, hi⟩
    obtain ⟨cb, hb, hub, hib⟩ := key
    simp only [effectfulConds]
    exact covN_effectfulConds b cb hb hub hib
termination_by n => (sizeOf n, 0)
theorem covList_effectfulConds : (l : List Node) → ∀ k l', covList l = .ok (k, l') → k = 0 →
    effectfulCondsL l = []
  | [] => by
    intro _ _ _ _
    simp only [effectfulCondsL]
  | n :: ns => by
    intro k l' h hk
    simp only [covList, bind_eq_ok, pure_eq_ok, Except.ok.injEq] at h
    obtain ⟨c, hc, r, hr, h⟩ := h
    split at h
    · cases h; omega
    · cases h
      have hk : c.inner + r.1 = 0 := hk
      simp only [effectfulCondsL, covN_effectfulConds n c hc (by omega) (by omega),
        covList_effectfulConds ns r.1 r.2 hr (by omega), List.append_nil]
termination_by l => (sizeOf l, 0)
theorem covSlot_effectfulConds : (o : Option Node) → ∀ k o', covSlot o = .ok (k, o') → k = 0 →
    effectfulCondsO o = []
  | none => by
    intro _ _ _ _
    simp only [effectfulCondsO]
  | some n => by
    intro k l' h hk
    simp only [covSlot, bind_eq_ok, pure_eq_ok, Except.ok.injEq] at h
    obtain ⟨c, hc, h⟩ := h
    split at h
    · cases h; omega
    · cases h
      simp only [effectfulCondsO]
      exact covN_effectfulConds n c hc (by omega) hk
termination_by o => (sizeOf o, 0)
theorem covBody_effectfulConds (b : Node) : ∀ k b', covBody b = .ok (k, b') → k = 0 →
    effectfulConds b = [] := by
  intro k b' h hk
  cases hc : b.isCompound
  · rw [covBody_nc b hc] at h
    simp only [bind_eq_ok, Except.ok.injEq] at h
    obtain ⟨c, hcv, h⟩ := h
    split at h
    · cases h; omega
    · cases h
      exact covN_effectfulConds b c hcv (by omega) hk
  · obtain ⟨items, rfl⟩ := isCompound_elim hc
    cases items with
    | none => simp only [effectfulConds]
    | some l =>
      simp only [covBody, bind_eq_ok, pure_eq_ok, Except.ok.injEq] at h
      obtain ⟨a, ha, h⟩ := h
      cases h
      simp only [effectfulConds]
      exact covList_effectfulConds l a.1 a.2 ha hk
termination_by (sizeOf b, 1)
end

/-- (C05) If the syntax check reports full support, no controlling expression (if / while /
    do-while / for condition, switch) of the function changes a variable. -/
theorem full_implies_effect_free_conditions (f m : Node) (_hf : f.isFunc = true)
    (h : coverage f = .ok (0, m)) : Spec.effectfulConds f = [] := by
  obtain ⟨c, hc, hu, hi, _⟩ := coverage_inv f m 0 h
  exact covN_effectfulConds f c hc hu hi

end Mwp
