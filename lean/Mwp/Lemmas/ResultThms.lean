/-
  Proofs for C14: loading a document written by `to_dict` restores the object, for every
  result class (`fromDict_toDict`), by induction on the nesting fuel with a one-level lemma.
-/
import Mwp.Lemmas.ResultThmsDefs
import Mwp.Lemmas.Bound
import Mwp.Lemmas.Poly
namespace Mwp.Result
open Mwp

/-! ## Association lists -/

section Assoc
variable {α : Type}

def keys (l : List (String × α)) : List String := l.map (·.1)

@[simp] theorem keys_nil : keys ([] : List (String × α)) = [] := rfl
@[simp] theorem keys_cons (kv : String × α) (l : List (String × α)) : keys (kv :: l) = kv.1 :: keys l := rfl

theorem lookup_eq_none {k : String} {l : List (String × α)} (h : k ∉ keys l) : lookup k l = none := by
  induction l with
  | nil => rfl
  | cons kv t ih =>
    obtain ⟨k', v⟩ := kv
    simp only [keys_cons, List.mem_cons, not_or] at h
    simp [lookup, h.1, ih h.2]

theorem lookup_isSome {k : String} {l : List (String × α)} (h : k ∈ keys l) : (lookup k l).isSome = true := by
  induction l with
  | nil => simp at h
  | cons kv t ih =>
    obtain ⟨k', v⟩ := kv
    simp only [lookup]
    split
    · rfl
    · rename_i hne
      simp only [keys_cons, List.mem_cons] at h
      rcases h with h | h
      · exact absurd h hne
      · exact ih h

theorem mem_keys_of_lookup {k : String} {l : List (String × α)} {v : α} (h : lookup k l = some v) :
    k ∈ keys l := by
  by_cases hk : k ∈ keys l
  · exact hk
  · rw [lookup_eq_none hk] at h; cases h

theorem lookup_setKey (k k' : String) (v : α) (l : List (String × α)) :
    lookup k (setKey k' v l) = if k = k' then some v else lookup k l := by
  induction l with
  | nil => simp [setKey, lookup]
  | cons kv t ih =>
    obtain ⟨k2, v2⟩ := kv
    simp only [setKey]
    by_cases h2 : k' = k2
    · subst h2
      simp only [if_true, lookup]
      split <;> rfl
    · simp only [h2, if_false, lookup, ih]
      by_cases h3 : k = k2
      · subst h3
        have : ¬ k = k' := fun e => h2 e.symm
        simp [this]
      · simp [h3]

theorem lookup_merge_map (k : String) (a : List (String × α)) (K : List String) (f : String → α) :
    lookup k (merge a (K.map fun x => (x, f x))) = if k ∈ K then some (f k) else lookup k a := by
  induction K generalizing a with
  | nil => simp [merge]
  | cons x rest ih =>
    have : merge a ((x :: rest).map fun x => (x, f x)) = merge (setKey x (f x) a) (rest.map fun x => (x, f x)) := rfl
    rw [this, ih, lookup_setKey]
    by_cases h1 : k ∈ rest
    · simp [h1]
    · by_cases h2 : k = x
      · subst h2; simp
      · simp [h1, h2]

theorem lookup_dictOf_map (k : String) (K : List String) (f : String → α) :
    lookup k (dictOf (K.map fun x => (x, f x))) = if k ∈ K then some (f k) else none := by
  unfold dictOf; rw [lookup_merge_map]; rfl

theorem lookup_eraseKey (k n : String) (l : List (String × α)) :
    lookup k (eraseKey n l) = if k = n then none else lookup k l := by
  induction l with
  | nil => simp [eraseKey, lookup]
  | cons kv t ih =>
    obtain ⟨k2, v2⟩ := kv
    simp only [eraseKey]
    by_cases h2 : n = k2
    · subst h2
      simp only [if_true, ih, lookup]
      by_cases h : k = n <;> simp [h]
    · simp only [h2, if_false, lookup, ih]
      by_cases h : k = n
      · subst h; simp [h2]
      · simp [h]

theorem keys_upd (k : String) (v : α) (l : List (String × α)) : keys (upd k v l) = keys l := by
  induction l with
  | nil => rfl
  | cons kv t ih =>
    obtain ⟨k2, v2⟩ := kv
    simp only [upd]
    split
    · rfl
    · simp [ih]

theorem lookup_upd (k k' : String) (v : α) (l : List (String × α)) :
    lookup k (upd k' v l) = if k = k' ∧ k' ∈ keys l then some v else lookup k l := by
  induction l with
  | nil => simp [upd, lookup]
  | cons kv t ih =>
    obtain ⟨k2, v2⟩ := kv
    simp only [upd]
    by_cases h2 : k' = k2
    · subst h2
      simp only [if_true, lookup, keys_cons, List.mem_cons, true_or, and_true]
      split <;> rfl
    · simp only [h2, if_false, lookup, ih, keys_cons, List.mem_cons, false_or]
      by_cases h3 : k = k2
      · subst h3
        have : ¬ k = k' := fun e => h2 e.symm
        simp [this]
      · simp [h3]

/-- two association lists with the same distinct keys in the same order and the same values -/
theorem assoc_ext {l1 l2 : List (String × α)} (hk : keys l1 = keys l2) (hn : (keys l1).Nodup)
    (hv : ∀ k ∈ keys l1, lookup k l1 = lookup k l2) : l1 = l2 := by
  induction l1 generalizing l2 with
  | nil =>
    cases l2 with
    | nil => rfl
    | cons _ _ => simp at hk
  | cons kv t ih =>
    obtain ⟨k, v⟩ := kv
    cases l2 with
    | nil => simp at hk
    | cons kv2 t2 =>
      obtain ⟨k2, v2⟩ := kv2
      simp only [keys_cons, List.cons.injEq] at hk
      obtain ⟨rfl, hk⟩ := hk
      simp only [keys_cons, List.nodup_cons] at hn
      have h0 := hv k (by simp)
      simp only [lookup, if_true, Option.some.injEq] at h0
      subst h0
      congr 1
      apply ih hk hn.2
      intro k' hk'
      have hne : k' ≠ k := fun e => hn.1 (e ▸ hk')
      have := hv k' (by simp [hk'])
      simpa [lookup, hne] using this

theorem map_lookup_self (l : List (String × α)) (d : α) (hn : (keys l).Nodup) :
    (keys l).map (fun a => (a, (lookup a l).getD d)) = l := by
  induction l with
  | nil => rfl
  | cons kv t ih =>
    obtain ⟨k, v⟩ := kv
    simp only [keys_cons, List.nodup_cons] at hn
    simp only [keys_cons, List.map_cons, lookup, if_true, Option.getD_some]
    congr 1
    have ih' := ih hn.2
    conv => rhs; rw [← ih']
    apply List.map_congr_left
    intro a ha
    have hne : a ≠ k := fun e => hn.1 (e ▸ ha)
    simp [hne]

theorem setKey_not_mem {k : String} (v : α) {l : List (String × α)} (h : k ∉ keys l) :
    setKey k v l = l ++ [(k, v)] := by
  induction l with
  | nil => rfl
  | cons kv t ih =>
    obtain ⟨k2, v2⟩ := kv
    simp only [keys_cons, List.mem_cons, not_or] at h
    simp [setKey, h.1, ih h.2]

theorem merge_nodup (a l : List (String × α)) (hn : (keys l).Nodup) (hd : ∀ k ∈ keys l, k ∉ keys a) :
    merge a l = a ++ l := by
  induction l generalizing a with
  | nil => simp [merge]
  | cons kv t ih =>
    obtain ⟨k, v⟩ := kv
    simp only [keys_cons, List.nodup_cons] at hn
    have : merge a ((k, v) :: t) = merge (setKey k v a) t := rfl
    rw [this, setKey_not_mem v (hd k (by simp)), ih _ hn.2]
    · simp
    · intro k' hk'
      simp only [keys, List.map_append, List.map_cons, List.map_nil, List.mem_append, List.mem_singleton, not_or]
      refine ⟨hd k' (by simp [hk']), fun e => hn.1 (e ▸ hk')⟩

theorem dictOf_nodup (l : List (String × α)) (hn : (keys l).Nodup) : dictOf l = l := by
  unfold dictOf; rw [merge_nodup [] l hn (by simp)]; rfl

theorem keys_setKey (k : String) (v : α) (l : List (String × α)) :
    keys (setKey k v l) = if k ∈ keys l then keys l else keys l ++ [k] := by
  induction l with
  | nil => simp [setKey]
  | cons kv t ih =>
    obtain ⟨k2, v2⟩ := kv
    simp only [setKey]
    by_cases h2 : k = k2
    · subst h2; simp
    · simp only [h2, if_false, keys_cons, ih, List.mem_cons, false_or]
      split <;> simp

theorem nodup_keys_merge (a b : List (String × α)) (h : (keys a).Nodup) : (keys (merge a b)).Nodup := by
  induction b generalizing a with
  | nil => simpa [merge] using h
  | cons kv t ih =>
    have : merge a (kv :: t) = merge (setKey kv.1 kv.2 a) t := rfl
    rw [this]
    apply ih
    rw [keys_setKey]
    split
    · exact h
    · rename_i hk
      rw [List.nodup_append]
      refine ⟨h, by simp, ?_⟩
      intro x hx y hy
      simp only [List.mem_singleton] at hy
      subst hy
      exact fun e => hk (e ▸ hx)

theorem nodup_keys_dictOf (l : List (String × α)) : (keys (dictOf l)).Nodup :=
  nodup_keys_merge [] l (by simp)

theorem lookup_merge (k : String) (a b : List (String × α)) :
    lookup k (merge a b) = (lookup k (dictOf b)).or (lookup k a) := by
  induction b generalizing a with
  | nil => simp [merge, dictOf, lookup]
  | cons kv t ih =>
    obtain ⟨x, v⟩ := kv
    have h1 : merge a ((x, v) :: t) = merge (setKey x v a) t := rfl
    have h2 : dictOf ((x, v) :: t) = merge [(x, v)] t := rfl
    rw [h1, h2, ih, ih [(x, v)], lookup_setKey]
    cases lookup k (dictOf t) with
    | some w => simp
    | none =>
      by_cases h : k = x
      · simp [lookup, h]
      · simp [lookup, h]

theorem lookup_merge_dictOf_map (k : String) (a : List (String × α)) (K : List String) (f : String → α) :
    lookup k (merge a (dictOf (K.map fun x => (x, f x)))) = if k ∈ K then some (f k) else lookup k a := by
  rw [lookup_merge, dictOf_nodup _ (nodup_keys_dictOf _), lookup_dictOf_map]
  split <;> simp

end Assoc

/-! ## The document written by `toDict1`, key by key -/

/-- JSON of a `_ser_attrs` attribute -/
def serJ (sub : Cls → Obj → JVal) (cls : Cls) (o : Obj) (k : String) : JVal :=
  match o.getSer k with
  | some x => sub (cls.elem k) x
  | none => .null

def listJ (sub : Cls → Obj → JVal) (cls : Cls) (o : Obj) (k : String) : JVal :=
  .arr ((o.getList k).map (sub (cls.elem k)))

def dictJ (sub : Cls → Obj → JVal) (cls : Cls) (o : Obj) (n : String) : JVal :=
  .obj ((o.getDict n).map fun kv => (kv.1, sub (cls.elem n) kv.2))

def docKvs (sub : Cls → Obj → JVal) (cls : Cls) (o : Obj) : List (String × JVal) :=
  cls.partKeys.foldl (fun r p =>
    match lookup p o.parts with
    | some v => setKey p v r
    | none => r)
    (merge (merge (merge (dictOf (cls.attrNames.map fun k => (k, o.getAttr k)))
      (dictOf (cls.serAttrs.map fun k => (k, serJ sub cls o k))))
      (dictOf ((cls.serList.filter fun k => !(o.getList k).isEmpty).map fun k => (k, listJ sub cls o k))))
      (dictOf ((cls.dictNames.filter fun n => !(o.getDict n).isEmpty).map fun n => (n, dictJ sub cls o n))))

theorem toDict1_eq (sub : Cls → Obj → JVal) (cls : Cls) (o : Obj) :
    toDict1 sub cls o = .obj (docKvs sub cls o) := rfl

theorem lookup_parts_fold (k : String) (P : List String) (parts base : List (String × JVal)) :
    lookup k (P.foldl (fun r p =>
      match lookup p parts with
      | some v => setKey p v r
      | none => r) base)
    = if k ∈ P ∧ (lookup k parts).isSome then lookup k parts else lookup k base := by
  induction P generalizing base with
  | nil => simp
  | cons p rest ih =>
    rw [List.foldl_cons, ih]
    by_cases h1 : k ∈ rest ∧ (lookup k parts).isSome = true
    · have : k ∈ p :: rest ∧ (lookup k parts).isSome = true := ⟨by simp [h1.1], h1.2⟩
      simp [h1, this]
    · rw [if_neg h1]
      by_cases h2 : k = p
      · subst h2
        cases hp : lookup k parts with
        | none => simp
        | some v => simp [lookup_setKey]
      · have h3 : ¬ (k ∈ p :: rest ∧ (lookup k parts).isSome = true) := by
          intro h
          rcases List.mem_cons.1 h.1 with e | e
          · exact h2 e
          · exact h1 ⟨e, h.2⟩
        rw [if_neg h3]
        cases hp : lookup p parts with
        | none => rfl
        | some v => simp [lookup_setKey, h2]

theorem lookup_docKvs (sub : Cls → Obj → JVal) (cls : Cls) (o : Obj) (k : String) :
    lookup k (docKvs sub cls o) =
      if k ∈ cls.partKeys ∧ (lookup k o.parts).isSome then lookup k o.parts
      else if k ∈ (cls.dictNames.filter fun n => !(o.getDict n).isEmpty) then some (dictJ sub cls o k)
      else if k ∈ (cls.serList.filter fun k => !(o.getList k).isEmpty) then some (listJ sub cls o k)
      else if k ∈ cls.serAttrs then some (serJ sub cls o k)
      else if k ∈ cls.attrNames then some (o.getAttr k)
      else none := by
  unfold docKvs
  rw [lookup_parts_fold]
  rw [lookup_merge_dictOf_map k _ _ (dictJ sub cls o), lookup_merge_dictOf_map k _ _ (listJ sub cls o),
    lookup_merge_dictOf_map k _ _ (serJ sub cls o), lookup_dictOf_map k _ (o.getAttr)]

/-! ## Facts about the generated tables -/

theorem tablesOK_all (c : Cls) : c.tablesOK = true := by cases c <;> decide

theorem nd_attrs (c : Cls) : c.attrNames.Nodup := by cases c <;> decide
theorem nd_sers (c : Cls) : c.serAttrs.Nodup := by cases c <;> decide
theorem nd_lists (c : Cls) : c.serList.Nodup := by cases c <;> decide
theorem nd_dicts (c : Cls) : c.dictNames.Nodup := by cases c <;> decide
theorem nd_parts (c : Cls) : c.partKeys.Nodup := by cases c <;> decide
theorem dj_a_s (c : Cls) : ∀ k ∈ c.attrNames, k ∉ c.serAttrs := by cases c <;> decide
theorem dj_a_l (c : Cls) : ∀ k ∈ c.attrNames, k ∉ c.serList := by cases c <;> decide
theorem dj_a_d (c : Cls) : ∀ k ∈ c.attrNames, k ∉ c.dictNames := by cases c <;> decide
theorem dj_a_p (c : Cls) : ∀ k ∈ c.attrNames, k ∉ c.partKeys := by cases c <;> decide
theorem dj_s_l (c : Cls) : ∀ k ∈ c.serAttrs, k ∉ c.serList := by cases c <;> decide
theorem dj_s_d (c : Cls) : ∀ k ∈ c.serAttrs, k ∉ c.dictNames := by cases c <;> decide
theorem dj_s_p (c : Cls) : ∀ k ∈ c.serAttrs, k ∉ c.partKeys := by cases c <;> decide
theorem dj_l_d (c : Cls) : ∀ k ∈ c.serList, k ∉ c.dictNames := by cases c <;> decide
theorem dj_l_p (c : Cls) : ∀ k ∈ c.serList, k ∉ c.partKeys := by cases c <;> decide
theorem dj_d_p (c : Cls) : ∀ k ∈ c.dictNames, k ∉ c.partKeys := by cases c <;> decide
theorem ser_elem_attrs (c : Cls) : ∀ a ∈ c.serAttrs, (c.elem a).attrs ≠ [] := by cases c <;> decide
theorem fr_name_mem : "name" ∈ Cls.funcResult.attrNames := by decide

/-- `FuncResult.from_dict` takes `name` out of the keyword dictionary -/
def IsName (cls : Cls) (k : String) : Prop := cls = .funcResult ∧ k = "name"

theorem not_isName_of_not_attr {cls : Cls} {k : String} (h : k ∉ cls.attrNames) : ¬ IsName cls k := by
  rintro ⟨rfl, rfl⟩
  exact h fr_name_mem

/-! ## Reading the written document back, key by key -/

theorem isNull_iff (v : JVal) : isNull v = true ↔ v = .null := by
  cases v <;> simp [isNull]

theorem tryGet_one (kw : List (String × JVal)) (k : String) :
    tryGet (.obj kw) [k] = (lookup k kw).getD .null := by
  cases kw with
  | nil => simp [tryGet, getItem, truthy, lookup]
  | cons a t => simp [tryGet, getItem, truthy]

theorem lookup_kw (cls : Cls) (kvs : List (String × JVal)) (k : String) [Decidable (IsName cls k)] :
    lookup k (ctorAndKwargs cls kvs).2 = if IsName cls k then none else lookup k kvs := by
  unfold IsName
  cases cls <;> simp [ctorAndKwargs, lookup_eraseKey]

section Read
variable (sub : Cls → Obj → JVal) (cls : Cls) (o : Obj)

/-- the value `_try_get(k)` finds in the keyword dictionary built from the written document -/
def getDoc (k : String) : JVal := tryGet (.obj (ctorAndKwargs cls (docKvs sub cls o)).2) [k]

theorem getDoc_eq (k : String) (h : ¬ IsName cls k) :
    getDoc sub cls o k = (lookup k (docKvs sub cls o)).getD .null := by
  have : Decidable (IsName cls k) := .isFalse h
  rw [getDoc, tryGet_one, lookup_kw, if_neg h]

theorem getDoc_name (k : String) (h : IsName cls k) : getDoc sub cls o k = .null := by
  have : Decidable (IsName cls k) := .isTrue h
  rw [getDoc, tryGet_one, lookup_kw, if_pos h]; rfl

theorem lookup_doc_attr {k : String} (hk : k ∈ cls.attrNames) :
    lookup k (docKvs sub cls o) = some (o.getAttr k) := by
  rw [lookup_docKvs]
  simp [List.mem_filter, hk, dj_a_s cls k hk, dj_a_l cls k hk, dj_a_d cls k hk, dj_a_p cls k hk]

theorem getDoc_ser {k : String} (hk : k ∈ cls.serAttrs) : getDoc sub cls o k = serJ sub cls o k := by
  have ha : k ∉ cls.attrNames := fun h => dj_a_s cls k h hk
  rw [getDoc_eq _ _ _ _ (not_isName_of_not_attr ha), lookup_docKvs]
  simp [List.mem_filter, hk, dj_s_l cls k hk, dj_s_d cls k hk, dj_s_p cls k hk]

theorem getDoc_list {k : String} (hk : k ∈ cls.serList) :
    getDoc sub cls o k = if (o.getList k).isEmpty then .null else listJ sub cls o k := by
  have ha : k ∉ cls.attrNames := fun h => dj_a_l cls k h hk
  have hs : k ∉ cls.serAttrs := fun h => dj_s_l cls k h hk
  rw [getDoc_eq _ _ _ _ (not_isName_of_not_attr ha), lookup_docKvs]
  by_cases he : (o.getList k).isEmpty = true
  · simp [List.mem_filter, hk, ha, hs, dj_l_d cls k hk, dj_l_p cls k hk, he]
  · simp [List.mem_filter, hk, dj_l_d cls k hk, dj_l_p cls k hk, he]

theorem getDoc_dict {k : String} (hk : k ∈ cls.dictNames) :
    getDoc sub cls o k = if (o.getDict k).isEmpty then .null else dictJ sub cls o k := by
  have ha : k ∉ cls.attrNames := fun h => dj_a_d cls k h hk
  have hs : k ∉ cls.serAttrs := fun h => dj_s_d cls k h hk
  have hl : k ∉ cls.serList := fun h => dj_l_d cls k h hk
  rw [getDoc_eq _ _ _ _ (not_isName_of_not_attr ha), lookup_docKvs]
  by_cases he : (o.getDict k).isEmpty = true
  · simp [List.mem_filter, hk, ha, hs, hl, dj_d_p cls k hk, he]
  · simp [List.mem_filter, hk, dj_d_p cls k hk, he]

theorem getDoc_part {k : String} (hk : k ∈ cls.partKeys) :
    getDoc sub cls o k = (lookup k o.parts).getD .null := by
  have ha : k ∉ cls.attrNames := fun h => dj_a_p cls k h hk
  have hs : k ∉ cls.serAttrs := fun h => dj_s_p cls k h hk
  have hl : k ∉ cls.serList := fun h => dj_l_p cls k h hk
  have hd : k ∉ cls.dictNames := fun h => dj_d_p cls k h hk
  rw [getDoc_eq _ _ _ _ (not_isName_of_not_attr ha), lookup_docKvs]
  cases hp : lookup k o.parts with
  | some v => simp [hk]
  | none => simp [List.mem_filter, ha, hs, hl, hd]

end Read

/-! ## Simple attributes -/

theorem keys_fold_upd (test : JVal → Bool) (g : String → JVal) (K : List String)
    (S : List (String × JVal)) :
    keys (K.foldl (fun st x => if test (g x) then upd x (g x) st else st) S) = keys S := by
  induction K generalizing S with
  | nil => rfl
  | cons x rest ih =>
    rw [List.foldl_cons, ih]
    split
    · exact keys_upd _ _ _
    · rfl

theorem lookup_fold_upd (test : JVal → Bool) (g : String → JVal) (K : List String)
    (S : List (String × JVal)) (k : String) :
    lookup k (K.foldl (fun st x => if test (g x) then upd x (g x) st else st) S)
      = if k ∈ K ∧ test (g k) = true ∧ k ∈ keys S then some (g k) else lookup k S := by
  induction K generalizing S with
  | nil => simp
  | cons x rest ih =>
    rw [List.foldl_cons, ih]
    have hk : keys (if test (g x) = true then upd x (g x) S else S) = keys S := by
      split
      · exact keys_upd _ _ _
      · rfl
    rw [hk]
    by_cases h1 : k ∈ rest ∧ test (g k) = true ∧ k ∈ keys S
    · have : k ∈ x :: rest ∧ test (g k) = true ∧ k ∈ keys S := ⟨by simp [h1.1], h1.2⟩
      rw [if_pos h1, if_pos this]
    · rw [if_neg h1]
      by_cases h2 : k = x
      · subst h2
        by_cases h3 : test (g k) = true
        · rw [if_pos h3, lookup_upd]
          by_cases h4 : k ∈ keys S
          · simp [h3, h4]
          · simp [h4]
        · simp [h3]
      · have h5 : ¬ (k ∈ x :: rest ∧ test (g k) = true ∧ k ∈ keys S) := by
          intro h
          rcases List.mem_cons.1 h.1 with e | e
          · exact h2 e
          · exact h1 ⟨e, h.2⟩
        rw [if_neg h5]
        split
        · rw [lookup_upd]; simp [h2]
        · rfl

theorem attrsOK_keys {T A : List (String × JVal)} (h : attrsOK T A = true) : keys A = keys T := by
  induction T generalizing A with
  | nil =>
    cases A with
    | nil => rfl
    | cons _ _ => simp [attrsOK] at h
  | cons kd t ih =>
    obtain ⟨k, d⟩ := kd
    cases A with
    | nil => simp [attrsOK] at h
    | cons kv a =>
      obtain ⟨k', v⟩ := kv
      simp only [attrsOK, Bool.and_eq_true, decide_eq_true_eq] at h
      simp [h.1.1, ih h.2]

theorem attrsOK_lookup {T A : List (String × JVal)} (h : attrsOK T A = true) {k : String}
    (hk : k ∈ keys T) :
    ∃ d v, lookup k T = some d ∧ lookup k A = some v ∧ (v = .null → d = .null) := by
  induction T generalizing A with
  | nil => simp at hk
  | cons kd t ih =>
    obtain ⟨k0, d⟩ := kd
    cases A with
    | nil => simp [attrsOK] at h
    | cons kv a =>
      obtain ⟨k', v⟩ := kv
      simp only [attrsOK, Bool.and_eq_true, decide_eq_true_eq, Bool.or_eq_true,
        Bool.not_eq_true'] at h
      obtain ⟨⟨rfl, hv⟩, ht⟩ := h
      by_cases e : k = k0
      · subst e
        refine ⟨d, v, by simp [lookup], by simp [lookup], ?_⟩
        intro hv0
        subst hv0
        rcases hv with hv | hv
        · simp [isNull] at hv
        · exact (isNull_iff d).1 hv
      · have hk' : k ∈ keys t := by
          simp only [keys_cons, List.mem_cons] at hk
          exact hk.resolve_left e
        obtain ⟨d', v', h1, h2, h3⟩ := ih ht hk'
        exact ⟨d', v', by simp [lookup, e, h1], by simp [lookup, e, h2], h3⟩

theorem setAttr_eq_upd {cls : Cls} (h : cls ≠ .vResult) (st : List (String × JVal)) (k : String)
    (v : JVal) : setAttr cls st k v = upd k v st := by
  cases cls <;> first | rfl | exact absurd rfl h

theorem keys_attrs (cls : Cls) : keys cls.attrs = cls.attrNames := rfl

theorem keys_init (cls : Cls) (kvs : List (String × JVal)) :
    keys (ctorAndKwargs cls kvs).1 = cls.attrNames := by
  cases cls <;> simp [ctorAndKwargs, keys_upd, keys_attrs]

theorem lookup_init (cls : Cls) (kvs : List (String × JVal)) (k : String) (h : ¬ IsName cls k) :
    lookup k (ctorAndKwargs cls kvs).1 = lookup k cls.attrs := by
  cases cls <;> try rfl
  simp only [ctorAndKwargs, lookup_upd]
  have : k ≠ "name" := fun e => h ⟨rfl, e⟩
  simp [this]

theorem lookup_init_name (kvs : List (String × JVal)) :
    lookup "name" (ctorAndKwargs .funcResult kvs).1 = some ((lookup "name" kvs).getD .null) := by
  simp only [ctorAndKwargs, lookup_upd]
  have : "name" ∈ keys Cls.funcResult.attrs := fr_name_mem
  simp [this]

/-- loading the simple attributes of every class without property setters -/
theorem loadAttrs_doc (sub : Cls → Obj → JVal) (cls : Cls) (o : Obj) (hc : cls ≠ .vResult)
    (hA : attrsOK cls.attrs o.attrs = true) :
    loadAttrs notNone cls (ctorAndKwargs cls (docKvs sub cls o)).1
      (ctorAndKwargs cls (docKvs sub cls o)).2 = o.attrs := by
  have hfold : loadAttrs notNone cls (ctorAndKwargs cls (docKvs sub cls o)).1
      (ctorAndKwargs cls (docKvs sub cls o)).2
      = cls.attrNames.foldl (fun st x => if notNone (getDoc sub cls o x) then upd x (getDoc sub cls o x) st else st)
          (ctorAndKwargs cls (docKvs sub cls o)).1 := by
    unfold loadAttrs getDoc
    congr
    funext st k
    simp only [setAttr_eq_upd hc]
  rw [hfold]
  have hkA := attrsOK_keys hA
  apply assoc_ext
  · rw [keys_fold_upd, keys_init, hkA, keys_attrs]
  · rw [keys_fold_upd, keys_init]; exact nd_attrs cls
  · intro k hk
    rw [keys_fold_upd, keys_init] at hk
    rw [lookup_fold_upd, keys_init]
    obtain ⟨d, v, hT, hAv, hnull⟩ := attrsOK_lookup hA (k := k) (by rw [keys_attrs]; exact hk)
    have hget : o.getAttr k = v := by simp [Obj.getAttr, hAv]
    by_cases hn : IsName cls k
    · rw [getDoc_name _ _ _ _ hn]
      obtain ⟨rfl, rfl⟩ := hn
      simp only [notNone, isNull, Bool.not_true, Bool.false_eq_true, false_and, and_false, if_false]
      rw [lookup_init_name, lookup_doc_attr _ _ _ hk, hAv, hget]
      rfl
    · rw [getDoc_eq _ _ _ _ hn, lookup_doc_attr _ _ _ hk, lookup_init _ _ _ hn, hT, hAv, hget]
      simp only [Option.getD_some, hk, true_and, and_true]
      by_cases hv : v = .null
      · subst hv
        simp [notNone, isNull, hnull rfl]
      · have : notNone v = true := by
          cases v <;> simp_all [notNone, isNull]
        simp [this]

/-- loading the simple attributes of a `VResult` (through the property setters) -/
theorem loadAttrs_doc_v (sub : Cls → Obj → JVal) (o : Obj)
    (hA : attrsOK Cls.vResult.attrs o.attrs = true) (hF : flagsOK .vResult o = true) :
    loadAttrs notNone .vResult (ctorAndKwargs .vResult (docKvs sub .vResult o)).1
      (ctorAndKwargs .vResult (docKvs sub .vResult o)).2 = o.attrs := by
  have hg : ∀ k ∈ Cls.vResult.attrNames, getDoc sub .vResult o k = o.getAttr k := by
    intro k hk
    have hn : ¬ IsName .vResult k := fun h => by cases h.1
    rw [getDoc_eq _ _ _ _ hn, lookup_doc_attr _ _ _ hk]; rfl
  have g0 := hg "name" (by decide)
  have g1 := hg "is_m" (by decide)
  have g2 := hg "is_w" (by decide)
  have g3 := hg "is_p" (by decide)
  show Cls.vResult.attrNames.foldl (fun st k =>
      if notNone (getDoc sub .vResult o k) then setAttr .vResult st k (getDoc sub .vResult o k) else st)
      Cls.vResult.attrs = o.attrs
  have e : Cls.vResult.attrNames = ["name", "is_m", "is_w", "is_p"] := by decide
  rw [e]
  simp only [List.foldl, g0, g1, g2, g3]
  unfold flagsOK at hF
  obtain ⟨A, P, L, Dd, S⟩ := o
  simp only [Obj.getAttr] at hF hA ⊢
  clear hg g0 g1 g2 g3
  rcases A with _ | ⟨⟨k0, v0⟩, _ | ⟨⟨k1, v1⟩, _ | ⟨⟨k2, v2⟩, _ | ⟨⟨k3, v3⟩, _ | ⟨x, rest⟩⟩⟩⟩⟩ <;>
    simp only [Cls.attrs, Gen.vResultAttrs, attrsOK, Bool.false_eq_true, Bool.and_eq_true,
      decide_eq_true_eq, and_false] at hA
  obtain ⟨⟨rfl, -⟩, ⟨rfl, -⟩, ⟨rfl, -⟩, ⟨rfl, -⟩, -⟩ := hA
  simp only [lookup, String.reduceEq, if_true, if_false, Option.getD_some] at hF ⊢
  cases v1 <;> cases v2 <;> cases v3 <;> simp only [Bool.false_eq_true] at hF
  rename_i a b c
  cases v0 <;> cases a <;> cases b <;> cases c <;> simp at hF <;>
    simp [notNone, isNull, setAttr, upd, truthy, Cls.attrs, Gen.vResultAttrs]

/-! ## Parts: encoded matrices -/

theorem ofStr?_toStr {s : String} {sc : Scalar} (h : Scalar.ofStr? s = some sc) : sc.toStr = s := by
  unfold Scalar.ofStr? at h
  split at h <;> simp_all [Scalar.toStr] <;> (subst h; rfl)

theorem jDelta_of_deltaOf? {j : JVal} {d : Delta} (h : deltaOf? j = some d) : jDelta d = j := by
  unfold deltaOf? at h
  split at h
  · split at h
    · rename_i v i hvi
      cases h
      simp [jDelta, Int.toNat_of_nonneg hvi.1, Int.toNat_of_nonneg hvi.2]
    · cases h
  · cases h

theorem map_jDelta_of_deltasOf? {ds : List JVal} {dl : List Delta} (h : deltasOf? ds = some dl) :
    dl.map jDelta = ds := by
  induction ds generalizing dl with
  | nil => simp [deltasOf?] at h; subst h; rfl
  | cons j t ih =>
    simp only [deltasOf?] at h
    split at h
    · rename_i d ds' h1 h2
      cases h
      simp [jDelta_of_deltaOf? h1, ih h2]
    · cases h

theorem normMono_wf {m : JVal} (h : wfMono m = true) : normMono m = m := by
  unfold wfMono at h
  split at h
  · rename_i k1 s k2 ds
    simp only [Bool.and_eq_true, decide_eq_true_eq, wfDeltas] at h
    obtain ⟨⟨⟨rfl, rfl⟩, hs⟩, hd⟩ := h
    cases hsc : Scalar.ofStr? s with
    | none => simp [hsc] at hs
    | some sc =>
      cases hdl : deltasOf? ds with
      | none => simp [hdl] at hd
      | some dl =>
        simp only [hdl] at hd
        have hnew : Mono.new sc dl = ⟨sc, dl⟩ := by
          unfold Mono.new
          have := Mwp.Lemmas.Poly.insertDeltas_sorted sc [] dl
            (by simpa using (Mwp.Lemmas.Poly.sortedDeltas_iff dl).1 hd)
          simpa using this
        simp [normMono, lookup, hsc, hdl, hnew, jMono, ofStr?_toStr hsc, map_jDelta_of_deltasOf? hdl]
  · cases h

theorem map_id_of {α : Type} {f : α → α} {l : List α} (h : ∀ x ∈ l, f x = x) : l.map f = l := by
  induction l with
  | nil => rfl
  | cons a t ih =>
    simp only [List.map_cons]
    rw [h a (by simp), ih (fun x hx => h x (by simp [hx]))]

theorem normPoly_wf {p : JVal} (h : wfPoly p = true) : normPoly p = p := by
  unfold wfPoly at h
  split at h
  · rename_i m ms
    rw [List.all_eq_true] at h
    simp only [normPoly]
    rw [map_id_of (fun x hx => normMono_wf (h x hx))]
  · cases h

theorem normRow_wf {r : JVal} (h : wfRow r = true) : normRow r = r := by
  unfold wfRow at h
  split at h
  · rename_i cells
    rw [List.all_eq_true] at h
    simp only [normRow]
    rw [map_id_of (fun x hx => normPoly_wf (h x hx))]
  · cases h

/-- a well-formed relation part is what loading its own `matrix` gives back -/
theorem relationPart_wf {vars r : JVal} (h : wfRelation vars r = true) :
    ∃ M, r = .obj [("matrix", M)] ∧ notNone M = true ∧ relationPart vars M = r := by
  unfold wfRelation at h
  split at h
  · rename_i k rows
    simp only [Bool.and_eq_true, decide_eq_true_eq, Bool.or_eq_true, Bool.not_eq_true',
      List.all_eq_true, beq_iff_eq] at h
    obtain ⟨⟨rfl, hrows⟩, hne⟩ := h
    refine ⟨.arr rows, rfl, rfl, ?_⟩
    have hde : decodeEncode (.arr rows) = .arr rows := by
      simp only [decodeEncode]
      rw [map_id_of (fun x hx => normRow_wf (hrows x hx))]
    simp only [relationPart, hde, truthy]
    cases rows with
    | nil =>
      have : nVars vars = 0 := by simpa using hne
      simp [this, zeroMatrix]
    | cons a t => simp
  · cases h

/-! ## Parts: bound texts -/

section BoundText
open Mwp.Bound

theorem joinWith_splitOn (sep : Char) (s : Str) : joinWith [sep] (splitOn sep s) = s := by
  induction s with
  | nil => simp [splitOn, joinWith]
  | cons c cs ih =>
    simp only [splitOn]
    cases hsp : splitOn sep cs with
    | nil => exact absurd hsp (splitOn_ne_nil _ _)
    | cons f fs =>
      rw [hsp] at ih
      by_cases hc : c = sep
      · subst hc
        simp [joinWith, ih]
      · simp only [hc, if_false]
        cases fs with
        | nil => simpa [joinWith] using ih
        | cons b t =>
          simp only [joinWith, List.append_assoc, List.cons_append] at ih ⊢
          rw [ih]

theorem normNames_sorted {l : List String} (h : sortedStrict l = true) : normNames l = l := by
  induction l with
  | nil => rfl
  | cons a t ih =>
    cases t with
    | nil => rfl
    | cons b t' =>
      simp only [sortedStrict, Bool.and_eq_true, decide_eq_true_eq] at h
      have := ih h.2
      simp only [normNames, List.foldr_cons] at this ⊢
      rw [this]
      simp [insertName, h.1]

theorem join_field (a : Str) :
    joinWith [','] (if a.isEmpty then [] else splitOn ',' a) = a := by
  by_cases h : a.isEmpty = true
  · simp only [h, if_true, joinWith]
    exact (List.isEmpty_iff.1 h).symm
  · simp only [h]
    exact joinWith_splitOn ',' a

theorem map_toList_ofList (x : List Str) : (x.map String.ofList).map String.toList = x := by
  induction x with
  | nil => rfl
  | cons a t ih => simp only [List.map_cons, String.toList_ofList, ih]

/-- a well-formed bound text is not empty and `MwpBound(s).bound_str` is `s` itself -/
theorem normBound_wf {s : String} (h : wfBoundStr s = true) : s ≠ "" ∧ normBound s = s := by
  simp only [wfBoundStr, Bool.and_eq_true, bne_iff_ne, ne_eq] at h
  obtain ⟨hne, hm⟩ := h
  refine ⟨hne, ?_⟩
  split at hm
  · rename_i x y z hp
    simp only [Bool.and_eq_true] at hm
    obtain ⟨⟨hx, hy⟩, hz⟩ := hm
    simp only [normBound, hp, normNames_sorted hx, normNames_sorted hy, normNames_sorted hz]
    have hl : s.toList ≠ [] := by
      intro e
      apply hne
      rw [← String.ofList_toList (s := s), e]
    have hl' : s.toList.isEmpty = false := by
      cases hs : s.toList with
      | nil => exact absurd hs hl
      | cons _ _ => rfl
    simp only [parse, hl', Bool.false_eq_true, if_false] at hp
    cases hsp : splitOn ';' s.toList with
    | nil => simp [hsp] at hp
    | cons a t1 =>
      cases t1 with
      | nil => simp [hsp] at hp
      | cons b t2 =>
        cases t2 with
        | nil => simp [hsp] at hp
        | cons c t3 =>
          cases t3 with
          | cons _ _ => simp [hsp] at hp
          | nil =>
            simp only [hsp, List.map_cons, List.map_nil, List.cons.injEq, and_true] at hp
            obtain ⟨rfl, rfl, rfl⟩ := hp
            have hj := joinWith_splitOn ';' s.toList
            rw [hsp] at hj
            simp only [boundStr, List.map_cons, List.map_nil, map_toList_ofList, join_field]
            rw [hj, String.ofList_toList]
  · cases hm

theorem mwpBoundJ_wf {v : JVal} (h : wfBoundJ v = true) : truthy v = true ∧ mwpBoundJ v = v := by
  unfold wfBoundJ at h
  split at h
  · rename_i s
    obtain ⟨hne, hn⟩ := normBound_wf h
    have ht : truthy (.str s) = true := by simp [truthy, hne]
    exact ⟨ht, by simp [mwpBoundJ, ht, hn]⟩
  · cases h

theorem boundDictJ_wf {b : JVal} (h : wfBoundDict b = true) : notNone b = true ∧ boundDictJ b = b := by
  unfold wfBoundDict at h
  split at h
  · rename_i kvs
    rw [List.all_eq_true] at h
    refine ⟨rfl, ?_⟩
    simp only [boundDictJ]
    rw [map_id_of (fun kv hkv => by rw [(mwpBoundJ_wf (h kv hkv)).2])]
  · cases h

theorem truthy_wfChoices {c : JVal} (h : wfChoices c = true) : truthy c = true := by
  unfold wfChoices at h
  split at h
  · rfl
  · cases h

end BoundText

/-! ## Parts: loading -/

theorem mem_of_lookup {α : Type} {k : String} {l : List (String × α)} {v : α}
    (h : lookup k l = some v) : (k, v) ∈ l := by
  induction l with
  | nil => simp [lookup] at h
  | cons kv t ih =>
    obtain ⟨k', v'⟩ := kv
    simp only [lookup] at h
    split at h
    · rename_i e; cases h; subst e; simp
    · exact List.mem_cons_of_mem _ (ih h)

theorem filterMap_congr' {α β : Type} {f g : α → Option β} {l : List α} (h : ∀ x ∈ l, f x = g x) :
    l.filterMap f = l.filterMap g := by
  induction l with
  | nil => rfl
  | cons a t ih =>
    simp only [List.filterMap_cons, h a (by simp), ih (fun x hx => h x (by simp [hx]))]

/-- an association list whose keys are those keys of `K` it holds, in the order of `K` -/
theorem canonical_parts {K : List String} {l : List (String × JVal)} (hK : K.Nodup)
    (h : keys l = K.filter fun p => (lookup p l).isSome) :
    K.filterMap (fun p => (lookup p l).map fun v => (p, v)) = l := by
  induction K generalizing l with
  | nil =>
    cases l with
    | nil => rfl
    | cons _ _ => simp at h
  | cons p K' ih =>
    rw [List.nodup_cons] at hK
    cases hp : lookup p l with
    | none =>
      simp only [List.filter_cons, hp, Option.isSome_none, Bool.false_eq_true, if_false] at h
      simp only [List.filterMap_cons, hp, Option.map_none]
      exact ih hK.2 h
    | some v =>
      simp only [List.filter_cons, hp, Option.isSome_some, if_true] at h
      cases l with
      | nil => simp at h
      | cons kv l' =>
        obtain ⟨p', v'⟩ := kv
        simp only [keys_cons, List.cons.injEq] at h
        obtain ⟨rfl, h⟩ := h
        simp only [lookup, if_true, Option.some.injEq] at hp
        subst hp
        have hcongr : ∀ q ∈ K', lookup q ((p', v') :: l') = lookup q l' := by
          intro q hq
          have : q ≠ p' := fun e => hK.1 (e ▸ hq)
          simp [lookup, this]
        simp only [List.filterMap_cons, lookup, if_true, Option.map_some]
        congr 1
        rw [filterMap_congr' (g := fun p => (lookup p l').map fun v => (p, v))
          (fun q hq => by have := hcongr q hq; simp only [lookup] at this; rw [this])]
        apply ih hK.2
        rw [h]
        exact List.filter_congr (fun q hq => by rw [hcongr q hq])

theorem partsOK_elim {cls : Cls} {o : Obj} (h : partsOK cls o = true) :
    keys o.parts = (cls.partKeys.filter fun p => (lookup p o.parts).isSome) ∧
    ∀ p v, lookup p o.parts = some v → partOK cls o p v = true := by
  simp only [partsOK, Bool.and_eq_true, decide_eq_true_eq, List.all_eq_true] at h
  exact ⟨h.1, fun p v hl => h.2 (p, v) (mem_of_lookup hl)⟩

theorem getItem_null (k : String) : getItem .null k = .null := rfl

theorem loadPart_doc (sub : Cls → Obj → JVal) (cls : Cls) (o : Obj) (hP : partsOK cls o = true)
    {p : String} (hp : p ∈ cls.partKeys) :
    loadPart notNone cls o.attrs (ctorAndKwargs cls (docKvs sub cls o)).2 p = lookup p o.parts := by
  obtain ⟨-, hw⟩ := partsOK_elim hP
  have hg := getDoc_part sub cls o hp
  unfold getDoc at hg
  cases cls <;> try (simp [Cls.partKeys] at hp)
  · -- FuncResult
    rcases hp with rfl | rfl | rfl
    · have e : tryGet (.obj (ctorAndKwargs .funcResult (docKvs sub .funcResult o)).2) ["relation", "matrix"]
          = getItem ((lookup "relation" o.parts).getD .null) "matrix" := by
        rw [← hg]; rfl
      simp only [loadPart, if_true, e]
      cases hl : lookup "relation" o.parts with
      | none => simp [getItem_null, notNone, isNull]
      | some r =>
        have hr := hw _ _ hl
        simp only [partOK, if_true] at hr
        obtain ⟨M, rfl, hM, hrel⟩ := relationPart_wf hr
        have : getItem (.obj [("matrix", M)]) "matrix" = M := by simp [getItem, truthy, lookup]
        simp only [Option.getD_some, this, hM, if_true]
        rw [show (lookup "variables" o.attrs).getD .null = o.getAttr "variables" from rfl, hrel]
    · simp only [loadPart, String.reduceEq, if_true, if_false, hg]
      cases hl : lookup "choices" o.parts with
      | none => simp [truthy]
      | some c =>
        have hc := hw _ _ hl
        simp only [partOK, String.reduceEq, if_true, if_false] at hc
        simp [truthy_wfChoices hc]
    · simp only [loadPart, String.reduceEq, if_true, if_false, hg]
      cases hl : lookup "bound" o.parts with
      | none => simp [notNone, isNull]
      | some b =>
        have hb := hw _ _ hl
        simp only [partOK, String.reduceEq, if_true, if_false] at hb
        obtain ⟨h1, h2⟩ := boundDictJ_wf hb
        simp [h1, h2]
  · -- VResult
    rcases hp with rfl | rfl
    · simp only [loadPart, if_true, hg]
      cases hl : lookup "choices" o.parts with
      | none => simp [truthy]
      | some c =>
        have hc := hw _ _ hl
        simp only [partOK, if_true] at hc
        simp [truthy_wfChoices hc]
    · simp only [loadPart, String.reduceEq, if_true, if_false, hg]
      cases hl : lookup "bound" o.parts with
      | none => simp [truthy]
      | some b =>
        have hb := hw _ _ hl
        simp only [partOK, String.reduceEq, if_true, if_false] at hb
        obtain ⟨h1, h2⟩ := mwpBoundJ_wf hb
        simp [h1, h2]

theorem loadParts_doc (sub : Cls → Obj → JVal) (cls : Cls) (o : Obj) (hP : partsOK cls o = true) :
    (cls.partKeys.filterMap fun p =>
      (loadPart notNone cls o.attrs (ctorAndKwargs cls (docKvs sub cls o)).2 p).map fun v => (p, v))
      = o.parts := by
  rw [filterMap_congr' (g := fun p => (lookup p o.parts).map fun v => (p, v))
    (fun p hp => by rw [loadPart_doc sub cls o hP hp])]
  exact canonical_parts (nd_parts cls) (partsOK_elim hP).1

/-! ## Nested objects -/

section Nested
variable (sub : Cls → Obj → JVal) (inv : Cls → JVal → Obj) (wfs : Cls → Obj → Bool)
  (hinv : ∀ c x, wfs c x = true → inv c (sub c x) = x)
  (htr : ∀ c x, wfs c x = true → c.attrs ≠ [] → truthy (sub c x) = true)
  (cls : Cls) (o : Obj)
include hinv

theorem load_lists (hL : listsOK wfs cls o = true) :
    (cls.serList.map fun a =>
      (a, if truthy (getDoc sub cls o a) then
            match getDoc sub cls o a with
            | .arr l => l.map (inv (cls.elem a))
            | _ => []
          else [])) = o.lists := by
  simp only [listsOK, Bool.and_eq_true, decide_eq_true_eq, List.all_eq_true] at hL
  obtain ⟨hk, hw⟩ := hL
  have hpt : ∀ a ∈ cls.serList,
      (a, if truthy (getDoc sub cls o a) then
            match getDoc sub cls o a with
            | .arr l => l.map (inv (cls.elem a))
            | _ => []
          else []) = (a, (lookup a o.lists).getD []) := by
    intro a ha
    rw [getDoc_list _ _ _ ha]
    congr 1
    show _ = o.getList a
    have hwf : ∀ y ∈ o.getList a, wfs (cls.elem a) y = true := by
      intro y hy
      cases h : lookup a o.lists with
      | none => simp [Obj.getList, h] at hy
      | some l =>
        simp only [Obj.getList, h, Option.getD_some] at hy
        exact hw _ (mem_of_lookup h) y hy
    have e : List.map (inv (cls.elem a) ∘ sub (cls.elem a)) (o.getList a) = o.getList a :=
      map_id_of (fun y hy => hinv _ _ (hwf y hy))
    by_cases he : (o.getList a).isEmpty = true
    · simp [truthy, List.isEmpty_iff.1 he]
    · simp [he, listJ, truthy, e]
  rw [List.map_congr_left hpt, ← hk]
  exact map_lookup_self o.lists [] (by rw [show keys o.lists = cls.serList from hk]; exact nd_lists cls)

theorem load_dicts (hD : dictsOK wfs cls o = true) :
    (cls.serDict.map fun ak =>
      (ak.1, if truthy (getDoc sub cls o ak.1) then
            match getDoc sub cls o ak.1 with
            | .obj ikvs =>
              dictOf (ikvs.map fun kv =>
                (keyStr ((inv (cls.elem ak.1) kv.2).getAttr ak.2), inv (cls.elem ak.1) kv.2))
            | _ => []
          else [])) = o.dicts := by
  simp only [dictsOK, Bool.and_eq_true, decide_eq_true_eq, List.all_eq_true] at hD
  obtain ⟨hk, hw⟩ := hD
  have hpt : ∀ ak ∈ cls.serDict,
      (ak.1, if truthy (getDoc sub cls o ak.1) then
            match getDoc sub cls o ak.1 with
            | .obj ikvs =>
              dictOf (ikvs.map fun kv =>
                (keyStr ((inv (cls.elem ak.1) kv.2).getAttr ak.2), inv (cls.elem ak.1) kv.2))
            | _ => []
          else []) = (ak.1, (lookup ak.1 o.dicts).getD []) := by
    intro ak hak
    have ha : ak.1 ∈ cls.dictNames := List.mem_map_of_mem hak
    obtain ⟨hnd, hent⟩ := hw ak hak
    rw [getDoc_dict _ _ _ ha]
    congr 1
    show _ = o.getDict ak.1
    have e : List.map ((fun kv : String × JVal =>
          (keyStr ((inv (cls.elem ak.1) kv.2).getAttr ak.2), inv (cls.elem ak.1) kv.2)) ∘
          fun kv : String × Obj => (kv.1, sub (cls.elem ak.1) kv.2)) (o.getDict ak.1) = o.getDict ak.1 := by
      apply map_id_of
      intro kx hkx
      obtain ⟨h1, h2⟩ := hent kx hkx
      simp only [Function.comp, hinv _ _ h2, ← h1]
    by_cases he : (o.getDict ak.1).isEmpty = true
    · simp [truthy, List.isEmpty_iff.1 he]
    · simp only [he, Bool.false_eq_true, if_false, dictJ, truthy, List.isEmpty_map, Bool.not_false,
        if_true, List.map_map, e]
      exact dictOf_nodup _ hnd
  have hmap : (cls.serDict.map fun ak => (ak.1, (lookup ak.1 o.dicts).getD []))
      = cls.dictNames.map fun a => (a, (lookup a o.dicts).getD []) := by
    simp [Cls.dictNames, List.map_map, Function.comp]
  rw [List.map_congr_left hpt, hmap, ← hk]
  exact map_lookup_self o.dicts [] (by rw [show keys o.dicts = cls.dictNames from hk]; exact nd_dicts cls)

include htr in
theorem load_sers (hS : sersOK wfs cls o = true) :
    (cls.serAttrs.map fun a =>
      (a, if truthy (getDoc sub cls o a) then some (inv (cls.elem a) (getDoc sub cls o a)) else none))
      = o.sers := by
  simp only [sersOK, Bool.and_eq_true, decide_eq_true_eq, List.all_eq_true] at hS
  obtain ⟨hk, hw⟩ := hS
  have hpt : ∀ a ∈ cls.serAttrs,
      (a, if truthy (getDoc sub cls o a) then some (inv (cls.elem a) (getDoc sub cls o a)) else none)
        = (a, (lookup a o.sers).getD none) := by
    intro a ha
    rw [getDoc_ser _ _ _ ha]
    congr 1
    have hmem : a ∈ keys o.sers := by rw [show keys o.sers = cls.serAttrs from hk]; exact ha
    cases hl : lookup a o.sers with
    | none => have := lookup_isSome hmem; simp [hl] at this
    | some ox =>
      have hwf := hw _ (mem_of_lookup hl)
      cases ox with
      | none => simp at hwf
      | some x =>
        simp only at hwf
        have ht := htr _ _ hwf (ser_elem_attrs cls a ha)
        simp [serJ, Obj.getSer, hl, ht, hinv _ _ hwf]
  rw [List.map_congr_left hpt, ← hk]
  exact map_lookup_self o.sers none (by rw [show keys o.sers = cls.serAttrs from hk]; exact nd_sers cls)

end Nested

/-! ## One level, then all levels -/

theorem obj_ext {x o : Obj} (h1 : x.attrs = o.attrs) (h2 : x.parts = o.parts) (h3 : x.lists = o.lists)
    (h4 : x.dicts = o.dicts) (h5 : x.sers = o.sers) : x = o := by
  cases x; cases o; simp_all

/-- the written document is a non-empty dict as soon as the class has a simple attribute -/
theorem truthy_toDict1 (sub : Cls → Obj → JVal) (cls : Cls) (o : Obj) (h : cls.attrs ≠ []) :
    truthy (toDict1 sub cls o) = true := by
  rw [toDict1_eq]
  cases hc : cls.attrs with
  | nil => exact absurd hc h
  | cons kd t =>
    have hk : kd.1 ∈ cls.attrNames := by simp [Cls.attrNames, hc]
    have := lookup_doc_attr sub cls o hk
    cases hd : docKvs sub cls o with
    | nil => rw [hd] at this; simp [lookup] at this
    | cons _ _ => simp [truthy]

theorem load1_save1 (sub : Cls → Obj → JVal) (inv : Cls → JVal → Obj) (wfs : Cls → Obj → Bool)
    (hinv : ∀ c x, wfs c x = true → inv c (sub c x) = x)
    (htr : ∀ c x, wfs c x = true → c.attrs ≠ [] → truthy (sub c x) = true)
    (cls : Cls) (o : Obj) (h : wf1 wfs cls o = true) :
    fromDict1 notNone inv cls (toDict1 sub cls o) = o := by
  simp only [wf1, Bool.and_eq_true] at h
  obtain ⟨⟨⟨⟨⟨hA, hF⟩, hP⟩, hL⟩, hD⟩, hS⟩ := h
  rw [toDict1_eq]
  have eA : loadAttrs notNone cls (ctorAndKwargs cls (docKvs sub cls o)).1
      (ctorAndKwargs cls (docKvs sub cls o)).2 = o.attrs := by
    by_cases hc : cls = .vResult
    · subst hc; exact loadAttrs_doc_v sub o hA hF
    · exact loadAttrs_doc sub cls o hc hA
  apply obj_ext
  · exact eA
  · show (cls.partKeys.filterMap fun p =>
      (loadPart notNone cls (loadAttrs notNone cls (ctorAndKwargs cls (docKvs sub cls o)).1
        (ctorAndKwargs cls (docKvs sub cls o)).2) (ctorAndKwargs cls (docKvs sub cls o)).2 p).map
        fun v => (p, v)) = o.parts
    rw [eA]
    exact loadParts_doc sub cls o hP
  · exact load_lists sub inv wfs hinv cls o hL
  · exact load_dicts sub inv wfs hinv cls o hD
  · exact load_sers sub inv wfs hinv htr cls o hS

theorem wfN_pos {n : Nat} {cls : Cls} {o : Obj} (h : wfN n cls o = true) : ∃ m, n = m + 1 := by
  cases n with
  | zero => simp [wfN] at h
  | succ m => exact ⟨m, rfl⟩

theorem fromDictN_toDictN (n : Nat) : ∀ (cls : Cls) (o : Obj), wfN n cls o = true →
    fromDictN notNone n cls (toDictN n cls o) = o := by
  induction n with
  | zero => intro cls o h; simp [wfN] at h
  | succ n ih =>
    intro cls o h
    apply load1_save1 (toDictN n) (fromDictN notNone n) (wfN n) ih _ cls o h
    intro c x hx hc
    obtain ⟨m, rfl⟩ := wfN_pos hx
    exact truthy_toDict1 _ _ _ hc

/-- Loading a document written by `to_dict` restores the object exactly. -/
theorem fromDict_toDict (cls : Cls) (o : Obj) (h : WFObj cls o) : fromDict cls (toDict cls o) = o :=
  fromDictN_toDictN depth cls o h

/-! ## The fuel is enough: `toDict` / `fromDict` satisfy the recursive equations of the Python code -/

/-- nesting height of a class -/
def Cls.rank : Cls → Nat
  | .result => 3
  | .funcLoops => 2
  | .loopResult => 1
  | _ => 0

theorem rank_elem (c : Cls) :
    ∀ k ∈ c.serAttrs ++ c.serList ++ c.dictNames, (c.elem k).rank < c.rank := by
  cases c <;> decide

theorem rank_lt_depth (c : Cls) : c.rank < depth := by cases c <;> decide

theorem toDict1_congr {sub sub' : Cls → Obj → JVal} (cls : Cls) (o : Obj)
    (h : ∀ k ∈ cls.serAttrs ++ cls.serList ++ cls.dictNames, sub (cls.elem k) = sub' (cls.elem k)) :
    toDict1 sub cls o = toDict1 sub' cls o := by
  have h1 : (cls.serAttrs.map fun k => (k, serJ sub cls o k))
      = cls.serAttrs.map fun k => (k, serJ sub' cls o k) :=
    List.map_congr_left fun k hk => by simp only [serJ, h k (by simp [hk])]
  have h2 : ((cls.serList.filter fun k => !(o.getList k).isEmpty).map fun k => (k, listJ sub cls o k))
      = (cls.serList.filter fun k => !(o.getList k).isEmpty).map fun k => (k, listJ sub' cls o k) :=
    List.map_congr_left fun k hk => by simp only [listJ, h k (by simp [(List.mem_filter.1 hk).1])]
  have h3 : ((cls.dictNames.filter fun n => !(o.getDict n).isEmpty).map fun n => (n, dictJ sub cls o n))
      = (cls.dictNames.filter fun n => !(o.getDict n).isEmpty).map fun n => (n, dictJ sub' cls o n) :=
    List.map_congr_left fun k hk => by simp only [dictJ, h k (by simp [(List.mem_filter.1 hk).1])]
  rw [toDict1_eq, toDict1_eq]
  unfold docKvs
  rw [h1, h2, h3]

theorem fromDict1_congr {sub sub' : Cls → JVal → Obj} (test : JVal → Bool) (cls : Cls) (doc : JVal)
    (h : ∀ k ∈ cls.serAttrs ++ cls.serList ++ cls.dictNames, sub (cls.elem k) = sub' (cls.elem k)) :
    fromDict1 test sub cls doc = fromDict1 test sub' cls doc := by
  unfold fromDict1
  apply obj_ext
  · rfl
  · rfl
  · exact List.map_congr_left fun k hk => by simp only [h k (by simp [hk])]
  · exact List.map_congr_left fun ak hak => by
      simp only [h ak.1 (by simp [Cls.dictNames, List.mem_map_of_mem hak])]
  · exact List.map_congr_left fun k hk => by simp only [h k (by simp [hk])]

theorem toDictN_succ (n : Nat) : ∀ cls : Cls, cls.rank < n → toDictN (n + 1) cls = toDictN n cls := by
  induction n with
  | zero => intro cls h; cases h
  | succ n ih =>
    intro cls h
    funext o
    show toDict1 (toDictN (n + 1)) cls o = toDict1 (toDictN n) cls o
    exact toDict1_congr cls o fun k hk => ih _ (by have := rank_elem cls k hk; omega)

theorem fromDictN_succ (test : JVal → Bool) (n : Nat) :
    ∀ cls : Cls, cls.rank < n → fromDictN test (n + 1) cls = fromDictN test n cls := by
  induction n with
  | zero => intro cls h; cases h
  | succ n ih =>
    intro cls h
    funext doc
    show fromDict1 test (fromDictN test (n + 1)) cls doc = fromDict1 test (fromDictN test n) cls doc
    exact fromDict1_congr test cls doc fun k hk => ih _ (by have := rank_elem cls k hk; omega)

/-- `to_dict` as in Python: one level, calling itself on nested objects -/
theorem toDict_unfold (cls : Cls) (o : Obj) : toDict cls o = toDict1 toDict cls o := by
  show toDict1 (toDictN 3) cls o = toDict1 (toDictN 4) cls o
  exact toDict1_congr cls o fun k hk =>
    (toDictN_succ 3 _ (by have := rank_elem cls k hk; have := rank_lt_depth cls; simp [depth] at *; omega)).symm

/-- `from_dict` as in Python: one level, calling itself on nested documents -/
theorem fromDict_unfold (cls : Cls) (doc : JVal) :
    fromDict cls doc = fromDict1 notNone fromDict cls doc := by
  show fromDict1 notNone (fromDictN notNone 3) cls doc = fromDict1 notNone (fromDictN notNone 4) cls doc
  exact fromDict1_congr notNone cls doc fun k hk =>
    (fromDictN_succ notNone 3 _ (by have := rank_elem cls k hk; have := rank_lt_depth cls; simp [depth] at *; omega)).symm

end Mwp.Result
