/-
  Refinement with loops, part 2: `Analysis.whileFinish` (while / do-while).

  * `whileFinish_inv`   : what the handler computes (fixpoint, then `while_correction`, then
                          -- unless run to completion -- `fusion` of the delta graph),
  * `while_rel`         : the meaning of the fixpoint / corrected relation at every choice vector,
  * `while_point`       : rule W pointwise: `sem` of the loop fails iff the corrected relation has
                          an ∞ (body ∞-free), and otherwise the two agree.
-/
import Mwp.Lemmas.RefineLoopsClosure
import Mwp.Lemmas.RelFix
namespace Mwp
namespace Refine
open Mwp.Props.C16 Mwp.Lemmas.Poly Spec RelFix

/-- the relation has an ∞ at this choice vector -/
def HasInf (r : Relation) (c : Choice) : Prop := ∃ a b, r.den c a b = .i

theorem not_fin_of_hasInf {r : Relation} {c : Choice} (h : HasInf r c) : ¬ Fin' r c := by
  obtain ⟨a, b, hab⟩ := h
  exact fun f => f a b hab

/-! ## relations as dense matrices over their own variables -/

theorem toSMat_eq_matOf (r : Relation) (h : r.WF) (c : Choice) :
    r.toSMat c = matOf r.vars (r.den c) := by
  rw [toSMat_eq]
  apply mk_congr
  intro i hi j hj
  simp only [dn, fn]
  rw [Relation.den_of_idx (idx_of_get h.1 i hi "") (idx_of_get h.1 j hj "")]

theorem den_eq_smat (r : Relation) (h : r.WF) (c : Choice) (x y : String) :
    r.den c x y = SMat.den r.vars (r.toSMat c) x y := by
  rw [toSMat_eq_matOf r h]
  by_cases hh : x ∈ r.vars ∧ y ∈ r.vars
  · rw [den_matOf _ _ hh.1 hh.2]
  · rw [smat_den_outside _ hh]
    by_cases hx : x ∈ r.vars
    · exact Relation.den_of_not_mem_right (fun hy => hh ⟨hx, hy⟩) c x
    · exact Relation.den_of_not_mem_left hx c y

theorem fixpoint_den {r0 f : Relation} (w0 : r0.WF) (hf : Relation.fixpoint r0 = .ok f) :
    f.vars = r0.vars ∧ f.WF ∧ ∀ c x y,
      f.den c x y = SMat.den r0.vars (SMat.closure (matOf r0.vars (r0.den c))) x y := by
  obtain ⟨v, w, _⟩ := Relation.fixpoint_toSMat r0 f w0 hf []
  refine ⟨v, w, fun c x y => ?_⟩
  obtain ⟨_, _, e⟩ := Relation.fixpoint_toSMat r0 f w0 hf c
  rw [den_eq_smat f w, v, e, toSMat_eq_matOf r0 w0]

theorem wCorr_idS (x y : String) : wCorr (x == y) (idS x y) = idS x y := by
  by_cases h : x = y
  · subst h; rw [idS_self]; simp [wCorr]
  · rw [idS_of_ne h]; simp [wCorr]

theorem whileCorrection_den {f r' : Relation} {g g' : DG.Graph} (wf : f.WF)
    (hw : Relation.whileCorrection f g = .ok (r', g')) :
    r'.vars = f.vars ∧ r'.WF ∧ ∀ c x y, r'.den c x y = wCorr (x == y) (f.den c x y) := by
  obtain ⟨e, w, _⟩ := Relation.whileCorrection_cells f r' g g' wf hw []
  refine ⟨e, w, fun c x y => ?_⟩
  obtain ⟨_, _, cells⟩ := Relation.whileCorrection_cells f r' g g' wf hw c
  rcases idx_cases f.vars x with ⟨hx, _⟩ | ⟨_, i, hi, hxi, _⟩
  · rw [Relation.den_of_not_mem_left (e ▸ hx), Relation.den_of_not_mem_left hx, wCorr_idS]
  · rcases idx_cases f.vars y with ⟨hy, _⟩ | ⟨_, j, hj, hyj, _⟩
    · rw [Relation.den_of_not_mem_right (e ▸ hy), Relation.den_of_not_mem_right hy, wCorr_idS]
    · rw [Relation.den_of_idx (r := r') (e ▸ hxi) (e ▸ hyj), Relation.den_of_idx hxi hyj,
        cells i j hi hj]
      congr 1
      rw [Bool.eq_iff_iff, beq_iff_eq, beq_iff_eq]
      exact idx_eq_iff hxi hyj

/-! ## the handler -/

theorem whileFinish_inv {q : Bool} {rb out : Analysis.Out} {r : Relation}
    (h : Analysis.whileFinish q rb = .ok out) (he : rb.exit = false) (hr : rb.rels = [r]) :
    ∃ f r' g g', Relation.fixpoint (Relation.composition (Relation.new []) r) = .ok f ∧
      Relation.whileCorrection f g = .ok (r', g') ∧ out.rels = [r'] ∧ out.index = rb.index ∧
      ((q = true ∧ out.exit = false ∧ out.dg = rb.dg) ∨
       (q = false ∧ g = rb.dg ∧ DG.fusion g' = .ok out.dg ∧ out.exit = DG.isEmpty out.dg)) := by
  unfold Analysis.whileFinish at h
  rw [he, hr] at h
  simp only [Bool.false_eq_true, if_false, RelList.empty, relList_composition_single,
    RelList.fixpoint, List.mapM_cons, List.mapM_nil, RelList.whileCorrection] at h
  cases hfx : ((Relation.new []).composition r).fixpoint with
  | error e => rw [hfx] at h; cases h
  | ok f =>
    rw [hfx] at h
    simp only [bind, Except.bind, pure, Except.pure, List.foldlM_cons, List.foldlM_nil] at h
    cases q with
    | true =>
      simp only [if_true] at h
      cases hw : f.whileCorrection [] with
      | error e => rw [hw] at h; cases h
      | ok p =>
        rw [hw] at h
        simp only at h
        cases h
        exact ⟨f, p.1, [], p.2, rfl, hw, rfl, rfl, Or.inl ⟨rfl, rfl, rfl⟩⟩
    | false =>
      simp only [Bool.false_eq_true, if_false] at h
      cases hw : f.whileCorrection rb.dg with
      | error e => rw [hw] at h; cases h
      | ok p =>
        rw [hw] at h
        simp only at h
        cases hfu : DG.fusion p.2 with
        | error e => rw [hfu] at h; cases h
        | ok d =>
          rw [hfu] at h
          cases h
          exact ⟨f, p.1, rb.dg, p.2, rfl, hw, rfl, rfl, Or.inr ⟨rfl, rfl, hfu, rfl⟩⟩

theorem whileFinish_exit {q : Bool} {rb out : Analysis.Out}
    (h : Analysis.whileFinish q rb = .ok out) (he : rb.exit = true) : out = rb := by
  unfold Analysis.whileFinish at h
  rw [he] at h
  simp only [if_true] at h
  cases h
  rfl

/-! ## meaning of the fixpoint and of the corrected relation -/

theorem comp_empty_mem {r : Relation} (wr : r.WF) (v : String) :
    v ∈ (Relation.composition (Relation.new []) r).vars ↔ v ∈ r.vars := by
  rw [Relation.composition_vars_mem _ r emptyRel_wf wr]
  constructor
  · rintro (h | h)
    · cases h
    · exact h
  · exact Or.inr

theorem den_outside {r : Relation} (c : Choice) {x y : String} (h : ¬ (x ∈ r.vars ∧ y ∈ r.vars)) :
    r.den c x y = idS x y := by
  by_cases hx : x ∈ r.vars
  · exact Relation.den_of_not_mem_right (fun hy => h ⟨hx, hy⟩) c x
  · exact Relation.den_of_not_mem_left hx c y

theorem while_rel {r f r' : Relation} {g g' : DG.Graph} (wr : r.WF)
    (hf : Relation.fixpoint (Relation.composition (Relation.new []) r) = .ok f)
    (hw : Relation.whileCorrection f g = .ok (r', g')) :
    r'.WF ∧ (∀ v, v ∈ r'.vars ↔ v ∈ r.vars) ∧ r'.vars = f.vars ∧
    ∀ c, (∀ x y, r'.den c x y = wCorr (x == y) (f.den c x y)) ∧ (HasInf r c → HasInf r' c) ∧
      (Fin' r c → Fin' f c ∧ ∀ U : List String, U.Nodup → (∀ v ∈ r.vars, v ∈ U) →
        SMat.closure (matOf U (r.den c)) = matOf U (f.den c)) := by
  have w0 := Relation.composition_wf _ r emptyRel_wf wr
  obtain ⟨fv, fw, fden⟩ := fixpoint_den w0 hf
  obtain ⟨e', w', cden⟩ := whileCorrection_den fw hw
  refine ⟨w', fun v => by rw [e', fv]; exact comp_empty_mem wr v, e', fun c => ⟨cden c, ?_, ?_⟩⟩
  · intro hinf
    obtain ⟨a, b, hab⟩ := Relation.composition_infty_persists _ r emptyRel_wf wr c (Or.inr hinf)
    have hm := Relation.mem_of_den_i hab
    refine ⟨a, b, ?_⟩
    rw [cden, fden, closure_inf hm.1 hm.2 hab, den_matOf _ _ hm.1 hm.2]
    simp [wCorr]
  · intro fr
    have e0 : (Relation.composition (Relation.new []) r).den c = r.den c := by
      funext u v; exact comp_empty_den wr fr u v
    constructor
    · intro x y
      rw [fden, e0]
      exact closure_fin w0.1 fr x y
    · intro U hU hsub
      rw [closure_block w0.1 hU (fun v hv => hsub v ((comp_empty_mem wr v).1 hv)) fr]
      · apply matOf_congr
        intro x _ y _
        rw [fden, e0]
      · intro x y hxy
        exact den_outside c (fun h => hxy ⟨(comp_empty_mem wr x).2 h.1, (comp_empty_mem wr y).2 h.2⟩)

/-! ## rule W pointwise -/

theorem wbad_iff {U : List String} (hU : U.Nodup) (h : NF) :
    ((List.range U.length).any fun i => (List.range U.length).any fun j =>
        SMat.get (matOf U h) i j == .p || (i == j && SMat.get (matOf U h) i j == .w)) = true ↔
    ∃ x ∈ U, ∃ y ∈ U, h x y = .p ∨ (x = y ∧ h x y = .w) := by
  simp only [List.any_eq_true, List.mem_range, Bool.or_eq_true, Bool.and_eq_true, beq_iff_eq]
  constructor
  · rintro ⟨i, hi, j, hj, hb⟩
    unfold matOf at hb
    rw [get_mk _ _ hi hj] at hb
    refine ⟨_, getD_mem U i "" hi, _, getD_mem U j "" hj, ?_⟩
    rcases hb with hb | ⟨hij, hb⟩
    · exact Or.inl hb
    · exact Or.inr ⟨by rw [hij], hb⟩
  · rintro ⟨x, hx, y, hy, hb⟩
    obtain ⟨i, hi, rfl⟩ := mem_getD_idx hx
    obtain ⟨j, hj, rfl⟩ := mem_getD_idx hy
    refine ⟨i, hi, j, hj, ?_⟩
    unfold matOf
    rw [get_mk _ _ hi hj]
    rcases hb with hb | ⟨hij, hb⟩
    · exact Or.inl hb
    · exact Or.inr ⟨(getD_inj hU hi hj).1 hij, hb⟩

/-- the loop, at a choice vector where the body derivation succeeds -/
theorem while_point {r f r' : Relation} {g g' : DG.Graph} (wr : r.WF)
    (hf : Relation.fixpoint (Relation.composition (Relation.new []) r) = .ok f)
    (hw : Relation.whileCorrection f g = .ok (r', g')) (c : Choice) (fr : Fin' r c)
    (U : List String) (hU : U.Nodup) (hsub : ∀ v ∈ r.vars, v ∈ U)
    (b : Cmd) (idx i1 : Nat) (c' : Choice) (hb : sem U b idx c' = some (i1, matOf U (r.den c))) :
    (sem U (.while_ b) idx c' = none ∧ HasInf r' c) ∨
    (sem U (.while_ b) idx c' = some (i1, matOf U (r'.den c)) ∧ Fin' r' c) := by
  obtain ⟨w', hv, e', H⟩ := while_rel wr hf hw
  obtain ⟨cden, _, hfin⟩ := H c
  obtain ⟨ff, hcl⟩ := hfin fr
  have hcl' := hcl U hU hsub
  simp only [sem, hb]
  rw [hcl']
  by_cases hbad : ((List.range U.length).any fun i => (List.range U.length).any fun j =>
        SMat.get (matOf U (f.den c)) i j == .p || (i == j && SMat.get (matOf U (f.den c)) i j == .w)) = true
  · rw [if_pos hbad]
    left
    refine ⟨rfl, ?_⟩
    obtain ⟨x, _, y, _, hxy⟩ := (wbad_iff hU _).1 hbad
    refine ⟨x, y, ?_⟩
    rw [cden]
    rcases hxy with h | ⟨rfl, h⟩
    · rw [h]; simp [wCorr]
    · rw [h]; simp [wCorr]
  · rw [if_neg hbad]
    right
    have hno : ∀ x ∈ U, ∀ y ∈ U, ¬ (f.den c x y = .p ∨ (x = y ∧ f.den c x y = .w)) :=
      fun x hx y hy h => hbad ((wbad_iff hU _).2 ⟨x, hx, y, hy, h⟩)
    have heq : ∀ x y, r'.den c x y = f.den c x y := by
      intro x y
      by_cases hxy : x ∈ r'.vars ∧ y ∈ r'.vars
      · have hx := hsub x ((hv x).1 hxy.1)
        have hy := hsub y ((hv y).1 hxy.2)
        have h1 := hno x hx y hy
        have h2 := ff x y
        rw [cden]
        unfold wCorr
        rw [if_neg]
        intro hh
        simp only [Bool.or_eq_true, Bool.and_eq_true, beq_iff_eq] at hh
        rcases hh with (hh | hh) | hh
        · exact h1 (Or.inl hh)
        · exact h2 hh
        · exact h1 (Or.inr hh)
      · rw [cden]
        rw [den_outside c (e' ▸ hxy), wCorr_idS]
    constructor
    · refine congrArg (fun m => some (i1, m)) ?_
      exact matOf_congr (fun x _ y _ => (heq x y).symm)
    · intro x y
      rw [heq]
      exact ff x y

end Refine
end Mwp
