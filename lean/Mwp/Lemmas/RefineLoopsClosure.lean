/-
  Refinement with loops, part 1: the reflexive-transitive closure of `Spec.Calculus` on dense
  matrices over a universe, expressed on NAMES.

  * `exists_stationary`   : the chain the code computes always becomes stationary,
  * `closure_matOf`       : the closure of `matOf L g` is the stationary value of the name chain,
  * `closure_block`       : variables of the universe outside the support of `g` are isolated
                            identity rows/columns; the closure over the universe is the closure over
                            the support extended by the identity,
  * `closure_zero_row`    : zeroing the row of an isolated variable does not change the closure
                            (the `for` loop composes the 1×1 zero relation of the guard in front),
  * `closure_fin`, `closure_inf` : the closure of an ∞-free matrix is ∞-free, the closure of a
                            matrix with an ∞ is ∞ everywhere.
-/
import Mwp.Lemmas.RefineSeq
namespace Mwp
namespace Refine
open Mwp.Props.C16 Mwp.Lemmas.Poly Spec RelFix

/-! ## the chain always becomes stationary -/

theorem Phi_ge_of_not_stationary (n : Nat) (a : SF)
    (h : ∀ k, ¬ EqOn n (S n a (k + 1)) (S n a k)) : ∀ k, k ≤ Phi n (S n a k) := by
  intro k
  induction k with
  | zero => exact Nat.zero_le _
  | succ k ih =>
    have : Phi n (S n a k) < Phi n (S n a (k + 1)) := by
      apply Phi_lt
      · intro i _ j _
        exact rank_le_add _ _
      · intro he
        exact h k he.symm
    omega

theorem exists_stationary (n : Nat) (a : SF) : ∃ k, EqOn n (S n a (k + 1)) (S n a k) := by
  apply Classical.byContradiction
  intro hno
  have hall : ∀ k, ¬ EqOn n (S n a (k + 1)) (S n a k) := fun k hk => hno ⟨k, hk⟩
  have h1 := Phi_ge_of_not_stationary n a hall (4 * n * n + 1)
  have h2 := Phi_le n (S n a (4 * n * n + 1))
  omega

/-! ## the chains on names -/

abbrev NF := String → String → Scalar

def PN (L : List String) (g : NF) : Nat → NF
  | 0 => idS
  | k + 1 => mulN L (PN L g k) g

def SN (L : List String) (g : NF) : Nat → NF
  | 0 => idS
  | k + 1 => fun x y => SN L g k x y + PN L g (k + 1) x y

theorem dn_PN {L : List String} (hL : L.Nodup) (g : NF) (k : Nat) :
    EqOn L.length (dn L (PN L g k)) (P L.length (dn L g) k) := by
  induction k with
  | zero => exact dn_idS hL
  | succ k ih =>
    show EqOn L.length (dn L (mulN L (PN L g k) g)) (fmul L.length (P L.length (dn L g) k) (dn L g))
    rw [← fmul_dn]
    exact fmul_congr ih (EqOn.refl _ _)

theorem dn_SN {L : List String} (hL : L.Nodup) (g : NF) (k : Nat) :
    EqOn L.length (dn L (SN L g k)) (S L.length (dn L g) k) := by
  induction k with
  | zero => exact dn_idS hL
  | succ k ih =>
    intro i hi j hj
    show SN L g k _ _ + PN L g (k + 1) _ _ = S L.length (dn L g) k i j + P L.length (dn L g) (k + 1) i j
    rw [← ih i hi j hj, ← dn_PN hL g (k + 1) i hi j hj]
    rfl

/-- stationary on the names of `L` -/
def StatN (L : List String) (g : NF) (k : Nat) : Prop :=
  ∀ x ∈ L, ∀ y ∈ L, SN L g (k + 1) x y = SN L g k x y

theorem mem_getD_idx {L : List String} {x : String} (hx : x ∈ L) :
    ∃ i, i < L.length ∧ L.getD i "" = x := by
  rcases idx_cases L x with ⟨h, _⟩ | ⟨_, i, hi, hxi, _⟩
  · exact absurd hx h
  · exact ⟨i, hi, idx_getD hxi ""⟩

theorem statN_iff {L : List String} (hL : L.Nodup) (g : NF) (k : Nat) :
    StatN L g k ↔ EqOn L.length (S L.length (dn L g) (k + 1)) (S L.length (dn L g) k) := by
  constructor
  · intro h i hi j hj
    rw [← dn_SN hL g (k + 1) i hi j hj, ← dn_SN hL g k i hi j hj]
    exact h _ (getD_mem L i "" hi) _ (getD_mem L j "" hj)
  · intro h x hx y hy
    obtain ⟨i, hi, rfl⟩ := mem_getD_idx hx
    obtain ⟨j, hj, rfl⟩ := mem_getD_idx hy
    have := h i hi j hj
    rw [← dn_SN hL g (k + 1) i hi j hj, ← dn_SN hL g k i hi j hj] at this
    exact this

theorem exists_statN {L : List String} (hL : L.Nodup) (g : NF) : ∃ k, StatN L g k := by
  obtain ⟨k, hk⟩ := exists_stationary L.length (dn L g)
  exact ⟨k, (statN_iff hL g k).2 hk⟩

/-- the closure of the dense matrix of `g` over `L` is any stationary value of the name chain -/
theorem closure_matOf {L : List String} (hL : L.Nodup) (g : NF) (k : Nat) (hk : StatN L g k) :
    SMat.closure (matOf L g) = matOf L (SN L g (k + 1)) := by
  unfold matOf
  rw [closure_of_stationary L.length (dn L g) k ((statN_iff hL g k).1 hk)]
  exact (mk_congr (dn_SN hL g (k + 1))).symm

/-- chains that agree on `L` have the same closure -/
theorem closure_congr_chain {L : List String} (hL : L.Nodup) (g g' : NF)
    (h : ∀ k, ∀ x ∈ L, ∀ y ∈ L, SN L g' k x y = SN L g k x y) :
    SMat.closure (matOf L g') = SMat.closure (matOf L g) := by
  obtain ⟨k, hk⟩ := exists_statN hL g
  have hk' : StatN L g' k := by
    intro x hx y hy
    rw [h (k + 1) x hx y hy, h k x hx y hy]
    exact hk x hx y hy
  rw [closure_matOf hL g k hk, closure_matOf hL g' k hk']
  exact matOf_congr (h (k + 1))

/-! ## ∞-freeness along the chain -/

theorem sumScalars_ne_i {l : List Scalar} (h : ∀ s ∈ l, s ≠ .i) : sumScalars l ≠ .i :=
  fun e => h _ (mem_of_sumScalars_eq_i e) rfl

theorem mulN_fin {L : List String} {a b : NF} (ha : ∀ x y, a x y ≠ .i) (hb : ∀ x y, b x y ≠ .i) :
    ∀ x y, mulN L a b x y ≠ .i := by
  intro x y
  apply sumScalars_ne_i
  intro s hs
  rw [List.mem_map] at hs
  obtain ⟨k, _, rfl⟩ := hs
  exact mul_ne_i (ha x k) (hb k y)

theorem PN_fin {L : List String} {g : NF} (hg : ∀ x y, g x y ≠ .i) (k : Nat) :
    ∀ x y, PN L g k x y ≠ .i := by
  induction k with
  | zero => exact idS_ne_i
  | succ k ih => exact mulN_fin ih hg

theorem SN_fin {L : List String} {g : NF} (hg : ∀ x y, g x y ≠ .i) (k : Nat) :
    ∀ x y, SN L g k x y ≠ .i := by
  induction k with
  | zero => exact idS_ne_i
  | succ k ih => intro x y; exact add_ne_i (ih x y) (PN_fin hg (k + 1) x y)

/-! ## products with the identity -/

/-- `Σ_z [x = z] · h z = h x` when `h` is ∞-free and `x ∈ L` -/
theorem sum_idS_left {L : List String} {x : String} (hx : x ∈ L) (h : String → Scalar)
    (hf : ∀ z, h z ≠ .i) : sumScalars (L.map fun z => idS x z * h z) = h x := by
  rw [sumScalars_map_single L _ x, if_pos hx, idS_self, prod_unit_left]
  intro k _ hk
  rw [idS_of_ne (fun e => hk e.symm)]
  exact o_mul_of_ne_i (hf k)

theorem sum_idS_right {L : List String} {y : String} (hy : y ∈ L) (h : String → Scalar)
    (hf : ∀ z, h z ≠ .i) : sumScalars (L.map fun z => h z * idS z y) = h y := by
  rw [sumScalars_map_single L _ y, if_pos hy, idS_self, prod_unit_right]
  intro k _ hk
  rw [idS_of_ne hk]
  exact mul_o_of_ne_i (hf k)

theorem PN_one {L : List String} {g : NF} (hg : ∀ x y, g x y ≠ .i) {x : String} (hx : x ∈ L) (y : String) :
    PN L g 1 x y = g x y :=
  sum_idS_left hx (fun z => g z y) (fun z => hg z y)

/-! ## block structure -/

section block
variable {vs U : List String} (hvs : vs.Nodup) (hU : U.Nodup) (hsub : ∀ v ∈ vs, v ∈ U)
variable {g : NF} (hg : ∀ x y, g x y ≠ .i) (hsup : ∀ x y, ¬ (x ∈ vs ∧ y ∈ vs) → g x y = idS x y)
include hvs hU hsub hg hsup

theorem PN_block (k : Nat) : ∀ x ∈ U, ∀ y ∈ U,
    PN U g k x y = if x ∈ vs ∧ y ∈ vs then PN vs g k x y else idS x y := by
  induction k with
  | zero => intro x _ y _; show idS x y = _; split <;> rfl
  | succ k ih =>
    intro x hx y hy
    show sumScalars (U.map fun z => PN U g k x z * g z y) = _
    by_cases hxv : x ∈ vs
    · by_cases hyv : y ∈ vs
      · rw [if_pos ⟨hxv, hyv⟩]
        rw [sumScalars_extend vs U hvs hU hsub]
        · show _ = sumScalars (vs.map fun z => PN vs g k x z * g z y)
          apply sumScalars_map_congr
          intro z hz
          rw [ih x hx z (hsub z hz), if_pos ⟨hxv, hz⟩]
        · intro z hz hzv
          rw [ih x hx z hz, if_neg (fun h => hzv h.2), idS_of_ne (fun e : x = z => hzv (e ▸ hxv))]
          exact o_mul_of_ne_i (hg z y)
      · rw [if_neg (fun h => hyv h.2)]
        have e1 : ∀ z ∈ U, PN U g k x z * g z y = PN U g k x z * idS z y := by
          intro z _
          rw [hsup z y (fun h => hyv h.2)]
        rw [sumScalars_map_congr U _ _ e1, sum_idS_right hy (fun z => PN U g k x z)
          (fun z => PN_fin hg k x z), ih x hx y hy, if_neg (fun h => hyv h.2)]
    · rw [if_neg (fun h => hxv h.1)]
      have e1 : ∀ z ∈ U, PN U g k x z * g z y = idS x z * g z y := by
        intro z hz
        rw [ih x hx z hz, if_neg (fun h => hxv h.1)]
      rw [sumScalars_map_congr U _ _ e1, sum_idS_left hx (fun z => g z y) (fun z => hg z y),
        hsup x y (fun h => hxv h.1)]

theorem SN_block (k : Nat) : ∀ x ∈ U, ∀ y ∈ U,
    SN U g k x y = if x ∈ vs ∧ y ∈ vs then SN vs g k x y else idS x y := by
  induction k with
  | zero => intro x _ y _; show idS x y = _; split <;> rfl
  | succ k ih =>
    intro x hx y hy
    show SN U g k x y + PN U g (k + 1) x y = _
    rw [ih x hx y hy, PN_block hvs hU hsub hg hsup (k + 1) x hx y hy]
    split
    · rfl
    · exact sum_idem _

end block

/-- `SMat.den` is the identity outside the universe -/
theorem smat_den_outside {L : List String} (M : SMat) {x y : String} (h : ¬ (x ∈ L ∧ y ∈ L)) :
    SMat.den L M x y = idS x y := by
  unfold SMat.den idS
  rcases idx_cases L x with ⟨_, hx⟩ | ⟨hx, i, _, hxi, _⟩
  · rw [hx]
  · rcases idx_cases L y with ⟨_, hy⟩ | ⟨hy, j, _, hyj, _⟩
    · rw [hxi, hy]
    · exact absurd ⟨hx, hy⟩ h

/-- **Block lemma.**  If `g` is ∞-free and is the identity outside `vs ⊆ U`, the closure of its
    dense matrix over `U` is the closure over `vs`, extended by the identity. -/
theorem closure_block {vs U : List String} (hvs : vs.Nodup) (hU : U.Nodup) (hsub : ∀ v ∈ vs, v ∈ U)
    {g : NF} (hg : ∀ x y, g x y ≠ .i) (hsup : ∀ x y, ¬ (x ∈ vs ∧ y ∈ vs) → g x y = idS x y) :
    SMat.closure (matOf U g) = matOf U (SMat.den vs (SMat.closure (matOf vs g))) := by
  obtain ⟨k, hk⟩ := exists_statN hvs g
  have hkU : StatN U g k := by
    intro x hx y hy
    rw [SN_block hvs hU hsub hg hsup (k + 1) x hx y hy, SN_block hvs hU hsub hg hsup k x hx y hy]
    split
    · rename_i h; exact hk x h.1 y h.2
    · rfl
  rw [closure_matOf hU g k hkU, closure_matOf hvs g k hk]
  apply matOf_congr
  intro x hx y hy
  rw [SN_block hvs hU hsub hg hsup (k + 1) x hx y hy]
  split
  · rename_i h; exact (den_matOf vs _ h.1 h.2).symm
  · rename_i h; exact (smat_den_outside _ h).symm

/-- the closure of an ∞-free matrix is ∞-free -/
theorem closure_fin {L : List String} (hL : L.Nodup) {g : NF} (hg : ∀ x y, g x y ≠ .i) (x y : String) :
    SMat.den L (SMat.closure (matOf L g)) x y ≠ .i := by
  obtain ⟨k, hk⟩ := exists_statN hL g
  rw [closure_matOf hL g k hk]
  by_cases h : x ∈ L ∧ y ∈ L
  · rw [den_matOf L _ h.1 h.2]; exact SN_fin hg (k + 1) x y
  · rw [smat_den_outside _ h]; exact idS_ne_i x y

/-- the diagonal of a closure is at least `m` -/
theorem closure_diag_ne_o {L : List String} (hL : L.Nodup) (g : NF) {x : String} (hx : x ∈ L) :
    SMat.den L (SMat.closure (matOf L g)) x x ≠ .o := by
  obtain ⟨k, hk⟩ := exists_statN hL g
  rw [closure_matOf hL g k hk, den_matOf L _ hx hx]
  have : ∀ k, SN L g k x x ≠ .o := by
    intro k
    induction k with
    | zero => show idS x x ≠ .o; rw [idS_self]; decide
    | succ k ih =>
      show SN L g k x x + PN L g (k + 1) x x ≠ .o
      intro e
      exact ih (add_eq_o e).1
  exact this (k + 1)

/-- an ∞ inside the matrix makes the closure ∞ everywhere on `L` -/
theorem closure_inf {L : List String} {g : NF} {a b : String} (ha : a ∈ L) (hb : b ∈ L)
    (hab : g a b = .i) : SMat.closure (matOf L g) = matOf L (fun _ _ => .i) := by
  obtain ⟨i, hi, rfl⟩ := mem_getD_idx ha
  obtain ⟨j, hj, rfl⟩ := mem_getD_idx hb
  unfold matOf
  rw [closure_of_infinite (a := dn L g) hi hj hab]
  rfl

/-! ## zeroing the row of an isolated variable -/

section zerorow
variable {L : List String} (hL : L.Nodup) {X : String} (hX : X ∈ L)
variable {g g1 : NF} (hg : ∀ x y, g x y ≠ .i)
  (hrow : ∀ y, g X y = idS X y) (hcol : ∀ y, g y X = idS y X)
  (h1 : ∀ x y, g1 x y = if x = X then .o else g x y)
include hL hX hg hrow hcol h1

omit hL h1 in
theorem PN_isolated (k : Nat) : (∀ y ∈ L, PN L g k X y = idS X y) ∧ (∀ y ∈ L, PN L g k y X = idS y X) := by
  induction k with
  | zero => exact ⟨fun _ _ => rfl, fun _ _ => rfl⟩
  | succ k ih =>
    constructor
    · intro y _
      show sumScalars (L.map fun z => PN L g k X z * g z y) = _
      have e1 : ∀ z ∈ L, PN L g k X z * g z y = idS X z * g z y := by
        intro z hz; rw [ih.1 z hz]
      rw [sumScalars_map_congr L _ _ e1, sum_idS_left hX (fun z => g z y) (fun z => hg z y), hrow]
    · intro y hy
      show sumScalars (L.map fun z => PN L g k y z * g z X) = _
      have e1 : ∀ z ∈ L, PN L g k y z * g z X = PN L g k y z * idS z X := by
        intro z _; rw [hcol]
      rw [sumScalars_map_congr L _ _ e1, sum_idS_right hX (fun z => PN L g k y z)
        (fun z => PN_fin hg k y z), ih.2 y hy]

omit hL h1 in
theorem SN_isolated (k : Nat) : ∀ y ∈ L, SN L g k X y = idS X y := by
  induction k with
  | zero => exact fun _ _ => rfl
  | succ k ih =>
    intro y hy
    show SN L g k X y + PN L g (k + 1) X y = _
    rw [ih y hy, (PN_isolated hX hg hrow hcol (k + 1)).1 y hy, sum_idem]

omit hL hX hrow hcol in
theorem g1_fin : ∀ x y, g1 x y ≠ .i := by
  intro x y
  rw [h1]
  split
  · decide
  · exact hg x y

omit hL in
theorem PN_zero_row (k : Nat) : ∀ x ∈ L, ∀ y ∈ L,
    PN L g1 (k + 1) x y = if x = X then .o else PN L g (k + 1) x y := by
  have hg1 := g1_fin hg h1
  induction k with
  | zero =>
    intro x hx y _
    rw [PN_one hg1 hx, PN_one hg hx, h1]
  | succ k ih =>
    intro x hx y hy
    show sumScalars (L.map fun z => PN L g1 (k + 1) x z * g1 z y) = _
    by_cases hxX : x = X
    · rw [if_pos hxX]
      apply sumScalars_map_o
      intro z hz
      rw [ih x hx z hz, if_pos hxX]
      exact o_mul_of_ne_i (hg1 z y)
    · rw [if_neg hxX]
      show _ = sumScalars (L.map fun z => PN L g (k + 1) x z * g z y)
      apply sumScalars_map_congr
      intro z hz
      rw [ih x hx z hz, if_neg hxX, h1]
      split
      · rename_i hzX
        subst hzX
        rw [(PN_isolated hX hg hrow hcol (k + 1)).2 x hx, idS_of_ne hxX, hrow]
        rw [o_mul_of_ne_i (idS_ne_i _ _)]
        rfl
      · rfl

omit hL in
theorem SN_zero_row (k : Nat) : ∀ x ∈ L, ∀ y ∈ L, SN L g1 k x y = SN L g k x y := by
  induction k with
  | zero => exact fun _ _ _ _ => rfl
  | succ k ih =>
    intro x hx y hy
    show SN L g1 k x y + PN L g1 (k + 1) x y = SN L g k x y + PN L g (k + 1) x y
    rw [ih x hx y hy, PN_zero_row hX hg hrow hcol h1 k x hx y hy]
    split
    · rename_i hxX
      subst hxX
      rw [(PN_isolated hX hg hrow hcol (k + 1)).1 y hy, SN_isolated hX hg hrow hcol k y hy,
        sum_idem, sum_zero_right]
    · rfl

/-- **Zero-row lemma.**  `X` isolated in the ∞-free `g`; `g1` is `g` with row `X` zeroed (also the
    diagonal).  Both have the same closure. -/
theorem closure_zero_row : SMat.closure (matOf L g1) = SMat.closure (matOf L g) :=
  closure_congr_chain hL g g1 (SN_zero_row hX hg hrow hcol h1)

end zerorow

/-- row and column of an isolated variable in the closure are those of the identity -/
theorem closure_isolated {L : List String} (hL : L.Nodup) {X : String} (hX : X ∈ L) {g : NF}
    (hg : ∀ x y, g x y ≠ .i) (hrow : ∀ y, g X y = idS X y) (hcol : ∀ y, g y X = idS y X) (y : String) :
    SMat.den L (SMat.closure (matOf L g)) X y = idS X y := by
  obtain ⟨k, hk⟩ := exists_statN hL g
  rw [closure_matOf hL g k hk]
  by_cases hy : y ∈ L
  · rw [den_matOf L _ hX hy]; exact SN_isolated hX hg hrow hcol (k + 1) y hy
  · exact smat_den_outside _ (fun h => hy h.2)

end Refine
end Mwp
