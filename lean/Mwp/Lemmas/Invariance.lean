/-
  The C12 invariances lifted from the calculus to the MODEL of the analysis (`Analysis.func`):
  the verdict depends only on the calculus reading of the function (`Spec.desugarFunc`), is
  invariant under injective renaming of the variables, and the set of reported matrices depends
  only on the reading (and the variable list).  Corollaries of Props/C02
  (`infinite_iff_no_derivation_any_universe`), `Mwp.func_total`, `Misc12.sem_rename_aux`,
  Props/C01b (`reported_matrices_are_exactly_derivable`).
-/
import Mwp.Props.C02
import Mwp.Props.C01b
import Mwp.Lemmas.Misc12
namespace Mwp
namespace Invariance
open Mwp.Analysis Mwp.Spec Mwp.Refine

/-! ## a duplicate-free universe containing two duplicate-free lists -/

def union (a b : List String) : List String := a ++ b.filter (fun v => !a.contains v)

theorem union_nodup {a b : List String} (ha : a.Nodup) (hb : b.Nodup) : (union a b).Nodup := by
  unfold union
  rw [List.nodup_append]
  refine ⟨ha, hb.sublist List.filter_sublist, ?_⟩
  intro x hx y hy hxy
  subst hxy
  simp only [List.mem_filter, Bool.not_eq_true'] at hy
  have : a.contains x = true := List.contains_iff_mem.2 hx
  rw [hy.2] at this
  cases this

theorem mem_union_left {a b : List String} {v : String} (h : v ∈ a) : v ∈ union a b :=
  List.mem_append_left _ h

theorem mem_union_right {a b : List String} {v : String} (h : v ∈ b) : v ∈ union a b := by
  unfold union
  by_cases hv : v ∈ a
  · exact List.mem_append_left _ hv
  · apply List.mem_append_right
    simp only [List.mem_filter, Bool.not_eq_true']
    refine ⟨h, ?_⟩
    cases hc : a.contains v with
    | false => rfl
    | true => exact absurd (List.contains_iff_mem.1 hc) hv

theorem nodup_map_of_injective {ρ : String → String} (hρ : Function.Injective ρ) :
    ∀ {l : List String}, l.Nodup → (l.map ρ).Nodup
  | [], _ => List.nodup_nil
  | a :: t, h => by
    rw [List.nodup_cons] at h
    rw [List.map_cons, List.nodup_cons]
    refine ⟨?_, nodup_map_of_injective hρ h.2⟩
    intro hm
    obtain ⟨b, hb, hab⟩ := List.mem_map.1 hm
    exact h.1 (hρ hab ▸ hb)

/-! ## renaming keeps the arity -/

mutual
theorem arity_rename (ρ : String → String) : ∀ cmd : Cmd, (cmd.rename ρ).arity = cmd.arity
  | .skip => by simp only [Cmd.rename, Cmd.arity]
  | .asgnVar _ _ => by simp only [Cmd.rename, Cmd.arity]
  | .asgnConst _ => by simp only [Cmd.rename, Cmd.arity]
  | .bin _ _ _ _ => by simp only [Cmd.rename, Cmd.arity]
  | .seq l => by simp only [Cmd.rename, Cmd.arity, arityL_rename ρ l]
  | .ite t f => by simp only [Cmd.rename, Cmd.arity, arity_rename ρ t, arity_rename ρ f]
  | .while_ b => by simp only [Cmd.rename, Cmd.arity, arity_rename ρ b]
  | .loop _ b => by simp only [Cmd.rename, Cmd.arity, arity_rename ρ b]
theorem arityL_rename (ρ : String → String) : ∀ l : List Cmd, arityL (renameL ρ l) = arityL l
  | [] => by simp only [renameL, arityL]
  | c :: cs => by simp only [renameL, arityL, arity_rename ρ c, arityL_rename ρ cs]
end

end Invariance

open Mwp.Analysis Mwp.Spec Mwp.Refine Invariance in
/-- (1) Two supported functions with the same calculus reading get the same verdict, in any two
    modes — whatever their layout (do-while vs while, casts, labels, parameter lists, …). -/
theorem verdict_depends_only_on_reading (n1 n2 : Node) (hok1 : FuncOk n1 = true)
    (hok2 : FuncOk n2 = true) (cmd : Cmd) (hd1 : desugarFunc n1 = some cmd)
    (hd2 : desugarFunc n2 = some cmd) (s1 s2 : Bool) (r1 r2 : FuncRes)
    (h1 : func n1 s1 = .ok r1) (h2 : func n2 s2 = .ok r2) : r1.infinite = r2.infinite := by
  obtain ⟨vs1, hvs1, hnd1, _⟩ := func_sem n1 s1 r1 hok1 h1 cmd hd1
  obtain ⟨vs2, hvs2, hnd2, _⟩ := func_sem n2 s2 r2 hok2 h2 cmd hd2
  have i1 := Props.C02.infinite_iff_no_derivation_any_universe n1 s1 r1 hok1 h1 cmd hd1 vs1 hvs1
    (union vs1 vs2) (union_nodup hnd1 hnd2) (fun v hv => mem_union_left hv)
  have i2 := Props.C02.infinite_iff_no_derivation_any_universe n2 s2 r2 hok2 h2 cmd hd2 vs2 hvs2
    (union vs1 vs2) (union_nodup hnd1 hnd2) (fun v hv => mem_union_right hv)
  exact Bool.eq_iff_iff.2 (i1.trans i2.symm)

open Mwp.Analysis Mwp.Spec Mwp.Refine Invariance in
/-- (1), without any hypothesis about the runs: both analyses return, with the same verdict -/
theorem verdict_depends_only_on_reading_total (n1 n2 : Node) (hok1 : FuncOk n1 = true)
    (hok2 : FuncOk n2 = true) (cmd : Cmd) (hd1 : desugarFunc n1 = some cmd)
    (hd2 : desugarFunc n2 = some cmd) (s1 s2 : Bool) :
    ∃ r1 r2, func n1 s1 = .ok r1 ∧ func n2 s2 = .ok r2 ∧ r1.infinite = r2.infinite := by
  obtain ⟨r1, h1⟩ := func_total n1 s1 hok1 cmd hd1
  obtain ⟨r2, h2⟩ := func_total n2 s2 hok2 cmd hd2
  exact ⟨r1, r2, h1, h2, verdict_depends_only_on_reading n1 n2 hok1 hok2 cmd hd1 hd2 s1 s2 r1 r2 h1 h2⟩

open Mwp.Analysis Mwp.Spec Mwp.Refine Invariance in
/-- (2) The verdict is invariant under injective renaming of the variables: if `n2` reads as the
    renamed reading of `n1` and declares no variable that is not the image of a variable of `n1`
    (`hvars`), both get the same verdict. -/
theorem verdict_invariant_under_renaming (ρ : String → String) (hρ : Function.Injective ρ)
    (n1 n2 : Node) (hok1 : FuncOk n1 = true) (hok2 : FuncOk n2 = true) (cmd : Cmd)
    (hd1 : desugarFunc n1 = some cmd) (hd2 : desugarFunc n2 = some (cmd.rename ρ))
    (vs1 vs2 : List String) (hvs1 : Syntax.variables n1 = .ok vs1)
    (hvs2 : Syntax.variables n2 = .ok vs2) (hvars : ∀ v ∈ vs2, ∃ u ∈ vs1, ρ u = v)
    (s1 s2 : Bool) (r1 r2 : FuncRes)
    (h1 : func n1 s1 = .ok r1) (h2 : func n2 s2 = .ok r2) : r1.infinite = r2.infinite := by
  obtain ⟨vs1', hvs1', hnd1, _⟩ := func_sem n1 s1 r1 hok1 h1 cmd hd1
  have e1 : vs1' = vs1 := by rw [hvs1] at hvs1'; exact (Except.ok.inj hvs1').symm
  subst e1
  have i1 := Props.C02.infinite_iff_no_derivation_any_universe n1 s1 r1 hok1 h1 cmd hd1 vs1' hvs1
    vs1' hnd1 (fun v hv => hv)
  have i2 := Props.C02.infinite_iff_no_derivation_any_universe n2 s2 r2 hok2 h2 _ hd2 vs2 hvs2
    (vs1'.map ρ) (nodup_map_of_injective hρ hnd1) (fun v hv => by
      obtain ⟨u, hu, rfl⟩ := hvars v hv
      exact List.mem_map_of_mem hu)
  rw [arity_rename] at i2
  simp only [Misc12.sem_rename_aux ρ hρ] at i2
  exact Bool.eq_iff_iff.2 (i1.trans i2.symm)

open Mwp.Analysis Mwp.Spec Mwp.Refine Invariance in
/-- (2), without any hypothesis about the runs -/
theorem verdict_invariant_under_renaming_total (ρ : String → String) (hρ : Function.Injective ρ)
    (n1 n2 : Node) (hok1 : FuncOk n1 = true) (hok2 : FuncOk n2 = true) (cmd : Cmd)
    (hd1 : desugarFunc n1 = some cmd) (hd2 : desugarFunc n2 = some (cmd.rename ρ))
    (vs1 vs2 : List String) (hvs1 : Syntax.variables n1 = .ok vs1)
    (hvs2 : Syntax.variables n2 = .ok vs2) (hvars : ∀ v ∈ vs2, ∃ u ∈ vs1, ρ u = v) (s1 s2 : Bool) :
    ∃ r1 r2, func n1 s1 = .ok r1 ∧ func n2 s2 = .ok r2 ∧ r1.infinite = r2.infinite := by
  obtain ⟨r1, h1⟩ := func_total n1 s1 hok1 cmd hd1
  obtain ⟨r2, h2⟩ := func_total n2 s2 hok2 _ hd2
  exact ⟨r1, r2, h1, h2, verdict_invariant_under_renaming ρ hρ n1 n2 hok1 hok2 cmd hd1 hd2 vs1 vs2
    hvs1 hvs2 hvars s1 s2 r1 r2 h1 h2⟩

open Mwp.Analysis Mwp.Spec Mwp.Refine in
/-- (3) Two supported functions with the same reading and the same reported variable list, both
    reported finite, report the same set of matrices (the matrices obtained by applying a valid
    choice to the reported relation). -/
theorem derivable_matrices_depend_only_on_reading (n1 n2 : Node) (hok1 : FuncOk n1 = true)
    (hok2 : FuncOk n2 = true) (cmd : Cmd) (hd1 : desugarFunc n1 = some cmd)
    (hd2 : desugarFunc n2 = some cmd) (s1 s2 : Bool) (r1 r2 : FuncRes)
    (h1 : func n1 s1 = .ok r1) (h2 : func n2 s2 = .ok r2)
    (hf1 : r1.infinite = false) (hf2 : r2.infinite = false) (hU : r1.variables = r2.variables)
    (rel1 rel2 : Relation) (hr1 : r1.relation = some rel1) (hr2 : r2.relation = some rel2)
    (ch1 ch2 : Choices.T) (hc1 : r1.choices = some ch1) (hc2 : r2.choices = some ch2) (M : SMat) :
    (∃ c : Choice, c.length = cmd.arity ∧ (∀ v ∈ c, v < 3) ∧ Choices.isValid ch1 c = true ∧
        rel1.applyChoice c = M) ↔
    (∃ c : Choice, c.length = cmd.arity ∧ (∀ v ∈ c, v < 3) ∧ Choices.isValid ch2 c = true ∧
        rel2.applyChoice c = M) := by
  rw [Props.C01b.reported_matrices_are_exactly_derivable n1 s1 r1 hok1 h1 cmd hd1 hf1 rel1 hr1 ch1 hc1 M,
    Props.C01b.reported_matrices_are_exactly_derivable n2 s2 r2 hok2 h2 cmd hd2 hf2 rel2 hr2 ch2 hc2 M,
    hU]

end Mwp
