/-
  Helper lemmas about the bound-text model (`Mwp.Model.Bound`): folds, evaluation of
  `max(...)` argument lists, `splitOn`/`joinWith` round trip, characters of rendered text.
-/
import Mwp.Model.Bound
namespace Mwp
namespace Bound

/-! ### folds -/

theorem nmax_assoc (a b c : Nat) : Nat.max (Nat.max a b) c = Nat.max a (Nat.max b c) :=
  Nat.max_assoc a b c
theorem nzero_max (a : Nat) : Nat.max 0 a = a := Nat.zero_max a
theorem nmax_zero (a : Nat) : Nat.max a 0 = a := Nat.max_zero a

theorem foldl_max_acc (l : List Nat) (a : Nat) :
    l.foldl Nat.max a = Nat.max a (l.foldl Nat.max 0) := by
  induction l generalizing a with
  | nil => simp
  | cons b t ih =>
    simp only [List.foldl_cons]
    rw [ih (Nat.max a b), ih (Nat.max 0 b), nzero_max, nmax_assoc]

theorem foldl_add_acc (l : List Nat) (a : Nat) :
    l.foldl (· + ·) a = a + l.foldl (· + ·) 0 := by
  induction l generalizing a with
  | nil => simp
  | cons b t ih =>
    simp only [List.foldl_cons]
    rw [ih (a + b), ih (0 + b)]
    omega

@[simp] theorem maxL_nil (ρ : String → Nat) : maxL ρ [] = 0 := rfl
@[simp] theorem sumL_nil (ρ : String → Nat) : sumL ρ [] = 0 := rfl

theorem maxL_cons (ρ : String → Nat) (a : String) (l : List String) :
    maxL ρ (a :: l) = Nat.max (ρ a) (maxL ρ l) := by
  unfold maxL
  simp only [List.map_cons, List.foldl_cons]
  rw [foldl_max_acc, nzero_max]

theorem sumL_cons (ρ : String → Nat) (a : String) (l : List String) :
    sumL ρ (a :: l) = ρ a + sumL ρ l := by
  unfold sumL
  simp only [List.map_cons, List.foldl_cons]
  rw [foldl_add_acc]
  omega

theorem maxL_singleton (ρ : String → Nat) (a : String) : maxL ρ [a] = ρ a := by
  simp [maxL_cons]

theorem sumL_singleton (ρ : String → Nat) (a : String) : sumL ρ [a] = ρ a := by
  simp [sumL_cons]

/-! ### evaluation of argument lists -/

@[simp] theorem evalMax_nil (ρ : String → Nat) : evalMax ρ [] = 0 := by
  simp [evalMax]

@[simp] theorem evalMax_cons (ρ : String → Nat) (a : BExpr) (t : List BExpr) :
    evalMax ρ (a :: t) = Nat.max (a.eval ρ) (evalMax ρ t) := by
  simp [evalMax]

theorem evalMax_map_var_append (ρ : String → Nat) (l : List String) (t : List BExpr) :
    evalMax ρ (l.map BExpr.var ++ t) = Nat.max (maxL ρ l) (evalMax ρ t) := by
  induction l with
  | nil => simp
  | cons a l ih =>
    simp only [List.map_cons, List.cons_append, evalMax_cons, ih, maxL_cons, BExpr.eval,
      nmax_assoc]

theorem evalMax_map_var (ρ : String → Nat) (l : List String) :
    evalMax ρ (l.map BExpr.var) = maxL ρ l := by
  have h := evalMax_map_var_append ρ l []
  simpa [nmax_zero] using h

/-! ### `splitOn` / `joinWith` -/

theorem splitOn_ne_nil (sep : Char) (s : Str) : splitOn sep s ≠ [] := by
  cases s with
  | nil => simp [splitOn]
  | cons c cs =>
    simp only [splitOn]
    split
    · simp
    · split <;> simp

theorem splitOn_of_not_mem {sep : Char} {s : Str} (h : sep ∉ s) : splitOn sep s = [s] := by
  induction s with
  | nil => simp [splitOn]
  | cons c cs ih =>
    have hc : c ≠ sep := fun e => h (by simp [e])
    have hcs : sep ∉ cs := fun e => h (by simp [e])
    simp [splitOn, ih hcs, hc]

theorem splitOn_append_sep {sep : Char} {a : Str} (rest : Str) (h : sep ∉ a) :
    splitOn sep (a ++ sep :: rest) = a :: splitOn sep rest := by
  induction a with
  | nil =>
    simp only [List.nil_append, splitOn]
    cases hr : splitOn sep rest with
    | nil => exact absurd hr (splitOn_ne_nil _ _)
    | cons f fs => simp
  | cons c cs ih =>
    have hc : c ≠ sep := fun e => h (by simp [e])
    have hcs : sep ∉ cs := fun e => h (by simp [e])
    simp [splitOn, ih hcs, hc]

theorem splitOn_joinWith (sep : Char) (fields : List Str) (hne : fields ≠ [])
    (h : ∀ f ∈ fields, sep ∉ f) : splitOn sep (joinWith [sep] fields) = fields := by
  induction fields with
  | nil => exact absurd rfl hne
  | cons a t ih =>
    cases t with
    | nil => simpa [joinWith] using splitOn_of_not_mem (h a (by simp))
    | cons b t =>
      have ha : sep ∉ a := h a (by simp)
      have ht : ∀ f ∈ b :: t, sep ∉ f := fun f hf => h f (by simp [hf])
      simp only [joinWith, List.append_assoc, List.singleton_append]
      rw [splitOn_append_sep _ ha, ih (by simp) ht]

theorem mem_joinWith {c : Char} {sep : Str} {fields : List Str}
    (h : c ∈ joinWith sep fields) : c ∈ sep ∨ ∃ f ∈ fields, c ∈ f := by
  induction fields with
  | nil => simp [joinWith] at h
  | cons a t ih =>
    cases t with
    | nil => exact Or.inr ⟨a, by simp, by simpa [joinWith] using h⟩
    | cons b t =>
      simp only [joinWith, List.mem_append] at h
      rcases h with (h | h) | h
      · exact Or.inr ⟨a, by simp, h⟩
      · exact Or.inl h
      · rcases ih h with h | ⟨f, hf, hc⟩
        · exact Or.inl h
        · exact Or.inr ⟨f, by simp [hf], hc⟩

theorem joinWith_eq_nil {sep : Str} {fields : List Str} (hf : ∀ f ∈ fields, f ≠ [])
    (h : joinWith sep fields = []) : fields = [] := by
  cases fields with
  | nil => rfl
  | cons a t =>
    exfalso
    have ha : a ≠ [] := hf a (by simp)
    cases t with
    | nil => exact ha (by simpa [joinWith] using h)
    | cons b t =>
      simp only [joinWith, List.append_eq_nil_iff] at h
      exact ha h.1.1

theorem sep_mem_joinWith_cons_cons {c : Char} {sep : Str} (a b : Str) (t : List Str)
    (h : c ∈ sep) : c ∈ joinWith sep (a :: b :: t) := by
  simp [joinWith, h]

theorem not_mem_joinWith_names {c d : Char} (hcd : c ≠ d) (l : List String)
    (h : ∀ n ∈ l, c ∉ n.toList) : c ∉ joinWith [d] (l.map String.toList) := by
  intro hc
  rcases mem_joinWith hc with hc | ⟨f, hf, hc⟩
  · exact hcd (by simpa using hc)
  · rcases List.mem_map.1 hf with ⟨n, hn, rfl⟩
    exact h n hn hc

/-- One `;`-field of `parse`: an empty field is the empty list, otherwise split on commas. -/
theorem parse_field (l : List String) (h : ∀ n ∈ l, n.toList ≠ [] ∧ ',' ∉ n.toList) :
    (if (joinWith [','] (l.map String.toList)).isEmpty then []
      else splitOn ',' (joinWith [','] (l.map String.toList))) = l.map String.toList := by
  cases l with
  | nil => simp [joinWith]
  | cons a t =>
    have hne : joinWith [','] ((a :: t).map String.toList) ≠ [] := by
      intro e
      have := joinWith_eq_nil (sep := [',']) (fields := (a :: t).map String.toList) (by
        intro f hf
        rcases List.mem_map.1 hf with ⟨n, hn, rfl⟩
        exact (h n hn).1) e
      simp at this
    have hsplit := splitOn_joinWith ',' ((a :: t).map String.toList) (by simp) (by
      intro f hf
      rcases List.mem_map.1 hf with ⟨n, hn, rfl⟩
      exact (h n hn).2)
    rw [hsplit]
    simp only [List.isEmpty_iff, hne, if_false]

/-! ### characters of rendered text -/

theorem paren_mem_render_maxOf (args : List BExpr) : '(' ∈ (BExpr.maxOf args).render := by
  simp only [BExpr.render, List.mem_append]
  exact Or.inl (Or.inl (by decide))

theorem plus_mem_render_plus (a b : BExpr) : '+' ∈ (BExpr.plus a b).render := by
  simp [BExpr.render]

/-- Unless exactly one name is listed overall, the non-compact text contains `(` or `*`,
    or is the literal `0`. -/
theorem render_boundPoly_false_bad (x y z : List String)
    (h : ¬ ∃ n, (x = [n] ∧ y = [] ∧ z = []) ∨ (x = [] ∧ y = [n] ∧ z = []) ∨
      (x = [] ∧ y = [] ∧ z = [n])) :
    '(' ∈ (boundPoly x y z false).render ∨ '*' ∈ (boundPoly x y z false).render ∨
      (boundPoly x y z false).render = ['0'] := by
  rcases x with _ | ⟨a, _ | ⟨a', x⟩⟩ <;> rcases y with _ | ⟨b, _ | ⟨b', y⟩⟩ <;>
    rcases z with _ | ⟨c, _ | ⟨c', z⟩⟩ <;>
    simp at h <;>
    simp [boundPoly, xTerm, yTerm, BExpr.render, renderArgs, joinWith]

/-- When exactly one name is listed overall, the non-compact text is that name. -/
theorem render_boundPoly_false_single (n : String) :
    (boundPoly [n] [] [] false).render = n.toList ∧
    (boundPoly [] [n] [] false).render = n.toList ∧
    (boundPoly [] [] [n] false).render = n.toList := by
  simp [boundPoly, xTerm, yTerm, BExpr.render, joinWith]

end Bound
end Mwp
