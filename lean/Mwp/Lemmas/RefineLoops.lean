/-
  Refinement with loops, part 5: the model analysis of ANY supported statement -- `while`,
  `do-while` and counted `for` loops included, nested at will -- means exactly what the calculus
  derives, at every choice vector (`compute_refines_partial`), by induction on the size of the
  syntax tree (`compute_refG_aux`).

  Layout of the development (`Mwp/Lemmas/RefineLoops*.lean`):
  * `RefineLoopsClosure` : closure of dense matrices on names; block lemma, zero-row lemma;
  * `RefineLoopsWhile`   : `whileFinish`, rule W pointwise;
  * `RefineLoopsInv`     : the invariants `RefG` / `RefGL` (exit flag, ghost history of the delta
                           graph, agreement with `sem`), sequences, `if`, `while`;
  * `RefineLoopsCorr`    : `loop_correction` cell by cell under a weaker column hypothesis;
  * `RefineLoopsSyn`     : syntactic facts about `Relation.fixpoint` results;
  * `RefineLoopsFor`     : `forFinish`, rule L pointwise, the invariant for `.loop X b`;
  * this file            : side conditions, the induction, the theorem, two counterexamples;
  * `RefineLoopsGuards`  : `guardsFresh cmd` from a check on the syntax tree (`guardsPlain`).
-/
import Mwp.Lemmas.RefineLoopsFor
import Mwp.Lemmas.RefineLoopFree
namespace Mwp
namespace Refine
open Mwp.Props.C16 Mwp.Lemmas.Poly Spec RelFix

/-! ## side conditions, loop bodies included -/

mutual
/-- `namesOk` on every statement the analysis reaches, loop bodies included -/
def namesOkA : Node → Bool
  | .while_ _ b => namesOkA b
  | .doWhile _ b => namesOkA b
  | .for_ _ _ _ b => namesOkA b
  | .compound (some l) => namesOkAL l
  | .ifs _ t f => namesOkAO t && namesOkAO f
  | .label _ s => namesOkA s
  | .exprList es => namesOkAL es
  | .cast e => namesOkA e
  | n => namesOk n
def namesOkAL : List Node → Bool
  | [] => true
  | n :: ns => namesOkA n && namesOkAL ns
def namesOkAO : Option Node → Bool
  | none => true
  | some n => namesOkA n
end

mutual
/-- the guard variable of every counted loop is a non-empty name that the body does not mention -/
def guardsFresh : Cmd → Bool
  | .seq l => guardsFreshL l
  | .ite t f => guardsFresh t && guardsFresh f
  | .while_ b => guardsFresh b
  | .loop X b => X != "" && !b.vars.contains X && guardsFresh b
  | _ => true
def guardsFreshL : List Cmd → Bool
  | [] => true
  | c :: cs => guardsFresh c && guardsFreshL cs
end

/-- constructors whose analysis recurses into sub-statements -/
def isRec : Node → Bool
  | .while_ .. => true
  | .doWhile .. => true
  | .for_ .. => true
  | .compound (some _) => true
  | .ifs .. => true
  | .label .. => true
  | .exprList _ => true
  | .cast _ => true
  | _ => false

theorem desugar_leaf_loopFree (n : Node) (h : isRec n = false) (cmd : Cmd) (hd : desugar n = some cmd) :
    cmd.loopFree = true := by
  rw [desugar.eq_def] at hd
  split at hd
  all_goals first
    | (simp [isRec] at h; done)
    | (cases hd; rfl)
    | skip
  all_goals (repeat' split at hd)
  all_goals first
    | (cases hd; rfl)
    | (cases hd; done)

theorem namesOkA_leaf (n : Node) (h : isRec n = false) : namesOkA n = namesOk n := by
  cases n <;> first | (simp [isRec] at h; done) | (simp [namesOkA]; done) | skip
  rename_i items
  cases items
  · simp [namesOkA]
  · simp [isRec] at h

/-- the statement proved for every node by induction on its size -/
def NodeRefG (n : Node) : Prop :=
  ∀ cmd, desugar n = some cmd → namesOkA n = true → guardsFresh cmd = true →
    ∀ (q : Bool) idx dg out, Analysis.compute q idx dg n = .ok out → RefG q idx dg cmd out

theorem leaf_refG (n : Node) (hleaf : isRec n = false) : NodeRefG n := by
  intro cmd hd hn _ q idx dg out hco
  have hlf := desugar_leaf_loopFree n hleaf cmd hd
  rw [namesOkA_leaf n hleaf] at hn
  obtain ⟨out', ho', R⟩ := compute_refines_aux0 (B := bareClasses) (sizeOf n + 1) n (Nat.lt_succ_self _)
    cmd hd hlf ⟨hn, Or.inl rfl⟩ q idx dg
  rw [ho'] at hco
  cases hco
  exact refG_of_refines R

/-! ## statement lists -/

theorem computeList_refG (l : List Node) :
    ∀ (cs : List Cmd), desugarL l = some cs → namesOkAL l = true →
    guardsFreshL cs = true → (∀ n ∈ l, NodeRefG n) →
    ∀ (q : Bool) (idx : Nat) (dg : DG.Graph) (ra : Relation) (sk : List String) (out : Analysis.Out), ra.WF →
      Analysis.computeList q idx dg [ra] sk l = .ok out → RefGL q idx dg ra cs out := by
  induction l with
  | nil =>
    intro cs hd _ _ _ q idx dg ra sk out hra hc
    simp only [desugarL, Option.some.injEq] at hd
    subst hd
    rw [Analysis.computeList] at hc
    cases hc
    exact RefGL.nil q idx dg ra sk hra
  | cons n ns ih =>
    intro cs hd hn hg IH q idx dg ra sk out hra hco
    rw [desugarL] at hd
    cases hdn : desugar n with
    | none => simp [hdn] at hd
    | some cmd =>
      cases hdl : desugarL ns with
      | none => simp [hdn, hdl] at hd
      | some cs' =>
        simp only [hdn, hdl, Option.some.injEq] at hd
        subst hd
        simp only [namesOkAL, guardsFreshL, Bool.and_eq_true] at hn hg
        rw [Analysis.computeList] at hco
        cases ho1 : Analysis.compute q idx dg n with
        | error e => rw [ho1] at hco; cases hco
        | ok o1 =>
          rw [ho1] at hco
          simp only [bind, Except.bind] at hco
          have R1 := IH n (List.mem_cons_self ..) cmd hdn hn.1 hg.1 q idx dg o1 ho1
          cases he : o1.exit with
          | true =>
            rw [he] at hco
            simp only [if_true] at hco
            cases hco
            exact RefGL.cons_exit R1 he _ _
          | false =>
            rw [he] at hco
            simp only [Bool.false_eq_true, if_false] at hco
            obtain ⟨_, r1, hr1, w1, _, _⟩ := R1.main he
            have hacc : RelList.composition [ra] o1.rels = [Relation.composition ra r1] := by
              rw [hr1, relList_composition_single]
            rw [hacc] at hco
            have wacc := Relation.composition_wf ra r1 hra w1
            have R2 := ih cs' hdl hn.2 hg.2 (fun m hm => IH m (List.mem_cons_of_mem _ hm)) q o1.index o1.dg
              (Relation.composition ra r1) (sk ++ o1.skipped) out wacc hco
            exact RefGL.cons hra R1 he hr1 R2

/-- `if_branch`'s item walk differs from `compound`'s only in the relation list returned on exit -/
theorem branchList_computeList (l : List Node) :
    ∀ (q : Bool) (idx : Nat) (dg : DG.Graph) (acc : RelList) (sk : List String) (out : Analysis.Out),
      Analysis.branchList q idx dg acc sk l = .ok out →
      ∃ out', Analysis.computeList q idx dg acc sk l = .ok out' ∧ out'.exit = out.exit ∧
        out'.dg = out.dg ∧ (out.exit = false → out' = out) := by
  induction l with
  | nil =>
    intro q idx dg acc sk out h
    rw [Analysis.branchList] at h
    exact ⟨out, by rw [Analysis.computeList]; exact h, rfl, rfl, fun _ => rfl⟩
  | cons n ns ih =>
    intro q idx dg acc sk out h
    rw [Analysis.branchList] at h
    rw [Analysis.computeList]
    cases ho1 : Analysis.compute q idx dg n with
    | error e => rw [ho1] at h; cases h
    | ok o1 =>
      rw [ho1] at h
      simp only [bind, Except.bind] at h ⊢
      cases he : o1.exit with
      | true =>
        rw [he] at h
        simp only [if_true] at h ⊢
        cases h
        exact ⟨_, rfl, rfl, rfl, fun h => by cases h⟩
      | false =>
        rw [he] at h
        simp only [Bool.false_eq_true, if_false] at h ⊢
        exact ih _ _ _ _ _ _ h

theorem RefGL.transfer {q : Bool} {idx : Nat} {dg : DG.Graph} {ra : Relation} {cs : List Cmd}
    {out out' : Analysis.Out} (R : RefGL q idx dg ra cs out') (h1 : out'.exit = out.exit)
    (h2 : out'.dg = out.dg) (h3 : out.exit = false → out' = out) : RefGL q idx dg ra cs out := by
  refine ⟨fun hq => h1 ▸ R.noexit hq, h2 ▸ R.ghost, fun he => ?_⟩
  have := h3 he
  subst this
  exact R.main he

theorem sizeOf_mem_lt' {l : List Node} {n : Node} (h : n ∈ l) : sizeOf n < sizeOf l :=
  List.sizeOf_lt_of_mem h

theorem okAL_of_lt {l : List Node} {N : Nat} (ih : ∀ n : Node, sizeOf n < N → NodeRefG n)
    (h : sizeOf l < N) : ∀ n ∈ l, NodeRefG n :=
  fun n hn => ih n (Nat.lt_trans (sizeOf_mem_lt' hn) h)

/-- `Analysis.if_branch` -/
theorem branch_refG (o : Option Node) (IH : ∀ n : Node, sizeOf n < sizeOf o → NodeRefG n)
    (a : Cmd) (hd : desugarO o = some a) (hn : namesOkAO o = true)
    (hg : guardsFresh a = true) (q : Bool) (idx : Nat) (dg : DG.Graph) (out : Analysis.Out)
    (hco : Analysis.branch q idx dg o = .ok out) : RefG q idx dg a out := by
  cases o with
  | none =>
    rw [desugarO] at hd
    cases hd
    rw [Analysis.branch] at hco
    cases hco
    exact refG_skip q idx dg []
  | some n =>
    rw [desugarO] at hd
    rw [namesOkAO] at hn
    by_cases hcomp : ∃ items, n = .compound items
    · obtain ⟨items, rfl⟩ := hcomp
      cases items with
      | none =>
        rw [desugar] at hd
        cases hd
        rw [Analysis.branch] at hco
        cases hco
        exact refG_skip q idx dg []
      | some l =>
        rw [desugar] at hd
        rw [namesOkA] at hn
        rw [Analysis.branch] at hco
        cases hdl : desugarL l with
        | none => simp [hdl] at hd
        | some cs =>
          simp only [hdl, Option.map_some, Option.some.injEq] at hd
          subst hd
          rw [guardsFresh] at hg
          obtain ⟨out', ho', e1, e2, e3⟩ := branchList_computeList l q idx dg RelList.empty [] out hco
          have R := computeList_refG l cs hdl hn hg (fun m hm => IH m (by
            have := sizeOf_mem_lt' hm
            simp only [Option.some.sizeOf_spec, Node.compound.sizeOf_spec]
            omega)) q idx dg (Relation.new []) [] out' emptyRel_wf ho'
          exact refG_seq (R.transfer e1 e2 e3)
    · rw [Analysis.branch.eq_4 q idx dg n (fun e => hcomp ⟨_, e⟩) (fun l e => hcomp ⟨_, e⟩)] at hco
      cases ho1 : Analysis.compute q idx dg n with
      | error e => rw [ho1] at hco; cases hco
      | ok o1 =>
        rw [ho1] at hco
        simp only [bind, Except.bind] at hco
        have R := IH n (by simp only [Option.some.sizeOf_spec]; omega) a hd hn hg q idx dg o1 ho1
        cases he : o1.exit with
        | true =>
          rw [he] at hco
          simp only [if_true] at hco
          cases hco
          exact refG_exit rfl (fun hq => by rw [R.noexit hq] at he; cases he) R.ghost
        | false =>
          rw [he] at hco
          simp only [Bool.false_eq_true, if_false] at hco
          cases hco
          exact refG_comp_empty R he

/-! ## the induction -/

theorem compute_refG_aux (N : Nat) : ∀ node : Node, sizeOf node < N → NodeRefG node := by
  induction N with
  | zero => intro node h; omega
  | succ N ih =>
    intro node hsz
    by_cases hrec : isRec node = false
    · exact leaf_refG node hrec
    intro cmd hd hn hg q idx dg out hco
    cases node <;> first | (exfalso; exact hrec rfl) | skip
    · -- (T) e;
      rename_i e
      rw [desugar] at hd
      rw [namesOkA] at hn
      rw [Analysis.compute] at hco
      exact ih e (by simp only [Node.cast.sizeOf_spec] at hsz; omega) cmd hd hn hg q idx dg out hco
    · -- e1, e2
      rename_i es
      rw [desugar] at hd
      rw [namesOkA] at hn
      rw [Analysis.compute] at hco
      cases hdl : desugarL es with
      | none => simp [hdl] at hd
      | some cs =>
        simp only [hdl, Option.map_some, Option.some.injEq] at hd
        subst hd
        rw [guardsFresh] at hg
        exact refG_seq (computeList_refG es cs hdl hn hg (okAL_of_lt ih (by
          simp only [Node.exprList.sizeOf_spec] at hsz; omega)) q idx dg (Relation.new []) [] out emptyRel_wf hco)
    · -- { l }
      rename_i items
      cases items with
      | none => exact absurd rfl hrec
      | some l =>
        rw [desugar] at hd
        rw [namesOkA] at hn
        rw [Analysis.compute] at hco
        cases hdl : desugarL l with
        | none => simp [hdl] at hd
        | some cs =>
          simp only [hdl, Option.map_some, Option.some.injEq] at hd
          subst hd
          rw [guardsFresh] at hg
          exact refG_seq (computeList_refG l cs hdl hn hg (okAL_of_lt ih (by
            simp only [Node.compound.sizeOf_spec, Option.some.sizeOf_spec] at hsz; omega))
            q idx dg (Relation.new []) [] out emptyRel_wf hco)
    · -- if
      rename_i cond t f
      rw [desugar] at hd
      by_cases hcv : changesVariable cond = true
      · rw [if_pos hcv] at hd; cases hd
      rw [if_neg hcv] at hd
      rw [namesOkA] at hn
      simp only [Bool.and_eq_true] at hn
      cases ha : desugarO t with
      | none => simp [ha] at hd
      | some a =>
        cases hb : desugarO f with
        | none => simp [ha, hb] at hd
        | some b =>
          simp only [ha, hb, Option.some.injEq] at hd
          subst hd
          simp only [guardsFresh, Bool.and_eq_true] at hg
          have hst : sizeOf t < N := by
            simp only [Node.ifs.sizeOf_spec] at hsz; omega
          have hsf : sizeOf f < N := by
            simp only [Node.ifs.sizeOf_spec] at hsz; omega
          rw [Analysis.compute] at hco
          cases hrt : Analysis.branch q idx dg t with
          | error e => rw [hrt] at hco; cases hco
          | ok rt =>
            rw [hrt] at hco
            simp only [bind, Except.bind] at hco
            have Rt := branch_refG t (fun n hn' => ih n (by omega)) a ha hn.1 hg.1 q idx dg rt hrt
            cases het : rt.exit with
            | true =>
              rw [het] at hco
              simp only [if_true] at hco
              cases hco
              exact refG_ite_exit_then Rt het
            | false =>
              rw [het] at hco
              simp only [Bool.false_eq_true, if_false] at hco
              cases hrf : Analysis.branch q rt.index rt.dg f with
              | error e => rw [hrf] at hco; cases hco
              | ok rf =>
                rw [hrf] at hco
                simp only at hco
                have Rf := branch_refG f (fun n hn' => ih n (by omega)) b hb hn.2 hg.2 q rt.index rt.dg rf hrf
                cases hef : rf.exit with
                | true =>
                  rw [hef] at hco
                  simp only [if_true] at hco
                  cases hco
                  exact refG_ite_exit_else Rt het Rf hef rfl rfl
                | false =>
                  rw [hef] at hco
                  simp only [Bool.false_eq_true, if_false] at hco
                  cases hco
                  exact refG_ite Rt het Rf hef
    · -- while
      rename_i cond b
      rw [desugar] at hd
      by_cases hcv : changesVariable cond = true
      · rw [if_pos hcv] at hd; cases hd
      rw [if_neg hcv] at hd
      rw [namesOkA] at hn
      cases hdb : desugar b with
      | none => simp [hdb] at hd
      | some cb =>
        simp only [hdb, Option.map_some, Option.some.injEq] at hd
        subst hd
        rw [guardsFresh] at hg
        rw [Analysis.compute] at hco
        cases hrb : Analysis.compute q idx dg b with
        | error e => rw [hrb] at hco; cases hco
        | ok rb =>
          rw [hrb] at hco
          simp only [bind, Except.bind] at hco
          have Rb := ih b (by simp only [Node.while_.sizeOf_spec] at hsz; omega) cb hdb hn hg q idx dg rb hrb
          exact refG_while Rb hco
    · -- do-while
      rename_i cond b
      rw [desugar] at hd
      by_cases hcv : changesVariable cond = true
      · rw [if_pos hcv] at hd; cases hd
      rw [if_neg hcv] at hd
      rw [namesOkA] at hn
      cases hdb : desugar b with
      | none => simp [hdb] at hd
      | some cb =>
        simp only [hdb, Option.map_some, Option.some.injEq] at hd
        subst hd
        rw [guardsFresh] at hg
        rw [Analysis.compute] at hco
        cases hrb : Analysis.compute q idx dg b with
        | error e => rw [hrb] at hco; cases hco
        | ok rb =>
          rw [hrb] at hco
          simp only [bind, Except.bind] at hco
          have Rb := ih b (by simp only [Node.doWhile.sizeOf_spec] at hsz; omega) cb hdb hn hg q idx dg rb hrb
          exact refG_while Rb hco
    · -- for
      rename_i init cond next b
      rw [desugar] at hd
      rw [namesOkA] at hn
      rw [Analysis.compute] at hco
      cases hlc : Syntax.loopCompat (.for_ init cond next b) with
      | error e => simp [hlc] at hd
      | ok p =>
        obtain ⟨comp, x⟩ := p
        rw [hlc] at hd hco
        cases comp with
        | false => simp at hd
        | true =>
          cases x with
          | none => simp at hd
          | some X =>
            simp only at hd
            cases hdb : desugar b with
            | none => simp [hdb] at hd
            | some cb =>
              simp only [hdb, Option.map_some, Option.some.injEq] at hd
              subst hd
              simp only [guardsFresh, Bool.and_eq_true, bne_iff_ne, ne_eq, Bool.not_eq_true',
                List.contains_eq_mem, decide_eq_false_iff_not] at hg
              simp only [bind, Except.bind] at hco
              cases hrb : Analysis.compute q idx dg b with
              | error e => rw [hrb] at hco; cases hco
              | ok rb =>
                rw [hrb] at hco
                simp only at hco
                have Rb := ih b (by simp only [Node.for_.sizeOf_spec] at hsz; omega) cb hdb hn hg.2 q idx dg rb hrb
                exact refG_for Rb hg.1.1 hg.1.2 hco
    · -- label
      rename_i name st
      rw [desugar] at hd
      rw [namesOkA] at hn
      rw [Analysis.compute] at hco
      exact ih st (by simp only [Node.label.sizeOf_spec] at hsz; omega) cmd hd hn hg q idx dg out hco

/-! ## commands without counted loops -/

mutual
/-- no counted loop (`for`) inside -/
def noFor : Cmd → Bool
  | .seq l => noForL l
  | .ite t f => noFor t && noFor f
  | .while_ b => noFor b
  | .loop _ _ => false
  | _ => true
def noForL : List Cmd → Bool
  | [] => true
  | c :: cs => noFor c && noForL cs
end

mutual
theorem guardsFresh_of_noFor : ∀ cmd : Cmd, noFor cmd = true → guardsFresh cmd = true
  | .skip, _ => rfl
  | .asgnVar .., _ => rfl
  | .asgnConst .., _ => rfl
  | .bin .., _ => rfl
  | .seq l, h => by rw [noFor] at h; rw [guardsFresh]; exact guardsFreshL_of_noForL l h
  | .ite t f, h => by
    simp only [noFor, Bool.and_eq_true] at h
    simp only [guardsFresh, Bool.and_eq_true]
    exact ⟨guardsFresh_of_noFor t h.1, guardsFresh_of_noFor f h.2⟩
  | .while_ b, h => by rw [noFor] at h; rw [guardsFresh]; exact guardsFresh_of_noFor b h
  | .loop _ _, h => by simp [noFor] at h
theorem guardsFreshL_of_noForL : ∀ l : List Cmd, noForL l = true → guardsFreshL l = true
  | [], _ => rfl
  | c :: cs, h => by
    simp only [noForL, Bool.and_eq_true] at h
    simp only [guardsFreshL, Bool.and_eq_true]
    exact ⟨guardsFresh_of_noFor c h.1, guardsFreshL_of_noForL cs h.2⟩
end

end Refine

open Spec Refine in
/-- **Refinement, loops included.**  Whenever `Analysis.compute` returns (the fixpoint loops are
    fuelled: success is a hypothesis) on a statement of the supported fragment read as `cmd`:

    1. run to completion (`q = true`) it never sets the exit flag;
    2. (ghost fact for early exit) the delta graph it returns arises from the one it was given
       through a history `ops` of `insert_node` / `fusion` steps, and every inserted tuple `t`
       matches only choice vectors at which the derivation of `cmd` FAILS;
    3. when the exit flag is not set, it has consumed exactly `cmd.arity` derivation indices and
       returns ONE well-formed relation over variables of `cmd` which, at every choice vector valid
       on the statement's index range, means exactly what the calculus derives over any universe
       `U ⊇ cmd.vars`: where the calculus derives a matrix the relation is ∞-free and equal to it,
       where the derivation fails the relation carries an ∞.

    `_partial`, two hypotheses differ from the statement first asked:
    * `namesOkA` is `namesOk` extended to loop bodies (`namesOk` stops at loops; see
      `while_body_cast_transparent`);
    * `guardsFresh cmd`: the guard variable of every counted loop is a non-empty name not mentioned
      by the loop body.  `Coverage.loop_compat` is meant to guarantee this but tests the body's
      variables as recorded by `Variables`, which drops the reserved names `true` / `false`:
      see `reserved_guard_counterexample`. -/
theorem compute_refines_partial (node : Node) (cmd : Cmd) (hd : desugar node = some cmd)
    (q : Bool) (idx : Nat) (dg : DG.Graph) (hnames : namesOkA node = true)
    (hfresh : guardsFresh cmd = true)
    (out : Analysis.Out) (hc : Analysis.compute q idx dg node = .ok out) :
    (q = true → out.exit = false) ∧
    (∃ ops : List DG.Op, ops.foldlM DG.step dg = .ok out.dg ∧
      ∀ t ∈ DG.inserted ops, ∀ U : List String, U.Nodup → (∀ v ∈ cmd.vars, v ∈ U) →
        ∀ c : Choice, (∀ k, idx ≤ k → k < idx + cmd.arity → ∃ a, c[k]? = some a ∧ a < 3) →
          (t.all fun d => c[d.2]? == some d.1) = true →
          sem U cmd idx (relabelAt idx cmd c) = none) ∧
    (out.exit = false →
      out.index = idx + cmd.arity ∧
      ∃ r, out.rels = [r] ∧ r.WF ∧ (∀ v ∈ r.vars, v ∈ cmd.vars) ∧
        ∀ U : List String, U.Nodup → (∀ v ∈ cmd.vars, v ∈ U) →
        ∀ c : Choice, (∀ k, idx ≤ k → k < idx + cmd.arity → ∃ a, c[k]? = some a ∧ a < 3) →
          match sem U cmd idx (relabelAt idx cmd c) with
          | some (k, M) => k = idx + cmd.arity ∧ (∀ a b, r.den c a b ≠ .i) ∧
                           ∀ x y, x ∈ U → y ∈ U → r.den c x y = SMat.den U M x y
          | none => ∃ a b, r.den c a b = .i) := by
  have R := compute_refG_aux (sizeOf node + 1) node (Nat.lt_succ_self _) cmd hd hnames hfresh
    q idx dg out hc
  refine ⟨R.noexit, ?_, ?_⟩
  · obtain ⟨ops, hops, hP⟩ := R.ghost
    refine ⟨ops, hops, ?_⟩
    intro t ht U hU hsub c hval hm
    exact hP t ht U hU hsub c hval hm _ (relabelAt_relab idx cmd c)
  · intro he
    obtain ⟨hi, r, hr, wr, vr, semr⟩ := R.main he
    refine ⟨hi, r, hr, wr, vr, ?_⟩
    intro U hU hsub c hval
    rcases semr U hU hsub c hval _ (relabelAt_relab idx cmd c) with ⟨s, i⟩ | ⟨s, f⟩
    · rw [s]; exact i
    · rw [s]
      exact ⟨rfl, f, fun x y hx hy => (den_matOf U _ hx hy).symm⟩

open Spec Refine in
/-- Priority (A): commands built from leaves, sequences, `if`, `while` / `do-while` -- no counted
    loop, hence nothing to assume about loop guards. -/
theorem compute_refines_while_partial (node : Node) (cmd : Cmd) (hd : desugar node = some cmd)
    (hnofor : noFor cmd = true)
    (q : Bool) (idx : Nat) (dg : DG.Graph) (hnames : namesOkA node = true)
    (out : Analysis.Out) (hc : Analysis.compute q idx dg node = .ok out) :
    (q = true → out.exit = false) ∧
    (out.exit = false →
      out.index = idx + cmd.arity ∧
      ∃ r, out.rels = [r] ∧ r.WF ∧ (∀ v ∈ r.vars, v ∈ cmd.vars) ∧
        ∀ U : List String, U.Nodup → (∀ v ∈ cmd.vars, v ∈ U) →
        ∀ c : Choice, (∀ k, idx ≤ k → k < idx + cmd.arity → ∃ a, c[k]? = some a ∧ a < 3) →
          match sem U cmd idx (relabelAt idx cmd c) with
          | some (k, M) => k = idx + cmd.arity ∧ (∀ a b, r.den c a b ≠ .i) ∧
                           ∀ x y, x ∈ U → y ∈ U → r.den c x y = SMat.den U M x y
          | none => ∃ a b, r.den c a b = .i) :=
  let h := compute_refines_partial node cmd hd q idx dg hnames (guardsFresh_of_noFor cmd hnofor) out hc
  ⟨h.1, h.2.2⟩

open Spec Refine in
/-- `namesOk` stops at loops, `namesOkA` looks into loop bodies.  A cast of a cast around a
    right-hand side is transparent for the analysis (as for `desugar`), also inside a loop body:
    `while (c) x = (T)(T)y;` is analysed exactly like `while (c) x = y;`. -/
theorem while_body_cast_transparent :
    desugar (.while_ (.id "c") (.assign "=" (.id "x") (.cast (.cast (.id "y")))))
      = some (.while_ (.asgnVar "x" "y")) ∧
    namesOk (.while_ (.id "c") (.assign "=" (.id "x") (.cast (.cast (.id "y"))))) = true ∧
    ∀ q idx dg,
      Analysis.compute q idx dg (.while_ (.id "c") (.assign "=" (.id "x") (.cast (.cast (.id "y")))))
        = Analysis.compute q idx dg (.while_ (.id "c") (.assign "=" (.id "x") (.id "y"))) := by
  refine ⟨?_, by decide, ?_⟩
  · simp [desugar, Node.rmCast, changesVariable]
  · intro q idx dg
    rw [Analysis.compute, (double_cast_transparent).2 q idx dg, ← Analysis.compute]

open Spec Refine in
/-- why `guardsFresh` is needed: `for (i = true; i < 10; i++) true = true + true;`.  `Variables`
    never records the reserved names `true` / `false`, so `loop_compat` accepts `true` as the guard
    `X` although the body assigns it.  The calculus (rule L with `X` = `true`, body `X = X + X`:
    `p` or `w` on the diagonal) fails at every choice; the analysis composes the zero relation of
    `X` in front and reports `m` without any ∞. -/
theorem reserved_guard_counterexample :
    desugar (.for_ (some (.assign "=" (.id "i") (.id "true")))
        (some (.binop "<" (.id "i") (.const "int" "10"))) (some (.unop "p++" (.id "i")))
        (.assign "=" (.id "true") (.binop "+" (.id "true") (.id "true"))))
      = some (.loop "true" (.bin "+" "true" (.var "true") (.var "true"))) ∧
    namesOkA (.for_ (some (.assign "=" (.id "i") (.id "true")))
        (some (.binop "<" (.id "i") (.const "int" "10"))) (some (.unop "p++" (.id "i")))
        (.assign "=" (.id "true") (.binop "+" (.id "true") (.id "true")))) = true ∧
    guardsFresh (.loop "true" (.bin "+" "true" (.var "true") (.var "true"))) = false ∧
    Analysis.compute true 0 [] (.for_ (some (.assign "=" (.id "i") (.id "true")))
        (some (.binop "<" (.id "i") (.const "int" "10"))) (some (.unop "p++" (.id "i")))
        (.assign "=" (.id "true") (.binop "+" (.id "true") (.id "true"))))
      = .ok ⟨1, [⟨["true"], [[[⟨.m, []⟩]]]⟩], false, [], []⟩ ∧
    (∀ a b, Relation.den ⟨["true"], [[[⟨.m, []⟩]]]⟩ [0] a b ≠ .i) ∧
    sem ["true"] (.loop "true" (.bin "+" "true" (.var "true") (.var "true"))) 0 [0] = none := by
  refine ⟨by rfl, by decide, by decide, by rfl, ?_, by decide⟩
  intro a b h
  have := Relation.mem_of_den_i h
  simp only [List.mem_singleton] at this
  obtain ⟨rfl, rfl⟩ := this
  revert h
  decide

open Spec Refine in
/-- non-vacuity: a counted loop around a `while` satisfies every hypothesis of
    `compute_refines_partial`, and the analysis (early-exit mode) returns without exiting -/
example :
    desugar (.for_ (some (.assign "=" (.id "i") (.const "int" "0"))) (some (.binop "<" (.id "i") (.id "n")))
      (some (.unop "p++" (.id "i")))
      (.while_ (.id "c") (.assign "=" (.id "x") (.id "y")))) = some (.loop "n" (.while_ (.asgnVar "x" "y"))) ∧
    namesOkA (.for_ (some (.assign "=" (.id "i") (.const "int" "0"))) (some (.binop "<" (.id "i") (.id "n")))
      (some (.unop "p++" (.id "i")))
      (.while_ (.id "c") (.assign "=" (.id "x") (.id "y")))) = true ∧
    guardsFresh (.loop "n" (.while_ (.asgnVar "x" "y"))) = true ∧
    ∃ out, Analysis.compute false 0 []
      (.for_ (some (.assign "=" (.id "i") (.const "int" "0"))) (some (.binop "<" (.id "i") (.id "n")))
        (some (.unop "p++" (.id "i")))
        (.while_ (.id "c") (.assign "=" (.id "x") (.id "y")))) = .ok out ∧ out.exit = false :=
  ⟨by rfl, by decide, by decide, _, rfl, rfl⟩

end Mwp
