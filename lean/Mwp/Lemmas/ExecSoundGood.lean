/-
  ExecSound, part 2b: every matrix `sem` returns has `|U|` rows and no `∞` on `[0,|U|)²`
  (`sem_noInf`).  (The same fact is `Mwp.Props.C12.sem_square_no_infty`; it is re-proved here
  from the entry lemmas so that the C03 development rests on `Mwp/Spec` alone.)
-/
import Mwp.Lemmas.ExecSoundClosure
namespace Mwp.Spec.ExecSound
open Mwp Mwp.Spec

def NoInf (n : Nat) (M : SMat) : Prop :=
  M.length = n ∧ ∀ i, i < n → ∀ j, j < n → (SMat.get M i j).rank ≤ 3

theorem NoInf.ne_i {n : Nat} {M : SMat} (h : NoInf n M) {i j : Nat} (hi : i < n) (hj : j < n) :
    SMat.get M i j ≠ .i := by
  intro e
  have := h.2 i hi j hj
  rw [e] at this
  exact absurd this (by decide)

theorem rank_docProd_le3 {a b : Scalar} (ha : a.rank ≤ 3) (hb : b.rank ≤ 3) : (docProd a b).rank ≤ 3 := by
  revert ha hb; cases a <;> cases b <;> decide

theorem rank_fI_le3 (i j : Nat) : (fI i j).rank ≤ 3 := by
  unfold fI; split <;> decide

theorem noInf_identity (n : Nat) : NoInf n (SMat.identity n) :=
  ⟨(sq_identity n).1, fun i hi j hj => by rw [get_identity hi hj]; exact rank_fI_le3 i j⟩

theorem noInf_setColumn {n : Nat} (jx : Nat) (col : List Scalar) (hc : col.length = n)
    (h : ∀ s ∈ col, s.rank ≤ 3) : NoInf n (SMat.setColumn (SMat.identity n) jx col) := by
  refine ⟨by simp [SMat.setColumn, (sq_identity n).1, hc], ?_⟩
  intro i hi j hj
  rw [get_setColumn_identity jx col hc hi hj]
  split
  · rw [List.getD_eq_getElem?_getD]
    cases hs : col[i]? with
    | none => exact Nat.zero_le _
    | some s => exact h s (List.mem_of_getElem? hs)
  · exact rank_fI_le3 i j

theorem noInf_add {n : Nat} {a b : SMat} (ha : NoInf n a) (hb : NoInf n b) : NoInf n (SMat.add a b) := by
  refine ⟨by rw [(sq_add a b).1, ha.1], ?_⟩
  intro i hi j hj
  rw [get_add b (by rw [ha.1]; exact hi) (by rw [ha.1]; exact hj)]
  exact rank_docSum_le (ha.2 i hi j hj) (hb.2 i hi j hj)

theorem noInf_mul {n : Nat} {a b : SMat} (ha : NoInf n a) (hb : NoInf n b) : NoInf n (SMat.mul a b) := by
  refine ⟨by rw [(sq_mul a b).1, ha.1], ?_⟩
  intro i hi j hj
  rw [get_mul b (by rw [ha.1]; exact hi) (by rw [ha.1]; exact hj), ha.1]
  apply fmul_le
  intro k hk
  exact rank_docProd_le3 (ha.2 i hi k hk) (hb.2 k hk j hj)

theorem noInf_closureFrom {n : Nat} {a : SMat} (ha : NoInf n a) :
    ∀ (fuel : Nat) (s : SMat), NoInf n s → NoInf n (SMat.closureFrom a fuel s)
  | 0, s, hs => hs
  | fuel + 1, s, hs => by
    simp only [SMat.closureFrom]
    split
    · exact hs
    · apply noInf_closureFrom ha fuel
      rw [ha.1]
      exact noInf_add (noInf_identity n) (noInf_mul ha hs)

theorem noInf_closure {n : Nat} {a : SMat} (ha : NoInf n a) : NoInf n (SMat.closure a) := by
  unfold SMat.closure
  apply noInf_closureFrom ha
  rw [ha.1]; exact noInf_identity n

theorem get_loopFix_le3 (s : SMat) (ell : Nat) (P : Nat → Bool) (i j : Nat)
    (h : (SMat.get s i j).rank ≤ 3) :
    (SMat.get ((s.zipIdx).map fun x =>
      if x.2 == ell then (x.1.zipIdx).map fun y => if P y.2 then docSum y.1 .p else y.1 else x.1) i j).rank ≤ 3 := by
  revert h
  unfold SMat.get
  simp only [List.getD_eq_getElem?_getD, List.getElem?_map, List.getElem?_zipIdx]
  cases hr : s[i]? with
  | none => simp
  | some row =>
    simp only [Option.map_some, Option.getD_some, Nat.zero_add]
    split
    · simp only [List.getElem?_map, List.getElem?_zipIdx]
      cases hv : row[j]? with
      | none => simp
      | some v =>
        simp only [Option.map_some, Option.getD_some, Nat.zero_add]
        intro h
        split
        · exact rank_docSum_le h (by decide)
        · exact h
    · exact id

theorem noInf_loopFix {n : Nat} {s : SMat} (hs : NoInf n s) (ell : Nat) (P : Nat → Bool) :
    NoInf n ((s.zipIdx).map fun x =>
      if x.2 == ell then (x.1.zipIdx).map fun y => if P y.2 then docSum y.1 .p else y.1 else x.1) :=
  ⟨by simp [hs.1], fun i hi j hj => get_loopFix_le3 s ell P i j (hs.2 i hi j hj)⟩

theorem rank_operandFlow_le3 (op : String) (a b : Atom) (alt : Nat) (v : Var) :
    (operandFlow op a b alt v).rank ≤ 3 := by
  unfold operandFlow
  cases a <;> cases b <;> simp only <;> (repeat' split) <;> decide

mutual
theorem sem_noInf (U : List Var) : ∀ (cmd : Cmd) (idx : Nat) (c : Choice) (k : Nat) (M : SMat),
    sem U cmd idx c = some (k, M) → NoInf U.length M
  | .skip, idx, c, k, M, h => by
    simp only [sem, Option.some.injEq, Prod.mk.injEq] at h
    rw [← h.2]; exact noInf_identity _
  | .asgnVar x y, idx, c, k, M, h => by
    simp only [sem] at h
    split at h <;> simp only [Option.some.injEq, Prod.mk.injEq] at h <;> rw [← h.2]
    · exact noInf_identity _
    · apply noInf_setColumn _ _ (by simp)
      intro s hs
      simp only [List.mem_map] at hs
      obtain ⟨v, _, rfl⟩ := hs
      split <;> decide
  | .asgnConst x, idx, c, k, M, h => by
    simp only [sem, Option.some.injEq, Prod.mk.injEq] at h
    rw [← h.2]
    apply noInf_setColumn _ _ (by simp)
    intro s hs
    simp only [List.mem_map] at hs
    obtain ⟨v, _, rfl⟩ := hs
    decide
  | .bin op x a b, idx, c, k, M, h => by
    simp only [sem] at h
    split at h
    · cases h
    · split at h
      · cases h
      · simp only [Option.some.injEq, Prod.mk.injEq] at h
        rw [← h.2]
        apply noInf_setColumn _ _ (by simp)
        intro s hs
        simp only [List.mem_map] at hs
        obtain ⟨v, _, rfl⟩ := hs
        exact rank_operandFlow_le3 _ _ _ _ _
  | .seq l, idx, c, k, M, h => by
    simp only [sem] at h
    exact semSeq_noInf U l idx c k M h
  | .ite t f, idx, c, k, M, h => by
    simp only [sem] at h
    split at h
    · cases h
    · rename_i i1 a h1
      split at h
      · cases h
      · rename_i i2 b h2
        simp only [Option.some.injEq, Prod.mk.injEq] at h
        rw [← h.2]
        exact noInf_add (sem_noInf U t idx c i1 a h1) (sem_noInf U f i1 c i2 b h2)
  | .while_ b, idx, c, k, M, h => by
    simp only [sem] at h
    split at h
    · cases h
    · rename_i i1 a h1
      split at h
      · cases h
      · simp only [Option.some.injEq, Prod.mk.injEq] at h
        rw [← h.2]; exact noInf_closure (sem_noInf U b idx c i1 a h1)
  | .loop X b, idx, c, k, M, h => by
    simp only [sem] at h
    split at h
    · cases h
    · rename_i i1 a h1
      split at h
      · cases h
      · simp only [Option.some.injEq, Prod.mk.injEq] at h
        rw [← h.2]
        exact noInf_loopFix (noInf_closure (sem_noInf U b idx c i1 a h1)) (idxOf U X)
          (fun j => (List.range U.length).any fun i' => SMat.get (SMat.closure a) i' j == .p)
theorem semSeq_noInf (U : List Var) : ∀ (l : List Cmd) (idx : Nat) (c : Choice) (k : Nat) (M : SMat),
    semSeq U l idx c = some (k, M) → NoInf U.length M
  | [], idx, c, k, M, h => by
    simp only [semSeq, Option.some.injEq, Prod.mk.injEq] at h
    rw [← h.2]; exact noInf_identity _
  | cmd :: rest, idx, c, k, M, h => by
    simp only [semSeq] at h
    split at h
    · cases h
    · rename_i i1 a h1
      split at h
      · cases h
      · rename_i i2 b h2
        simp only [Option.some.injEq, Prod.mk.injEq] at h
        rw [← h.2]
        exact noInf_mul (sem_noInf U cmd idx c i1 a h1) (semSeq_noInf U rest i1 c i2 b h2)
end

end Mwp.Spec.ExecSound
