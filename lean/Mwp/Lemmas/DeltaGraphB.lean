/-
  Soundness of collapse: an invariant of the DeltaGraph preserved by every
  insertion and every fusion pass (partial correctness: only successful runs
  are considered here).
-/
import Mwp.Lemmas.DeltaGraphA

namespace Mwp.DG

/-! ## `Except` plumbing -/

theorem bind_eq_ok {ε α β : Type} {x : Except ε α} {f : α → Except ε β} {b : β}
    (h : (x >>= f) = .ok b) : ∃ a, x = .ok a ∧ f a = .ok b := by
  cases x with
  | error e => simp [bind, Except.bind] at h
  | ok a => exact ⟨a, rfl, h⟩

theorem levelOf_eq_ok {g : Graph} {s : Nat} {lvl : Level} :
    levelOf g s = .ok lvl ↔ get? g s = some lvl := by
  unfold levelOf
  cases get? g s with
  | none => simp [throw, throwThe, MonadExceptOf.throw]
  | some l => simp [pure, Except.pure]

/-! ## Well-formed tuples, coverage -/

def WFNode (t : Node) : Prop := Mono.sortedDeltas t = true ∧ ∀ d ∈ t, d.1 < 3
def Matches (t : Node) (v : Nat → Nat) : Prop := ∀ d ∈ t, v d.2 = d.1
def Covered (H : List Node) (n : Node) : Prop :=
  ∀ v : Nat → Nat, (∀ j, v j < 3) → Matches n v → ∃ t ∈ H, Matches t v
def Good (H : List Node) (n : Node) : Prop := WFNode n ∧ Covered H n

theorem WFNode.sorted {t : Node} (h : WFNode t) : SortedN t := (sortedDeltas_iff t).1 h.1

theorem WFNode.removeIndex {t : Node} (h : WFNode t) (i : Nat) : WFNode (removeIndex t i) :=
  ⟨(sortedDeltas_iff _).2 (h.sorted.removeIndex i), fun d hd => h.2 d (mem_removeIndex.1 hd).1⟩

theorem Good.mono {H H' : List Node} {n : Node} (hs : ∀ t ∈ H, t ∈ H') (h : Good H n) :
    Good H' n :=
  ⟨h.1, fun v hv hm => let ⟨t, ht, htm⟩ := h.2 v hv hm; ⟨t, hs t ht, htm⟩⟩

theorem Good.self {H : List Node} {n : Node} (hw : WFNode n) (hm : n ∈ H) : Good H n :=
  ⟨hw, fun _ _ hmv => ⟨n, hm, hmv⟩⟩

/-- The heart of fusion: three pairwise different tuples that agree outside index `l`
    exhaust the alternatives at `l`, so what they cover together covers the fused tuple. -/
theorem fuse_cover {H : List Node} {n n2 n3 : Node} {l : Nat}
    (hn : Good H n) (hn2 : Good H n2) (hn3 : Good H n3) (hne : n2 ≠ n3)
    (hd2 : Diff1 n n2 l) (hd3 : Diff1 n n3 l) : Good H (removeIndex n l) := by
  refine ⟨hn.1.removeIndex l, ?_⟩
  obtain ⟨⟨a, b, hab, ha, hb⟩, h2⟩ := hd2
  obtain ⟨⟨a', c, hac, ha', hc⟩, h3⟩ := hd3
  have haa : a = a' := congrArg Prod.fst (hn.1.sorted.index_unique ha ha' rfl)
  subst haa
  have hbc : b ≠ c := by
    intro hbc
    subst hbc
    apply hne
    apply hn2.1.sorted.ext hn3.1.sorted
    intro d
    by_cases hdl : d.2 = l
    · constructor
      · intro hd
        have := hn2.1.sorted.index_unique hd hb hdl
        rw [this]; exact hc
      · intro hd
        have := hn3.1.sorted.index_unique hd hc hdl
        rw [this]; exact hb
    · rw [← h2 d hdl, ← h3 d hdl]
  have ha3 := hn.1.2 _ ha
  have hb3 := hn2.1.2 _ hb
  have hc3 := hn3.1.2 _ hc
  simp only at ha3 hb3 hc3
  intro v hv hm
  have hvl := hv l
  have key : ∀ (m : Node) (x : Nat), SortedN m → (x, l) ∈ m → v l = x →
      (∀ d : Delta, d.2 ≠ l → (d ∈ n ↔ d ∈ m)) → Matches m v := by
    intro m x hs hx hvx hmem d hd
    by_cases hdl : d.2 = l
    · have := hs.index_unique hd hx hdl
      rw [this]; exact hvx
    · exact hm d (mem_removeIndex.2 ⟨(hmem d hdl).2 hd, hdl⟩)
  have hcases : v l = a ∨ v l = b ∨ v l = c := by omega
  rcases hcases with h | h | h
  · exact hn.2 v hv (key n a hn.1.sorted ha h (fun _ _ => Iff.rfl))
  · exact hn2.2 v hv (key n2 b hn2.1.sorted hb h h2)
  · exact hn3.2 v hv (key n3 c hn3.1.sorted hc h h3)

/-! ## The invariant -/

def AdjOK (H : List Node) (n : Node) (adj : Adj) : Prop :=
  (adj.map (·.1)).Nodup ∧ ∀ e ∈ adj, Good H e.1 ∧ Diff1 n e.1 e.2
def LvlOK (H : List Node) (lvl : Level) : Prop :=
  ∀ n adj, get? lvl n = some adj → Good H n ∧ AdjOK H n adj
def Inv (H : List Node) (g : Graph) : Prop :=
  ∀ s lvl, get? g s = some lvl → LvlOK H lvl

theorem AdjOK.mono {H H' : List Node} {n : Node} {adj : Adj} (hs : ∀ t ∈ H, t ∈ H')
    (h : AdjOK H n adj) : AdjOK H' n adj :=
  ⟨h.1, fun e he => ⟨(h.2 e he).1.mono hs, (h.2 e he).2⟩⟩

theorem Inv.mono {H H' : List Node} {g : Graph} (hs : ∀ t ∈ H, t ∈ H') (h : Inv H g) :
    Inv H' g :=
  fun s lvl hl n adj ha => ⟨(h s lvl hl n adj ha).1.mono hs, (h s lvl hl n adj ha).2.mono hs⟩

theorem AdjOK.nil (H : List Node) (n : Node) : AdjOK H n [] := ⟨by simp, by simp⟩

theorem AdjOK.set {H : List Node} {n n' : Node} {adj : Adj} {l : Nat} (h : AdjOK H n adj)
    (hg : Good H n') (hd : Diff1 n n' l) : AdjOK H n (set adj n' l) := by
  refine ⟨nodup_keys_set _ _ h.1, ?_⟩
  intro e he
  rcases mem_set he with he | he
  · exact h.2 e he
  · subst he; exact ⟨hg, hd⟩

theorem AdjOK.del {H : List Node} {n : Node} {adj : Adj} (h : AdjOK H n adj) (k : Node) :
    AdjOK H n (del adj k) :=
  ⟨nodup_keys_del _ h.1, fun e he => h.2 e (mem_del he).1⟩

theorem LvlOK.getD {H : List Node} {lvl : Level} (h : LvlOK H lvl) (n : Node) :
    AdjOK H n ((get? lvl n).getD []) := by
  cases hg : get? lvl n with
  | none => exact AdjOK.nil H n
  | some adj => exact (h n adj hg).2

theorem LvlOK.set {H : List Node} {lvl : Level} {n : Node} {adj : Adj} (h : LvlOK H lvl)
    (hg : Good H n) (ha : AdjOK H n adj) : LvlOK H (set lvl n adj) := by
  intro m madj hm
  rw [get?_set] at hm
  split at hm
  · rename_i heq
    rw [beq_iff_eq] at heq
    cases hm; subst heq; exact ⟨hg, ha⟩
  · exact h m madj hm

theorem LvlOK.del {H : List Node} {lvl : Level} (h : LvlOK H lvl) (n : Node) :
    LvlOK H (del lvl n) := by
  intro m madj hm
  rw [get?_del] at hm
  split at hm
  · cases hm
  · exact h m madj hm

theorem Inv.set {H : List Node} {g : Graph} {s : Nat} {lvl : Level} (h : Inv H g)
    (hl : LvlOK H lvl) : Inv H (set g s lvl) := by
  intro s' lvl' hs
  rw [get?_set] at hs
  split at hs
  · cases hs; exact hl
  · exact h s' lvl' hs

theorem Inv.nil (H : List Node) : Inv H [] := by
  intro s lvl h; simp [get?] at h

/-! ## Preservation -/

theorem insertEdge_inv {H : List Node} {g g' : Graph} {n1 n2 : Node} {l : Nat}
    (hI : Inv H g) (h1 : Good H n1) (h2 : Good H n2) (hd : Diff1 n1 n2 l)
    (h : insertEdge g n1 n2 l = .ok g') : Inv H g' := by
  unfold insertEdge at h
  obtain ⟨lvl, hl, h⟩ := bind_eq_ok h
  rw [levelOf_eq_ok] at hl
  simp only [pure, Except.pure, Except.ok.injEq] at h
  subst h
  have hL := hI _ _ hl
  apply hI.set
  generalize h1e : (if has lvl n1 = true then lvl else set lvl n1 []) = lvl1
  have hL1 : LvlOK H lvl1 := by
    rw [← h1e]
    split
    · exact hL
    · exact hL.set h1 (AdjOK.nil H n1)
  have hL2 := hL1.set h1 ((hL1.getD n1).set h2 hd)
  generalize set lvl1 n1 (set ((get? lvl1 n1).getD []) n2 l) = lvl2 at hL2 ⊢
  generalize h3e : (if has lvl2 n2 = true then lvl2 else set lvl2 n2 []) = lvl3
  have hL3 : LvlOK H lvl3 := by
    rw [← h3e]
    split
    · exact hL2
    · exact hL2.set h2 (AdjOK.nil H n2)
  exact hL3.set h2 ((hL3.getD n2).set h1 hd.symm)

theorem insertNodeStep_inv {H : List Node} {node node2 : Node} {st st' : Graph × Bool}
    (hI : Inv H st.1) (h1 : Good H node) (h2 : Good H node2)
    (h : insertNodeStep node st node2 = .ok st') : Inv H st'.1 := by
  unfold insertNodeStep at h
  split at h
  · rename_i i hnd
    obtain ⟨g1, hg1, h⟩ := bind_eq_ok h
    simp only [pure, Except.pure, Except.ok.injEq] at h
    subst h
    obtain ⟨j, hj, hd⟩ := nodeDiff_true hnd
    cases hj
    exact insertEdge_inv hI h1 h2 hd hg1
  · cases h
  · simp only [pure, Except.pure, Except.ok.injEq] at h
    subst h; exact hI

theorem insertNode_inv {H : List Node} {g g' : Graph} {node : Node}
    (hI : Inv H g) (h1 : Good H node) (h : insertNode g node = .ok g') : Inv H g' := by
  unfold insertNode at h
  simp only at h
  split at h
  · simp only [pure, Except.pure, Except.ok.injEq] at h
    subst h
    apply hI.set
    intro m madj hm
    rw [get?_cons] at hm
    split at hm
    · rename_i heq
      rw [beq_iff_eq] at heq
      simp only [Option.some.injEq] at hm
      subst hm; subst heq
      exact ⟨h1, AdjOK.nil H _⟩
    · simp [get?] at hm
  · rename_i lvl hlvl
    split at h
    · simp only [pure, Except.pure, Except.ok.injEq] at h
      subst h; exact hI
    · obtain ⟨⟨g1, ins⟩, hfold, h⟩ := bind_eq_ok h
      have hI1 : Inv H g1 := by
        refine foldlM_ok_inv (fun st : Graph × Bool => Inv H st.1) (insertNodeStep node)
          _ _ _ ?_ hI hfold
        intro s x s' hx hs hstep
        obtain ⟨xadj, hxadj⟩ := mem_keys_get? hx
        exact insertNodeStep_inv hs h1 (hI _ _ hlvl x xadj hxadj).1 hstep
      simp only at h
      split at h
      · simp only [pure, Except.pure, Except.ok.injEq] at h
        subst h; exact hI1
      · obtain ⟨lvl', hl', h⟩ := bind_eq_ok h
        rw [levelOf_eq_ok] at hl'
        simp only [pure, Except.pure, Except.ok.injEq] at h
        subst h
        exact hI1.set ((hI1 _ _ hl').set h1 (AdjOK.nil H _))

theorem removeNode_inv {H : List Node} :
    ∀ (fuel : Nat) (g g' : Graph) (node : Node) (idx : Nat),
      Inv H g → removeNode fuel g node idx = .ok g' → Inv H g' := by
  intro fuel
  induction fuel with
  | zero => intro g g' node idx _ h; simp [removeNode, throw, throwThe, MonadExceptOf.throw] at h
  | succ fuel ih =>
    intro g g' node idx hI h
    rw [removeNode] at h
    obtain ⟨lvl, hl, h⟩ := bind_eq_ok h
    rw [levelOf_eq_ok] at hl
    split at h
    · cases h
    · rename_i adj hadj
      refine foldlM_ok_inv (Inv H) _ _ _ _ ?_ (hI.set ((hI _ _ hl).del node)) h
      intro s nb s' _ hs hstep
      obtain ⟨lvl2, hl2, hstep⟩ := bind_eq_ok hstep
      rw [levelOf_eq_ok] at hl2
      split at hstep
      · simp only [pure, Except.pure, Except.ok.injEq] at hstep
        subst hstep; exact hs
      · rename_i nadj hnadj
        split at hstep
        · cases hstep
        · split at hstep
          · exact ih _ _ _ _ hs hstep
          · simp only [pure, Except.pure, Except.ok.injEq] at hstep
            subst hstep
            have hL := hs _ _ hl2
            exact hs.set (hL.set (hL nb nadj hnadj).1 ((hL nb nadj hnadj).2.del node))

/-- what `isFull … = true` at degree 3 gives: two different neighbours with label `index` -/
theorem two_of_filter {adj : Adj} {index : Nat} (hn : (adj.map (·.1)).Nodup)
    (h : (adj.filter (·.2 == index)).length = 2) :
    ∃ e2 e3, e2 ∈ adj ∧ e3 ∈ adj ∧ e2.2 = index ∧ e3.2 = index ∧ e2.1 ≠ e3.1 := by
  have hsub : (adj.filter (·.2 == index)).Sublist adj := List.filter_sublist
  obtain ⟨e2, e3, hf⟩ : ∃ e2 e3, adj.filter (·.2 == index) = [e2, e3] := by
    generalize adj.filter (·.2 == index) = f at h
    match f, h with
    | [a, b], _ => exact ⟨a, b, rfl⟩
  have m2 : e2 ∈ adj.filter (·.2 == index) := by rw [hf]; simp
  have m3 : e3 ∈ adj.filter (·.2 == index) := by rw [hf]; simp
  rw [List.mem_filter] at m2 m3
  refine ⟨e2, e3, m2.1, m3.1, by simpa using m2.2, by simpa using m3.2, ?_⟩
  rw [hf] at hsub
  have := (hsub.map (·.1)).nodup hn
  simp only [List.map_cons, List.map_nil, List.nodup_cons, List.mem_cons, List.not_mem_nil,
    or_false] at this
  exact this.1

theorem fuseIndex_inv {H : List Node} {g g' : Graph} {size index : Nat} {node : Node}
    (hI : Inv H g) (h : fuseIndex 3 size node g index = .ok g') : Inv H g' := by
  unfold fuseIndex at h
  obtain ⟨lvlNow, hlvl, h⟩ := bind_eq_ok h
  rw [levelOf_eq_ok] at hlvl
  split at h
  · obtain ⟨b, hfull, h⟩ := bind_eq_ok h
    cases b with
    | false =>
      simp only [Bool.false_eq_true, if_false, pure, Except.pure, Except.ok.injEq] at h
      subst h; exact hI
    | true =>
      simp only [if_true] at h
      obtain ⟨g1, hrem, h⟩ := bind_eq_ok h
      have hI1 := removeNode_inv _ _ _ _ _ hI hrem
      refine insertNode_inv hI1 ?_ h
      -- the fused node is covered
      unfold isFull at hfull
      obtain ⟨lvl, hl, hfull⟩ := bind_eq_ok hfull
      rw [levelOf_eq_ok] at hl
      split at hfull
      · cases hfull
      · rename_i adj hadj
        simp only [pure, Except.pure, Except.ok.injEq, beq_iff_eq] at hfull
        obtain ⟨hgn, hadjok⟩ := hI _ _ hl node adj hadj
        obtain ⟨e2, e3, m2, m3, l2, l3, hne⟩ := two_of_filter hadjok.1 hfull
        have a2 := hadjok.2 e2 m2
        have a3 := hadjok.2 e3 m3
        rw [l2] at a2; rw [l3] at a3
        exact fuse_cover hgn a2.1 a3.1 hne a2.2 a3.2
  · simp only [pure, Except.pure, Except.ok.injEq] at h
    subst h; exact hI

theorem fusion_inv {H : List Node} {g g' : Graph} (hI : Inv H g) (h : fusion g = .ok g') :
    Inv H g' := by
  unfold fusion at h
  refine foldlM_ok_inv (Inv H) _ _ _ _ ?_ hI h
  intro s size s' _ hs hlev
  unfold fuseLevel at hlev
  obtain ⟨lvl, _, hlev⟩ := bind_eq_ok hlev
  refine foldlM_ok_inv (Inv H) _ _ _ _ ?_ hs hlev
  intro s2 node s2' _ hs2 hnode
  unfold fuseNode at hnode
  refine foldlM_ok_inv (Inv H) _ _ _ _ ?_ hs2 hnode
  intro s3 index s3' _ hs3 hidx
  exact fuseIndex_inv hs3 hidx

theorem run_inv_aux :
    ∀ (ops : List Op) (H0 : List Node) (g0 g : Graph),
      (∀ t ∈ inserted ops, WFNode t) → Inv H0 g0 → ops.foldlM step g0 = .ok g →
      Inv (inserted ops ++ H0) g := by
  intro ops
  induction ops with
  | nil =>
    intro H0 g0 g _ hI h
    simp only [List.foldlM_nil, pure, Except.pure, Except.ok.injEq] at h
    subst h; simpa [inserted] using hI
  | cons op rest ih =>
    intro H0 g0 g hwf hI h
    rw [List.foldlM_cons] at h
    obtain ⟨g1, hstep, hrest⟩ := bind_eq_ok h
    clear h
    cases op with
    | insert t =>
      have hwf' : ∀ t ∈ inserted rest, WFNode t := fun x hx => hwf x (by simp [inserted, hx])
      have hI1 : Inv (t :: H0) g1 := by
        refine insertNode_inv (hI.mono (fun x hx => List.mem_cons_of_mem _ hx)) ?_ hstep
        exact Good.self (hwf t (by simp [inserted])) (List.mem_cons_self ..)
      refine (ih (t :: H0) g1 g hwf' hI1 hrest).mono ?_
      intro x hx
      simp only [inserted, List.mem_append, List.mem_cons] at hx ⊢
      rcases hx with hx | hx | hx
      · exact Or.inl (Or.inr hx)
      · exact Or.inl (Or.inl hx)
      · exact Or.inr hx
    | fuse =>
      have hI1 : Inv H0 g1 := fusion_inv hI hstep
      exact ih H0 g1 g hwf hI1 hrest

theorem run_inv {ops : List Op} {g : Graph} (hwf : ∀ t ∈ inserted ops, WFNode t)
    (h : run ops = .ok g) : Inv (inserted ops) g := by
  have := run_inv_aux ops [] [] g hwf (Inv.nil []) h
  simpa using this

theorem isEmpty_get {g : Graph} (h : isEmpty g = true) : ∃ a, get? g 0 = some [([], a)] := by
  unfold isEmpty at h
  split at h
  · rename_i n a hg
    simp only [Bool.and_eq_true, List.isEmpty_iff] at h
    rw [h.1] at hg
    exact ⟨a, hg⟩
  · cases h

theorem collapse_sound_aux (ops : List Op) (g : Graph)
    (hwf : ∀ t ∈ inserted ops, WFNode t) (hrun : run ops = .ok g) (hemp : isEmpty g = true) :
    ∀ v : Nat → Nat, (∀ j, v j < 3) → ∃ t ∈ inserted ops, Matches t v := by
  intro v hv
  obtain ⟨a, hg⟩ := isEmpty_get hemp
  have hI := run_inv hwf hrun
  have := hI 0 _ hg [] a (by simp [get?_cons])
  exact this.1.2 v hv (by intro d hd; cases hd)

end Mwp.DG
