/-
  Refinement, spec side, part 2: `sem` returns the index advanced by the arity (`sem_index`),
  reads the choice vector only on its own index range (`sem_frame`), and `relabelAt` is
  compatible with sequencing and branching (`relabelAt_seq_head/_tail`, `relabelAt_ite_*`).
-/
import Mwp.Lemmas.RefineSpec
namespace Mwp
namespace Refine
open Spec

/-! ## `sem` reads the choice vector only on its own index range -/

mutual
theorem sem_index (U : List String) : ∀ (cmd : Cmd) (idx : Nat) (c : Choice) (i : Nat) (M : SMat),
    sem U cmd idx c = some (i, M) → i = idx + cmd.arity
  | .skip, idx, c, i, M, h => by
    simp only [sem, Option.some.injEq, Prod.mk.injEq] at h; simp [Cmd.arity, h.1]
  | .asgnVar x y, idx, c, i, M, h => by
    simp only [sem] at h
    split at h <;> (simp only [Option.some.injEq, Prod.mk.injEq] at h; simp [Cmd.arity, h.1])
  | .asgnConst x, idx, c, i, M, h => by
    simp only [sem, Option.some.injEq, Prod.mk.injEq] at h; simp [Cmd.arity, h.1]
  | .bin op x a b, idx, c, i, M, h => by
    simp only [sem] at h
    split at h
    · cases h
    · split at h
      · cases h
      · simp only [Option.some.injEq, Prod.mk.injEq] at h; simp [Cmd.arity, h.1]
  | .seq l, idx, c, i, M, h => by
    simp only [sem] at h
    rw [Cmd.arity]; exact semSeq_index U l idx c i M h
  | .ite t f, idx, c, i, M, h => by
    simp only [sem] at h
    split at h
    · cases h
    · rename_i i1 a h1
      split at h
      · cases h
      · rename_i i2 b h2
        simp only [Option.some.injEq, Prod.mk.injEq] at h
        have e1 := sem_index U t idx c i1 a h1
        have e2 := sem_index U f i1 c i2 b h2
        rw [Cmd.arity, ← h.1, e2, e1, Nat.add_assoc]
  | .while_ b, idx, c, i, M, h => by
    simp only [sem] at h
    split at h
    · cases h
    · rename_i i1 a h1
      split at h
      · cases h
      · simp only [Option.some.injEq, Prod.mk.injEq] at h
        rw [Cmd.arity, ← h.1]; exact sem_index U b idx c i1 a h1
  | .loop X b, idx, c, i, M, h => by
    simp only [sem] at h
    split at h
    · cases h
    · rename_i i1 a h1
      split at h
      · cases h
      · simp only [Option.some.injEq, Prod.mk.injEq] at h
        rw [Cmd.arity, ← h.1]; exact sem_index U b idx c i1 a h1
theorem semSeq_index (U : List String) : ∀ (l : List Cmd) (idx : Nat) (c : Choice) (i : Nat) (M : SMat),
    semSeq U l idx c = some (i, M) → i = idx + arityL l
  | [], idx, c, i, M, h => by
    simp only [semSeq, Option.some.injEq, Prod.mk.injEq] at h; simp [arityL, h.1]
  | cmd :: rest, idx, c, i, M, h => by
    simp only [semSeq] at h
    split at h
    · cases h
    · rename_i i1 a h1
      split at h
      · cases h
      · rename_i i2 b h2
        simp only [Option.some.injEq, Prod.mk.injEq] at h
        have e1 := sem_index U cmd idx c i1 a h1
        have e2 := semSeq_index U rest i1 c i2 b h2
        rw [arityL, ← h.1, e2, e1, Nat.add_assoc]
end

/-- the two choice vectors agree on `[idx, idx+n)` -/
def Agree (idx n : Nat) (c c' : Choice) : Prop := ∀ k, idx ≤ k → k < idx + n → c[k]? = c'[k]?

theorem Agree.left {idx n m : Nat} {c c' : Choice} (h : Agree idx (n + m) c c') : Agree idx n c c' :=
  fun k h1 h2 => h k h1 (by omega)

theorem Agree.right {idx n m : Nat} {c c' : Choice} (h : Agree idx (n + m) c c') :
    Agree (idx + n) m c c' :=
  fun k h1 h2 => h k (by omega) (by omega)

mutual
/-- frame lemma -/
theorem sem_frame (U : List String) : ∀ (cmd : Cmd) (idx : Nat) (c c' : Choice),
    Agree idx cmd.arity c c' → sem U cmd idx c = sem U cmd idx c'
  | .skip, idx, c, c', _ => by simp only [sem]
  | .asgnVar x y, idx, c, c', _ => by simp only [sem]
  | .asgnConst x, idx, c, c', _ => by simp only [sem]
  | .bin op x a b, idx, c, c', h => by
    simp only [sem]
    rw [h idx (Nat.le_refl _) (by simp [Cmd.arity])]
  | .seq l, idx, c, c', h => by
    simp only [sem]
    exact semSeq_frame U l idx c c' (by rw [Cmd.arity] at h; exact h)
  | .ite t f, idx, c, c', h => by
    rw [Cmd.arity] at h
    simp only [sem]
    rw [sem_frame U t idx c c' h.left]
    cases h1 : sem U t idx c' with
    | none => rfl
    | some p =>
      obtain ⟨i1, a⟩ := p
      have e1 := sem_index U t idx c' i1 a h1
      subst e1
      simp only
      rw [sem_frame U f _ c c' h.right]
  | .while_ b, idx, c, c', h => by
    rw [Cmd.arity] at h
    simp only [sem]
    rw [sem_frame U b idx c c' h]
  | .loop X b, idx, c, c', h => by
    rw [Cmd.arity] at h
    simp only [sem]
    rw [sem_frame U b idx c c' h]
theorem semSeq_frame (U : List String) : ∀ (l : List Cmd) (idx : Nat) (c c' : Choice),
    Agree idx (arityL l) c c' → semSeq U l idx c = semSeq U l idx c'
  | [], idx, c, c', _ => by simp only [semSeq]
  | cmd :: rest, idx, c, c', h => by
    rw [arityL] at h
    simp only [semSeq]
    rw [sem_frame U cmd idx c c' h.left]
    cases h1 : sem U cmd idx c' with
    | none => rfl
    | some p =>
      obtain ⟨i1, a⟩ := p
      have e1 := sem_index U cmd idx c' i1 a h1
      subst e1
      simp only
      rw [semSeq_frame U rest _ c c' h.right]
end

/-! ## `relabelAt` is compatible with sequencing -/

theorem Relab.agree {idx : Nat} {sws : List Bool} {c c' c'' : Choice} (h1 : Relab idx sws c c')
    (h2 : Relab idx sws c c'') : Agree idx sws.length c' c'' := by
  intro k hk1 hk2
  have e1 := h1 (k - idx) (by omega)
  have e2 := h2 (k - idx) (by omega)
  have : idx + (k - idx) = k := by omega
  rw [this] at e1 e2
  rw [e1, e2]

/-- the head of a sequence sees the relabelling of the whole sequence as its own -/
theorem relabelAt_seq_head (U : List String) (cmd : Cmd) (rest : List Cmd) (idx : Nat) (c : Choice) :
    sem U cmd idx (relabelAt idx (.seq (cmd :: rest)) c) = sem U cmd idx (relabelAt idx cmd c) := by
  apply sem_frame
  rw [← swaps_length]
  have h := relabelAt_relab idx (.seq (cmd :: rest)) c
  rw [Cmd.swaps, swapsL] at h
  exact h.left.agree (relabelAt_relab idx cmd c)

/-- the tail sees it as the relabelling of the tail, shifted by the arity of the head -/
theorem relabelAt_seq_tail (U : List String) (cmd : Cmd) (rest : List Cmd) (idx : Nat) (c : Choice) :
    semSeq U rest (idx + cmd.arity) (relabelAt idx (.seq (cmd :: rest)) c)
      = semSeq U rest (idx + cmd.arity) (relabelAt (idx + cmd.arity) (.seq rest) c) := by
  apply semSeq_frame
  rw [← swapsL_length]
  have h := relabelAt_relab idx (.seq (cmd :: rest)) c
  rw [Cmd.swaps, swapsL] at h
  have h2 := relabelAt_relab (idx + cmd.arity) (.seq rest) c
  rw [Cmd.swaps] at h2
  rw [← swaps_length cmd] at h2 ⊢
  exact h.right.agree h2

/-- likewise for the two branches of an `if` -/
theorem relabelAt_ite_then (U : List String) (t f : Cmd) (idx : Nat) (c : Choice) :
    sem U t idx (relabelAt idx (.ite t f) c) = sem U t idx (relabelAt idx t c) := by
  apply sem_frame
  rw [← swaps_length]
  have h := relabelAt_relab idx (.ite t f) c
  rw [Cmd.swaps] at h
  exact h.left.agree (relabelAt_relab idx t c)

theorem relabelAt_ite_else (U : List String) (t f : Cmd) (idx : Nat) (c : Choice) :
    sem U f (idx + t.arity) (relabelAt idx (.ite t f) c)
      = sem U f (idx + t.arity) (relabelAt (idx + t.arity) f c) := by
  apply sem_frame
  have h := relabelAt_relab idx (.ite t f) c
  rw [Cmd.swaps] at h
  have h2 := relabelAt_relab (idx + t.arity) f c
  rw [← swaps_length f, ← swaps_length t]
  rw [← swaps_length t] at h2
  exact h.right.agree h2

end Refine
end Mwp
