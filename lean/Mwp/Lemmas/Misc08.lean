/-
  Helper lemmas for C08: inversion of `LoopAnalysis.getResult` and of `List.mapM` in `Except`.
-/
import Mwp.Model.Analysis
namespace Mwp
namespace Misc08
open Mwp.Analysis Mwp.LoopAnalysis

/-- every element of a successful `mapM` is the result of the function on some input element -/
theorem mem_mapM_ok {ε α β : Type} (f : α → Except ε β) :
    ∀ (l : List α) (rs : List β), l.mapM f = .ok rs → ∀ r ∈ rs, ∃ a ∈ l, f a = .ok r := by
  intro l
  induction l with
  | nil =>
    intro rs h r hr
    simp only [List.mapM_nil, pure, Except.pure, Except.ok.injEq] at h
    subst h; cases hr
  | cons a l ih =>
    intro rs h r hr
    rw [List.mapM_cons] at h
    cases ha : f a with
    | error e => rw [ha] at h; cases h
    | ok b =>
      rw [ha] at h
      cases hl : l.mapM f with
      | error e => rw [hl] at h; cases h
      | ok bs =>
        rw [hl] at h
        simp only [bind, Except.bind, pure, Except.pure, Except.ok.injEq] at h
        subst h
        rcases List.mem_cons.1 hr with rfl | hr'
        · exact ⟨a, List.mem_cons_self, ha⟩
        · obtain ⟨a', ha', hf⟩ := ih bs hl r hr'
          exact ⟨a', List.mem_cons_of_mem _ ha', hf⟩

/-- the three rungs of `getResult` -/
theorem getResult_inv (rel : Relation) (index : Nat) (v : String) (r : VRes)
    (h : getResult rel index v = .ok r) :
    ∃ c, Choices.infinite c = false ∧
      (r = ⟨v, true, true, true, some c⟩ ∨ r = ⟨v, false, true, true, some c⟩ ∨
        r = ⟨v, false, false, true, some c⟩) := by
  unfold getResult at h
  cases hm : rel.varEval Gen.domain index v [.w, .p] with
  | error e => rw [hm] at h; cases h
  | ok cm =>
    rw [hm] at h
    simp only [bind, Except.bind] at h
    cases him : Choices.infinite cm with
    | false =>
      simp only [him, Bool.not_false, if_true, pure, Except.pure, Except.ok.injEq] at h
      exact ⟨cm, him, .inl h.symm⟩
    | true =>
      simp only [him, Bool.not_true, Bool.false_eq_true, if_false] at h
      cases hw : rel.varEval Gen.domain index v [.p] with
      | error e => rw [hw] at h; cases h
      | ok cw =>
        rw [hw] at h
        simp only at h
        cases hiw : Choices.infinite cw with
        | false =>
          simp only [hiw, Bool.not_false, if_true, pure, Except.pure, Except.ok.injEq] at h
          exact ⟨cw, hiw, .inr (.inl h.symm)⟩
        | true =>
          simp only [hiw, Bool.not_true, Bool.false_eq_true, if_false] at h
          cases hp : rel.varEval Gen.domain index v [] with
          | error e => rw [hp] at h; cases h
          | ok cp =>
            rw [hp] at h
            simp only at h
            cases hip : Choices.infinite cp with
            | false =>
              simp only [hip, Bool.not_false, if_true, pure, Except.pure, Except.ok.injEq] at h
              exact ⟨cp, hip, .inr (.inr h.symm)⟩
            | true =>
              simp only [hip, Bool.not_true, Bool.false_eq_true, if_false] at h
              cases h

/-- every entry of `maybeResult` is either `VRes.unbounded` or a `getResult` -/
theorem maybeResult_inv (rel : Relation) (index : Nat) (pick : Option (List Nat)) (rs : List VRes)
    (h : maybeResult rel index pick = .ok rs) :
    ∀ r ∈ rs, (∃ v, r = VRes.unbounded v) ∨ (∃ v, getResult rel index v = .ok r) := by
  unfold maybeResult at h
  simp only [bind, Except.bind] at h
  split at h
  · cases h
  · rename_i flags hflags
    split at h
    · simp only [pure, Except.pure, Except.ok.injEq] at h
      subst h
      intro r hr
      obtain ⟨v, _, rfl⟩ := List.mem_map.1 hr
      exact .inl ⟨v, rfl⟩
    · split at h
      · cases h
      · rename_i ch
        split at h
        · cases h
        · rename_i restRes hrest
          simp only [pure, Except.pure, Except.ok.injEq] at h
          subst h
          intro r hr
          rcases List.mem_append.1 hr with hr | hr
          · obtain ⟨v, _, rfl⟩ := List.mem_map.1 hr
            exact .inl ⟨v, rfl⟩
          · obtain ⟨v, _, hf⟩ := mem_mapM_ok _ _ _ hrest r hr
            split at hf
            · cases hf
            · split at hf
              · exact .inr ⟨v, hf⟩
              · simp only [pure, Except.pure, Except.ok.injEq] at hf
                exact .inl ⟨v, hf.symm⟩

end Misc08
end Mwp
