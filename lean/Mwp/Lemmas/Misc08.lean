/-
  Helper lemmas for C08: inversion of `LoopAnalysis.getResult` / `maybeResult` and of `List.mapM`
  in `Except`; what a generated / intersected choice object accepts (`rung_valid_iff`,
  `isValid_foldl_intersection`); soundness of the object `getResult` reports (`getResult_sound'`).
-/
import Mwp.Lemmas.Misc15
namespace Mwp
namespace Misc08
open Mwp.Analysis Mwp.LoopAnalysis

/-- every element of a successful `mapM` is the result of the function on some input element -/
theorem mem_mapM_ok {ε α β : Type} (f : α → Except ε β) :
    ∀ (l : List α) (rs : List β), l.mapM f = .ok rs → ∀ r ∈ rs, ∃ a ∈ l, f a = .ok r := by
  intro l
  induction l with
  | nil =>
    intro rs h r hr
    simp only [List.mapM_nil, pure, Except.pure, Except.ok.injEq] at h
    subst h; cases hr
  | cons a l ih =>
    intro rs h r hr
    rw [List.mapM_cons] at h
    cases ha : f a with
    | error e => rw [ha] at h; cases h
    | ok b =>
      rw [ha] at h
      cases hl : l.mapM f with
      | error e => rw [hl] at h; cases h
      | ok bs =>
        rw [hl] at h
        simp only [bind, Except.bind, pure, Except.pure, Except.ok.injEq] at h
        subst h
        rcases List.mem_cons.1 hr with rfl | hr'
        · exact ⟨a, List.mem_cons_self, ha⟩
        · obtain ⟨a', ha', hf⟩ := ih bs hl r hr'
          exact ⟨a', List.mem_cons_of_mem _ ha', hf⟩

/-- every input of a successful `mapM` has its result in the output -/
theorem mapM_ok_forall {ε α β : Type} (f : α → Except ε β) :
    ∀ (l : List α) (rs : List β), l.mapM f = .ok rs → ∀ a ∈ l, ∃ b ∈ rs, f a = .ok b := by
  intro l
  induction l with
  | nil => intro rs _ a ha; cases ha
  | cons a l ih =>
    intro rs h x hx
    rw [List.mapM_cons] at h
    cases ha : f a with
    | error e => rw [ha] at h; cases h
    | ok b =>
      rw [ha] at h
      cases hl : l.mapM f with
      | error e => rw [hl] at h; cases h
      | ok bs =>
        rw [hl] at h
        simp only [bind, Except.bind, pure, Except.pure, Except.ok.injEq] at h
        subst h
        rcases List.mem_cons.1 hx with rfl | hx'
        · exact ⟨b, List.mem_cons_self, ha⟩
        · obtain ⟨b', hb', hf⟩ := ih bs hl x hx'
          exact ⟨b', List.mem_cons_of_mem _ hb', hf⟩

/-- the object a rung of `getResult` works with: the column's own object, cut down to the choices
    valid for every source when it is not infinite -/
def rungObj (valid : Option Choices.T) (c0 : Choices.T) : Choices.T :=
  match valid with
  | some va => if !Choices.infinite c0 then Choices.intersection c0 va else c0
  | none => c0

/-- inversion of `getResult`: the column, the objects of the sources, and the rung that answered -/
theorem getResult_inv (rel : Relation) (index : Nat) (v : String) (r : VRes)
    (h : getResult rel index v = .ok r) :
    ∃ col, rel.vars.idxOf? v = some col ∧
      ∃ cs, (sources rel col).mapM (fun u => rel.varEval Gen.domain index u []) = .ok cs ∧
        (r = VRes.unbounded v ∨
          ∃ scalars c0, rel.varEval Gen.domain index v scalars = .ok c0 ∧
            Choices.infinite (rungObj (choiceReduce cs) c0) = false ∧
            ((scalars = [.w, .p] ∧ r = ⟨v, true, true, true, some (rungObj (choiceReduce cs) c0)⟩) ∨
             (scalars = [.p] ∧ r = ⟨v, false, true, true, some (rungObj (choiceReduce cs) c0)⟩) ∨
             (scalars = [] ∧ r = ⟨v, false, false, true, some (rungObj (choiceReduce cs) c0)⟩))) := by
  unfold getResult at h
  cases hcol : rel.vars.idxOf? v with
  | none => rw [hcol] at h; cases h
  | some col =>
    rw [hcol] at h
    refine ⟨col, rfl, ?_⟩
    simp only [bind, Except.bind] at h
    cases hcs : (sources rel col).mapM (fun u => rel.varEval Gen.domain index u []) with
    | error e => rw [hcs] at h; cases h
    | ok cs =>
      rw [hcs] at h
      refine ⟨cs, rfl, ?_⟩
      simp only [pure, Except.pure] at h
      cases hm : rel.varEval Gen.domain index v [.w, .p] with
      | error e => rw [hm] at h; cases h
      | ok cm =>
        rw [hm] at h
        simp only at h
        change (if (!Choices.infinite (rungObj (choiceReduce cs) cm)) = true then _ else _) = _ at h
        cases him : Choices.infinite (rungObj (choiceReduce cs) cm) with
        | false =>
          simp only [him, Bool.not_false, if_true, Except.ok.injEq] at h
          exact .inr ⟨_, cm, hm, him, .inl ⟨rfl, h.symm⟩⟩
        | true =>
          simp only [him, Bool.not_true, Bool.false_eq_true, if_false] at h
          cases hw : rel.varEval Gen.domain index v [.p] with
          | error e => rw [hw] at h; cases h
          | ok cw =>
            rw [hw] at h
            simp only at h
            change (if (!Choices.infinite (rungObj (choiceReduce cs) cw)) = true then _ else _) = _ at h
            cases hiw : Choices.infinite (rungObj (choiceReduce cs) cw) with
            | false =>
              simp only [hiw, Bool.not_false, if_true, Except.ok.injEq] at h
              exact .inr ⟨_, cw, hw, hiw, .inr (.inl ⟨rfl, h.symm⟩)⟩
            | true =>
              simp only [hiw, Bool.not_true, Bool.false_eq_true, if_false] at h
              cases hp : rel.varEval Gen.domain index v [] with
              | error e => rw [hp] at h; cases h
              | ok cp =>
                rw [hp] at h
                simp only at h
                change (if (!Choices.infinite (rungObj (choiceReduce cs) cp)) = true then _ else _) = _ at h
                cases hip : Choices.infinite (rungObj (choiceReduce cs) cp) with
                | false =>
                  simp only [hip, Bool.not_false, if_true, Except.ok.injEq] at h
                  exact .inr ⟨_, cp, hp, hip, .inr (.inr ⟨rfl, h.symm⟩)⟩
                | true =>
                  simp only [hip, Bool.not_true, Bool.false_eq_true, if_false, Except.ok.injEq] at h
                  exact .inl h.symm

/-- flags of a `getResult` answer -/
theorem getResult_flags (rel : Relation) (index : Nat) (v : String) (r : VRes)
    (h : getResult rel index v = .ok r) :
    (r.isM = true → r.isW = true) ∧ (r.isW = true → r.isP = true) ∧
      (r.isP = true → ∃ c, r.choices = some c ∧ Choices.infinite c = false) := by
  obtain ⟨col, _, cs, _, hr⟩ := getResult_inv rel index v r h
  rcases hr with rfl | ⟨S, c0, _, hinf, ⟨_, rfl⟩ | ⟨_, rfl⟩ | ⟨_, rfl⟩⟩
  · simp [VRes.unbounded]
  all_goals exact ⟨by simp, by simp, fun _ => ⟨_, rfl, hinf⟩⟩

/-- every entry of `maybeResult` is either `VRes.unbounded` or a `getResult` -/
theorem maybeResult_inv (rel : Relation) (index : Nat) (pick : Option (List Nat)) (rs : List VRes)
    (h : maybeResult rel index pick = .ok rs) :
    ∀ r ∈ rs, (∃ v, r = VRes.unbounded v) ∨ (∃ v, getResult rel index v = .ok r) := by
  unfold maybeResult at h
  simp only [bind, Except.bind] at h
  split at h
  · cases h
  · rename_i flags hflags
    split at h
    · simp only [pure, Except.pure, Except.ok.injEq] at h
      subst h
      intro r hr
      obtain ⟨v, _, rfl⟩ := List.mem_map.1 hr
      exact .inl ⟨v, rfl⟩
    · split at h
      · cases h
      · rename_i ch
        split at h
        · cases h
        · rename_i restRes hrest
          simp only [pure, Except.pure, Except.ok.injEq] at h
          subst h
          intro r hr
          rcases List.mem_append.1 hr with hr | hr
          · obtain ⟨v, _, rfl⟩ := List.mem_map.1 hr
            exact .inl ⟨v, rfl⟩
          · obtain ⟨v, _, hf⟩ := mem_mapM_ok _ _ _ hrest r hr
            split at hf
            · cases hf
            · split at hf
              · exact .inr ⟨v, hf⟩
              · simp only [pure, Except.pure, Except.ok.injEq] at hf
                exact .inl ⟨v, hf.symm⟩

/-! ## what the choice objects accept -/

open Mwp.Choices in
/-- a generated object has vectors of the right length -/
theorem generate_shape (domain : List Nat) (n : Nat) (inf : List Seq) (c : T)
    (hd : domain.Nodup) (hne : domain ≠ []) (hwf : ∀ s ∈ inf, WFSeq domain n s)
    (h : generate domain n inf = .ok c) : ∀ w ∈ c.valid, w.length = n := by
  obtain ⟨s', hs, hswf, _⟩ := simplify_ok domain n inf hd hne hwf
  obtain ⟨vs, hb, hshape, _⟩ := buildChoices_ok domain n s' hd hne hswf
  have hgen : generate domain n inf = .ok (mk vs n) := by
    unfold generate
    rw [hs]
    show (do let v ← buildChoices domain n s'; pure (mk v (n : Int))) = _
    rw [hb]
    rfl
  have hmk : mk vs (n : Int) = ⟨vs, n⟩ := by
    unfold mk
    have : ¬ ((n : Int) < 0) := by omega
    simp [this]
  rw [hgen, hmk] at h
  cases h
  exact fun w hw => (hshape w hw).1

open Mwp.Choices in
theorem intersection_valid (c1 c2 : T) :
    (intersection c1 c2).valid =
      c1.valid.flatMap fun v1 => c2.valid.filterMap fun v2 => vectIntersection v1 v2 := by
  unfold intersection mk
  split <;> rfl

open Mwp.Choices in
theorem intersection_shape (c1 c2 : T) (n : Nat) (h1 : ∀ w ∈ c1.valid, w.length = n)
    (h2 : ∀ w ∈ c2.valid, w.length = n) : ∀ w ∈ (intersection c1 c2).valid, w.length = n := by
  intro w hw
  rw [intersection_valid, List.mem_flatMap] at hw
  obtain ⟨v1, hv1, hw⟩ := hw
  rw [List.mem_filterMap] at hw
  obtain ⟨v2, hv2, hw⟩ := hw
  unfold vectIntersection at hw
  simp only at hw
  split at hw
  · cases hw
  · cases hw
    simp [h1 v1 hv1, h2 v2 hv2]

open Mwp.Choices in
/-- the fold of `choice_reduce` accepts exactly what all its arguments accept -/
theorem isValid_foldl_intersection (n : Nat) (vec : List Nat) (hv : vec.length = n) :
    ∀ (cs : List T) (c : T), (∀ w ∈ c.valid, w.length = n) →
      (∀ c' ∈ cs, ∀ w ∈ c'.valid, w.length = n) →
      (∀ w ∈ (cs.foldl intersection c).valid, w.length = n) ∧
      (isValid (cs.foldl intersection c) vec = true ↔
        isValid c vec = true ∧ ∀ c' ∈ cs, isValid c' vec = true) := by
  intro cs
  induction cs with
  | nil => intro c hc _; exact ⟨hc, by simp⟩
  | cons a t ih =>
    intro c hc hcs
    have ha := hcs a List.mem_cons_self
    obtain ⟨hs, hiff⟩ := ih (intersection c a) (intersection_shape c a n hc ha)
      (fun c' hc' => hcs c' (List.mem_cons_of_mem _ hc'))
    refine ⟨hs, ?_⟩
    rw [List.foldl_cons, hiff, Props.C04.intersection_exact c a n vec hv hc ha]
    simp only [Bool.and_eq_true, List.mem_cons, forall_eq_or_imp]
    exact ⟨fun ⟨⟨x, y⟩, z⟩ => ⟨x, y, z⟩, fun ⟨x, y, z⟩ => ⟨⟨x, y⟩, z⟩⟩

theorem add_rank (a b : Scalar) : (a + b).rank = max a.rank b.rank := by
  cases a <;> cases b <;> rfl

theorem sumAll_rank_le (l : List Scalar) (k : Nat) :
    (Poly.sumAll l).rank ≤ k ↔ ∀ s ∈ l, s.rank ≤ k := by
  induction l with
  | nil => simp [Mwp.Lemmas.Poly.sumAll_nil, Scalar.rank]
  | cons a t ih =>
    rw [Mwp.Lemmas.Poly.sumAll_cons, add_rank, Nat.max_le, ih]
    simp

theorem evalD_rank_le (p : Poly) (vec : Choice) (k : Nat) :
    (p.evalD vec).rank ≤ k ↔ ∀ m ∈ p, m.matchesC vec = true → m.scalar.rank ≤ k := by
  unfold Poly.evalD Poly.matching
  rw [sumAll_rank_le]
  simp only [List.mem_map, List.mem_filter]
  constructor
  · intro h m hm hmt; exact h _ ⟨m, ⟨hm, hmt⟩, rfl⟩
  · rintro h s ⟨m, ⟨hm, hmt⟩, rfl⟩; exact h m hm hmt

/-- the scalar list of a rung selects the monomials above a rank -/
def RungOf (S : List Scalar) (k : Nat) : Prop :=
  ∀ s : Scalar, (s == .i || S.contains s) = true ↔ ¬ s.rank ≤ k

theorem rungOf_m : RungOf [.w, .p] 1 := by intro s; cases s <;> decide
theorem rungOf_w : RungOf [.p] 2 := by intro s; cases s <;> decide
theorem rungOf_p : RungOf [] 3 := by intro s; cases s <;> decide

/-- avoiding the delta lists a rung collects in a column = the column stays within the rung's
    rank at the vector -/
theorem avoids_colInfDeltas (rel : Relation) (col : Nat) (S : List Scalar) (k : Nat)
    (hS : RungOf S k) (vec : List Nat) :
    Choices.Avoids (Choices.dedup (rel.colInfDeltas col S)) vec ↔
      ∀ row ∈ rel.mat, ((row.getD col Poly.zero).evalD vec).rank ≤ k := by
  unfold Choices.Avoids
  simp only [Choices.mem_dedup, Relation.colInfDeltas, Poly.evalInf, List.mem_flatMap, List.mem_map,
    List.mem_filter]
  constructor
  · intro h row hrow
    rw [evalD_rank_le]
    intro m hm hmt
    refine Classical.byContradiction fun hk => ?_
    have := h m.deltas ⟨row, hrow, m, ⟨hm, (hS m.scalar).2 hk⟩, rfl⟩
    rw [show Choices.matchesSeq m.deltas vec = m.matchesC vec from rfl, hmt] at this
    cases this
  · rintro h s ⟨row, hrow, m, ⟨hm, hsel⟩, rfl⟩
    cases hmt : Choices.matchesSeq m.deltas vec with
    | false => rfl
    | true =>
      exfalso
      exact (hS m.scalar).1 hsel ((evalD_rank_le _ vec k).1 (h row hrow) m hm hmt)

/-- the object `varEval` generates for a column accepts exactly the vectors at which the column
    stays within the rung's rank -/
theorem varEval_valid_iff (rel : Relation) (index : Nat) (u : String) (cu : Nat)
    (hu : rel.vars.idxOf? u = some cu) (S : List Scalar) (k : Nat) (hS : RungOf S k)
    (hwf : ∀ s ∈ rel.colInfDeltas cu S, Choices.WFSeq Gen.domain index s)
    (c : Choices.T) (h : rel.varEval Gen.domain index u S = .ok c)
    (vec : List Nat) (hv : Choices.VecOK Gen.domain index vec) :
    (∀ w ∈ c.valid, w.length = index) ∧
    (Choices.isValid c vec = true ↔
      ∀ row ∈ rel.mat, ((row.getD cu Poly.zero).evalD vec).rank ≤ k) := by
  unfold Relation.varEval at h
  rw [hu] at h
  simp only at h
  have hwf' : ∀ s ∈ Choices.dedup (rel.colInfDeltas cu S), Choices.WFSeq Gen.domain index s :=
    fun s hs => hwf s ((Choices.mem_dedup _ _).1 hs)
  refine ⟨generate_shape Gen.domain index _ c (by decide) (by decide) hwf' h, ?_⟩
  obtain ⟨c', hgen, hvalid, _⟩ := Props.C04.generate_exact Gen.domain index _ (by decide) (by decide) hwf'
  rw [hgen] at h
  cases h
  rw [hvalid vec hv]
  exact avoids_colInfDeltas rel cu S k hS vec

theorem colInfDeltas_mono (rel : Relation) (col : Nat) (S S' : List Scalar)
    (hsub : ∀ x ∈ S, x ∈ S') : ∀ s ∈ rel.colInfDeltas col S, s ∈ rel.colInfDeltas col S' := by
  intro s hs
  simp only [Relation.colInfDeltas, Poly.evalInf, List.mem_flatMap, List.mem_map, List.mem_filter] at hs ⊢
  obtain ⟨row, hrow, m, ⟨hm, hsel⟩, rfl⟩ := hs
  refine ⟨row, hrow, m, ⟨hm, ?_⟩, rfl⟩
  simp only [Bool.or_eq_true, List.contains_iff_mem] at hsel ⊢
  exact hsel.imp id (hsub _)

theorem rank_le_three (s : Scalar) : s.rank ≤ 3 ↔ s ≠ .i := by cases s <;> decide

/-- soundness of the object `getResult` reports, by rung: at an accepted vector the column of `v`
    stays within the rung's rank, and the column of every source of `v` is free of ∞ -/
theorem getResult_sound' (rel : Relation) (index : Nat) (v : String) (r : VRes)
    (h : getResult rel index v = .ok r) (c : Choices.T) (hc : r.choices = some c)
    (vec : List Nat) (hv : Choices.VecOK Gen.domain index vec) (hacc : Choices.isValid c vec = true)
    (col : Nat) (hcol : rel.vars.idxOf? v = some col)
    (hwf : ∀ s ∈ rel.colInfDeltas col [.w, .p], Choices.WFSeq Gen.domain index s)
    (hwfs : ∀ u ∈ sources rel col, ∀ cu, rel.vars.idxOf? u = some cu →
      ∀ s ∈ rel.colInfDeltas cu [], Choices.WFSeq Gen.domain index s) :
    (∃ k, (k = 1 ∧ r.isM = true ∨ k = 2 ∧ r.isM = false ∧ r.isW = true ∨
          k = 3 ∧ r.isW = false ∧ r.isP = true) ∧
        ∀ row ∈ rel.mat, ((row.getD col Poly.zero).evalD vec).rank ≤ k) ∧
    ∀ u ∈ sources rel col, ∀ cu, rel.vars.idxOf? u = some cu →
      ∀ row ∈ rel.mat, (row.getD cu Poly.zero).evalD vec ≠ .i := by
  obtain ⟨col', hcol', cs, hcs, hr⟩ := getResult_inv rel index v r h
  have : col' = col := by rw [hcol] at hcol'; exact (Option.some.inj hcol').symm
  subst this
  -- the objects of the sources
  have hsrc : ∀ c' ∈ cs, (∀ w ∈ c'.valid, w.length = index) := by
    intro c' hc'
    obtain ⟨u, hu, hf⟩ := mem_mapM_ok _ _ _ hcs c' hc'
    cases hcu : rel.vars.idxOf? u with
    | none => simp only [Relation.varEval, hcu] at hf; cases hf
    | some cu =>
      exact (varEval_valid_iff rel index u cu hcu [] 3 rungOf_p (hwfs u hu cu hcu) c' hf vec hv).1
  have hsrcv : (∀ c' ∈ cs, Choices.isValid c' vec = true) →
      ∀ u ∈ sources rel col', ∀ cu, rel.vars.idxOf? u = some cu →
        ∀ row ∈ rel.mat, (row.getD cu Poly.zero).evalD vec ≠ .i := by
    intro hall u hu cu hcu row hrow
    obtain ⟨c', hc', hf⟩ := mapM_ok_forall _ _ _ hcs u hu
    have := ((varEval_valid_iff rel index u cu hcu [] 3 rungOf_p (hwfs u hu cu hcu) c' hf vec hv).2).1
      (hall c' hc') row hrow
    exact (rank_le_three _).1 this
  -- the answering rung
  have key : ∀ (S : List Scalar) (k : Nat) (c0 : Choices.T), RungOf S k → (∀ x ∈ S, x ∈ [Scalar.w, .p]) →
      rel.varEval Gen.domain index v S = .ok c0 →
      Choices.isValid (rungObj (choiceReduce cs) c0) vec = true →
      (∀ row ∈ rel.mat, ((row.getD col' Poly.zero).evalD vec).rank ≤ k) ∧
      ∀ u ∈ sources rel col', ∀ cu, rel.vars.idxOf? u = some cu →
        ∀ row ∈ rel.mat, (row.getD cu Poly.zero).evalD vec ≠ .i := by
    intro S k c0 hS hsub h0 hval
    obtain ⟨hshape0, hiff0⟩ := varEval_valid_iff rel index v col' hcol S k hS
      (fun s hs => hwf s (colInfDeltas_mono rel col' S _ hsub s hs)) c0 h0 vec hv
    cases cs with
    | nil =>
      -- no sources
      have hnil : sources rel col' = [] := by
        cases hsl : sources rel col' with
        | nil => rfl
        | cons a t =>
          rw [hsl, List.mapM_cons] at hcs
          simp only [bind, Except.bind] at hcs
          split at hcs
          · cases hcs
          · split at hcs
            · cases hcs
            · cases hcs
      refine ⟨hiff0.1 hval, ?_⟩
      intro u hu; rw [hnil] at hu; cases hu
    | cons a t =>
      have hfold := isValid_foldl_intersection index vec hv.1 t a (hsrc a List.mem_cons_self)
        (fun c' hc' => hsrc c' (List.mem_cons_of_mem _ hc'))
      simp only [rungObj, choiceReduce] at hval
      cases hi0 : Choices.infinite c0 with
      | true =>
        -- an infinite object accepts nothing
        exfalso
        have : c0.valid = [] := by
          simp only [Choices.infinite, Bool.and_eq_true, List.isEmpty_iff] at hi0
          exact hi0.1
        simp only [hi0, Bool.not_true, Bool.false_eq_true, if_false] at hval
        simp [Choices.isValid, this] at hval
      | false =>
        simp only [hi0, Bool.not_false, if_true] at hval
        rw [Props.C04.intersection_exact c0 _ index vec hv.1 hshape0 hfold.1, Bool.and_eq_true] at hval
        refine ⟨hiff0.1 hval.1, hsrcv ?_⟩
        have := hfold.2.1 hval.2
        intro c' hc'
        rcases List.mem_cons.1 hc' with rfl | hc'
        · exact this.1
        · exact this.2 c' hc'
  rcases hr with rfl | ⟨S, c0, h0, _, ⟨rfl, rfl⟩ | ⟨rfl, rfl⟩ | ⟨rfl, rfl⟩⟩
  · cases hc
  · simp only [Option.some.injEq] at hc; subst hc
    obtain ⟨k1, k2⟩ := key _ 1 c0 rungOf_m (fun x hx => hx) h0 hacc
    exact ⟨⟨1, .inl ⟨rfl, rfl⟩, k1⟩, k2⟩
  · simp only [Option.some.injEq] at hc; subst hc
    obtain ⟨k1, k2⟩ := key _ 2 c0 rungOf_w (fun x hx => by simp at hx; simp [hx]) h0 hacc
    exact ⟨⟨2, .inr (.inl ⟨rfl, rfl, rfl⟩), k1⟩, k2⟩
  · simp only [Option.some.injEq] at hc; subst hc
    obtain ⟨k1, k2⟩ := key _ 3 c0 rungOf_p (fun x hx => by cases hx) h0 hacc
    exact ⟨⟨3, .inr (.inr ⟨rfl, rfl, rfl⟩), k1⟩, k2⟩

theorem rank_le_one (s : Scalar) : s.rank ≤ 1 ↔ s = .o ∨ s = .m := by cases s <;> decide
theorem rank_le_two (s : Scalar) : s.rank ≤ 2 ↔ s ≠ .p ∧ s ≠ .i := by cases s <;> decide

/-- **soundness of the reported choice object**: at every vector it accepts, the column of `v` and
    the column of every variable flowing into `v` are free of ∞; moreover a `w` flag excludes `p`
    and an `m` flag excludes `w` and `p` in the column of `v` -/
theorem getResult_sound (rel : Relation) (index : Nat) (v : String) (r : VRes)
    (h : getResult rel index v = .ok r) (c : Choices.T) (hc : r.choices = some c)
    (vec : List Nat) (hv : Choices.VecOK Gen.domain index vec) (hacc : Choices.isValid c vec = true)
    (col : Nat) (hcol : rel.vars.idxOf? v = some col)
    (hwf : ∀ s ∈ rel.colInfDeltas col [.w, .p], Choices.WFSeq Gen.domain index s)
    (hwfs : ∀ u ∈ sources rel col, ∀ cu, rel.vars.idxOf? u = some cu →
      ∀ s ∈ rel.colInfDeltas cu [], Choices.WFSeq Gen.domain index s) :
    (∀ row ∈ rel.mat, (row.getD col Poly.zero).evalD vec ≠ .i) ∧
    (∀ u ∈ sources rel col, ∀ cu, rel.vars.idxOf? u = some cu →
      ∀ row ∈ rel.mat, (row.getD cu Poly.zero).evalD vec ≠ .i) ∧
    (r.isW = true → ∀ row ∈ rel.mat, (row.getD col Poly.zero).evalD vec ≠ .p) ∧
    (r.isM = true → ∀ row ∈ rel.mat,
      (row.getD col Poly.zero).evalD vec = .o ∨ (row.getD col Poly.zero).evalD vec = .m) := by
  obtain ⟨⟨k, hk, hrank⟩, hsrc⟩ :=
    getResult_sound' rel index v r h c hc vec hv hacc col hcol hwf hwfs
  have hflags := (getResult_flags rel index v r h).1
  refine ⟨?_, hsrc, ?_, ?_⟩
  · intro row hrow
    apply (rank_le_three _).1
    have := hrank row hrow
    rcases hk with ⟨rfl, _⟩ | ⟨rfl, _⟩ | ⟨rfl, _⟩ <;> omega
  · intro hw row hrow
    have := hrank row hrow
    rcases hk with ⟨rfl, _⟩ | ⟨rfl, _⟩ | ⟨rfl, hw', _⟩
    · exact ((rank_le_two _).1 (by omega)).1
    · exact ((rank_le_two _).1 this).1
    · rw [hw] at hw'; cases hw'
  · intro hm row hrow
    have := hrank row hrow
    rcases hk with ⟨rfl, _⟩ | ⟨rfl, hm', _⟩ | ⟨rfl, hw', _⟩
    · exact (rank_le_one _).1 this
    · rw [hm] at hm'; cases hm'
    · rw [hflags hm] at hw'; cases hw'

end Misc08
end Mwp
