/-
  Basic lemmas for the DeltaGraph model: association-list dictionaries,
  `foldlM` in `Except`, sorted delta tuples, `nodeDiff`.
-/
import Mwp.Model.DeltaGraph
import Mwp.Model.Monomial

namespace Mwp.DG

/-! ## Association lists -/
section Dict
variable {κ ν : Type} [BEq κ] [LawfulBEq κ]

omit [LawfulBEq κ] in
theorem get?_cons (e : κ × ν) (d : List (κ × ν)) (k : κ) :
    get? (e :: d) k = if e.1 == k then some e.2 else get? d k := by
  unfold get?
  rw [List.find?_cons]
  cases h : e.1 == k <;> simp

theorem get?_set (d : List (κ × ν)) (k k' : κ) (v : ν) :
    get? (set d k v) k' = if k == k' then some v else get? d k' := by
  induction d with
  | nil => simp [set, get?]
  | cons e t ih =>
    unfold set
    cases h : e.1 == k
    · simp only [Bool.false_eq_true, if_false, get?_cons, ih]
      cases h1 : e.1 == k'
      · simp
      · have : (k == k') = false := by
          rw [beq_iff_eq] at h1; subst h1
          rw [beq_eq_false_iff_ne] at h ⊢; exact Ne.symm h
        simp [this]
    · rw [beq_iff_eq] at h; subst h
      simp only [if_true, get?_cons]
      cases h1 : e.1 == k' <;> simp

theorem get?_del (d : List (κ × ν)) (k k' : κ) :
    get? (del d k) k' = if k == k' then none else get? d k' := by
  induction d with
  | nil => simp [del, get?]
  | cons e t ih =>
    have ih' : get? (List.filter (fun e => !(e.1 == k)) t) k' = if k == k' then none else get? t k' := ih
    unfold del
    rw [List.filter_cons]
    cases h : e.1 == k
    · simp only [Bool.not_false, if_true, get?_cons, ih']
      cases h1 : e.1 == k'
      · simp
      · have : (k == k') = false := by
          rw [beq_iff_eq] at h1; subst h1
          rw [beq_eq_false_iff_ne] at h ⊢; exact Ne.symm h
        simp [this]
    · rw [beq_iff_eq] at h; subst h
      simp only [Bool.not_true, Bool.false_eq_true, if_false, get?_cons, ih']
      cases h1 : e.1 == k' <;> simp

omit [LawfulBEq κ] in
theorem has_eq_isSome (d : List (κ × ν)) (k : κ) : has d k = (get? d k).isSome := by
  induction d with
  | nil => rfl
  | cons e t ih =>
    rw [get?_cons]
    unfold has at ih ⊢
    rw [List.any_cons, ih]
    cases h : e.1 == k <;> simp

theorem has_iff_mem_keys (d : List (κ × ν)) (k : κ) : has d k = true ↔ k ∈ d.map (·.1) := by
  unfold has
  simp only [List.any_eq_true, List.mem_map, beq_iff_eq]

theorem get?_some_mem {d : List (κ × ν)} {k : κ} {v : ν} (h : get? d k = some v) : (k, v) ∈ d := by
  induction d with
  | nil => simp [get?] at h
  | cons e t ih =>
    rw [get?_cons] at h
    cases h1 : e.1 == k
    · simp only [h1, Bool.false_eq_true, if_false] at h
      exact List.mem_cons_of_mem _ (ih h)
    · simp only [h1, if_true, Option.some.injEq] at h
      rw [beq_iff_eq] at h1
      have : e = (k, v) := Prod.ext h1 h
      simp [this]

theorem mem_keys_get? {d : List (κ × ν)} {k : κ} (h : k ∈ d.map (·.1)) : ∃ v, get? d k = some v := by
  have := (has_iff_mem_keys d k).2 h
  rw [has_eq_isSome] at this
  exact Option.isSome_iff_exists.1 this

theorem mem_set {d : List (κ × ν)} {k : κ} {v : ν} {e : κ × ν} (h : e ∈ set d k v) :
    e ∈ d ∨ e = (k, v) := by
  induction d with
  | nil => simp [set] at h; exact Or.inr h
  | cons x t ih =>
    unfold set at h
    cases hx : x.1 == k
    · simp only [hx, Bool.false_eq_true, if_false, List.mem_cons] at h
      rcases h with h | h
      · left; rw [h]; exact List.mem_cons_self ..
      · rcases ih h with h | h
        · left; exact List.mem_cons_of_mem _ h
        · right; exact h
    · simp only [hx, if_true, List.mem_cons] at h
      rw [beq_iff_eq] at hx
      rcases h with h | h
      · right; rw [h, hx]
      · left; exact List.mem_cons_of_mem _ h

theorem mem_del {d : List (κ × ν)} {k : κ} {e : κ × ν} (h : e ∈ del d k) : e ∈ d ∧ e.1 ≠ k := by
  unfold del at h
  rw [List.mem_filter] at h
  exact ⟨h.1, by simpa using h.2⟩

omit [LawfulBEq κ] in
theorem keys_set (d : List (κ × ν)) (k : κ) (v : ν) :
    (set d k v).map (·.1) = if has d k then d.map (·.1) else d.map (·.1) ++ [k] := by
  induction d with
  | nil => simp [set, has]
  | cons x t ih =>
    unfold set
    cases hx : x.1 == k
    · have hh : has (x :: t) k = has t k := by simp [has, hx]
      simp only [Bool.false_eq_true, if_false, hh, List.map_cons, ih]
      cases has t k <;> simp
    · have hh : has (x :: t) k = true := by simp [has, hx]
      simp [hh]

omit [LawfulBEq κ] in
theorem keys_del (d : List (κ × ν)) (k : κ) :
    (del d k).map (·.1) = (d.map (·.1)).filter (fun x => !(x == k)) := by
  unfold del
  rw [List.filter_map]
  rfl

theorem nodup_keys_set {d : List (κ × ν)} (k : κ) (v : ν) (h : (d.map (·.1)).Nodup) :
    ((set d k v).map (·.1)).Nodup := by
  rw [keys_set]
  split
  · exact h
  · rename_i hh
    rw [List.nodup_append]
    refine ⟨h, by simp, ?_⟩
    intro a ha b hb
    simp only [List.mem_singleton] at hb
    subst hb
    intro hab
    subst hab
    exact hh ((has_iff_mem_keys d a).2 ha)

omit [LawfulBEq κ] in
theorem nodup_keys_del {d : List (κ × ν)} (k : κ) (h : (d.map (·.1)).Nodup) :
    ((del d k).map (·.1)).Nodup := by
  rw [keys_del]
  exact h.filter _

omit [LawfulBEq κ] in
theorem length_set_of_has {d : List (κ × ν)} {k : κ} (v : ν) (h : has d k = true) :
    (set d k v).length = d.length := by
  have := congrArg List.length (keys_set d k v)
  simpa [h] using this

theorem length_del_lt {d : List (κ × ν)} {k : κ} (h : has d k = true) :
    (del d k).length < d.length := by
  unfold del
  rw [has_iff_mem_keys] at h
  obtain ⟨x, hx, hk⟩ := List.mem_map.1 h
  apply List.length_filter_lt_length_iff_exists.2
  exact ⟨x, hx, by simp [hk]⟩

omit [LawfulBEq κ] in
theorem length_del_le (d : List (κ × ν)) (k : κ) : (del d k).length ≤ d.length := by
  unfold del
  exact List.length_filter_le _ _

end Dict

/-! ## `foldlM` in `Except` -/

theorem foldlM_ok_inv {ε α β : Type} (P : β → Prop) (f : β → α → Except ε β) :
    ∀ (l : List α) (init r : β),
      (∀ s x s', x ∈ l → P s → f s x = .ok s' → P s') → P init →
      l.foldlM f init = .ok r → P r := by
  intro l
  induction l with
  | nil =>
    intro init r _ h0 h
    simp only [List.foldlM_nil, pure, Except.pure, Except.ok.injEq] at h
    exact h ▸ h0
  | cons a t ih =>
    intro init r hstep h0 h
    rw [List.foldlM_cons] at h
    cases hf : f init a with
    | error e => rw [hf] at h; simp [bind, Except.bind] at h
    | ok s =>
      rw [hf] at h
      simp only [bind, Except.bind] at h
      exact ih s r (fun s x s' hx => hstep s x s' (List.mem_cons_of_mem _ hx))
        (hstep init a s (List.mem_cons_self ..) h0 hf) h

/-- total version, with an invariant that may mention the remaining list -/
theorem foldlM_total {ε α β : Type} (P : List α → β → Prop) (f : β → α → Except ε β)
    (hstep : ∀ s x rest, P (x :: rest) s → ∃ s', f s x = .ok s' ∧ P rest s') :
    ∀ (l : List α) (init : β), P l init → ∃ r, l.foldlM f init = .ok r ∧ P [] r := by
  intro l
  induction l with
  | nil => intro init h0; exact ⟨init, rfl, h0⟩
  | cons a t ih =>
    intro init h0
    obtain ⟨s, hs, hP⟩ := hstep init a t h0
    obtain ⟨r, hr, hPr⟩ := ih s hP
    refine ⟨r, ?_, hPr⟩
    rw [List.foldlM_cons, hs]
    exact hr

/-! ## Sorted tuples -/

def SortedN (l : Node) : Prop := l.Pairwise (fun a b => a.2 < b.2)

theorem sortedDeltas_iff (l : Node) : Mono.sortedDeltas l = true ↔ SortedN l := by
  unfold SortedN
  induction l with
  | nil => simp [Mono.sortedDeltas]
  | cons a t ih =>
    cases t with
    | nil => simp [Mono.sortedDeltas]
    | cons b t =>
      rw [Mono.sortedDeltas, Bool.and_eq_true, decide_eq_true_iff, ih]
      constructor
      · rintro ⟨hab, hs⟩
        have hs' := List.pairwise_cons.1 hs
        refine List.pairwise_cons.2 ⟨?_, hs⟩
        intro d hd
        rcases List.mem_cons.1 hd with rfl | hd
        · exact hab
        · exact Nat.lt_trans hab (hs'.1 d hd)
      · intro h
        have h' := List.pairwise_cons.1 h
        exact ⟨h'.1 b (List.mem_cons_self ..), h'.2⟩

theorem SortedN.index_unique {l : Node} (h : SortedN l) {d e : Delta} (hd : d ∈ l) (he : e ∈ l)
    (hi : d.2 = e.2) : d = e := by
  unfold SortedN at h
  induction l with
  | nil => cases hd
  | cons a t ih =>
    rw [List.pairwise_cons] at h
    rcases List.mem_cons.1 hd with hd1 | hd1 <;> rcases List.mem_cons.1 he with he1 | he1
    · rw [hd1, he1]
    · have := h.1 e he1; rw [hd1] at hi; omega
    · have := h.1 d hd1; rw [he1] at hi; omega
    · exact ih h.2 hd1 he1

theorem SortedN.ext {l1 l2 : Node} (h1 : SortedN l1) (h2 : SortedN l2)
    (h : ∀ d, d ∈ l1 ↔ d ∈ l2) : l1 = l2 := by
  unfold SortedN at h1 h2
  induction l1 generalizing l2 with
  | nil =>
    cases l2 with
    | nil => rfl
    | cons b t => exact absurd ((h b).2 (List.mem_cons_self ..)) (by simp)
  | cons a t1 ih =>
    cases l2 with
    | nil => exact absurd ((h a).1 (List.mem_cons_self ..)) (by simp)
    | cons b t2 =>
      rw [List.pairwise_cons] at h1 h2
      have hab : a = b := by
        have ha : a ∈ b :: t2 := (h a).1 (List.mem_cons_self ..)
        have hb : b ∈ a :: t1 := (h b).2 (List.mem_cons_self ..)
        rcases List.mem_cons.1 ha with rfl | ha
        · rfl
        · rcases List.mem_cons.1 hb with rfl | hb
          · rfl
          · have := h1.1 b hb; have := h2.1 a ha; omega
      subst hab
      congr 1
      apply ih h1.2 h2.2
      intro d
      constructor
      · intro hd
        rcases List.mem_cons.1 ((h d).1 (List.mem_cons_of_mem _ hd)) with rfl | hd'
        · have := h1.1 d hd; omega
        · exact hd'
      · intro hd
        rcases List.mem_cons.1 ((h d).2 (List.mem_cons_of_mem _ hd)) with rfl | hd'
        · have := h2.1 d hd; omega
        · exact hd'

theorem SortedN.removeIndex {l : Node} (h : SortedN l) (i : Nat) : SortedN (removeIndex l i) :=
  List.Pairwise.filter _ h

theorem mem_removeIndex {l : Node} {i : Nat} {d : Delta} :
    d ∈ removeIndex l i ↔ d ∈ l ∧ d.2 ≠ i := by
  unfold DG.removeIndex
  simp [List.mem_filter]

/-- removing an index that occurs in a sorted tuple shortens it by exactly one -/
theorem SortedN.length_removeIndex {l : Node} (h : SortedN l) {i : Nat}
    (hi : i ∈ l.map (·.2)) : (DG.removeIndex l i).length + 1 = l.length := by
  unfold SortedN at h
  unfold DG.removeIndex
  induction l with
  | nil => simp at hi
  | cons a t ih =>
    rw [List.pairwise_cons] at h
    by_cases ha : a.2 = i
    · have : t.filter (fun d => d.2 != i) = t := by
        apply List.filter_eq_self.2
        intro d hd
        have := h.1 d hd
        simp; omega
      simp [List.filter, ha, this]
    · have hi' : i ∈ t.map (·.2) := by
        simp only [List.map_cons, List.mem_cons] at hi
        rcases hi with hi | hi
        · exact absurd hi.symm ha
        · exact hi
      have hb : (a.2 != i) = true := by simpa using ha
      simp [List.filter, hb, ih h.2 hi']

/-! ## `nodeDiff` -/

/-- `n1` has exactly one delta (namely `e`, of index `i`) that is not in `n2` -/
def OneOff (l n2 : Node) (i : Nat) : Prop :=
  ∃ e ∈ l, e ∉ n2 ∧ e.2 = i ∧ ∀ d ∈ l, d ≠ e → d ∈ n2

theorem nodeDiffWith_true {n2 : Node} {index : Nat} :
    ∀ {l : Node} {found : Bool} {oi : Option Nat},
      nodeDiffWith n2 index l found = (true, oi) →
      oi = some index ∧
        (if found then (∀ e ∈ l, e ∈ n2) else OneOff l n2 index) := by
  intro l
  induction l with
  | nil =>
    intro found oi h
    simp only [nodeDiffWith, Prod.mk.injEq] at h
    obtain ⟨rfl, rfl⟩ := h
    simp
  | cons e es ih =>
    intro found oi h
    unfold nodeDiffWith at h
    by_cases hc : n2.contains e = true
    · simp only [hc, if_true] at h
      have hm : e ∈ n2 := by simpa using hc
      obtain ⟨h1, h2⟩ := ih h
      refine ⟨h1, ?_⟩
      cases found with
      | true =>
        simp only [if_true] at h2 ⊢
        intro d hd
        rcases List.mem_cons.1 hd with rfl | hd
        · exact hm
        · exact h2 d hd
      | false =>
        simp only [Bool.false_eq_true, if_false] at h2 ⊢
        obtain ⟨x, hx, hxn, hxi, hall⟩ := h2
        refine ⟨x, List.mem_cons_of_mem _ hx, hxn, hxi, ?_⟩
        intro d hd hne
        rcases List.mem_cons.1 hd with rfl | hd
        · exact hm
        · exact hall d hd hne
    · have hm : e ∉ n2 := by simpa using hc
      simp only [hc] at h
      cases found with
      | true => simp at h
      | false =>
        simp only [Bool.false_eq_true, if_false] at h ⊢
        by_cases hidx : index = e.2
        · have : (index != e.2) = false := by simpa using hidx
          simp only [this, Bool.false_eq_true, if_false] at h
          obtain ⟨h1, h2⟩ := ih h
          simp only [if_true] at h2
          refine ⟨h1, e, List.mem_cons_self .., hm, hidx.symm, ?_⟩
          intro d hd hne
          rcases List.mem_cons.1 hd with rfl | hd
          · exact absurd rfl hne
          · exact h2 d hd
        · have : (index != e.2) = true := by simpa using hidx
          simp [this] at h

theorem nodeDiffNone_true {n1full n2 : Node} :
    ∀ {l : Node} {oi : Option Nat}, nodeDiffNone n1full n2 l = (true, oi) →
      ∃ i, oi = some i ∧ OneOff l n2 i ∧ OneOff n2 n1full i := by
  intro l
  induction l with
  | nil => intro oi h; simp [nodeDiffNone] at h
  | cons e es ih =>
    intro oi h
    unfold nodeDiffNone at h
    by_cases hc : n2.contains e = true
    · simp only [hc, if_true] at h
      have hm : e ∈ n2 := by simpa using hc
      obtain ⟨i, h1, ⟨x, hx, hxn, hxi, hall⟩, h3⟩ := ih h
      refine ⟨i, h1, ⟨x, List.mem_cons_of_mem _ hx, hxn, hxi, ?_⟩, h3⟩
      intro d hd hne
      rcases List.mem_cons.1 hd with rfl | hd
      · exact hm
      · exact hall d hd hne
    · have hm : e ∉ n2 := by simpa using hc
      simp only [hc] at h
      cases hr : nodeDiffWith n1full e.2 n2 false with
      | mk r1 r2 =>
        rw [hr] at h
        cases r1 with
        | false => simp at h
        | true =>
          simp only [if_true] at h
          obtain ⟨_, hr2⟩ := nodeDiffWith_true hr
          simp only [Bool.false_eq_true, if_false] at hr2
          obtain ⟨h1, h2⟩ := nodeDiffWith_true h
          simp only [if_true] at h2
          refine ⟨e.2, h1, ⟨e, List.mem_cons_self .., hm, rfl, ?_⟩, hr2⟩
          intro d hd hne
          rcases List.mem_cons.1 hd with rfl | hd
          · exact absurd rfl hne
          · exact h2 d hd

/-- two tuples differ exactly in the delta of index `l` -/
def Diff1 (n n' : Node) (l : Nat) : Prop :=
  (∃ a b, a ≠ b ∧ (a, l) ∈ n ∧ (b, l) ∈ n') ∧ ∀ d : Delta, d.2 ≠ l → (d ∈ n ↔ d ∈ n')

theorem Diff1.symm {n n' : Node} {l : Nat} (h : Diff1 n n' l) : Diff1 n' n l := by
  obtain ⟨⟨a, b, hab, ha, hb⟩, h2⟩ := h
  exact ⟨⟨b, a, fun h => hab h.symm, hb, ha⟩, fun d hd => (h2 d hd).symm⟩

theorem nodeDiff_true {n1 n2 : Node} {oi : Option Nat} (h : nodeDiff n1 n2 = (true, oi)) :
    ∃ i, oi = some i ∧ Diff1 n1 n2 i := by
  obtain ⟨i, h1, ⟨e, he, hen, hei, hall⟩, ⟨e', he', hen', hei', hall'⟩⟩ := nodeDiffNone_true h
  refine ⟨i, h1, ⟨e.1, e'.1, ?_, ?_, ?_⟩, ?_⟩
  · intro hv
    apply hen
    have : e = e' := Prod.ext hv (hei.trans hei'.symm)
    rw [this]; exact he'
  · rw [← hei]; exact he
  · rw [← hei']; exact he'
  · intro d hd
    constructor
    · intro hm; exact hall d hm (fun hde => hd (hde ▸ hei))
    · intro hm; exact hall' d hm (fun hde => hd (hde ▸ hei'))

/-- the "TypeError" branch of `insertNodeStep` is unreachable -/
theorem nodeDiff_ne_true_none (n1 n2 : Node) : nodeDiff n1 n2 ≠ (true, none) := by
  intro h
  obtain ⟨i, hi, _⟩ := nodeDiff_true h
  cases hi

end Mwp.DG
