/-
  Refinement, part 1a: `replace_column` (`replaceColumn_spec`) and the table tie: the regenerated
  `create_vector` table is the documented rule table `Spec.operandFlow`, up to pymwp's numbering
  of the two asymmetric alternatives (`vector_table_documented`).  The table is consulted only
  through `simp [Gen.vectorTable]` on concrete class patterns: if the regenerated table changes,
  the proof breaks.
-/
import Mwp.Lemmas.RelAlg
import Mwp.Lemmas.RelFixA
import Mwp.Lemmas.RefineDefs
namespace Mwp
namespace Refine
open Mwp.Props.C16 Mwp.Lemmas.Poly Spec

/-! ## square matrices and `setCell` -/

structure Sq (n : Nat) (m : Matrix) : Prop where
  len : m.length = n
  rows : ∀ row ∈ m, row.length = n
  wf : ∀ row ∈ m, ∀ p ∈ row, Poly.WF p = true

theorem Sq.getD_row {n : Nat} {m : Matrix} (h : Sq n m) {i : Nat} (hi : i < n) :
    (m.getD i []).length = n :=
  h.rows _ (getD_mem m i [] (by rw [h.len]; exact hi))

theorem Sq.setCell {n : Nat} {m : Matrix} (h : Sq n m) (i j : Nat) (p : Poly) (hp : p.WF = true) :
    Sq n (Matrix.setCell m i j p) := by
  unfold Matrix.setCell
  refine ⟨by rw [List.length_set]; exact h.len, ?_, ?_⟩
  · intro row hr
    rcases List.mem_or_eq_of_mem_set hr with hr | rfl
    · exact h.rows row hr
    · rw [List.length_set]
      by_cases hi : i < m.length
      · exact h.rows _ (getD_mem m i [] hi)
      · exfalso
        rw [List.set_eq_of_length_le (by omega)] at hr
        have := h.rows _ hr
        rw [List.length_set, getD_of_le m i [] (by omega)] at this
        have hn : n = 0 := by simpa using this.symm
        have : m = [] := List.eq_nil_of_length_eq_zero (by rw [h.len, hn])
        rw [this] at hr
        cases hr
  · intro row hr q hq
    rcases List.mem_or_eq_of_mem_set hr with hr | rfl
    · exact h.wf row hr q hq
    · rcases List.mem_or_eq_of_mem_set hq with hq | rfl
      · exact Matrix.getD_row_wf m h.wf i q hq
      · exact hp

theorem get_setCell {n : Nat} {m : Matrix} (h : Sq n m) {i j : Nat} (hi : i < n) (hj : j < n)
    (p : Poly) (a b : Nat) :
    Matrix.get (Matrix.setCell m i j p) a b = if a = i ∧ b = j then p else Matrix.get m a b := by
  have hil : i < m.length := by rw [h.len]; exact hi
  have hrow := h.getD_row hi
  unfold Matrix.get Matrix.setCell
  simp only [List.getD_eq_getElem?_getD] at hrow ⊢
  rw [List.getElem?_set]
  by_cases hai : a = i
  · subst hai
    simp only [if_true, hil, Option.getD_some, List.getElem?_set, true_and]
    by_cases hbj : b = j
    · subst hbj
      simp [hrow, hj]
    · have : ¬ j = b := fun e => hbj e.symm
      simp [hbj, this]
  · have : ¬ i = a := fun e => hai e.symm
    simp [hai, this]

/-- the column-writing loop of `replace_column` -/
theorem foldl_setCell (n j : Nat) (hj : j < n) (vec : List Poly) (hwf : ∀ p ∈ vec, p.WF = true) :
    ∀ (k0 : Nat) (m : Matrix), Sq n m → k0 + vec.length ≤ n →
      Sq n ((vec.zipIdx k0).foldl (fun m (v, idx) => Matrix.setCell m idx j v) m) ∧
      ∀ a b, Matrix.get ((vec.zipIdx k0).foldl (fun m (v, idx) => Matrix.setCell m idx j v) m) a b
        = if b = j ∧ k0 ≤ a ∧ a < k0 + vec.length then vec.getD (a - k0) Poly.zero
          else Matrix.get m a b := by
  induction vec with
  | nil =>
    intro k0 m hs _
    refine ⟨hs, fun a b => ?_⟩
    simp only [List.zipIdx_nil, List.foldl_nil, List.length_nil, Nat.add_zero]
    rw [if_neg (by omega)]
  | cons v t ih =>
    intro k0 m hs hle
    simp only [List.length_cons] at hle
    have hv := hwf v (List.mem_cons_self ..)
    have ht : ∀ p ∈ t, p.WF = true := fun p hp => hwf p (List.mem_cons_of_mem _ hp)
    have hs' := hs.setCell k0 j v hv
    obtain ⟨h1, h2⟩ := ih ht (k0 + 1) (Matrix.setCell m k0 j v) hs' (by omega)
    simp only [List.zipIdx_cons, List.foldl_cons]
    refine ⟨h1, fun a b => ?_⟩
    rw [h2 a b, get_setCell hs (by omega) hj]
    simp only [List.length_cons]
    by_cases hb : b = j
    · by_cases ha : a = k0
      · subst ha; subst hb
        rw [if_neg (by omega), if_pos ⟨rfl, rfl⟩, if_pos ⟨rfl, by omega, by omega⟩, Nat.sub_self]
        rfl
      · by_cases ha2 : k0 + 1 ≤ a ∧ a < k0 + 1 + t.length
        · have : a - k0 = (a - (k0 + 1)) + 1 := by omega
          rw [if_pos ⟨hb, ha2⟩, if_pos ⟨hb, by omega, by omega⟩, this, List.getD_cons_succ]
        · rw [if_neg (fun h => ha2 h.2), if_neg (fun h => ha h.1), if_neg (fun h => ha2 ⟨by omega, by omega⟩)]
    · rw [if_neg (fun h => hb h.1), if_neg (fun h => hb h.2), if_neg (fun h => hb h.1)]


theorem identity_sq (vs : List String) :
    Sq vs.length (Matrix.tab vs.length fun i j => if i == j then Poly.unit else Poly.zero) :=
  ⟨Matrix.tab_length _ _, Matrix.tab_row_length _ _, Matrix.tab_cell_wf _ _ WF_idCell⟩

/-- `replace_column` with a full-length vector: the column of `x` holds the vector, every other
    cell is the identity's -/
theorem replaceColumn_spec (r : Relation) (vec : List Poly) (x : String)
    (hnd : r.vars.Nodup) (hne : ∀ v ∈ r.vars, v ≠ "") (hx : x ∈ r.vars)
    (hlen : vec.length = r.vars.length) (hwf : ∀ p ∈ vec, p.WF = true) :
    ∃ rel, r.replaceColumn vec x = .ok rel ∧ rel.WF ∧ rel.vars = r.vars ∧
      ∀ (c : Choice) (u v : String), rel.den c u v =
        if v = x then
          (match r.vars.idxOf? u with
           | some a => (vec.getD a Poly.zero).evalD c
           | none => .o)
        else idS u v := by
  rcases idx_cases r.vars x with ⟨h, _⟩ | ⟨_, j, hj, hxj, _⟩
  · exact absurd hx h
  have hs := identity_sq r.vars
  obtain ⟨h1, h2⟩ := foldl_setCell r.vars.length j hj vec hwf 0 _ hs (by omega)
  have heq : r.replaceColumn vec x = .ok ⟨r.vars, (vec.zipIdx).foldl (fun m (v, idx) => Matrix.setCell m idx j v)
      (Matrix.tab r.vars.length fun i j => if i == j then Poly.unit else Poly.zero)⟩ := by
    unfold Relation.replaceColumn
    simp only [hxj, Relation.identity_eq r.vars hne]
    rw [if_neg (by omega)]
    rfl
  generalize hM : (vec.zipIdx).foldl (fun m (v, idx) => Matrix.setCell m idx j v)
      (Matrix.tab r.vars.length fun i j => if i == j then Poly.unit else Poly.zero) = M at h1 h2 heq
  refine ⟨⟨r.vars, M⟩, heq, ⟨hnd, hne, h1.len, h1.rows, h1.wf⟩, rfl, ?_⟩
  · intro c u v
    rcases idx_cases r.vars u with ⟨hu, hu'⟩ | ⟨_, a, ha, hua, _⟩
    · rw [Relation.den_of_not_mem_left (r := ⟨r.vars, M⟩) hu, hu']
      split
      · rename_i hv; subst hv
        exact idS_of_ne (fun e : u = v => hu (e ▸ hx))
      · rfl
    · rcases idx_cases r.vars v with ⟨hv, _⟩ | ⟨_, b, hb, hvb, _⟩
      · rw [Relation.den_of_not_mem_right (r := ⟨r.vars, M⟩) hv, if_neg (fun e : v = x => hv (e ▸ hx))]
      · rw [Relation.den_of_idx (r := ⟨r.vars, M⟩) hua hvb, hua]
        simp only
        rw [h2 a b, Matrix.get_tab _ _ _ _ ha hb]
        by_cases hvx : v = x
        · subst hvx
          have : b = j := by rw [hxj] at hvb; exact (Option.some.inj hvb).symm
          rw [if_pos ⟨this, by omega, by omega⟩, if_pos rfl, Nat.sub_zero]
        · have : b ≠ j := fun e => hvx ((idx_eq_iff hvb hxj).1 e)
          rw [if_neg (fun h => this h.1), if_neg hvx, evalD_idCell, idS]
          simp only [idx_eq_iff hua hvb]

/-! ## the vector table -/

/-- value of a vector entry for alternative `alt` -/
def entryVal : Gen.VecEntry → Nat → Scalar
  | .zero, _ => .o
  | .tri a b c, alt => if alt = 0 then a else if alt = 1 then b else c

theorem entryPoly_wf (idx : Nat) (e : Gen.VecEntry) : (Analysis.entryPoly idx e).WF = true := by
  cases e <;> rfl

theorem entryPoly_evalD (idx : Nat) (e : Gen.VecEntry) (c : Choice) (alt : Nat)
    (hc : c[idx]? = some alt) (halt : alt < 3) :
    (Analysis.entryPoly idx e).evalD c = entryVal e alt := by
  cases e with
  | zero => rfl
  | tri a b d =>
    have hp : Analysis.entryPoly idx (.tri a b d) = [⟨a, [(0, idx)]⟩, ⟨b, [(1, idx)]⟩, ⟨d, [(2, idx)]⟩] := rfl
    rw [hp]
    have : alt = 0 ∨ alt = 1 ∨ alt = 2 := by omega
    rcases this with rfl | rfl | rfl <;>
      simp [Poly.evalD, Poly.matching, Mono.matchesC, hc, entryVal, Poly.sumAll, sum_zero_left]

/-- the name of an operand, `none` for a constant -/
def atomName : Atom → Option String
  | .var y => some y
  | .const => none

/-- identity class of the first operand, as `create_vector` computes it -/
def classY (x : String) (y : Option String) : Option Nat := y.map fun y => if y == x then 0 else 1

/-- identity class of the second operand -/
def classZ (x : String) (y z : Option String) : Option Nat := z.map fun z =>
  if z == x then 0
  else match y with
    | some y => if z == y then 1 else if y == x then 1 else 2
    | none => 1

/-- the variables of the statement in `dict.fromkeys (x, y, z)` order -/
def stmtVars (x : String) (y z : Option String) : List String :=
  (Analysis.dedupOpt [some x, y, z]).filterMap id

/-- pymwp's numbering ↦ the calculus' numbering of the alternatives -/
def swapAlt (sw : Bool) (alt : Nat) : Nat :=
  if sw then (if alt = 0 then 1 else if alt = 1 then 0 else alt) else alt

theorem createVector_eq (idx : Nat) (op x : String) (y z : Option String) (hop : op ∈ Gen.binOps) :
    Analysis.createVector idx op x y z =
      .ok (idx + 1, (Gen.vectorTable op (classY x y) (classZ x y z)).map (Analysis.entryPoly idx)) := by
  unfold Analysis.createVector
  have : Gen.binOps.contains op = true := by simpa using hop
  rw [this]
  rfl

set_option maxRecDepth 2000 in
local macro "tbl_tac" : tactic => `(tactic| (
  refine ⟨?_, fun alt halt k hk => ?_⟩
  · simp [atomName, classY, classZ, stmtVars, Analysis.dedupOpt, Gen.vectorTable, *]
  · have halt' : alt = 0 ∨ alt = 1 ∨ alt = 2 := by omega
    simp [atomName, classY, classZ, stmtVars, Analysis.dedupOpt, *] at hk
    have hk' : k = 0 ∨ k = 1 ∨ k = 2 := by omega
    rcases halt' with rfl | rfl | rfl <;> rcases hk' with rfl | rfl | rfl <;>
      first
      | (exfalso; omega)
      | simp [atomName, classY, classZ, stmtVars, Analysis.dedupOpt, Gen.vectorTable, Cmd.swaps,
          entryVal, operandFlow, swapAlt, *]))

set_option maxHeartbeats 2000000 in
theorem vector_table_documented (op : String) (hop : op ∈ Gen.binOps) (x : String) (a b : Atom) :
    (Gen.vectorTable op (classY x (atomName a)) (classZ x (atomName a) (atomName b))).length
      = (stmtVars x (atomName a) (atomName b)).length ∧
    ∀ alt, alt < 3 → ∀ k, k < (stmtVars x (atomName a) (atomName b)).length →
      entryVal ((Gen.vectorTable op (classY x (atomName a)) (classZ x (atomName a) (atomName b))).getD k .zero) alt
        = operandFlow op a b (swapAlt ((Cmd.bin op x a b).swaps == [true]) alt)
            ((stmtVars x (atomName a) (atomName b)).getD k "") := by
  simp only [Gen.binOps, List.mem_cons, List.not_mem_nil, or_false] at hop
  cases a with
  | const =>
    cases b with
    | const => rcases hop with rfl | rfl | rfl <;> tbl_tac
    | var z =>
      by_cases hzx : z = x
      · subst hzx
        rcases hop with rfl | rfl | rfl <;> tbl_tac
      · have hxz : ¬ x = z := fun e => hzx e.symm
        rcases hop with rfl | rfl | rfl <;> tbl_tac
  | var y =>
    cases b with
    | const =>
      by_cases hyx : y = x
      · subst hyx
        rcases hop with rfl | rfl | rfl <;> tbl_tac
      · have hxy : ¬ x = y := fun e => hyx e.symm
        rcases hop with rfl | rfl | rfl <;> tbl_tac
    | var z =>
      by_cases hyx : y = x
      · subst hyx
        by_cases hzx : z = y
        · subst hzx
          rcases hop with rfl | rfl | rfl <;> tbl_tac
        · have hxz : ¬ y = z := fun e => hzx e.symm
          rcases hop with rfl | rfl | rfl <;> tbl_tac
      · have hxy : ¬ x = y := fun e => hyx e.symm
        by_cases hzx : z = x
        · subst hzx
          rcases hop with rfl | rfl | rfl <;> tbl_tac
        · have hxz : ¬ x = z := fun e => hzx e.symm
          by_cases hzy : z = y
          · subst hzy
            rcases hop with rfl | rfl | rfl <;> tbl_tac
          · have hyz : ¬ y = z := fun e => hzy e.symm
            rcases hop with rfl | rfl | rfl <;> tbl_tac

end Refine
end Mwp
