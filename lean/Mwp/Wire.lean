/-
  JSON codecs for the line protocol between harness/ (Python, real pymwp) and
  the Lean model/spec.  Only used by Driver.lean; nothing here is proved about.
-/
import Lean.Data.Json
import Mwp.Model.Polynomial
namespace Mwp.Wire
open Lean Mwp

abbrev R := Except String

def field (j : Json) (k : String) : R Json := j.getObjVal? k
def natOf (j : Json) : R Nat := j.getNat?
def strOf (j : Json) : R String := j.getStr?
def boolOf (j : Json) : R Bool := j.getBool?
def arrOf (j : Json) : R (List Json) := do return (← j.getArr?).toList
def fNat (j : Json) (k : String) : R Nat := do natOf (← field j k)
def fStr (j : Json) (k : String) : R String := do strOf (← field j k)
def fBool (j : Json) (k : String) : R Bool := do boolOf (← field j k)
def fArr (j : Json) (k : String) : R (List Json) := do arrOf (← field j k)
def fOpt (j : Json) (k : String) : Option Json :=
  match j.getObjVal? k with
  | .ok .null => none
  | .ok v => some v
  | .error _ => none

def scalarOf (j : Json) : R Scalar := do
  let s ← strOf j
  match Scalar.ofStr? s with
  | some x => pure x
  | none => throw s!"bad scalar {s}"

def deltaOf (j : Json) : R Delta := do
  match ← arrOf j with
  | [a, b] => pure (← natOf a, ← natOf b)
  | _ => throw "bad delta"

def monoOf (j : Json) : R Mono := do
  let s ← scalarOf (← field j "s")
  let ds ← (← fArr j "d").mapM deltaOf
  pure ⟨s, ds⟩

def polyOf (j : Json) : R Poly := do (← arrOf j).mapM monoOf

def natListOf (j : Json) : R (List Nat) := do (← arrOf j).mapM natOf
def strListOf (j : Json) : R (List String) := do (← arrOf j).mapM strOf

def jNat (n : Nat) : Json := Json.num (JsonNumber.fromNat n)
def jList {α} (f : α → Json) (l : List α) : Json := Json.arr (l.map f).toArray
def jScalar (s : Scalar) : Json := Json.str s.toStr
def jDelta (d : Delta) : Json := Json.arr #[jNat d.1, jNat d.2]
def jMono (m : Mono) : Json := Json.mkObj [("s", jScalar m.scalar), ("d", jList jDelta m.deltas)]
def jPoly (p : Poly) : Json := jList jMono p
def jOptScalar : Option Scalar → Json
  | none => Json.str "-"
  | some s => jScalar s

/-- All choice vectors of length `n` over `{0..d-1}`, lexicographic. -/
def allChoices (d : Nat) : Nat → List Choice
  | 0 => [[]]
  | n + 1 => (List.range d).flatMap fun v => (allChoices d n).map (v :: ·)

end Mwp.Wire
