/-
  Base types shared by the generated tables, the model and the specification.
  Import-free (Lean core only) so that the driver links as a `lean_exe`.
-/
namespace Mwp

/-- The five flow coefficients `0 < m < w < p < ∞` (pymwp: "o","m","w","p","i"). -/
inductive Scalar where
  | o | m | w | p | i
  deriving DecidableEq, Repr, Inhabited

namespace Scalar

def all : List Scalar := [.o, .m, .w, .p, .i]

def toStr : Scalar → String
  | .o => "o" | .m => "m" | .w => "w" | .p => "p" | .i => "i"

def ofStr? : String → Option Scalar
  | "o" => some .o | "m" => some .m | "w" => some .w | "p" => some .p | "i" => some .i
  | _ => none

/-- Rank in the documented order `0 < m < w < p < ∞`. -/
def rank : Scalar → Nat
  | .o => 0 | .m => 1 | .w => 2 | .p => 3 | .i => 4

instance : ToString Scalar := ⟨toStr⟩

end Scalar

/-- Delta `(value, index)`: "the `index`-th choice is `value`". -/
abbrev Delta := Nat × Nat

/-- A choice vector: entry `j` is the alternative taken at derivation index `j`. -/
abbrev Choice := List Nat

end Mwp
