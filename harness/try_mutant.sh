#!/bin/bash
# usage: try_mutant.sh <patch.diff> <prop> [<prop> ...]   -- applies the patch to /repo, runs the quick checks, reverts
set -u
PATCH="$1"; shift
cd /repo || exit 2
if ! git diff --quiet; then echo "/repo is dirty"; exit 2; fi
git apply "$PATCH" || { echo "patch does not apply"; exit 2; }
for p in "$@"; do
  ( cd /verif && VERIF_SEED=${VERIF_SEED:-0} timeout 900 /venv/bin/python harness/check.py "$p" --tier ${TIER:-quick} 2>&1 | grep -v conda | grep -E "VIOLATION|KNOWN|exit|INFRA" | head -6 )
done
git -C /repo checkout -- . 
# regenerate tables for the clean tree
( cd /verif && /venv/bin/python harness/gen_lean.py >/dev/null 2>&1 )
