#!/bin/bash
# usage: try_mutant.sh <patch.diff> <prop> [<prop> ...]
# Applies the patch to a scratch worktree of /repo (so that /repo itself and any background run stay
# untouched), runs the quick checks against it (PYMWP_REPO), removes the worktree.
# With MUT_IN_REPO=1 the patch is applied to /repo itself and reverted afterwards.
set -u
PATCH="$(readlink -f "$1")"; shift
if [ "${MUT_IN_REPO:-0}" = "1" ]; then
  cd /repo || exit 2
  git diff --quiet || { echo "/repo is dirty"; exit 2; }
  git apply "$PATCH" || { echo "patch does not apply"; exit 2; }
  TREE=/repo
else
  TREE=$(mktemp -d /tmp/mutrun.XXXXXX); rmdir "$TREE"
  git -C /repo worktree add -q --detach "$TREE" HEAD || exit 2
  git -C "$TREE" apply "$PATCH" || { echo "patch does not apply"; git -C /repo worktree remove --force "$TREE"; exit 2; }
fi
for p in "$@"; do
  ( cd /verif && PYMWP_REPO=$TREE VERIF_SEED=${VERIF_SEED:-0} timeout 1200 /venv/bin/python harness/check.py "$p" --tier ${TIER:-quick} 2>&1 | grep -v conda | grep -E "VIOLATION|exit|INFRA" | head -6 )
done
if [ "${MUT_IN_REPO:-0}" = "1" ]; then git -C /repo checkout -- .; else git -C /repo worktree remove --force "$TREE"; fi
( cd /verif && /venv/bin/python harness/gen_lean.py >/dev/null 2>&1 )
