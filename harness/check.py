#!/venv/bin/python
"""Entry point of every check:  check.py <Cxx> [--tier quick|thorough] [--replay FILE]

Exit 0: property held on everything explored (KNOWN-FINDING lines may be printed).
Exit 1: a line `VIOLATION property=<id> replay=<path>` was printed.
Exit 2: infrastructure error / timeout (never a violation).
"""
import argparse
import importlib
import json
import os
import re
import sys
import time
import traceback

HERE = os.path.dirname(os.path.abspath(__file__))
sys.path.insert(0, HERE)
import common as C  # noqa: E402


def theorem_at(path, line):
    """Name of the theorem whose text contains `line` in Lean file `path`."""
    name = None
    try:
        for i, l in enumerate(open(path, encoding='utf-8'), 1):
            m = re.match(r'\s*(?:@\[[^\]]*\]\s*)?(?:private\s+|protected\s+)?(?:theorem|lemma)\s+(\S+)', l)
            if m:
                if i > line:
                    break
                name = m.group(1)
            elif i > line:
                break
    except OSError:
        pass
    return name


def main():
    ap = argparse.ArgumentParser()
    ap.add_argument('prop')
    ap.add_argument('--tier', default=os.environ.get('VERIF_TIER', 'quick'))
    ap.add_argument('--replay')
    a = ap.parse_args()
    prop = a.prop.upper()
    tier = a.tier if a.tier in ('quick', 'thorough') else 'quick'
    try:
        seed = int(os.environ.get('VERIF_SEED', '0'))
    except ValueError:
        seed = 0
    t0 = time.time()
    try:
        mod = importlib.import_module(f'props.{prop.lower()}')
    except ImportError as e:
        print(f'no check for {prop}: {e}')
        return 2
    C.setup_repo_path()
    ctx = C.Ctx(prop, tier, seed)

    if a.replay:
        payload = json.load(open(a.replay))
        ctx.drv = C.Driver() if os.path.exists(C.DRV) else None
        res = mod.replay(ctx, payload) if hasattr(mod, 'replay') else 'no replay support'
        print(json.dumps(res, indent=1, default=str))
        return 0

    # ---- 1. regenerate + build (under a lock) ---------------------------------
    modules = list(getattr(mod, 'LEAN_MODULES', [f'Mwp.Props.{prop}']))
    build_log = ''
    with C.Lock():
        gen = C.regenerate()
        translator_errors = []
        for g in gen:
            if g.get('error'):
                ctx.notes.append(f"translator {g['file']}: {g['error']}")
                # relevant only if the property's own Lean modules import that generated file
                gen_file = {'gen_semiring': 'Semiring', 'gen_vector': 'Vector', 'gen_dispatch': 'Dispatch',
                            'gen_result': 'Result', 'gen_cli': 'Cli'}.get(g['file'], g['file'])
                closure = C.lean_closure(modules)
                if any(p.endswith(os.path.join('Gen', gen_file + '.lean')) for p in closure):
                    translator_errors.append(f"{g['file']}: {str(g['error'])[-300:]}")
            ctx.gen_notes += [f"{g['file']}: {n}" for n in g.get('notes', [])]
        ok_drv, out, _ = C.lake_build(['mwpdrv', 'Mwp.AuditCmd'])
        if not ok_drv:
            build_log += out
        ok_props, out, build_s = C.lake_build(modules)
        if not ok_props:
            build_log += out
    model_broken = None
    if not ok_drv:
        # The model itself no longer elaborates against the regenerated tables.
        ctx.notes.append('driver/model build failed')
        model_broken = build_log[-1500:]

    # ---- 2. audit ---------------------------------------------------------------
    required = list(mod.THEOREMS)
    forb = C.grep_forbidden(C.lean_closure(modules + ['Driver']))
    audited, failed = {}, {}
    if ok_props:
        rc, audited, aout = C.audit_namespace([m for m in modules if m.startswith('Mwp.Props.')] or [f'Mwp.Props.{prop}'], modules)
        if rc != 0 and not audited:
            ctx.notes.append('audit failed: ' + aout[-500:])
    else:
        errs = C.parse_build_errors(build_log)
        for path, items in errs.items():
            full = os.path.join(C.LEAN_DIR, path)
            for line, msg in items:
                th = theorem_at(full, line) or '?'
                failed.setdefault(f'{path}:{th}', msg)
    discharged, undischarged = [], []
    for th in required:
        fq = th if th.startswith('Mwp.') else f'Mwp.Props.{prop}.{th}'
        axs = audited.get(fq)
        if axs is None:
            undischarged.append((fq, 'not proved (module does not build)' if not ok_props
                                 else 'theorem missing from the compiled module'))
        elif not set(axs) <= C.ALLOWED_AXIOMS:
            undischarged.append((fq, f'depends on axioms {axs}'))
        else:
            discharged.append(fq)
    if forb:
        undischarged.append(('source-scan', '; '.join(forb[:5])))
    if translator_errors:
        # the regenerated part of the model could not be produced from the current source: the tables in
        # lean/Mwp/Gen are stale, so nothing proved about them is tied to this tree
        undischarged.append(('translator', 'gen_lean.py could not regenerate: ' + ' | '.join(translator_errors)))
    if model_broken:
        undischarged.append(('model-build', 'the executable model / driver does not build: ' + model_broken))

    checker_cmd = f'cd lean && lake build {" ".join(modules)} && lake env lean <#audit_ns Mwp.Props.{prop}>'
    leancheck = None
    if tier == 'thorough' and ok_props:
        rc, out, dt = C.sh(['lake', 'env', 'leanchecker'] + modules, cwd=C.LEAN_DIR, timeout=1800)
        leancheck = {'rc': rc, 'wall_s': round(dt, 1), 'tail': out[-300:]}
        checker_cmd += f' && lake env leanchecker {" ".join(modules)}'
        if rc != 0:
            undischarged.append(('leanchecker', out[-300:]))

    # ---- 3. correspondence + property predicate on the implementation ----------
    infra_error = None
    if ok_drv and os.path.exists(C.DRV):
        ctx.drv = C.Driver()
    try:
        mod.run(ctx)
    except Exception:
        infra_error = traceback.format_exc()
    # failing-input search: a proof obligation or the correspondence broke, yet the property held on
    # everything explored -> explore with the thorough budget (time-boxed) for a concrete violation
    searched = False
    if infra_error is None and not ctx.violations and (ctx.disagreements or not ok_props or translator_errors) \
            and tier == 'quick' and ctx.drv is not None:
        searched = True
        ctx.tier = 'thorough'
        ctx.deadline = time.time() + float(os.environ.get('VERIF_SEARCH_S', '150'))
        try:
            mod.run(ctx)
        except Exception:
            ctx.notes.append('failing-input search aborted: ' + traceback.format_exc()[-300:])
        ctx.tier = tier
        ctx.extra['failing_input_search'] = True
    if ctx.drv:
        ctx.drv.close()

    # ---- 4. decision -----------------------------------------------------------
    known = [k for k in C.load_known() if k.get('property') == prop and k.get('status') == 'known']
    lines, new_viol, seen_known = [], [], {}
    for sig, what, payload in ctx.violations:
        hit = next((k for k in known if C.sig_matches(k['signature'], sig)), None)
        if hit is not None:
            key = json.dumps(hit['signature'], sort_keys=True)
            if key not in seen_known:
                seen_known[key] = (hit, what)
        else:
            new_viol.append((sig, what, payload))
    for hit, what in seen_known.values():
        lines.append(f"KNOWN-FINDING: property={prop} {hit.get('text') or what}")

    os.makedirs(C.REPLAY_DIR, exist_ok=True)
    for old in os.listdir(C.REPLAY_DIR):
        if old.startswith(prop + '-'):
            os.remove(os.path.join(C.REPLAY_DIR, old))
    exit_code = 0
    replay_paths = []
    if new_viol:
        # distinct signatures only
        seen = set()
        n = 0
        for sig, what, payload in new_viol:
            key = json.dumps(sig, sort_keys=True, default=str)
            if key in seen:
                continue
            seen.add(key)
            n += 1
            if n > 5:
                break
            path = os.path.join(C.REPLAY_DIR, f'{prop}-{n}.json')
            C.write_json(path, {'property': prop, 'signature': sig, 'what': what, 'input': payload,
                                'seed': seed, 'tier': tier,
                                'replay_cmd': f'/venv/bin/python harness/check.py {prop} --replay {os.path.relpath(path, C.VERIF)}'})
            replay_paths.append(path)
            lines.append(f'VIOLATION property={prop} replay={os.path.relpath(path, C.VERIF)}')
        exit_code = 1
    elif infra_error is None and (undischarged or ctx.disagreements):
        path = os.path.join(C.REPLAY_DIR, f'{prop}-unshown.json')
        C.write_json(path, {
            'property': prop,
            'what': 'the property is no longer shown to hold: a proof obligation or the '
                    'model/implementation correspondence no longer checks; the search found '
                    'no input on which the property itself fails',
            'undischarged_theorems': [{'theorem': t, 'reason': r} for t, r in undischarged],
            'build_errors': failed,
            'translator_notes': ctx.gen_notes,
            'correspondence_disagreements': [{'layer': l, 'input': p} for l, p in ctx.disagreements[:5]],
            'seed': seed, 'tier': tier})
        replay_paths.append(path)
        lines.append(f'VIOLATION property={prop} replay={os.path.relpath(path, C.VERIF)} no-failing-input-found')
        exit_code = 1
    if infra_error is not None and exit_code == 0:
        print(infra_error)
        print(f'INFRA-ERROR property={prop}')
        exit_code = 2

    # ---- 5. evidence ------------------------------------------------------------
    cov = {
        'obligations': max(len(required), 1),
        'discharged': len(discharged) if not forb else max(len(discharged) - 1, 0),
        'checker_cmd': checker_cmd,
        'trusted_base': C.TRUSTED_BASE + list(getattr(mod, 'TRUSTED_EXTRA', [])),
        'theorems': discharged,
        'undischarged': [{'theorem': t, 'reason': r} for t, r in undischarged],
        'axioms_used': sorted({x for fq in discharged for x in audited.get(fq, [])}),
        'other_theorems_in_namespace': sorted(set(audited) - set(discharged)),
        'evaluations': ctx.evaluations,
        'distinct_nontrivial': len(ctx.nontrivial),
        'rule': getattr(mod, 'RULE', ''),
        'samples': ctx.samples or ['(no case explored)'],
        'input_distribution': ctx.hist,
        'correspondence_disagreements': len(ctx.disagreements),
        'exhaustive': bool(ctx.exhaustive),
        'translator_notes': ctx.gen_notes,
        'lean_build_wall_s': round(build_s, 1),
        'driver_calls': ctx.drv.calls if ctx.drv else 0,
        'explanation': getattr(mod, 'EXPLANATION', ''),
        **ctx.extra,
    }
    if leancheck:
        cov['leanchecker'] = leancheck
    ev = {
        'property_id': prop, 'tier': tier, 'seed': seed, 'level': 'proof',
        'coverage': cov,
        'assumptions': list(getattr(mod, 'ASSUMPTIONS', [])) + ctx.notes,
        'wall_s': round(time.time() - t0, 2),
        'violations': len(new_viol),
        'known_findings_seen': [h['signature'] for h, _ in seen_known.values()],
        'replay_files': [os.path.relpath(p, C.VERIF) for p in replay_paths],
    }
    C.write_json(os.path.join(C.EVID_DIR, f'{prop}.json'), ev)
    for l in lines:
        print(l)
    print(f'{prop} {tier}: obligations {len(discharged)}/{len(required)} discharged, '
          f'{ctx.evaluations} cases ({len(ctx.nontrivial)} distinct non-trivial), '
          f'{len(ctx.disagreements)} correspondence disagreements, '
          f'{len(new_viol)} violations, {len(seen_known)} known findings, '
          f'{ev["wall_s"]} s -> exit {exit_code}')
    return exit_code


if __name__ == '__main__':
    try:
        sys.exit(main())
    except SystemExit:
        raise
    except Exception:
        traceback.print_exc()
        sys.exit(2)
