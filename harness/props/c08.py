"""C08 -- loop mode gives a variable a bound only from a derivation valid for it."""
import copy
import itertools
import json

import astwire
import implobs
from gens.programs import Opts, Gen

THEOREMS = ['flags_nested', 'unbounded_flags', 'getResult_choice_not_infinite', 'maybeResult_flags_nested', 'maybeResult_bounded_has_choice',
            'reported_choices_valid_for_dependencies', 'loop_mode_bound_is_a_valid_derivation',
            'loop_mode_partial_results_are_valid_derivations']
RULE = ('while / do-while / counted for loops at any nesting depth of generated functions, each analysed by the real '
        'LoopAnalysis.inspect on its own; per variable: flags, bound and the choice object are handed to the Lean '
        'predicate check.C08, which looks among the reported choices (all 3^k tabulated, k<=6) for one at which the '
        'calculus-with-infinity Spec.semI is failure-free for the variable AND every variable it transitively depends '
        'on, has the reported bound as that column and the reported class as its largest coefficient; flags must be '
        'nested; the Lean model of inspect/get_result/maybe_result is diffed (flags, accepted choice sets; red.first is '
        'observed by wrapping Choices.choice_reduce); non-trivial = loop has >=2 variables and a binary operation; '
        'distinct by loop source')
EXPLANATION = 'see DESIGN.md C08'
ASSUMPTIONS = ['loops of the supported fragment as delimited by Spec.desugar']

CORPUS = [
    'int f(int X,int u,int v,int z){ int i; for (i = 0; i < X; i++) { u = u + z; v = u; } }',
    'int f(int x,int y,int z){ while (x < 10) { y = y + z; x = y; } }',
    'int f(int x,int y,int z){ while (x < 10) { y = y * y; z = z + x; } }',
    'int f(int x,int y,int z,int w){ while (x < 10) { y = y + y; z = w; } }',
    'int f(int x,int y,int z){ while (x < 10) { if (y < z) { x = y + z; } else { z = z + 1; } } }',
    'int f(int n,int x,int y){ int i; for (i = 0; i < n; i++) { x = x + y; } }',
    'int f(int n,int x,int y,int z){ int i; for (i = 0; i < n; i++) { while (z < 2) { x = x * y; } y = z; } }',
    # two variables fail at every choice, a third depends on one of them only, a fourth on neither
    'int f(int c,int a,int b,int r,int s){ while (c) { a = a * a; b = b * b; r = a; s = c; } }',
    'int f(int c,int a,int r,int s){ while (c) { a = a * a; r = c; s = s; } }',
    # closure whose last productive round only appends monomials (3-hop flow in reverse order, shortcuts as copies)
    'int f(int n,int a,int b,int c,int d,int g,int h){ int i; for (i = 0; i < n; i++) { if (g) { d = b; } else { if (h) { d = a; } else { d = c; } } if (g) { c = a; } else { c = b + b; } b = a; } }',
    'int f(int n,int c,int s,int g,int e,int k1,int k2,int d){ int i; for (i = 0; i < n; i++) { if (c) { d = s; } if (c) { d = g; } if (c) { d = k1; } if (c) { d = k2 + e; } if (c) { k2 = s; } if (c) { k2 = g; } if (c) { k2 = k1 * k1; } if (c) { k1 = s + g; } } }',
    # a dependent variable with three sources, the restricting one last / first in the variable order
    'int f(int n,int base,int z,int out){ int i; for (i = 0; i < n; i++) { z = z + base; out = z * z; } }',
    'int f(int n,int base,int acc,int out){ int i; for (i = 0; i < n; i++) { acc = acc + base; out = acc * acc; } }',
]


def failing_family(rng):
    """a loop in which 1-3 variables fail at EVERY choice (x = x * x, x = x + x) and others depend on some,
    all or none of them: the shape on which `maybe_result` decides per variable"""
    fails = rng.sample(['a', 'b', 'd'], rng.randint(1, 3))
    others = ['r', 's', 't'][:rng.randint(1, 3)]
    stmts = [f'{v} = {v} {rng.choice("*+")} {v};' for v in fails]
    for o in others:
        k = rng.random()
        if k < 0.35:
            stmts.append(f'{o} = {rng.choice(fails)};')
        elif k < 0.55:
            stmts.append(f'{o} = {rng.choice(fails)} + {rng.choice(fails + ["c"])};')
        elif k < 0.8:
            stmts.append(f'{o} = c;')
        else:
            stmts.append(f'{o} = {o} + c;')
    if rng.random() < 0.3:
        rng.shuffle(stmts)
    body = ' '.join(stmts)
    if rng.random() < 0.7:
        return f'int f(int c,int a,int b,int d,int r,int s,int t){{ while (c) {{ {body} }} }}'
    return f'int f(int n,int c,int a,int b,int d,int r,int s,int t){{ int i; for (i = 0; i < n; i++) {{ {body} }} }}'



from props.funcs_common import dependent_family  # noqa: E402


def observe_loop(loop_node):
    """run LoopAnalysis.inspect on a copy; capture red.first"""
    from pymwp import LoopAnalysis, Choices
    node = copy.deepcopy(loop_node)
    captured = {}
    orig = Choices.choice_reduce

    def wrapped(*c):
        r = orig(*c)
        if 'pick' in captured:
            return r       # only the first call is maybe_result's own (later ones come from get_result)
        try:
            captured['pick'] = None if r.infinite else list(r.first)
        except Exception:
            captured['pick'] = None
        return r
    Choices.choice_reduce = staticmethod(wrapped)
    try:
        res = LoopAnalysis.inspect(node)
    except Exception as e:
        return {'raised': type(e).__name__, 'msg': str(e)[:100]}, captured.get('pick')
    finally:
        Choices.choice_reduce = staticmethod(orig)
    out = []
    for name, vr in res.variables.items():
        d = {'name': name, 'flags': [bool(vr.is_m), bool(vr.is_w), bool(vr.is_p)],
             'bound': [list(t) for t in vr.bound.bound_triple] if vr.bound else None}
        if vr.choices is not None:
            d['index'] = vr.choices.index
            if 0 <= vr.choices.index <= 6:
                d['valid'] = ''.join('1' if vr.choices.is_valid(*c) else '0'
                                     for c in itertools.product(range(3), repeat=vr.choices.index))
            d['first'] = list(vr.choices.first) if vr.choices.first is not None else None
        out.append(d)
    return {'results': out}, captured.get('pick')


def run(ctx):
    from pymwp import FindLoops, Analysis, Parser as pr, Variables
    rng = ctx.rng
    srcs = list(CORPUS)
    for i in range(ctx.budget(24, 400)):
        srcs.append(failing_family(rng))
    for i in range(ctx.budget(40, 600)):
        srcs.append(dependent_family(rng))
    for i in range(ctx.budget(60, 2000)):
        g = Gen(rng, Opts(sugar=(i % 4 == 0), max_bin=5, max_stmts=3, nvars=rng.choice([3, 4, 5])))
        srcs.append(g.function())
    pending = []
    for src in srcs:
        try:
            ast = astwire.parse(src)
        except Exception:
            continue
        for fn in astwire.funcs(ast):
            for loop in FindLoops(copy.deepcopy(fn)).loops:
                if not pr.is_loop(loop):
                    continue
                loop = copy.deepcopy(loop)
                if not Analysis.syntax_check(loop, False):
                    continue
                code = pr.to_c(loop, True)
                wire = astwire.W(loop)
                obs, pick = observe_loop(loop)
                nvars = len(Variables(loop).vars)
                ctx.case(code, nontrivial=(nvars >= 2 and any(t in code for t in '+-*')),
                         sample={'loop': code[:200], 'results': obs.get('results'), 'raised': obs.get('raised')})
                if 'raised' in obs:
                    ctx.count('raised_' + obs['raised'])
                    ctx.violation({'kind': 'raises', 'exception': obs['raised']},
                                  f"LoopAnalysis.inspect raised {obs['raised']} ({obs['msg']}) on `{code[:200]}`", {'loop': code})
                    pending.append(({'op': 'model.loop_inspect', 'ast': wire, 'pick': pick}, ('model', code, obs, None)))
                    continue
                res = obs['results']
                idx = next((r['index'] for r in res if 'index' in r), None)
                ctx.count('bounded_vars', sum(1 for r in res if r['flags'][2]))
                ctx.count('unbounded_vars', sum(1 for r in res if not r['flags'][2]))
                if idx is not None and idx <= 6 and all('valid' in r for r in res if r['flags'][2]):
                    pending.append(({'op': 'check.C08', 'ast': wire, 'vars': [r['name'] for r in res] if False else sorted(r['name'] for r in res),
                                     'index': idx, 'results': res}, ('check', code, obs, None)))
                elif idx is None:
                    # no variable has a choice object: nothing bounded; flags must still be nested
                    for r in res:
                        f = r['flags']
                        if (f[0] and not f[1]) or (f[1] and not f[2]):
                            ctx.violation({'kind': 'flags-not-nested'}, f'flags {f} for {r["name"]}', {'loop': code})
                pending.append(({'op': 'model.loop_inspect', 'ast': wire, 'pick': pick}, ('model', code, obs, idx)))
    if ctx.drv is None:
        return
    outs = ctx.drv.batch([p[0] for p in pending])
    for (req, (kind, code, obs, idx)), r in zip(pending, outs):
        if 'error' in r:
            raise RuntimeError(r['error'] + ' :: ' + code)
        if kind == 'check':
            if 'violation' in r:
                v = r['violation']
                sig = {'kind': v['kind']}
                if v['kind'] == 'bound-ignores-failing-dependency':
                    sig['ancestor_always_fails'] = v.get('ancestor_always_fails')
                ctx.violation(sig, f"{v['kind']} (variable {v.get('variable')}) in loop `{code[:200]}`",
                              {'loop': code, 'detail': v, 'results': obs['results']})
            elif not r['ok'].get('supported', True):
                ctx.count('outside_spec_fragment')
        else:
            m = r['ok']
            if ('raised' in m) != ('raised' in obs):
                ctx.disagree('model.loop_inspect(raise)', {'loop': code, 'impl': obs.get('raised'), 'model': m.get('raised')})
                continue
            if 'raised' in m:
                continue
            mv = {v['name']: v for v in m['vars']}
            for rres in obs['results']:
                mm = mv.get(rres['name'])
                if mm is None or mm['flags'] != rres['flags']:
                    ctx.disagree('model.loop_inspect(flags)', {'loop': code, 'var': rres['name'], 'impl': rres['flags'],
                                                               'model': mm and mm['flags']})
                    break
                if 'valid' in rres and mm.get('accepted') is not None:
                    acc = sorted(list(c) for c, f in zip(itertools.product(range(3), repeat=rres['index']), rres['valid']) if f == '1')
                    if acc != sorted(mm['accepted']):
                        ctx.disagree('model.loop_inspect(choices)', {'loop': code, 'var': rres['name']})
                        break


def replay(ctx, payload):
    inp = payload['input']
    ast = astwire.parse('int solo(){ %s }' % inp['loop'])
    from pymwp import FindLoops
    loop = FindLoops(astwire.funcs(ast)[0]).loops[0]
    obs, pick = observe_loop(loop)
    return {'loop': inp['loop'], 'observed_now': obs}
