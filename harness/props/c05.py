"""C05 -- strict mode never silently ignores a statement that changes a variable."""
import copy
import itertools
import json
import logging

import astwire
import implobs
from gens.programs import Opts, Gen

THEOREMS = ['full_support_means_readable_partial', 'full_support_means_effect_free_conditions']
RULE = ('parseable functions built from every statement form x expression form at the edge of the supported list '
        '(bounded-exhaustive templates: labels, comma expressions, nested unary, casts at each position, assignments / '
        '++ / calls inside if, while, do-while, for conditions, constant operands, compound assignment, non-= '
        'assignments ...) at top level, in a branch and in a loop body, plus the random mixed grammar; for each the real '
        'Coverage verdict and, when it says "fully supported", the warnings of the real analysis are handed to the Lean '
        'predicate check.C05 (no skipped statement, no side-effecting condition, every statement readable by '
        'Spec.desugar); the model of Coverage is diffed (omit count and tree after ast_mod); non-trivial = the function '
        'contains a form outside plain assignments; distinct by source')
EXPLANATION = 'see DESIGN.md C05'
ASSUMPTIONS = []

STMTS = [
    'x = y + z;', 'L1: x = y + z;', 'x = y, y = z;', 'x = - -y;', 'x = -(int)y;', '(int)x++;', 'x = (int)(y + z);',
    'x = (int)-y;', 'x = !y;', 'x = ~y;', 'x = y << 1;', 'x += y;', 'x = y / z;', 'x = y % z;', 'x;', 'x + y;',
    '-x;', 'x++;', '--x;', 'x = y++;', 'x = sizeof(y);', 'x = sizeof(int);', 'x = 1 + 2;', 'x = y + 1;', 'x = (int)y + (int)z;',
    'x = -(y + z);', 'x = !(y + z);', 'x = -(int)(y + z);', 'x = -(int)(long)y;', 'x = +(long)(int)y;', '(int)(long)x++;', 'x = (int)(long)y + z;', 'x = (long)(int)y++;', 'x = -(int)(y, z);', 'x = +(int)-y;', 'x = - - -y;', 'x = +(int)(y);', 'x = (int)(long)y;', 'x = y * (int)z;',
    'x = !(y++);', '-(y++);', '!(y++);', 'x = !(-y);', 'x = sizeof(-y);', 'x = !(!(y++));', 'x = -(!y);', 'x = !(int)(y++);', 'x = !(int)-(long)y;', '+(--y);', 'x = sizeof(y++);',
    # expressions of every kind in statement position, with and without an effect inside, bare / labelled / cast / in a comma
    'x ? (y = z) : (z = y);', 'x ? y++ : z--;', 'x ? y : z;', 'L1: x ? (y = z) : (z = y);', '(int)(x ? y++ : z);', 'x ? y++ : z, y = z;',
    'a[x++];', 'a[x] ;', '(y = z) + x;', 'x + (y = z);', '(int)(y = z);', 'x, y++;', 'L1: (int)y++;', '(y++, z);', 'x == (y = z);', '&x;', '*p;', 's.f;', 'sizeof(x++);',
    'x = f(y);', 'f(x);', 'x = y ? z : 1;', 'x = a[1];', '*p = x;', 'x = *p;', 'x = y = z;', 'x = (y = z);',
    'x = (y, z);', 'int q;', 'int q = 3;', 'int r[2];', 'return x;', 'return x + y;', 'return f(x);', 'break;', 'continue;', ';',
    '{ x = y; }', '{ }', 'goto L2;', 'assert(x < 1);', 'assume(x < 1);', 'x = -1;', 'x = +y;', 'x = --y;', 'typedef int T;',
    'switch (x) { case 1: y = z; break; default: y = 1; }', 'x = y == z;', 'x = y && z;', 'x = &y;', 'x = s.f;',
    # an effect inside the argument of the two annotation calls
    'assert(x++ > 0);', 'assume(y = z);', 'assert(x < 1);',
]
CONDS = ['x < y', 'x = y + z', 'x++ < 10', '(x = y)', 'f(x)', 'x', '--x', 'x < y++', 'x == (y = 1)', '!x', 'x < 10',
         # an effect below every kind of expression node
         '!(x = y)', '!(x++ > 10)', '-(x = y * z) < z', '~(x = y)', '(int)(x = y)', 'x < (int)y++', 'f(x++)', 'f(g(x = y))',
         'a[x++]', 'a[x] < (y = 1)', 'x ? y++ : z', '(x ? y : z) < 1', '(x++, y)', 'sizeof(x++)', '*p++', 'p->q < (x = 1)',
         '&x == (y = z, p)', '-x < +y', '!(-x)', 'sizeof(x) < y', '(int)x < (long)y']


def wrap(stmt, where):
    if where == 'top':
        return stmt
    if where == 'if':
        return 'if (u < v) { %s } else { v = u; }' % stmt
    if where == 'else':
        return 'if (u < v) { v = u; } else %s' % (stmt if not stmt.startswith(('int ', 'typedef', 'L1')) else '{ %s }' % stmt)
    if where == 'while':
        return 'while (u < v) { %s }' % stmt
    if where == 'for':
        return 'for (i = 0; i < n; i++) { %s }' % stmt
    if where == 'do':
        return 'do { %s } while (u < v);' % stmt
    return stmt


def expr_grammar(depth, thorough=False):
    """every C expression up to the given depth over the leaves x, y, 1 and one constructor of each kind
    (bounded-exhaustive: the templates above are hand-picked, this is not)"""
    leaves = ['x', 'y', '1']
    level = list(leaves)
    allx = list(leaves)
    for _ in range(depth - 1):
        nxt = []
        for e in level:
            lvalue = e in ('x', 'y') or e.startswith('a[') or e.startswith('*(')
            for op in ('-', '+', '!', '~', '++', '--', 'sizeof', '*', '&'):
                if op in ('++', '--') and not lvalue:
                    continue          # `++1`, `++(x + y)` are not C
                nxt.append(f'sizeof({e})' if op == 'sizeof' else f'{op}({e})')
            if lvalue:
                nxt += [f'({e})++', f'({e})--']
            nxt += [f'(int)({e})', f'f({e})', f'a[{e}]', f'({e})[1]']
            for e2 in leaves:
                for op in ('+', '*', '<', '&&'):
                    nxt.append(f'({e}) {op} {e2}')
                    if e not in leaves:
                        nxt.append(f'{e2} {op} ({e})')
                nxt.append(f'({e}) ? {e2} : z')
                nxt.append(f'z ? ({e}) : {e2}')
                nxt.append(f'({e}, {e2})')
                if e in ('x', 'y') or e.startswith('a[') or e.startswith('*'):
                    nxt.append(f'{e} = {e2}')
                    nxt.append(f'{e} += {e2}')
                if e2 in ('x', 'y'):
                    nxt.append(f'{e2} = ({e})')
        # de-duplicate, keep order
        seen, level = set(allx), []
        for e in nxt:
            if e not in seen:
                seen.add(e)
                level.append(e)
        allx += level
        if not thorough and len(allx) > 400:
            break
    return allx


def grammar_programs(thorough):
    """each expression of the grammar in every expression position of a statement"""
    out = []
    exprs = expr_grammar(3 if thorough else 2, thorough)
    if thorough:
        # depth 3 is large: keep every expression with an effect below a wrapper, sample the rest deterministically
        eff = [e for e in exprs if any(t in e for t in ('++', '--', '=')) and '==' not in e]
        rest = [e for e in exprs if e not in set(eff)]
        exprs = eff[:2500] + rest[::7]
    # no pointer / array parameter: a declaration of that kind is itself unsupported and would make every
    # program of the grammar 'not fully supported' (the array name `a` is simply left undeclared)
    sig = 'int f(int x,int y,int z,int n,int i)'
    for e in exprs:
        out.append(f'{sig}{{ {e}; }}')
        out.append(f'{sig}{{ z = {e}; }}')
        out.append(f'{sig}{{ if ({e}) {{ z = x + y; }} }}')
        out.append(f'{sig}{{ while ({e}) {{ z = z + y; }} }}')
        out.append(f'{sig}{{ return {e}; }}')
        if thorough:
            out.append(f'{sig}{{ do {{ z = z + y; }} while ({e}); }}')
            out.append(f'{sig}{{ for (i = 0; {e}; i++) {{ z = z + y; }} }}')
            out.append(f'{sig}{{ z = -({e}); }}')
            out.append(f'{sig}{{ z = x + ({e}); }}')
    return out


def wrapper_programs():
    """bounded-exhaustive over the STATEMENT constructors: every composition of two (and the triple label) of label /
    block / if / if-else / while / do / for -- braced and unbraced -- around each of a few core statements: the
    syntax report and the analysis each dispatch on the statement kind and each look through labels and blocks on
    their own, at every depth"""
    core = ['x = y + z;', 'x++;', 'x = y, y = z;', '(int)x++;', 'x = y * y;', 'foo(x);', 'x = -(int)y;']
    lab = [0]

    def wrappers():
        def label(s_):
            lab[0] += 1
            return 'L%d: %s' % (lab[0], s_)
        return [label, lambda s_: '{ %s }' % s_, lambda s_: 'if (u < v) %s' % s_,
                lambda s_: 'if (u < v) { %s } else %s' % (s_, s_), lambda s_: 'while (u < v) %s' % s_,
                lambda s_: 'do %s while (u < v);' % s_, lambda s_: 'for (i = 0; i < n; i++) %s' % s_]
    out = []
    sig = 'int f(int x,int y,int z,int u,int v,int n,int i)'
    for c in core:
        for w1 in wrappers():
            for w2 in wrappers():
                lab[0] = 0
                out.append('%s{ %s }' % (sig, w1(w2(c))))
        lab[0] = 0
        w = wrappers()[0]
        out.append('%s{ %s }' % (sig, w(w(w(c)))))
        lab[0] = 0
        out.append('%s{ while (u < v) { %s } }' % (sig, w(w(c))))
    return out


def templates():
    out = []
    for st in STMTS:
        for where in ('top', 'if', 'else', 'while', 'for', 'do'):
            extra = (',int a[]' if 'a[' in st else '') + (',int *p' if '*p' in st else '')
            out.append('int f(int x,int y,int z,int u,int v,int n,int i%s){ %s }' % (extra, wrap(st, where)))
    for c in CONDS:
        out.append('int f(int x,int y,int z){ if (%s) { z = x + y; } }' % c)
        out.append('int f(int x,int y,int z){ while (%s) { z = z + y; } }' % c)
        out.append('int f(int x,int y,int z){ do { z = z + y; } while (%s); }' % c)
        out.append('int f(int x,int y,int z,int n,int i){ for (i = 0; %s; i++) { z = z + y; } }' % c)
        out.append('int f(int x,int y,int z){ if (x < y) z = 1; else if (%s) z = 2; }' % c)
    return out


class Capture(logging.Handler):
    def __init__(self):
        super().__init__()
        self.msgs = []

    def emit(self, record):
        m = record.getMessage()
        if 'Unsupported syntax' in m:
            self.msgs.append(m.replace('\x1b[93m', '').replace('\x1b[0m', '').replace('Unsupported syntax', '').strip())


def observe(fnode):
    """Coverage verdict on a copy; if full, run the analysis (both modes agree on skipping) and capture warnings."""
    from pymwp import Coverage, Analysis
    node = copy.deepcopy(fnode)
    try:
        cov = Coverage(node)
        full, n_omit = bool(cov.full), len(cov.omit)
    except Exception as e:
        return {'raised': type(e).__name__, 'where': 'coverage'}, None
    res = {'full': full, 'omit': n_omit, 'warnings': []}
    if full:
        lg = logging.getLogger('pymwp.analysis')
        h = Capture()
        lg.addHandler(h)
        old_level, old_dis = lg.level, logging.root.manager.disable
        logging.disable(logging.NOTSET)
        lg.setLevel(logging.WARNING)
        lg.propagate = False
        try:
            Analysis.func(node, False)
        except Exception as e:
            res['analysis_raised'] = type(e).__name__
        finally:
            lg.removeHandler(h)
            lg.setLevel(old_level)
            lg.propagate = True
            logging.disable(logging.CRITICAL)
        res['warnings'] = h.msgs
    else:
        try:
            cov.ast_mod()
            res['mod'] = astwire.W(node)
            res['full_after_mod'] = bool(Coverage(node).full)
        except Exception as e:
            res['raised_mod'] = type(e).__name__
    return res, node


def annotation_effects(fnode):
    """names of assert / assume calls whose argument list contains an assignment or ++ / --"""
    from pycparser import c_ast

    class Eff(c_ast.NodeVisitor):
        found = False

        def visit_Assignment(self, n):
            self.found = True

        def visit_UnaryOp(self, n):
            if n.op in ('++', '--', 'p++', 'p--'):
                self.found = True
            self.generic_visit(n)

    class Calls(c_ast.NodeVisitor):
        def __init__(self):
            self.out = []

        def visit_FuncCall(self, n):
            if isinstance(n.name, c_ast.ID) and n.name.name in ('assert', 'assume') and n.args is not None:
                e = Eff()
                e.visit(n.args)
                if e.found:
                    self.out.append(n.name.name)
            self.generic_visit(n)
    c = Calls()
    c.visit(fnode)
    return c.out


def run(ctx):
    rng = ctx.rng
    srcs = templates() + wrapper_programs() + grammar_programs(ctx.tier == 'thorough')
    ctx.extra['grammar_programs'] = len(srcs)
    ctx.extra['templates'] = len(srcs)
    for i in range(ctx.budget(80, 3000)):
        g = Gen(rng, Opts(sugar=True, edge=True, unsupported=(i % 3 == 0), max_bin=5, max_stmts=3))
        srcs.append(g.function())
    pending = []
    for src in srcs:
        try:
            ast = astwire.parse(src)
        except Exception:
            ctx.count('not_parseable')
            continue
        for fnode in astwire.funcs(ast):
            wire = astwire.W(fnode)
            obs, node = observe(fnode)
            plain = all(t not in src for t in ('L1', ',', '(int)', '++', '--', 'f(', '?', '- -'))
            ctx.case(src, nontrivial=not plain, sample={'src': src, 'full': obs.get('full'), 'warnings': obs.get('warnings')})
            ctx.count('full' if obs.get('full') else ('raised' if 'raised' in obs else 'not_full'))
            if 'raised' in obs:
                continue   # C06's business
            if obs.get('full'):
                # the two annotation calls are skipped by the analysis whatever their argument: an argument that
                # changes a variable is a statement that 'can change a variable' and gets no flow
                for callee in annotation_effects(fnode):
                    ctx.violation({'kind': 'effect-in-annotation-argument'},
                                  f'fully supported, but the argument of {callee}(...) changes a variable and gets no flow: `{src[:160]}`',
                                  {'src': src, 'observed': obs})
            pending.append(({'op': 'check.C05', 'ast': wire, 'full': obs['full'], 'warnings': obs['warnings']},
                            ('check', src, obs)))
            pending.append(({'op': 'model.coverage', 'ast': wire}, ('model', src, obs)))
    if ctx.drv is None:
        return
    outs = ctx.drv.batch([p[0] for p in pending])
    for (req, (kind, src, obs)), r in zip(pending, outs):
        if 'error' in r:
            raise RuntimeError(r['error'] + ' on ' + src)
        if kind == 'check':
            if 'violation' in r:
                v = r['violation']
                detail = v.get('construct') or v.get('in') or (v.get('warning') or '')[:40]
                sig = {'kind': v['kind']}
                if v['kind'] == 'fully-supported-but-not-modellable':
                    import re as _re
                    sig['construct'] = _re.sub(r'UnaryOp \S+ of', 'UnaryOp of', v.get('construct') or '')
                elif v['kind'] == 'side-effect-in-condition-treated-as-effect-free':
                    sig['in'] = v.get('in')
                else:
                    sig['construct'] = classify_warning(src, v.get('warning', ''))
                ctx.violation(sig, f"{v['kind']} ({detail}) for `{src}`", {'src': src, 'detail': v, 'observed': obs})
        else:
            m = r['ok']
            if 'raised' in m:
                ctx.disagree('model.coverage(raise)', {'src': src, 'model': m})
                continue
            if m['omit'] != obs['omit']:
                ctx.disagree('model.coverage(omit)', {'src': src, 'impl': obs['omit'], 'model': m['omit']})
            elif 'mod' in obs and m['mod'] != obs['mod']:
                ctx.disagree('model.coverage(ast_mod)', {'src': src, 'impl': obs['mod'], 'model': m['mod']})


def classify_warning(src, w):
    w = w.strip()
    if ':' in w[:6] and w[:1] == 'L':
        return 'Label'
    if w.startswith('(int)') or w.startswith('(long)'):
        return 'Cast-statement'
    if ', ' in w and '=' in w:
        return 'ExprList'
    if '- -' in w or '--' in w[4:] and '= -' in w:
        return 'nested-unary'
    if '= -' in w or '= +' in w or '= !' in w:
        return 'unary-of-compound'
    return 'other'


def replay(ctx, payload):
    inp = payload['input']
    ast = astwire.parse(inp['src'])
    obs, _ = observe(astwire.funcs(ast)[0])
    obs.pop('mod', None)
    return {'src': inp['src'], 'observed_now': obs}
