"""C14 -- a saved result loads back as a working, equal result."""
import copy
import itertools
import json
import os
import tempfile

import astwire
from gens.programs import Opts, Gen

THEOREMS = ['roundtrip_toDict', 'fromDict_attrs', 'fromDict_toDict']
RULE = ('results of the real analysis on generated and corner-case files (functions without variables, without binary '
        'operations, finite, infinite with and without --fin; loop mode) are saved with save_result to a temporary '
        'file, loaded with load_result and saved again: the two JSON documents must be equal; the restored relation '
        'must evaluate to the same matrix at every choice vector, Relation.eval and composition on it must work, the '
        'restored choice object must accept the same vectors, bounds must compare equal, scalar fields (index, n_lines, '
        'n_func, flags) must keep their values also when 0 / False / empty; the Lean model of to_dict/from_dict is '
        'diffed on the same documents; non-trivial = result has a relation or loop results; distinct by (source, mode, fin)')
EXPLANATION = 'see DESIGN.md C14'
ASSUMPTIONS = ['files are written under a private temporary directory outside /repo']

CORNER = [
    'int helper(int a,int b){ a = a + b; } int f(int x,int y){ while (x < 1) { y = y + x; } }',
    'int nothing(int a){ } int g(int x){ x = x; }',
    'int f(){ }',
    'int f(int x){ }',
    'int f(int x,int y){ x = y; }',
    'int f(int x,int y){ x = y + y; }',
    'int f(int x,int y){ while (x < 1) { x = x + x; } }',
    'int f(int x,int y){ while (x < 1) { y = y + x; } }',
    'int f(int x,int y){ while (x < 1) { y = y + x; } } int g(int a){ a = a * a; }',
    'int f(int n,int x,int y){ int i; for (i = 0; i < n; i++) { x = x + y; } while (y < 2) { y = y * y; } }',
]


def roundtrip(result, tmpdir, tag):
    from pymwp.file_io import save_result, load_result
    p1 = os.path.join(tmpdir, f'{tag}_1.json')
    p2 = os.path.join(tmpdir, f'{tag}_2.json')
    save_result(p1, result)
    loaded = load_result(p1)
    save_result(p2, loaded)
    d1, d2 = json.load(open(p1)), json.load(open(p2))
    os.remove(p1)
    os.remove(p2)
    return d1, d2, loaded


def diff_keys(a, b, path=''):
    """first differing JSON path"""
    if type(a) != type(b):
        return path or '/'
    if isinstance(a, dict):
        for k in sorted(set(a) | set(b)):
            if k not in a or k not in b:
                return f'{path}/{k}'
            d = diff_keys(a[k], b[k], f'{path}/{k}')
            if d:
                return d
        return None
    if isinstance(a, list):
        if len(a) != len(b):
            return path + '[]'
        for i, (x, y) in enumerate(zip(a, b)):
            d = diff_keys(x, y, f'{path}[{i}]')
            if d:
                return d
        return None
    return None if a == b else path


def generic_path(p):
    import re
    p = re.sub(r'\[\d+\]', '[]', p)
    p = re.sub(r'/(relations|loops)/[^/\[]+', r'/\1/<name>', p)
    p = re.sub(r'/variables/[^/\[]+', '/variables/<name>', p)
    p = re.sub(r'/bound/[^/\[]+$', '/bound/<name>', p)
    return p


def run(ctx):
    from pymwp import Analysis, LoopAnalysis, Result, Relation
    rng = ctx.rng
    files = list(CORNER)
    for i in range(ctx.budget(40, 1500)):
        parts = []
        for k in range(rng.choice([1, 1, 2])):
            g = Gen(rng, Opts(sugar=(i % 3 == 0), max_bin=4, max_stmts=3))
            g.o.reserved = (i % 2 == 0)
            parts.append(g.function('f%d' % k))
        files.append('\n'.join(parts))
    tmpdir = tempfile.mkdtemp(prefix='c14_')
    try:
        for si, src in enumerate(files):
            try:
                ast = astwire.parse(src)
            except Exception:
                continue
            for mode, fin in (('F', False), ('F', True), ('L', False)):
                res = Result()
                res.program.program_path = 'prog%d.c' % si
                res.program.n_lines = src.count(';') % 3   # includes 0
                try:
                    if mode == 'F':
                        res = Analysis.run(copy.deepcopy(ast), res, fin=fin, strict=False)
                    else:
                        res = LoopAnalysis.run(copy.deepcopy(ast), res, strict=False)
                except Exception as e:
                    ctx.count('analysis_raised')
                    continue
                inp = {'src': src, 'mode': mode, 'fin': fin}
                has_rel = any(fr.relation is not None for fr in res.relations.values()) or bool(res.loops)
                ctx.case((src, mode, fin), nontrivial=has_rel, sample={'src': src[:200], 'mode': mode, 'fin': fin})
                ctx.count('mode_' + mode)
                try:
                    d1, d2, loaded = roundtrip(res, tmpdir, f'r{si}{mode}{int(fin)}')
                except Exception as e:
                    ctx.violation({'kind': 'save-load-raises', 'exception': type(e).__name__},
                                  f'save/load raised {type(e).__name__} for `{src[:120]}` mode={mode} fin={fin}', inp)
                    continue
                if ctx.drv is not None:
                    try:
                        m = ctx.drv.call('model.result_roundtrip', doc=d1)
                        if m.get('ok') != d2:
                            ctx.disagree('model.result_roundtrip', {**inp, 'path': diff_keys(m.get('ok'), d2)})
                    except Exception as e:
                        ctx.disagree('model.result_roundtrip(error)', {**inp, 'error': str(e)[:200]})
                dk = diff_keys(d1, d2)
                if dk:
                    ctx.violation({'kind': 'json-differs-after-reload', 'path': generic_path(dk)},
                                  f'JSON differs at {dk} after save-load-save for `{src[:120]}` mode={mode} fin={fin}',
                                  {**inp, 'path': dk})
                # scalar fields keep their values
                lp, op = loaded.program, res.program
                for fld in ('program_path', 'n_lines', 'n_func', 'n_loops', 'n_func_vars', 'n_loop_vars'):
                    if getattr(lp, fld) != getattr(op, fld):
                        ctx.violation({'kind': 'scalar-field-lost', 'field': 'program.' + fld},
                                      f'program.{fld}: {getattr(op, fld)!r} restored as {getattr(lp, fld)!r}', inp)
                # the loaded object must WORK like the original: the accessors a user calls on a result
                for what, fn_ in (('n_functions', lambda r: r.n_functions), ('n_loops', lambda r: r.n_loops),
                                  ('get_func', lambda r: sorted(r.get_func().keys()) if isinstance(r.get_func(), dict) else type(r.get_func()).__name__),
                                  ('str', lambda r: [str(x) for x in list(r.relations.values()) + list(r.loops.values())])):
                    try:
                        want = fn_(res)
                    except Exception:
                        continue
                    try:
                        got = fn_(loaded)
                    except Exception as e:
                        ctx.violation({'kind': 'restored-result-unusable', 'accessor': what, 'exception': type(e).__name__},
                                      f'{what} of the loaded result raised {type(e).__name__}: {str(e)[:80]} for `{src[:100]}` mode={mode}', inp)
                        continue
                    if got != want:
                        ctx.violation({'kind': 'restored-result-differs', 'accessor': what},
                                      f'{what} of the loaded result is {str(got)[:80]}, was {str(want)[:80]} for `{src[:100]}` mode={mode}', inp)
                for name, fl in res.loops.items():
                    ll = loaded.loops.get(name)
                    if ll is None:
                        ctx.violation({'kind': 'function-lost', 'mode': 'loop'}, f'loop-mode entry {name} missing after reload', inp)
                        continue
                    if type(ll.loops) is not type(fl.loops) or len(ll.loops or []) != len(fl.loops):
                        ctx.violation({'kind': 'part-lost', 'part': 'loops'},
                                      f'{name}.loops: {len(fl.loops)} loop result(s) restored as {ll.loops!r:.60}', inp)
                        continue
                    for a_, b_ in zip(fl.loops, ll.loops):
                        if a_.loop_code != b_.loop_code or sorted(a_.variables) != sorted(b_.variables):
                            ctx.violation({'kind': 'loop-result-differs'}, f'{name}: loop result differs after reload', inp)
                            break
                        for v_ in a_.variables:
                            x_, y_ = a_.variables[v_], b_.variables[v_]
                            if (x_.is_m, x_.is_w, x_.is_p) != (y_.is_m, y_.is_w, y_.is_p) or \
                                    (str(x_.bound) if x_.bound else None) != (str(y_.bound) if y_.bound else None):
                                ctx.violation({'kind': 'loop-result-differs', 'what': 'variable'},
                                              f'{name}: result of {v_} differs after reload', inp)
                                break
                for name, fr in res.relations.items():
                    lr = loaded.relations.get(name)
                    if lr is None:
                        ctx.violation({'kind': 'function-lost'}, f'function {name} missing after reload', inp)
                        continue
                    for fld in ('infinite', 'index', 'variables', 'inf_flows', 'func_code', 'name'):
                        if getattr(lr, fld) != getattr(fr, fld):
                            ctx.violation({'kind': 'scalar-field-lost', 'field': 'func.' + fld},
                                          f'{name}.{fld}: {getattr(fr, fld)!r} restored as {getattr(lr, fld)!r} for `{src[:100]}`', inp)
                    if (fr.relation is None) != (lr.relation is None):
                        ctx.violation({'kind': 'part-lost', 'part': 'relation'}, f'{name}: relation presence changed on reload for `{src[:100]}`', inp)
                    if (fr.bound is None) != (lr.bound is None):
                        ctx.violation({'kind': 'part-lost', 'part': 'bound'}, f'{name}: bound presence changed on reload for `{src[:100]}`', inp)
                    if (fr.choices is None) != (lr.choices is None):
                        ctx.violation({'kind': 'part-lost', 'part': 'choices'}, f'{name}: choices presence changed on reload', inp)
                    if fr.bound is not None and lr.bound is not None and not (fr.bound == lr.bound):
                        ctx.violation({'kind': 'bound-not-equal'}, f'{name}: restored bound compares unequal', inp)
                    if fr.relation is not None and lr.relation is not None and fr.index >= 0:
                        k = fr.index
                        vecs = list(itertools.product(range(3), repeat=k)) if k <= 4 else \
                            [tuple(rng.randrange(3) for _ in range(k)) for _ in range(40)]
                        try:
                            for v in vecs:
                                if fr.relation.apply_choice(*v).matrix != lr.relation.apply_choice(*v).matrix:
                                    ctx.violation({'kind': 'restored-relation-evaluates-differently'},
                                                  f'{name}: matrix at {v} differs after reload', inp)
                                    break
                            ch = lr.relation.eval(Analysis.DOMAIN, k)
                            orig = fr.relation.eval(Analysis.DOMAIN, k)
                            if k <= 4 and any(ch.is_valid(*v) != orig.is_valid(*v) for v in vecs):
                                ctx.violation({'kind': 'restored-relation-eval-differs'}, f'{name}: eval differs after reload', inp)
                            comp = lr.relation * lr.relation
                            _ = comp.apply_choice(*vecs[0]) if vecs else None
                        except Exception as e:
                            ctx.violation({'kind': 'restored-relation-unusable', 'exception': type(e).__name__},
                                          f'{name}: using the restored relation raised {type(e).__name__}: {str(e)[:80]} for `{src[:100]}`', inp)
                    if fr.choices is not None and lr.choices is not None and fr.index <= 5:
                        for v in itertools.product(range(3), repeat=max(fr.index, 0)):
                            if fr.choices.is_valid(*v) != lr.choices.is_valid(*v):
                                ctx.violation({'kind': 'restored-choices-differ'}, f'{name}: choice object accepts different vectors', inp)
                                break
                        if lr.choices.index != fr.choices.index:
                            ctx.violation({'kind': 'scalar-field-lost', 'field': 'choices.index'},
                                          f'{name}: choices.index {fr.choices.index} restored as {lr.choices.index}', inp)
    finally:
        for f in os.listdir(tmpdir):
            os.remove(os.path.join(tmpdir, f))
        os.rmdir(tmpdir)


def replay(ctx, payload):
    return payload['input']
