"""C04 -- the choice representation is the exact complement of the failing choices."""
import itertools
import json

THEOREMS = ['generate_exact', 'intersection_exact']
RULE = ('sets of well-formed delta sequences (strictly increasing indices < n, values in the domain; the empty '
        'sequence included): exhaustive for small (domain 3, n<=2, <=3 sequences), random up to n=6, 8 sequences, '
        'domains of size 2..4; Choices.generate run on the real code, its accepted set observed three ways '
        '(is_valid on every vector of domain^n, all(), first) and compared with the brute-force complement computed '
        'by the Lean spec and with the Lean model; pairs of results are intersected; non-trivial = at least one '
        'sequence of length >= 2 or two sequences; distinct by (domain, n, set)')
EXPLANATION = ('Lean theorem: accepted set of generate = brute-force complement, for every iteration order; model tied '
               'to the code by differential runs on accepted sets.')
ASSUMPTIONS = ['well-formed sequences: indices strictly increasing and below the vector length, values in the domain']


def seq_universe(domain, n, maxlen=None):
    out = []
    for k in range(0, (maxlen if maxlen is not None else n) + 1):
        for idxs in itertools.combinations(range(n), k):
            for vals in itertools.product(domain, repeat=k):
                out.append(tuple(zip(vals, idxs)))
    return out


def observe(domain, n, seqs):
    """Run the real code; everything that can be observed about the generated object."""
    from pymwp import Choices
    try:
        ch = Choices.generate(list(domain), n, set(seqs))
    except Exception as e:
        return {'raised': type(e).__name__, 'where': 'generate'}, None
    obs = {'valid': [[list(c) for c in v] for v in ch.valid]}
    try:
        obs['infinite'] = bool(ch.infinite)
        obs['accepted'] = sorted(list(v) for v in itertools.product(domain, repeat=n) if ch.is_valid(*v))
        obs['all'] = sorted(set(tuple(v) for v in ch.all()))
        obs['all'] = [list(v) for v in obs['all']]
        f = ch.first
        obs['first'] = None if f is None else list(f)
    except Exception as e:
        return {'raised': type(e).__name__, 'where': 'observe', 'partial': obs}, ch
    return obs, ch


def one(ctx, domain, n, seqs, pending, keep):
    seqs = sorted(set(seqs))
    wire = [[list(d) for d in s] for s in seqs]
    obs, ch = observe(domain, n, seqs)
    nontrivial = len(seqs) >= 2 or any(len(s) >= 2 for s in seqs)
    ctx.case((tuple(domain), n, tuple(seqs)), nontrivial=nontrivial,
             sample={'domain': domain, 'n': n, 'inf': wire, 'valid': obs.get('valid'), 'raised': obs.get('raised')})
    ctx.count('n_%d' % n)
    ctx.count('nseq_%d' % min(len(seqs), 9))
    inp = {'domain': list(domain), 'index': n, 'inf': wire}
    if 'raised' in obs:
        has_empty = () in seqs
        ctx.count('raised_' + obs['raised'])
        ctx.violation({'kind': 'raises', 'exception': obs['raised'], 'where': obs['where'],
                       'empty_sequence': has_empty, 'n_zero': n == 0},
                      f"Choices.generate({list(domain)}, {n}, {seqs}) raised {obs['raised']} in {obs['where']}", inp)
    else:
        pending.append(({'op': 'check.C04', **inp, 'accepted': obs['accepted'], 'all': obs['all'],
                         'infinite': obs['infinite'], 'first': obs['first']}, ('check', inp, obs)))
        if ch is not None and keep is not None and len(keep) < 40:
            keep.append((tuple(domain), n, seqs, ch, obs))
    pending.append(({'op': 'model.choices', **inp}, ('model', inp, obs)))


def flush(ctx, pending):
    if ctx.drv is None or not pending:
        pending.clear()
        return
    outs = ctx.drv.batch([p[0] for p in pending])
    for (req, meta), r in zip(pending, outs):
        if 'error' in r:
            raise RuntimeError(r['error'] + ' on ' + json.dumps(req)[:300])
        kind, inp, obs = meta
        if kind == 'check':
            if 'violation' in r:
                v = r['violation']
                ctx.violation({'kind': v['kind'], 'by': v.get('by')},
                              f"Choices.generate({inp['domain']}, {inp['index']}, {inp['inf']}): {v}",
                              {**inp, 'detail': v, 'observed': obs})
            else:
                ctx.count('valid_vectors_%s' % ('0' if r['ok']['n_valid'] == 0 else 'some'))
        elif kind == 'model':
            m = r['ok']
            if isinstance(m.get('first'), dict) and 'raised' in m['first']:
                m = {'raised': m['first']['raised'], 'where': 'first'}
            if 'raised' in obs or 'raised' in m:
                if ('raised' in obs) != ('raised' in m):
                    ctx.disagree('model.choices(raise)', {**inp, 'impl': obs, 'model': m})
            else:
                if sorted(m['accepted']) != obs['accepted'] or m['infinite'] != obs['infinite'] \
                        or sorted(set(map(tuple, m['all']))) != sorted(map(tuple, obs['all'])):
                    ctx.disagree('model.choices', {**inp, 'impl': obs, 'model': m})
        elif kind == 'isect':
            want = obs
            m = r['ok']
            if sorted(m['accepted']) != want:
                ctx.disagree('model.choices_intersect', {**inp, 'impl_accepted': want, 'model': m})
    pending.clear()


def run(ctx):
    from pymwp import Choices
    rng = ctx.rng
    pending, keep = [], []
    D = [0, 1, 2]
    # corpus
    for n, seqs in [(3, [((0, 0),), ((1, 0),), ((1, 1), (0, 2))]),
                    (2, [((0, 0),), ((1, 0),), ((2, 0), (1, 1))]),
                    (2, [((0, 0), (0, 1)), ((1, 0), (0, 1)), ((2, 0), (0, 1))]),
                    (1, [((0, 0),), ((1, 0),), ((2, 0),)]),
                    (2, [()]), (0, [()]), (0, []), (2, [(), ((0, 0), (1, 1))])]:
        one(ctx, D, n, seqs, pending, keep)
    # exhaustive small
    for n in (1, 2):
        U = seq_universe(D, n)
        kmax = ctx.budget(3, 4) if n == 2 else 3
        for k in range(0, kmax + 1):
            for sub in itertools.combinations(U, k):
                one(ctx, D, n, list(sub), pending, keep)
                if len(pending) > 300:
                    flush(ctx, pending)
    ctx.exhaustive = True
    ctx.extra['exhaustive_bound'] = 'domain {0,1,2}: n=1 all sets of <=3 sequences; n=2 all sets of <=%d sequences' % ctx.budget(3, 4)
    # random larger, biased towards reducible families
    for _ in range(ctx.budget(350, 4000)):
        if ctx.expired():
            break
        dom = rng.choice([D, D, D, D, [0, 1], [0, 1, 2, 3]])
        n = rng.randint(1, (5 if ctx.tier == "quick" else 6) if len(dom) <= 3 else 4)
        seqs = set()
        for _ in range(rng.randint(1, 8)):
            r = rng.random()
            if r < 0.5 and seqs:
                # vary one position of an existing sequence over the whole domain (reducible family)
                s = list(rng.choice(sorted(seqs)))
                if s:
                    j = rng.randrange(len(s))
                    for v in (dom if rng.random() < 0.7 else rng.sample(dom, len(dom) - 1)):
                        t = list(s)
                        t[j] = (v, s[j][1])
                        seqs.add(tuple(t))
                    continue
            idxs = sorted(rng.sample(range(n), rng.randint(0 if rng.random() < 0.05 else 1, min(n, 4))))
            seqs.add(tuple((rng.choice(dom), i) for i in idxs))
        if len(seqs) > 10 or (len(dom) > 3 and len(seqs) > 8):
            # Choices.generate is exponential in the number of sequences; keep each case under seconds
            seqs = set(sorted(seqs)[:8])
        one(ctx, dom, n, list(seqs), pending, keep)
        if len(pending) > 300:
            flush(ctx, pending)
    flush(ctx, pending)
    # intersections of kept objects with equal (domain, n)
    groups = {}
    for dom, n, seqs, ch, obs in keep:
        groups.setdefault((dom, n), []).append((seqs, ch, obs))
    for (dom, n), items in groups.items():
        for (s1, c1, o1), (s2, c2, o2) in list(itertools.combinations(items[:8], 2)) + [(it, it) for it in items[:3]]:
            try:
                ci = Choices.intersection(c1, c2)
                acc = sorted(list(v) for v in itertools.product(dom, repeat=n) if ci.is_valid(*v))
            except Exception as e:
                ctx.violation({'kind': 'intersection-raises', 'exception': type(e).__name__},
                              f'intersection raised {type(e).__name__}', {'a': o1['valid'], 'b': o2['valid']})
                continue
            want = sorted(v for v in o1['accepted'] if v in o2['accepted'])
            ctx.case(('isect', dom, n, tuple(s1), tuple(s2)), nontrivial=True)
            ctx.count('intersections')
            inp = {'domain': list(dom), 'index': n, 'a': o1['valid'], 'b': o2['valid']}
            if acc != want:
                ctx.violation({'kind': 'intersection-not-exact'},
                              f'intersection of {o1["valid"]} and {o2["valid"]} accepts {acc}, expected {want}', inp)
            if bool(ci.infinite) != (len(want) == 0):
                ctx.violation({'kind': 'intersection-infinite-flag'}, 'intersection infinite flag wrong', inp)
            pending.append(({'op': 'model.choices_intersect', **inp}, ('isect', inp, acc)))
    flush(ctx, pending)


def replay(ctx, payload):
    inp = payload['input']
    seqs = [tuple(tuple(d) for d in s) for s in inp['inf']]
    obs, _ = observe(inp['domain'], inp['index'], seqs)
    return {'input': inp, 'observed_now': obs}
