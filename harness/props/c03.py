"""C03 -- strict-mode bounds hold for every concrete execution (constant-free code)."""
import itertools
import json

import astwire
import implobs
from gens.programs import Opts, Gen

THEOREMS = ['leaf_respects', 'straightline_respects', 'loopfree_respects', 'exec_respects_derivation', 'exec_respects_derivation_any_guard', 'exec_respects_composition',
            'reported_bounds_respected', 'reported_bounds_respected_total']
RULE = ('constant-free generated functions (copies, + and * of variables, if/else, while, do-while, counted for with an '
        'iterator that is used nowhere else) analysed by the real code in strict mode; for EVERY valid choice (all 3^k '
        'tabulated, k<=5) the bound triples are read off the real apply_choice/Bound.calculate, then the Lean '
        'specification executes the function exactly (symbolic polynomials over the inputs) along paths fixing every '
        'branch outcome and every loop count (0..K, exhaustive for short decision sequences, sampled beyond) and '
        'Spec.Shape checks the property sentence for every variable x choice x path; separately, for-loops whose '
        'guard variable is written in the body must not be analysed as counted loops; non-trivial = function has a '
        'loop and >=2 valid choices; distinct by source')
EXPLANATION = 'see DESIGN.md C03'
ASSUMPTIONS = ['executions are exact symbolic values over naturals (no overflow), loops executed for the path-given number of iterations']


def n_decisions(src):
    return src.count('if (') + src.count('while (') + src.count('for (')


def gen_paths(rng, nd, K, budget):
    space = (K + 1) ** max(nd, 0)
    # every decision is consumed once per dynamic occurrence: nested loops need more entries; pad generously
    width = nd * (K + 1) + 4
    if space <= budget:
        base = list(itertools.product(range(K + 1), repeat=nd))
    else:
        base = [tuple(rng.randint(0, K) for _ in range(nd)) for _ in range(budget)]
    out = []
    for b in base:
        pad = [rng.randint(0, K) for _ in range(width)]
        out.append(list(b) + pad)
    return out


def block_pairs(full, rng):
    """bounded-exhaustive: every pair of statements (copies and sums over x, y, z in every operand order; the first
    one writes x, the rest follows by symmetry) as a nested block -- `if (c) { s1 s2 }`, `if (c) { s1 } else { s2 }`,
    `{ s1 } s2`, `{ s1 s2 } z = z;`: the relation of a nested block lists only the block's own variables, in order of
    first occurrence, and is then composed / summed with a relation listing them in another order or with more"""
    vs = ['x', 'y', 'z']
    copies = [f'{u} = {v};' for u in vs for v in vs if u != v]
    sums = [f'{u} = {v} + {w};' for u in vs for v in vs for w in vs]
    first = [s_ for s_ in copies + sums if s_.startswith('x =')]
    out = ['int f(int c,int x,int y,int z){ if (c) { x = y; y = x + z; } }',
           'int f(int c,int x,int y,int z){ if (c) { y = x + z; } else { x = y; } }']
    k = rng.randint(0, 2)
    for s1 in first:
        for s2 in copies + sums:
            for ctxt in ('if (c) { %s %s }', 'if (c) { %s } else { %s }', '{ %s } %s', '{ %s %s } z = z;'):
                k += 1
                if full or k % 3 == 0:
                    out.append('int f(int c,int x,int y,int z){ ' + ctxt % (s1, s2) + ' }')
    return out


def run(ctx):
    from pymwp import Analysis, Coverage, Bound
    rng = ctx.rng
    srcs = [
        'int f(int x,int y,int z){ x = y + z; }',
        'int f(int x,int y,int z){ while (x < y) { x = y + z; y = z; } }',
        'int f(int n,int x,int y){ int i; for (i = 0; i < n; i++) { x = x + y; } }',
        'int f(int n,int x,int y,int z){ int i; for (i = 0; i < n; i++) { if (x < y) { x = y; } else { z = z + y; } } x = x * z; }',
        'int f(int x,int y,int z,int w){ if (x < y) { x = y * z; } else { x = w; } while (w < z) { w = x; } }',
        # a value that needs three iterations to travel s -> k1 -> k2 -> d, every stage updated conditionally, every
        # shortcut cell already holding a direct copy: the last round of the closure only appends monomials
        'int f(int n,int c,int s,int g,int e,int k1,int k2,int d){ int i; for (i = 0; i < n; i++) { if (c) { d = s; } if (c) { d = g; } if (c) { d = k1; } if (c) { d = k2 + e; } if (c) { k2 = s; } if (c) { k2 = g; } if (c) { k2 = k1 * k1; } if (c) { k1 = s + g; } } }',
        'int f(int n,int c,int s,int g,int k1,int k2,int d){ int i; for (i = 0; i < n; i++) { if (c) { d = k2; } if (c) { k2 = k1 * k1; } if (c) { k1 = s + g; } } }',
        'int f(int n,int a,int b,int c,int d,int g,int h){ int i; for (i = 0; i < n; i++) { if (g) { d = b; } else { if (h) { d = a; } else { d = c; } } if (g) { c = a; } else { c = b + b; } b = a; } }',
        # accumulator read by a second operation: the guard must appear in the bound at EVERY valid choice
        'int f(int n,int x1,int x3,int x4,int x5){ int i; for (i = 0; i < n; i++) { x1 = x1 + x3; x5 = x1 + x4; } }',
        'int f(int n,int a,int b,int c){ int i; for (i = 0; i < n; i++) { a = a + b; c = a * a; } }',
    ]
    import props.funcs_common as FCm
    for i in range(ctx.budget(14, 300)):
        srcs.append(FCm.shift_loop(rng, plain=(i % 2 == 0)))
    for i in range(ctx.budget(16, 300)):
        srcs.append(FCm.dependent_family(rng))
    srcs += block_pairs(ctx.tier == 'thorough', rng)
    for i in range(ctx.budget(220, 2500)):
        g = Gen(rng, Opts(sugar=False, consts=False, max_bin=5, max_stmts=3, nvars=rng.choice([3, 4])))
        s = g.function()
        if ' - ' in s:
            s = s.replace(' - ', ' + ')
        srcs.append(s)
    pending = []
    for src in srcs:
        try:
            ast = astwire.parse(src)
        except Exception:
            continue
        fn = astwire.funcs(ast)[0]
        node, info = implobs.prepare(fn, True)       # strict mode
        if node is None:
            ctx.count('refused_in_strict')
            continue
        obs, res = implobs.observe_func(node, False, None, max_mats=10 ** 6)
        if 'raised' in obs or obs.get('infinite') or 'valid' not in obs:
            ctx.count('infinite_or_raised' if ('raised' in obs or obs.get('infinite')) else 'too_large')
            continue
        bounds = []
        for c, _m in obs['mats']:
            bd = Bound().calculate(res.relation.apply_choice(*c))
            bounds.append({'choice': c, 'bound': implobs.bound_triples(bd, obs['variables'])})
        nd = n_decisions(src)
        K = 6 if nd <= 1 else (3 if nd == 2 else (2 if nd <= 4 else 1))
        paths = gen_paths(rng, nd, K, ctx.budget(40, 300))
        n_loops = src.count('while (') + src.count('for (')
        if n_loops == 1 and nd > 1:
            # one loop with branches inside: the decisions of a path are consumed in execution order, so a long
            # path of values 0..4 (0 = else / no iteration) gives the loop 0..4 iterations AND varies the branch
            # taken in every iteration -- flows that need several iterations with particular branches become reachable
            for _ in range(ctx.budget(60, 300)):
                paths.append([rng.choice([3, 4, 2, 3, 4, 1, 0])] + [rng.choice([1, 1, 1, 0, 2]) for _ in range(8 * nd + 8)])
        ctx.case(src, nontrivial=(('while' in src or 'for (' in src) and len(bounds) >= 2),
                 sample={'src': src, 'valid_choices': len(bounds), 'paths': len(paths)})
        ctx.count('valid_choices', len(bounds))
        ctx.count('paths', len(paths))
        pending.append(({'op': 'check.C03', 'ast': astwire.W(node), 'bounds': bounds, 'paths': paths}, src))
    # the L rule's guard dependency: in `for (i = 0; i < X; i++) body` the iteration count IS the value of X.  If the
    # value of a variable keeps growing with the count (more monomials after K2 than after K1 iterations, both
    # beyond every transient of copies) its exact final value mentions X, so X must be listed in its bound --
    # at EVERY valid choice.  Checked for functions whose body is one counted loop.
    import re as _re2
    K1, K2 = 12, 14
    for src in [s_ for s_ in srcs if _re2.match(r'int f\([^)]*\)\{ (int \w+; )?for \((\w+) = 0; \2 < (\w+); \2\+\+\) \{', s_)][:ctx.budget(30, 400)]:
        if ctx.drv is None:
            break
        m_ = _re2.match(r'int f\([^)]*\)\{ (int \w+; )?for \((\w+) = 0; \2 < (\w+); \2\+\+\) \{', src)
        X = m_.group(3)
        try:
            ast = astwire.parse(src)
            fn = astwire.funcs(ast)[0]
            if len([b for b in fn.body.block_items if type(b).__name__ != 'Decl']) != 1:
                continue
            node, info = implobs.prepare(fn, True)
            if node is None:
                continue
            obs, res = implobs.observe_func(node, False, None, max_mats=10 ** 6)
        except Exception:
            continue
        if 'raised' in obs or obs.get('infinite') or 'valid' not in obs:
            continue
        vs = obs['variables']
        w = astwire.W(node)
        r1 = ctx.drv.call('spec.exec_sizes', ast=w, path=[K1] + [1] * 400, vars=vs)['ok']
        r2 = ctx.drv.call('spec.exec_sizes', ast=w, path=[K2] + [1] * 400, vars=vs)['ok']
        if not (r1.get('executed') and r2.get('executed')):
            ctx.count('guard_dep_not_executable')
            continue
        growing = [v for (v, a), (_, b) in zip(r1['sizes'], r2['sizes']) if b > a]
        ctx.case(('guard-dep', src), nontrivial=bool(growing))
        ctx.count('guard_dependence_checked')
        for c, _m in obs['mats']:
            bd = implobs.bound_triples(Bound().calculate(res.relation.apply_choice(*c)), vs)
            for entry in bd:
                v, lists = entry[0], entry[1:]
                if v in growing and not any(X in l for l in lists):
                    ctx.violation({'kind': 'loop-guard-missing-from-bound'},
                                  f'`{src}`: the value of {v} grows with the number of iterations (= {X}) but the bound '
                                  f'of {v} at choice {c} is {lists}: {X} is not listed', {'src': src, 'choice': c, 'variable': v})
                    break
    # for-loops whose guard is written in the body are never counted loops
    for tmpl in ['int f(int n,int x){ int i; for (i = 0; i < n; i++) { n = n + x; } }',
                 'int f(int n,int x){ int i; for (i = 0; i < n; i++) { x = x + n; } }',
                 'int f(int n,int x){ int i; for (i = 0; i < n; i++) { if (x < 1) { n = x; } } }',
                 'int f(int n,int x){ int i; for (i = 0; i < n; i++) { while (x < 2) { n++; } } }',
                 # ... wherever in the body the write sits: else block, end of an else-if chain, nested block, do body,
                 # inner counted loop, behind a label, as the step of an inner for
                 'int f(int n,int x,int y){ int i; for (i = 0; i < n; i++) { if (x < 1) { x = x + y; } else { n = n + y; } } }',
                 'int f(int n,int x,int y){ int i; for (i = 0; i < n; i++) { if (x < 1) { x = y; } else if (y < 1) { y = x; } else { n = x; } } }',
                 'int f(int n,int x){ int i; for (i = 0; i < n; i++) { { x = x + x; { n = x; } } } }',
                 'int f(int n,int x){ int i; for (i = 0; i < n; i++) { do { n = n + x; } while (x < 2); } }',
                 'int f(int n,int x,int m){ int i; int j; for (i = 0; i < n; i++) { for (j = 0; j < m; j++) { n = x; } } }',
                 'int f(int n,int x){ int i; for (i = 0; i < n; i++) { L1: n = x + x; } }',
                 'int f(int n,int x){ int i; for (i = 0; i < n; i++) { if (x < 1) x = x + 1; else n = x; } }']:
        ast = astwire.parse(tmpl)
        loop = next(b for b in astwire.funcs(ast)[0].body.block_items if type(b).__name__ == 'For')
        comp, xv = Coverage.loop_compat(loop)
        ctx.case(tmpl, nontrivial=True)
        if comp:
            ctx.violation({'kind': 'guard-written-in-body-counted'}, f'`{tmpl}` is analysed as a counted loop over {xv}', {'src': tmpl})
    # ... also right after a well-formed counted loop AT THE SAME SOURCE POSITION has been analysed (anything
    # remembered per position / per node must not leak from one program to the next), and through the user's
    # path: strict-mode Analysis.run must refuse the function
    import re as _re
    goods = ['int f(int n,int x){ int i; for (i = 0; i < n; i++) { x = x + x; } }'] + \
            [s_ for s_ in srcs if _re.search(r'for \((\w+) = 0; \1 < (\w+); \1\+\+\) \{', s_)][:ctx.budget(10, 120)]
    for good in goods:
        m_ = _re.search(r'for \((\w+) = 0; \1 < (\w+); \1\+\+\) \{', good)
        X = m_.group(2)
        bad = good[:m_.end()] + f' {X} = {X} + {X};' + good[m_.end():]
        try:
            Analysis.run(astwire.parse(good), strict=True)
            res_bad = Analysis.run(astwire.parse(bad), strict=True)
        except Exception as e:
            ctx.count('guard_twin_raised_' + type(e).__name__)
            continue
        ctx.case(('guard-twin', bad), nontrivial=True)
        ctx.count('guard_twins')
        if res_bad.relations:
            ctx.violation({'kind': 'guard-written-in-body-counted', 'after': 'same-position twin'},
                          f'`{bad}` (guard {X} written in the loop body) is analysed in strict mode after its well-formed twin',
                          {'src': bad, 'twin_analysed_first': good})
    if ctx.drv is None:
        return
    outs = ctx.drv.batch([p[0] for p in pending])
    for (req, src), r in zip(pending, outs):
        if 'error' in r:
            raise RuntimeError(r['error'] + ' :: ' + src)
        if 'violation' in r:
            v = r['violation']
            ctx.violation({'kind': v['kind']},
                          f"`{src}`: variable {v['variable']} ends as {v['final_value']} along path {v['path'][:8]} but choice {v['choice']} bounds it by {v['bound']}",
                          {'src': src, 'detail': v})
        else:
            o = r['ok']
            if not o.get('supported', True):
                ctx.count('outside_spec_fragment')
            else:
                ctx.count('executed_paths', o.get('executed_paths', 0))


def replay(ctx, payload):
    return payload['input']
