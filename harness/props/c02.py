"""C02 -- a function is reported infinite exactly when no derivation exists."""
from props import funcs_common as FC
from gens.programs import Opts

THEOREMS = ['infinite_iff_no_derivation', 'infinite_iff_no_derivation_any_universe', 'verdict_mode_independent', 'finite_reports_whole_body', 'finite_has_valid_choice', 'first_choice_is_a_derivation', 'funcOk_from_syntax', 'verdict_exists_and_is_exact']
RULE = ('generated functions biased towards failing loops (one failing loop, several loops that fail jointly, nested '
        'failing loops, a second loop after a failing one) x {early stop, run to completion}; verdict of the real '
        'Analysis.func compared with "no choice vector at which Spec.sem derives a matrix" (Lean predicate), the two '
        'modes compared with each other, finite verdicts must come with a valid choice; model.func diffed as well; '
        'non-trivial = contains a loop and a binary operation; distinct by (source, fin)')
EXPLANATION = 'see DESIGN.md C02'
ASSUMPTIONS = ['functions of the supported fragment as delimited by Spec.desugar']

TEMPLATES = [
    'int f(int x,int y){ while(x<10){ x = x + x; } }',
    'int f(int x,int y){ while(x<10){ x = x * x; } }',
    'int f(int x,int y,int z){ while(x<10){ y = x + y; } while (z<3) { x = y + y; } }',
    # each alternative of the shared statement is killed by a different loop
    'int f(int x,int y,int z){ x = y + z; while(z<10){ z = x + z; } while (y<3) { y = y + x; } }',
    'int f(int x,int y,int z){ while(x<10){ while (y<3) { y = y + y; } x = y; } }',
    'int f(int x,int y,int z){ while(x<10){ y = y + z; } while (z<3) { z = z + 1; } }',
    'int f(int x,int y,int z){ if (x<y) { while(x<10){ x = x + y; } } else { y = z; } x = y * y; }',
    'int f(int n,int x,int y){ int i; for (i=0;i<n;i++){ x = x + y; } }',
    'int f(int n,int x,int y){ int i; for (i=0;i<n;i++){ x = x * y; } }',
    'int f(int n,int x,int y){ int i; for (i=0;i<n;i++){ x = y + y; y = x; } }',
    'int f(int n,int x,int y,int z){ int i; for (i=0;i<n;i++){ while (z<2) { x = x + y; } } while (y<1) { y = x + z; } }',
    # a counted loop with a branch, nested in a while loop, followed by more statements: the set of
    # failing delta paths shares deltas between paths (exercises simplify / build_choices together)
    'int f(int a,int b,int c,int d,int n){ int i; while (a<10) { for (i=0;i<n;i++) { b = a + a; if (c) { c = b - a; } else { d = c + b; } } c = a + a; } d = d * c; }',
    'int f(int a,int b,int c,int d,int n){ int i; while (a<10) { for (i=0;i<n;i++) { b = a + c; if (c) { c = b + a; } else { d = c + b; } } c = a + b; } d = d + c; }',
    'int f(int a,int b,int c,int d,int n){ int i; while (a<10) { for (i=0;i<n;i++) { if (c) { c = b - a; } else { d = c + b; } b = a + a; } d = a + a; } c = d * c; }',
    'int f(int a,int b,int c,int n,int m){ int i; int j; for (i=0;i<n;i++) { for (j=0;j<m;j++) { b = a + a; if (c) { c = b + a; } } c = a + b; } b = b * c; }',
]


def run(ctx):
    verdicts = {}

    def on_result(src, fin, strict, obs, res, wire):
        if 'raised' in obs or 'infinite' not in obs:
            return
        key = (src, strict)
        verdicts.setdefault(key, {})[fin] = obs
        if not obs['infinite']:
            if not obs.get('has_choices') or obs.get('first') is None:
                ctx.violation({'kind': 'finite-without-valid-choice'}, f'`{src}` reported finite without a valid choice',
                              {'src': src, 'fin': fin, 'strict': strict})
            elif 'valid' in obs and '1' not in obs['valid']:
                ctx.violation({'kind': 'finite-without-valid-choice'}, f'`{src}` reported finite, no vector accepted',
                              {'src': src, 'fin': fin, 'strict': strict})

    n = ctx.budget(50, 2500)
    srcs = list(TEMPLATES) + FC.gen_sources(ctx, n, lambda i: Opts(sugar=(i % 5 == 0), max_bin=5, max_stmts=3,
                                                                    whole_rhs_cast=False, consts=(i % 2 == 0)))
    srcs += FC.failure_patterns(1 if ctx.tier == 'thorough' else 4)
    FC.run_functions(ctx, srcs, [(False, False), (True, False)], on_result=on_result,
                     classify=lambda v, *a: {'kind': v['kind']})
    for (src, strict), d in verdicts.items():
        if False in d and True in d and d[False]['infinite'] != d[True]['infinite']:
            ctx.violation({'kind': 'verdict-depends-on-mode'},
                          f'`{src}`: early-stop says infinite={d[False]["infinite"]}, run-to-completion says {d[True]["infinite"]}',
                          {'src': src, 'strict': strict, 'fin': True})


def replay(ctx, payload):
    from props import c01
    return c01.replay(ctx, payload)
