"""C19 -- loop discovery and program statistics match the source."""
import copy
import json
import os
import tempfile

import astwire
from gens.programs import Opts, Gen

THEOREMS = ['findLoops_is_source_order', 'n_loops_is_source_count', 'findLoops_dispatch_as_modelled']
RULE = ('generated C files (1-3 functions) with loops nested in branches, blocks, labelled statements, other loops and '
        '(unsupported) switch bodies, empty-bodied loops, non-counted for loops; compared: FindLoops with the generic '
        'pre-order traversal Spec.allLoops (Lean), loop-mode results (one per loop with a non-empty body, source '
        'order, code of that loop) and each result with the analysis of that loop alone in a file of its own; program '
        'statistics n_func / n_loops / n_func_vars / n_loop_vars with the model; loc with the Lean line lexer on '
        'texts containing comments, strings and character literals with comment markers inside (character-level fuzz '
        'over the alphabet / * " \' \\ newline a space); non-trivial = file has a nested loop or a comment; distinct '
        'by source text')
EXPLANATION = 'see DESIGN.md C19'
ASSUMPTIONS = ['loc: texts are lexically closed (comments and literals terminated), as in any file the parser accepts']

EXTRA = [
    'int f(int x,int y){ while (x) g(x); while (y) { g(y); } do g(x); while (x < 1); while (y) x = x + y; }',
    'int f(int x,int y){ L1: while (x < 3) { x = x + 2; } }',
    'int f(int x,int y){ switch (x) { case 1: while (y < 2) { y = y + 1; } break; default: do { y = y * y; } while (y < 9); } }',
    'int f(int x,int y){ while (x < 3) ; do ; while (y < 1); for (;;) { x = x + 1; } }',
    'int f(int x,int y,int n){ int i; if (x < y) { for (i = 0; i < n; i++) { while (y < 3) { y = y + x; } } } else while (x < 1) x = x + y; }',
    'int f(int x){ { { while (x < 1) { x = x + 1; } } } } int g(int y){ do { y = y + 1; } while (y < 2); }',
    'int f(int x,int y){ typedef int T; while (x < y) { x = x + 1; } }',
    'int f(int x,int y){ do while (y < 2) { y = y + 1; } while (x < 3); }',
    'int f(int x,int y){ while (x < 3) while (y < 2) y = y + x; }',
    'int f(int x,int y,int n){ int i; for (i = 0; i < n; i++) do x = x + y; while (x < 9); }',
    'int f(int x,int y){ if (x < y) do { while (y < 2) y = y + 1; } while (x < 1); else while (x < 2) x = x + 1; }',
    'int f(int x,int y){ do do x = x + 1; while (x < 2); while (y < 3); }',
]

TEXTS = [
    'int a; /* c1\n c2 */ int b;\n',
    'int a; // comment /* not block\nint b;\n',
    'char *s = "/* not a comment */"; // real\nint z;\n',
    'char c = \'"\'; /* " */ int q;\n\n\n',
    '/* only\n comment\n lines */\n\n   \n',
    'int x; /* a */ /* b */\n/* c */ int y;\n',
    'char *s = "a\\"b//c";\nint k; //\n',
    'int a = 1 / 2; /**/ int b;\n',
    '/***/int a;/*/ */\n',
]


def loop_table(res):
    out = {}
    for fname, fl in res.loops.items():
        out[fname] = [{'code': lp.loop_code,
                       'vars': {v: [vr.is_m, vr.is_w, vr.is_p, vr.bound.bound_str if vr.bound else None]
                                for v, vr in sorted(lp.variables.items())}} for lp in fl.loops]
    return out


def nest_skeletons(depth):
    """every nesting of statement containers up to `depth` around one assignment: while / do-while / counted for /
    non-counted for / if / if-else / block / label / switch-case, each with a braced and (where C allows) a
    brace-less body -- bounded-exhaustive, not sampled"""
    leaf = 'x = x + y;'
    level = [leaf]
    out = []
    for d in range(depth):
        nxt = []
        for b in level:
            for body in (b, '{ %s }' % b):
                nxt.append(f'while (x < n) {body}')
                nxt.append(f'do {body} while (x < n);')
                nxt.append(f'for (i{d} = 0; i{d} < n; i{d}++) {body}')
                nxt.append(f'for (;;) {body}')
                nxt.append(f'if (x < y) {body}')
                nxt.append(f'if (x < y) y = x; else {body}')
                nxt.append(f'L{d}: {body}')
            nxt.append('{ y = y; %s }' % b)
            nxt.append('switch (x) { case 1: %s break; default: %s }' % (b, b))
        level = nxt
        out += nxt
    return ['int f(int x,int y,int n){ int i0; int i1; int i2; %s }' % b for b in out]


def for_headers():
    """every combination of an init, a condition and a step clause from small lists (bounded-exhaustive): which
    `for` statements count as loops is decided by the header alone"""
    inits = ['', 'i = 0', 'x = 0', 'i = 0, j = n', 'i = x', 'i = n']
    conds = ['i < n', 'i < j', '', 'x < n', 'i < n && x < y', 'i < 10', 'n > i']
    steps = ['i++', '++i', 'i--', 'i = i + 1', 'i += 1', '', 'i++, j--', 'x++', 'x = x * x']
    out = []
    for a in inits:
        for b in conds:
            for c in steps:
                out.append('int f(int x,int y,int n,int i,int j){ for (%s; %s; %s) { y = y + 1; } while (y < 2) { for (%s; %s; %s) y = y + x; } }'
                           % (a, b, c, a, b, c))
    return out


def run(ctx):
    from pymwp import FindLoops, LoopAnalysis, Analysis, Variables, Result, Parser as pr
    from pymwp.file_io import loc
    rng = ctx.rng
    files = list(EXTRA)
    sk = nest_skeletons(3 if ctx.tier == 'thorough' else 2)
    if ctx.tier != 'thorough':
        files += sk
    else:
        files += sk[:272] + sk[272::3]       # depth <= 2 in full, every third skeleton of depth 3
    ctx.extra['nest_skeletons'] = len(files) - len(EXTRA)
    hd = for_headers()
    files += hd if ctx.tier == 'thorough' else hd[::3]
    for i in range(ctx.budget(60, 2000)):
        parts = []
        for k in range(rng.choice([1, 1, 2, 3])):
            g = Gen(rng, Opts(sugar=(i % 4 == 0), edge=(i % 2 == 0), unsupported=(i % 5 == 0), max_bin=4, max_stmts=3))
            parts.append(g.function('f%d' % k))
        files.append('\n'.join(parts))
    pending = []
    for src in files:
        try:
            ast = astwire.parse(src)
        except Exception:
            ctx.count('not_parseable')
            continue
        fs = astwire.funcs(ast)
        nested = src.count('while') + src.count('for (') >= 2
        ctx.case(src, nontrivial=nested, sample={'src': src[:300]})
        total_loops = 0
        # --- loop discovery per function
        for fn in fs:
            try:
                loops = FindLoops(fn).loops
            except Exception as e:
                ctx.count('findloops_raised')
                continue
            total_loops += len(loops)
            pending.append(({'op': 'spec.all_loops', 'ast': astwire.W(fn)},
                            ('loops', src, [astwire.W(l) for l in loops], [pr.to_c(l, True)[:60] for l in loops])))
            pending.append(({'op': 'model.find_loops', 'ast': astwire.W(fn)},
                            ('mloops', src, [astwire.W(l) for l in loops], None)))
            pending.append(({'op': 'model.variables', 'ast': astwire.W(fn)}, ('vars', src, Variables(fn).vars, None)))
        # --- statistics, as reported by the three places a user gets them from: take_counts itself and the
        #     `program` field of the results of Analysis.run and LoopAnalysis.run
        def stats_sources():
            res = Result()
            Analysis.take_counts(ast, res)
            yield 'take_counts', res.program
            yield 'Analysis.run', Analysis.run(copy.deepcopy(ast), strict=False).program
            yield 'LoopAnalysis.run', LoopAnalysis.run(copy.deepcopy(ast), strict=False).program
        try:
            want_fvars = sum(len(Variables(f).vars) for f in fs)
            want_lvars = sum(len(Variables(l).vars) for f in fs for l in FindLoops(f).loops)
            for where, st in stats_sources():
                if st.n_func != len(fs):
                    ctx.violation({'kind': 'stat', 'field': 'n_func', 'from': where},
                                  f'{where}: n_func={st.n_func} for {len(fs)} function definitions', {'src': src})
                if st.n_func_vars != want_fvars:
                    ctx.violation({'kind': 'stat', 'field': 'n_func_vars', 'from': where},
                                  f'{where}: n_func_vars={st.n_func_vars}, the functions have {want_fvars} variables', {'src': src})
                if st.n_loop_vars != want_lvars:
                    ctx.violation({'kind': 'stat', 'field': 'n_loop_vars', 'from': where},
                                  f'{where}: n_loop_vars={st.n_loop_vars}, the loops have {want_lvars} variables', {'src': src})
                ctx.extra.setdefault('stats_checked', 0)
                ctx.extra['stats_checked'] += 1
                pending.append(({'op': 'spec.count_loops', 'asts': [astwire.W(f) for f in fs]},
                                ('nloops', src, st.n_loops, where)))
        except Exception as e:
            ctx.count('take_counts_raised_' + type(e).__name__)
        # --- loop mode: one result per non-empty loop, in order; each equals the loop analysed alone
        try:
            lres = loop_table(LoopAnalysis.run(copy.deepcopy(ast), strict=False))
        except Exception as e:
            # no result table at all: whatever the reason, the loops of the file did not get their one result each
            ctx.count('loop_mode_raised_' + type(e).__name__)
            n_l = sum(len(FindLoops(copy.deepcopy(f_)).loops) for f_ in fs)
            if n_l:
                ctx.violation({'kind': 'loop-mode-gives-no-results', 'exception': type(e).__name__},
                              f'LoopAnalysis.run raised {type(e).__name__} on a file with {n_l} loops: `{src[:200]}`', {'src': src})
            continue
        for fn in fs:
            # "non-empty body": the body is not the empty statement once the unsupported statements are
            # removed (an unbraced body that is one unsupported statement becomes `;`).  The removal is taken
            # from the Lean model of Coverage (validated against the implementation by C05/C07), not from pymwp.
            loops = []
            for l in FindLoops(copy.deepcopy(fn)).loops:
                if not pr.is_loop(l):
                    continue
                if ctx.drv is not None:
                    mc = ctx.drv.call('model.coverage', ast=astwire.W(l)).get('ok', {})
                    if (mc.get('mod') or {}).get('body', {}).get('k') == 'empty':
                        ctx.count('loops_emptied_by_removal')
                        continue
                loops.append(l)
            got = lres.get(fn.decl.name, [])
            if len(got) != len(loops):
                ctx.violation({'kind': 'loop-results-count'},
                              f'{len(got)} loop results for {len(loops)} non-empty loops in `{src[:200]}`', {'src': src})
                continue
            for lp_node, entry in zip(loops, got):
                alone_src = 'int solo(){ %s }' % pr.to_c(lp_node)
                try:
                    alone = loop_table(LoopAnalysis.run(astwire.parse(alone_src), strict=False)).get('solo', [])
                except Exception as e:
                    ctx.count('solo_raised_' + type(e).__name__)
                    continue
                ctx.count('loops_compared')
                if not alone or alone[0]['vars'] != entry['vars']:
                    ctx.violation({'kind': 'loop-not-analysed-on-its-own'},
                                  f'loop `{entry["code"][:80]}` analysed in context differs from the loop alone', {'src': src, 'loop': entry['code']})
    # --- loc
    texts = list(TEXTS)
    alphabet = ['/', '*', '"', "'", '\\', '\n', 'a', ' ', ';', '/', '*', '\n']
    for _ in range(ctx.budget(300, 6000)):
        texts.append(''.join(rng.choice(alphabet) for _ in range(rng.randint(1, 24))))
    # structured, lexically valid texts: code, literals containing comment markers / quotes, comments
    toks = ['int a;', 'x = 1;', "c = '\"';", "c = '\\'';", "c = 'a';", 's = "s";', 's = "a//b";', 's = "/*";', 's = "*/";',
            's = "\\"";', "c = '/';", '/* c */', '/* " */', "/* ' */", '// c', '// "', "// '", '', '   ', '/**/', 'y = a / b;']
    for _ in range(ctx.budget(400, 6000)):
        lines = []
        for _l in range(rng.randint(1, 7)):
            r = rng.random()
            if r < 0.12:
                lines.append(rng.choice(['int a; ', '']) + '/* open')
                for _k in range(rng.randint(0, 2)):
                    lines.append(rng.choice(['still " comment', "it's", '   ', '// nested marker', 'x = 1;']))
                lines.append('close */' + rng.choice(['', ' int b;']))
            else:
                parts = [rng.choice(toks) for _k in range(rng.randint(1, 3))]
                # a // comment swallows the rest of the line: fine, still valid
                lines.append(' '.join(parts))
        texts.append('\n'.join(lines) + rng.choice(['', '\n']))
    for fsrc in files[:40]:
        lines = fsrc.replace('{', '{\n').replace(';', '; // c\n').split('\n')
        texts.append('\n'.join(lines) + '\n/* tail\n comment */\n')
    tmpdir = tempfile.mkdtemp(prefix='c19_')
    try:
        for k, text in enumerate(texts):
            path = os.path.join(tmpdir, 't%d.c' % k)
            with open(path, 'w') as f:
                f.write(text)
            try:
                got = loc(path)
            except Exception as e:
                ctx.violation({'kind': 'loc-raises'}, f'loc raised {type(e).__name__}', {'text': text})
                continue
            finally:
                os.remove(path)
            pending.append(({'op': 'spec.loc', 'text': text}, ('loc', text, got, None)))
    finally:
        os.rmdir(tmpdir)
    if ctx.drv is None:
        return
    outs = ctx.drv.batch([p[0] for p in pending])
    for (req, (kind, src, impl, extra)), r in zip(pending, outs):
        if 'error' in r:
            raise RuntimeError(r['error'])
        m = r['ok']
        if kind == 'loops':
            ctx.count('functions_compared')
            if m != impl:
                spec_only = [json.dumps(x)[:80] for x in m if x not in impl]
                kinds = sorted({x.get('k') for x in m if x not in impl} | {'extra:' + x.get('k') for x in impl if x not in m})
                ctx.violation({'kind': 'loops-differ-from-source', 'what': kinds},
                              f'FindLoops found {extra} but the source has {len(m)} loops in `{src[:200]}`',
                              {'src': src, 'missing_or_extra': kinds})
        elif kind == 'mloops':
            if m != impl and 'raised' not in m:
                ctx.disagree('model.find_loops', {'src': src})
        elif kind == 'vars':
            if m != impl:
                ctx.disagree('model.variables', {'src': src, 'impl': impl, 'model': m})
        elif kind == 'nloops':
            if m != impl:
                ctx.violation({'kind': 'stat', 'field': 'n_loops', 'from': extra}, f'{extra}: n_loops={impl}, source has {m} in `{src[:200]}`', {'src': src})
        elif kind == 'loc':
            ctx.case(('loc', src), nontrivial=('/*' in src or '//' in src), sample=None)
            ctx.count('loc_texts')
            if not m['closed']:
                ctx.count('loc_unclosed_skipped')
                continue
            if m['loc'] != impl:
                multi = '/*' in src and '\n' in src[src.index('/*'):]
                ctx.violation({'kind': 'loc', 'multi_line_comment': bool(multi)},
                              f'loc={impl} but {m["loc"]} non-blank non-comment lines in {src!r}', {'text': src})


def replay(ctx, payload):
    return payload['input']
