"""C07 -- unsupported statements are dropped exactly, and only they."""
import copy
import json
import re

import astwire
import implobs
from gens.programs import Opts, Gen
from props.c15 import canon_obs

THEOREMS = ['fully_supported_untouched', 'full_after_removal', 'coverage_dispatch_as_modelled',
            'inserted_unsupported_statement_is_removed_exactly', 'inserted_unsupported_item_is_removed_exactly',
            'analysis_unaffected_by_inserted_unsupported_statement']
RULE = ('supported generated functions (incl. nested loops / branches) into which a multiset of 1-4 unsupported '
        'statements over fresh identifiers (calls, arrays, pointers, ternary, compound assignment, n-ary expressions, '
        'switch, goto, initialised / array / pointer declarations, non-counted for loops, division) is inserted at '
        'random statement positions incl. loop and branch bodies; default mode: result of the real analysis (function '
        'mode and loop mode) must equal the result for the original function, the syntax check must report full '
        'support after the removal pass, a fully supported function must be textually untouched by it; strict mode: '
        'the function must not be analysed; the model of Coverage/ast_mod is diffed (omit count, tree after removal); '
        'non-trivial = at least one insertion inside a loop or branch body; distinct by (source, insertions)')
EXPLANATION = 'see DESIGN.md C07'
ASSUMPTIONS = ['inserted statements mention only identifiers that do not occur elsewhere in the function']


def unsupported_pool(k):
    f, g = f'fr{k}', f'gr{k}'
    return [
        f'{f}({g});', f'{f}[0] = {g};', f'*{f} = {g};', f'{f} = {g} ? {g} : 1;', f'{f} += {g};',
        f'{f} = {g} + {g} + {g};', f'switch ({f}) {{ case 1: {g} = 1; break; default: break; }}',
        f'goto L{k};', f'int {f} = 5;', f'int {f}[3];', f'int *{f};',
        f'for ({f} = 0; {f} < 10; {f}++) {{ {g} = {g} + 1; }}', f'{f} = {g} / 2;', f'{f} = {g} % 2;',
        f'{f} = foo{k}({g});', f'{f} = {g}[1];', f'{f}.fld = 1;', f'{f} = {g} * ({g} + 1);', f'{f} = {g}->x;',
        # unsupported expressions inside otherwise supported statement shells
        f'return foo{k}({g});', f'return {g}[1];', f'return {f} ? {g} : 1;', f'return {f} + {g} + {f};', f'return *{f};',
        f'{f} = -({g} + 1);', f'{f} = (int)foo{k}({g});', f'{f} = - -{g};', f'{f} = !({g}++);', f'-({g}++);',
        f'{f} ? ({g} = 1) : ({g} = 2);', f'{f} ? {g}++ : {g}--;', f'{f}[0];', f'(int){f}[{g}];', f'foo{k}({f}), {f}[0] = {g};',
        f'L{k}x: {f} = foo{k}({g});', f'{f} = &{g};', f'{f} = sizeof({g}[0]);',
        # for statements that are NOT counted loops, of every kind: no guard variable, two guard variables, the
        # guard stepped by the loop itself, the guard written in the body, a condition with an effect
        f'for ({f} = 0; {f} < {g}; {g}++) {{ {f} = {f} + 1; }}', f'for ({f} = 0; {f} < {g}; {g}--) {{ ; }}',
        f'for ({f} = 0; {f} < {g}; {f}++) {{ {g} = {g} + 1; }}', f'for (;;) {{ {f} = {g}; }}',
        f'for ({f} = 0; {f} < {g} && {f} < hr{k}; {f}++) {{ {g} = {g}; }}', f'for ({f} = 0; {f}++ < {g}; ) {{ ; }}',
        # an unsupported unary operator below ! / sizeof / a cast
        f'{f} = !(*{g});', f'{f} = !(&{g});', f'{f} = sizeof(*{g});', f'{f} = !(~{g});', f'sizeof(*{f});', f'{f} = !(int)(~{g});', f'{f} = ~{g};', f'{f} = -(~{g});',
    ]


def insertion_points(src):
    """positions right after a '{' or after a ';' that ends a statement inside braces"""
    pts = []
    depth = 0
    paren = 0
    for i, ch in enumerate(src):
        if ch == '(':
            paren += 1
        elif ch == ')':
            paren -= 1
        elif ch == '{':
            depth += 1
            pts.append((i + 1, depth))
        elif ch == '}':
            depth -= 1
        elif ch == ';' and paren == 0 and depth >= 1:
            # not after a do-while tail: `while (...);` handled since it is a statement end too
            pts.append((i + 1, depth))
    return pts


def func_obs(src, fin, strict):
    ast = astwire.parse(src)
    fn = astwire.funcs(ast)[0]
    node, info = implobs.prepare(fn, strict)
    if node is None:
        return {'not_analysed': True, **info}, None
    obs, _ = implobs.observe_func(node, fin)
    return obs, node


def loop_obs(src, strict):
    from pymwp import LoopAnalysis
    ast = astwire.parse(src)
    res = LoopAnalysis.run(copy.deepcopy(ast), strict=strict)
    out = {}
    for fname, fl in res.loops.items():
        out[fname] = []
        for lp in fl.loops:
            d = {}
            for v, vr in sorted(lp.variables.items()):
                d[v] = [vr.is_m, vr.is_w, vr.is_p, vr.bound.bound_str if vr.bound else None]
            out[fname].append(d)
    return out


def run(ctx):
    from pymwp import Coverage, Parser as pr
    rng = ctx.rng
    pending = []
    for i in range(ctx.budget(70, 2500)):
        g = Gen(rng, Opts(sugar=(i % 3 == 0), max_bin=4, max_stmts=3, max_depth=3, whole_rhs_cast=False))
        base = g.function()
        pts = insertion_points(base)
        # keep points inside the function body only (depth >= 1); skip right after declarations prefix is fine in C99
        k = rng.randint(1, 4) if i % 3 != 1 else rng.randint(2, 4)
        chosen = sorted(rng.sample(pts, min(k, len(pts))), reverse=True)
        src = base
        deep = False
        ins = []
        # every third case inserts the SAME statement (same text, same names) at all chosen positions: copies that
        # print alike must each be removed
        same = None
        if i % 3 == 1 and len(chosen) >= 2:
            same = rng.choice([s_ for s_ in unsupported_pool(100) if not re.match(r'\s*(int|long|char|typedef|struct|L\d+:|goto)\b', s_)])
            ctx.count('same_statement_inserted_twice')
        for j, (pos, depth) in enumerate(chosen):
            stmt = same or rng.choice(unsupported_pool(100 + j))
            deep = deep or depth >= 2
            ins.append(stmt)
            src = src[:pos] + ' ' + stmt + ' ' + src[pos:]
        labels = re.findall(r'goto (L\d+);', src)
        for lb in sorted(set(labels)):   # every goto needs a target for the file to be C; the (supported) label
            src = src[:-1] + f' {lb}: ; }}'      # statement is added to BOTH versions
            base = base[:-1] + f' {lb}: ; }}'
        try:
            astwire.parse(src)
            astwire.parse(base)
        except Exception:
            ctx.count('variant_not_parseable')
            continue
        ctx.case((base, tuple(ins)), nontrivial=deep, sample={'base': base, 'with_unsupported': src})
        ctx.count('n_inserted_%d' % len(ins))
        inp = {'src': src, 'base': base, 'inserted': ins}
        # 1. default mode, function analysis: same result
        for fin in (False, True):
            try:
                a, _ = func_obs(base, fin, False)
                b, node_b = func_obs(src, fin, False)
            except Exception as e:
                ctx.count('harness_error')
                continue
            if 'raised' in a or b.get('raised') == 'Timeout':
                ctx.count('base_raises_or_timeout')
                continue
            def result_of(o):
                # the result as the property means it: verdict, variables, degree, valid choices, matrices and
                # bound.  For an INFINITE result run to completion the relation's polynomials are not compared
                # monomial by monomial: since 0 x inf = inf in the matrix product, every further composition --
                # also with the identity a skipped statement stands for -- spreads existing infinity monomials
                # over rows and columns without changing any verdict (DESIGN 10.2 'exact semiring product');
                # a comma expression whose items are all unsupported leaves such an empty statement behind.
                if o.get('infinite'):
                    return json.dumps({k: o.get(k) for k in ('infinite', 'variables', 'index')}, sort_keys=True, default=str)
                return canon_obs(o)
            if 'raised' in b or result_of(a) != result_of(b):
                what = b.get('raised') or next((k for k in ('infinite', 'variables', 'index', 'valid', 'bound', 'relation')
                                               if json.dumps(a.get(k), default=str) != json.dumps(b.get(k), default=str)), '?')
                ctx.violation({'kind': 'unsupported-statement-changes-result', 'what': str(what)},
                              f'inserting {ins} changes the result ({what}) of `{base}` (fin={fin})', {**inp, 'fin': fin})
        # 2. after the removal pass the syntax check is satisfied; the tree equals the model's
        ast = astwire.parse(src)
        fn = copy.deepcopy(astwire.funcs(ast)[0])
        wire_before = astwire.W(fn)
        cov = Coverage(fn)
        n_omit = len(cov.omit)
        if cov.full:
            ctx.violation({'kind': 'unsupported-statement-not-reported'}, f'syntax check reports full support for `{src}`', inp)
        cov.ast_mod()
        if not Coverage(fn).full:
            ctx.violation({'kind': 'not-full-after-removal'}, f'syntax check still not satisfied after ast_mod on `{src}`', inp)
        pending.append(({'op': 'model.coverage', 'ast': wire_before}, (inp, n_omit, astwire.W(fn))))
        # 3. a fully supported function is textually untouched
        ast0 = astwire.parse(base)
        f0 = copy.deepcopy(astwire.funcs(ast0)[0])
        before = pr.to_c(f0)
        c0 = Coverage(f0)
        if c0.full:
            c0.ast_mod()
            if pr.to_c(f0) != before:
                ctx.violation({'kind': 'supported-function-modified'}, f'ast_mod changed fully supported `{base}`', inp)
            ctx.count('base_full')
        # 4. strict: not analysed at all
        s_obs, _ = func_obs(src, False, True)
        if not s_obs.get('not_analysed'):
            ctx.violation({'kind': 'analysed-in-strict-mode'}, f'strict mode analysed `{src}`', inp)
        # 5. loop mode, default: same loop results
        try:
            la, lb = loop_obs(base, False), loop_obs(src, False)
            if la != lb:
                ctx.violation({'kind': 'unsupported-statement-changes-loop-result'},
                              f'loop mode: inserting {ins} changes the result of `{base}`', inp)
        except Exception as e:
            ctx.count('loop_mode_raised_' + type(e).__name__)
    if ctx.drv is not None and pending:
        outs = ctx.drv.batch([p[0] for p in pending])
        for (req, (inp, n_omit, mod)), r in zip(pending, outs):
            if 'error' in r:
                raise RuntimeError(r['error'])
            m = r['ok']
            if 'raised' in m:
                ctx.disagree('model.coverage(raise)', {**inp, 'model': m})
            elif m['omit'] != n_omit:
                ctx.disagree('model.coverage(omit)', {**inp, 'impl': n_omit, 'model': m['omit']})
            elif m['mod'] != mod:
                ctx.disagree('model.coverage(ast_mod)', {**inp})


def replay(ctx, payload):
    inp = payload['input']
    fin = inp.get('fin', False)
    a, _ = func_obs(inp['base'], fin, False)
    b, _ = func_obs(inp['src'], fin, False)
    return {'base_now': canon_obs(a)[:500], 'with_unsupported_now': canon_obs(b)[:500] if 'raised' not in b else b}
