"""Shared run loop for the properties that are decided on whole-function analyses
(C01, C02, C15 and, via twins, C12/C18): generate programs, run the real analysis and the
model, evaluate the Lean predicate check.func on the implementation's own report."""
import json

import astwire
import implobs
from gens.programs import Opts, gen_function

CORPUS_SRC = [
    # D3 witness: infinity lost in a product with a cell that has no term at the choice
    'int f(int x,int z,int y,int q,int u,int v){ while(x<10){x=z+z;} { while(x<5){y=q+q;x=q;z=q;} x=u+v; } }',
    # D4 witness: spurious self dependency
    'int f(int n,int y,int z,int x,int u,int v){ while(n<10){y=z+z;} x=u+v; }',
    # D1 witness (second loop after a failing one)
    'int f(int x,int y,int z){ while(x<10){y=y+y;} while(z<10){x=x+x;} }',
    'int f(int x,int y){ x = y + y; }',
    'int f(int x,int y,int z){ if (x<y) { x = y + z; } else { x = y * z; } }',
    'int f(int X0,int X1,int X2){ int i; for (i = 0; i < X0; i++) { X1 = X1 + X2; } }',
    'int f(int X1,int X2,int X3){ while (X1 < 10) { X1 = X2 + X3; X2 = X1 * X1; } }',
    'int f(int x,int y){ x = y; y = x; }',
    'int f(int x){ }',
    'int f(int x,int y){ do { x = x + y; } while (x < 10); }',
    'int f(int x,int y){ assert(x < 1); while (x < y) { assume(y > 0); x = y + y; } assert(x == y); }',
    # effect-free branches and bodies: the skipped side of an if is the identity, not nothing
    'int f(int c,int x,int y){ if (c < 0) { } else { x = y; } }',
    'int f(int c,int x,int y,int z){ if (c < 0) ; else { x = y + z; } y = x; }',
    'int f(int c,int x,int y){ if (c < 0) { x = x; } else { x = y * y; } if (c) { y = x; } else { } }',
    'int f(int c,int x,int y){ while (c < 1) { } while (c < 2) { if (x < y) { } else { x = y; } } do { } while (c); }',
    'int f(int n,int x,int y){ int i; for (i = 0; i < n; i++) { } for (i = 0; i < n; i++) { if (x) ; else x = x + y; } }',
    'int f(int a,int b,int d){ while (a < b) { a = b + b; while (a < b) { d = b + a; } d = b + d; } }',
    # closure that needs a late round: one heavy edge reached through a 3-step chain of copies (if-chain body)
    'int f(int a,int b,int c,int d,int t){ while (t) { if (t) { c = b * b; } else if (t) { d = c; c = a; b = a; } else if (t) { d = a; } else { d = b; } } }',
    # shift register: the k-th stage shows only in the k-th power of the body relation
    'int f(int a,int b,int c,int d,int e,int t){ while (t) { a = b; b = c; c = d; d = e; } }',
    'int f(int a,int b,int c,int d,int t){ while (t) { d = a; a = b; b = c; c = d * d; } }',
]


def canon_rel(rel):
    """relation wire -> canonical comparable form (monomial order inside a cell kept sorted)"""
    if rel is None:
        return None
    return {'vars': rel['vars'],
            'mat': [[sorted((m['s'], tuple(map(tuple, m['d']))) for m in p) for p in row] for row in rel['mat']]}


def compare_model(ctx, src, fin, strict, obs, m, tag):
    """diff implementation observation vs model.func output"""
    if 'raised' in obs or 'raised' in m:
        if ('raised' in obs) != ('raised' in m):
            ctx.disagree('model.func(raise)', {'src': src, 'fin': fin, 'strict': strict, 'impl': obs.get('raised'),
                                              'model': m.get('raised'), 'tag': tag})
        return
    diffs = []
    for k_impl, k_model in (('name', 'name'), ('infinite', 'infinite'), ('variables', 'variables'),
                            ('index', 'index'), ('inf_flows', 'inf_flows'), ('has_choices', 'has_choices')):
        if obs.get(k_impl) != m.get(k_model):
            diffs.append((k_impl, obs.get(k_impl), m.get(k_model)))
    if canon_rel(obs.get('relation')) != canon_rel(m.get('relation')):
        diffs.append(('relation', 'differs', ''))
    if 'valid' in obs and m.get('accepted') is not None:
        import itertools
        allc = list(itertools.product(range(3), repeat=obs['index']))
        acc_impl = sorted(list(c) for c, f in zip(allc, obs['valid']) if f == '1')
        if acc_impl != sorted(m['accepted']):
            diffs.append(('accepted', len(acc_impl), len(m['accepted'])))
    if diffs:
        ctx.disagree('model.func', {'src': src, 'fin': fin, 'strict': strict, 'diffs': diffs, 'tag': tag})


def chain_loop(rng):
    """a loop whose body is an if / else-if chain of short blocks of copies and single operations:
    the one-iteration relation is a SUM of near-identity relations, whose closure needs several rounds"""
    vs = ['a', 'b', 'c', 'd']

    nbin = [0]

    def asg():
        x = rng.choice(vs)
        r = rng.random()
        if r < 0.55 or nbin[0] >= 3:
            return f'{x} = {rng.choice(vs)};'
        nbin[0] += 1
        y = rng.choice(vs)
        z = rng.choice(vs)
        return f'{x} = {y} {rng.choice("+*")} {z};'
    arms = ['{ ' + ' '.join(asg() for _ in range(rng.randint(1, 3))) + ' }' for _ in range(rng.randint(2, 4))]
    body = 'if (t) ' + ' else if (t) '.join(arms[:-1]) + ' else ' + arms[-1]
    kind = rng.random()
    if kind < 0.6:
        loop = f'while (t) {{ {body} }}'
    elif kind < 0.8:
        loop = f'do {{ {body} }} while (t);'
    else:
        loop = f'for (i = 0; i < n; i++) {{ {body} }}'
    return f'int f(int a,int b,int c,int d,int t,int n,int i){{ {loop} }}'


def shift_loop(rng, plain=False):
    """a loop whose body moves values one stage per iteration along a path of 3-6 distinct variables
    (`a = b; b = c; c = d; ...`), optionally squaring / adding on the way or closing the path into a
    rotation: the closure needs walks of EVERY length up to the path length and no variable on the
    path keeps its own value -- nothing but the k-th power of the body relation shows the k-th stage"""
    vs = ['a', 'b', 'c', 'd', 'e', 'g']
    k = rng.randint(3, 6)
    path = rng.sample(vs, k)
    stmts = []
    nbin = 0
    for i in range(k - 1):
        src = path[i + 1]
        r = rng.random()
        if r < 0.7 or nbin >= 2:
            stmts.append(f'{path[i]} = {src};')
        else:
            nbin += 1
            other = src if r < 0.85 else rng.choice(path)
            stmts.append(f'{path[i]} = {src} {rng.choice("+*")} {other};')
    if rng.random() < 0.3:
        # rotation through the first variable
        stmts = [f'{path[-1]} = {path[0]};'] + stmts if rng.random() < 0.5 else stmts + [f'{path[-1]} = {path[0]};']
    if rng.random() < 0.25:
        rng.shuffle(stmts)
    body = ' '.join(stmts)
    kind = rng.random()
    if plain or kind < 0.6:
        loop = f'while (t) {{ {body} }}'
    elif kind < 0.8:
        loop = f'do {{ {body} }} while (t);'
    else:
        loop = f'for (i = 0; i < n; i++) {{ {body} }}'
    return f'int f(int a,int b,int c,int d,int e,int g,int t,int n,int i){{ {loop} }}'


def dependent_family(rng):
    """a counted loop with 1-3 accumulators (`z = z + b`: the derivation succeeds at some choices only) and
    variables computed from them (`out = z * z`, `out = z + w`, `out = z`), names drawn at random so that the
    restricting source is first / last / in the middle of the (sorted) variable list; 2-6 sources per dependent"""
    names = rng.sample(['a', 'b', 'c', 'd', 'e', 'g', 'h', 'k', 'm', 'p', 'q', 'r', 's', 't', 'u', 'v', 'w', 'z'], 9)
    guard, accs, bases, deps = names[0], names[1:1 + rng.randint(1, 3)], names[4:6], names[6:6 + rng.randint(1, 3)]
    stmts = [f'{a} = {a} {rng.choice("+*")} {rng.choice(bases)};' for a in accs]
    for d in deps:
        k = rng.random()
        a1 = rng.choice(accs)
        if k < 0.4:
            stmts.append(f'{d} = {a1} * {a1};')
        elif k < 0.7:
            stmts.append(f'{d} = {a1} + {rng.choice(accs + bases)};')
        elif k < 0.85:
            stmts.append(f'{d} = {a1};')
        else:
            stmts.append(f'{d} = {rng.choice(bases)} * {a1};')
    if rng.random() < 0.5 and len(deps) > 1:
        stmts.append(f'{deps[0]} = {deps[0]} + {deps[1]};')
    body = ' '.join(stmts)
    params = ','.join('int ' + n for n in sorted(set([guard] + accs + bases + deps)))
    if rng.random() < 0.75:
        return f'int f({params}){{ int i; for (i = 0; i < {guard}; i++) {{ {body} }} }}'
    return f'int f({params}){{ while ({guard}) {{ {body} }} }}'


def failure_patterns(step=1):
    """bounded-exhaustive: one outer while loop whose body is [statement] [inner while loop] [statement], each
    statement from a menu of assignments that fail at no / some / all choices and feed one another -- the shapes
    that decide which tuples reach the delta graph and in which order"""
    menu = ['a = b + b;', 'a = a + b;', 'd = b + a;', 'd = b + d;', 'd = d * d;', 'a = d;', 'b = a + d;', 'a = a * b;']
    out = []
    k = 0
    for pre in [None] + menu:
        for inner in [None] + menu:
            for post in [None] + menu:
                if pre is None and inner is None and post is None:
                    continue
                k += 1
                if k % step:
                    continue
                body = ' '.join(x for x in [pre, ('while (a < b) { %s }' % inner) if inner else None, post] if x)
                out.append('int f(int a,int b,int d){ while (a < b) { %s } }' % body)
    return out


def gen_sources(ctx, n, opts_fn):
    rng = ctx.rng
    out = list(CORPUS_SRC)
    for _ in range(max(6, n // 4)):
        out.append(chain_loop(rng))
    for _ in range(max(6, n // 5)):
        out.append(shift_loop(rng))
    for _ in range(max(6, n // 6)):
        out.append(dependent_family(rng))
    for i in range(n):
        src, g = gen_function(rng, opts_fn(i))
        out.append(src)
        for k, v in g.stats.items():
            ctx.count('gen_' + k, v)
    return out


PROVOKERS = [
    'int pa(int x1,int x2,int x0){ while (x1 < x2) { x0 = x1 + x2; } }',
    'int pb(int a,int b){ while (a < b) { a = a * a; } }',
    'int pc(int n,int x0,int x1){ int i; for (i = 0; i < n; i++) { x0 = x0 + x1; } }',
    'int pd(int a,int b,int c){ while (a < 1) { b = a + c; c = b + b; } a = b * c; }',
]


def observe_through_file(ctx, src, fnode, fin, strict):
    """Analyse `fnode` as the last function of a file through Analysis.run; returns (obs, result, file source)"""
    from pymwp import Analysis
    import copy as _copy
    pre = ctx.rng.sample(PROVOKERS, ctx.rng.randint(1, 2))
    text = '\n'.join(pre) + '\n' + src
    ast = astwire.parse(text)
    name = fnode.decl.name
    val, err = implobs.with_time_limit(lambda: Analysis.run(_copy.deepcopy(ast), fin=fin, strict=strict))
    if err is not None:
        return err, None, text
    if name not in val.relations:
        return {'raised': 'MissingFromResult', 'msg': f'{name} not in the result of the file'}, None, text
    fr = val.relations[name]
    return implobs.obs_of_result(fr, ctx.rng), fr, text


def run_functions(ctx, sources, modes, on_result=None, check_op='check.func', classify=None, strict_every=0,
                  through_file=3):
    """For every source x (fin, strict): real analysis, model, Lean predicate.
    classify(violation_dict, src, fin, strict, obs) -> signature dict"""
    drv = ctx.drv
    pending = []

    def flush():
        if drv is None or not pending:
            pending.clear()
            return
        outs = drv.batch([p[0] for p in pending])
        for (req, meta), r in zip(pending, outs):
            if 'error' in r:
                raise RuntimeError(r['error'] + ' :: ' + json.dumps(req)[:400])
            kind, src, fin, strict, obs = meta
            if kind == 'check':
                if 'violation' in r:
                    v = r['violation']
                    sig = classify(v, src, fin, strict, obs) if classify else {'kind': v['kind']}
                    ctx.violation(sig, f"{v['kind']} for `{src}` (fin={fin}, strict={strict}): {json.dumps(v)[:300]}",
                                  {'src': src, 'fin': fin, 'strict': strict, 'detail': v,
                                   'observed': {k: obs.get(k) for k in ('infinite', 'index', 'variables', 'first', 'bound', 'valid')}})
                else:
                    o = r['ok']
                    if not o.get('supported', True):
                        ctx.count('outside_spec_fragment')
                    else:
                        ctx.count('derivable_none' if o.get('n_derivable') == 0 else 'derivable_some')
            else:
                compare_model(ctx, src, fin, strict, obs, r['ok'], kind)
        pending.clear()

    for k_src, src in enumerate(sources):
        if ctx.expired():
            break
        try:
            ast = astwire.parse(src)
        except Exception as e:
            ctx.count('parse_error')
            continue
        for fnode in astwire.funcs(ast):
            for fin, strict in modes:
                if strict and strict_every and k_src % strict_every != 0:
                    continue
                node, info = implobs.prepare(fnode, strict)
                if node is None:
                    ctx.count('refused_strict' if info.get('refused') else 'syntax_check_raised')
                    if 'raised' in info and on_result:
                        on_result(src, fin, strict, info, None, None)
                    continue
                wire = astwire.W(node)
                if through_file and k_src % through_file == 0 and len(astwire.funcs(ast)) == 1:
                    # the user's path: the function as the LAST definition of a file analysed by Analysis.run,
                    # after one or two functions that fail in different ways (one fails partially, one collapses)
                    obs, res, src = observe_through_file(ctx, src, fnode, fin, strict)
                    ctx.count('through_file')
                else:
                    obs, res = implobs.observe_func(node, fin, ctx.rng)
                if obs.get('raised') == 'Timeout':
                    ctx.count('analysis_timeout')      # running time is not decided here (exit 2 territory), skip
                    continue
                nontrivial = (obs.get('index') or 0) >= 1
                ctx.case((src, fin, strict), nontrivial=nontrivial,
                         sample={'src': src, 'fin': fin, 'strict': strict, 'infinite': obs.get('infinite'),
                                 'index': obs.get('index'), 'raised': obs.get('raised')})
                ctx.count('infinite' if obs.get('infinite') else ('raised' if 'raised' in obs else 'finite'))
                ctx.count('index_%s' % min(obs.get('index') or 0, 8))
                if on_result:
                    on_result(src, fin, strict, obs, res, wire)
                if 'raised' not in obs and check_op:
                    early = obs['infinite']
                    # pymwp's variable scan skips the reserved names true/false, its analysis treats them as
                    # (never assigned) variables; an early exit reports the variables met so far only.  The
                    # calculus side reads them as variables too: make sure they are in the universe.
                    import re as _re
                    uni = list(obs['variables']) + [w for w in ('true', 'false')
                                                    if _re.search(r'\b%s\b' % w, src) and w not in obs['variables']]
                    req = {'op': check_op, 'ast': wire, 'vars': uni if obs['infinite'] else obs['variables'],
                           'infinite': obs['infinite'],
                           'index': obs['index']}
                    if early:
                        req['early_exit'] = True
                    if not obs['infinite']:
                        if 'valid' not in obs:
                            ctx.count('too_large_to_tabulate')
                            req = None
                        else:
                            req.update({'valid': obs['valid'], 'mats': obs['mats'], 'first': obs['first'],
                                        'bound': obs.get('bound')})
                    if req:
                        pending.append((req, ('check', src, fin, strict, obs)))
                pending.append(({'op': 'model.func', 'ast': wire, 'stop': not fin, 'tabulate': True},
                                ('model', src, fin, strict, obs)))
                if len(pending) > 60:
                    flush()
    flush()
