"""C17 -- the command line produces the library's result under every flag combination."""
import concurrent.futures as cf
import copy
import itertools
import json
import os
import shutil
import subprocess
import sys
import tempfile

import astwire
from gens.programs import Opts, Gen

THEOREMS = ['plan_flags', 'no_save_writes_nothing', 'no_cpp_only_changes_use_cpp', 'table_rows', 'table_defaults']
RULE = ('the real command line (python -m pymwp) is run in subprocesses, cwd = a private scratch directory, on generated '
        'and corpus C files (already preprocessed: no directives, no comments) under combinations of --mode F/L, --fin, '
        '--strict, --no_save, --out, --no_cpp, --silent/--info (quick: a covering sample; thorough: the full cartesian '
        'product); checked: exit status 0, a JSON file written at the expected path iff saving is enabled, its content '
        'equal (timestamps aside) to the in-process library result for the same options, and the outcome with and '
        'without --no_cpp equal; the Lean model of the option plumbing predicts (mode, fin, strict, output path) for '
        'each flag set; non-trivial = more than one flag; distinct by (file, flags)')
EXPLANATION = 'see DESIGN.md C17'
ASSUMPTIONS = ['gcc -E is the identity on directive-free, comment-free text up to line markers',
               'subprocess / filesystem behaviour is observed, not modelled']
PY = sys.executable
REPO = os.environ.get('PYMWP_REPO', '/repo')

FILES = [
    'int f(int x, int y){ x = y + y; }\n',
    'int f(int x, int y){ while (x < 10) { x = x + y; } }\nint g(int a, int b){ a = b * b; }\n',
    'int f(int x, int y, int z){ while (x < 10) { y = y + y; } z = x; }\n',
    'int f(int n, int x, int y){ int i; for (i = 0; i < n; i++) { x = x + y; foo(x); } }\n',
]


def strip_times(d):
    if isinstance(d, dict):
        return {k: strip_times(v) for k, v in d.items() if k not in ('start_time', 'end_time')}
    if isinstance(d, list):
        return [strip_times(x) for x in d]
    return d


def library_result(path, mode, fin, strict):
    from pymwp import Parser, Result, Analysis, LoopAnalysis
    from pymwp.file_io import loc
    # the reference reads the text WITHOUT the preprocessor: for directive-free, comment-free text the property says the
    # outcome must not depend on it, so every CLI run (with or without --no_cpp) is held against this one
    ast = Parser.parse(path, None, use_cpp=False)
    res = Result()
    res.program.program_path = path
    res.program.n_lines = loc(path)
    an = LoopAnalysis if mode == 'L' else Analysis
    res = an.run(ast, res, fin=fin, strict=strict)
    return strip_times(json.loads(json.dumps(res.to_dict())))


def run_cli(workdir, fname, flags):
    env = dict(os.environ)
    env['PYTHONPATH'] = REPO
    env['PYTHONHASHSEED'] = '0'
    p = subprocess.run([PY, '-m', 'pymwp', fname] + flags, cwd=workdir, env=env, stdout=subprocess.PIPE,
                       stderr=subprocess.PIPE, text=True, timeout=120)
    return p.returncode, p.stderr[-300:]


def one(base, k, src, combo):
    mode, fin, strict, no_save, out, no_cpp, verb = combo
    wd = os.path.join(base, 'w%d' % k)
    os.makedirs(wd)
    # the input file name varies too: the default output is output/<stem>.json, whatever the stem ends in
    # (names not ending in .c too: what the preprocessor is given must not depend on the input's extension)
    fname = ['prog.c', 'calc.c', 'a.b.c', 'x_c.c', 'prog.i', 'c.c', 'mmm.c', 'noext', 'prog.h'][k % 9]
    with open(os.path.join(wd, fname), 'w') as f:
        f.write(src)
    flags = ['--mode', mode]
    if fin:
        flags.append('--fin')
    if strict:
        flags.append('--strict')
    if no_save:
        flags.append('--no_save')
    # the shape of the --out path varies with the job: nested directory, bare file name, ./name, absolute, deep
    out_rel = ['res/my.json', 'bare.json', './dot.json', 'a/b/c/deep.json', os.path.join(wd, 'abs', 'abs.json')][(k // 9) % 5]
    if out:
        flags += ['--out', out_rel]
    if no_cpp:
        flags.append('--no_cpp')
    if verb:
        flags.append('--' + verb)
    rc, err = run_cli(wd, fname, flags)
    expected = os.path.normpath(os.path.join(wd, out_rel)) if out else os.path.join(wd, 'output', os.path.splitext(os.path.basename(fname))[0] + '.json')
    files = []
    for root, _, fs in os.walk(wd):
        for fn in fs:
            if fn != fname:
                files.append(os.path.relpath(os.path.join(root, fn), wd))
    doc = None
    if os.path.exists(expected):
        try:
            doc = strip_times(json.load(open(expected)))
        except Exception:
            doc = 'unreadable'
    shutil.rmtree(wd)
    return {'rc': rc, 'err': err, 'files': sorted(files), 'doc': doc, 'expected': os.path.relpath(expected, wd), 'flags': flags,
            'wd': wd, 'expected_abs': expected, 'fname': fname}


def run(ctx):
    rng = ctx.rng
    files = list(FILES)
    for i in range(ctx.budget(1, 6)):
        g = Gen(rng, Opts(max_bin=4, max_stmts=3, unsupported=(i % 2 == 0)))
        files.append(g.function() + '\n')
    allc = list(itertools.product('FL', [False, True], [False, True], [False, True], [False, True], [False, True],
                                  [None, 'silent', 'info']))
    base = tempfile.mkdtemp(prefix='c17_')
    jobs = []
    try:
        for fi, src in enumerate(files):
            if ctx.tier == 'thorough':
                combos = allc if fi < 3 else rng.sample(allc, 24)
            else:
                # covering sample: every single flag on and off, plus random combinations
                combos = [('F', False, False, False, False, False, None), ('L', False, False, False, False, False, 'silent'),
                          ('F', True, False, False, True, False, 'info'), ('F', False, True, True, False, False, None),
                          ('F', False, False, False, False, True, None), ('L', False, True, False, True, True, None),
                          ('L', True, False, True, True, False, None), ('F', False, False, True, True, True, 'silent')]
                combos += rng.sample(allc, 4)
            for c in combos:
                jobs.append((fi, src, c))
        lib_cache = {}
        libdir = os.path.join(base, 'lib')
        os.makedirs(libdir)
        with cf.ThreadPoolExecutor(max_workers=12) as ex:
            futs = {ex.submit(one, base, k, src, c): (fi, src, c) for k, (fi, src, c) in enumerate(jobs)}
            for fut in cf.as_completed(futs):
                fi, src, combo = futs[fut]
                mode, fin, strict, no_save, out, no_cpp, verb = combo
                try:
                    r = fut.result()
                except Exception as e:
                    ctx.notes.append(f'cli job failed: {type(e).__name__}')
                    continue
                inp = {'src': src, 'flags': r['flags']}
                ctx.case((src, tuple(r['flags'])), nontrivial=len(r['flags']) > 3,
                         sample={'flags': r['flags'], 'rc': r['rc'], 'files': r['files']})
                ctx.count('no_cpp' if no_cpp else 'cpp')
                ctx.count('mode_' + mode)
                if r['rc'] != 0:
                    ctx.violation({'kind': 'cli-fails', 'no_cpp': no_cpp},
                                  f"pymwp {' '.join(r['flags'])} exited with {r['rc']}: {r['err'][-160:]}", inp)
                    continue
                if no_save:
                    if r['files']:
                        ctx.violation({'kind': 'file-written-with-no_save'}, f"--no_save but files {r['files']} written", inp)
                    continue
                if r['doc'] is None:
                    ctx.violation({'kind': 'result-file-missing'}, f"no result at {r['expected']} for {' '.join(r['flags'])}; files: {r['files']}", inp)
                    continue
                if r['files'] != [r['expected']]:
                    ctx.violation({'kind': 'unexpected-files'}, f"files written: {r['files']}, expected only {r['expected']}", inp)
                # the model of the option plumbing predicts what is asked of the library and where it is saved
                if ctx.drv is not None:
                    m = ctx.drv.call('model.cli', argv=[r['fname']] + r['flags'])['ok']
                    if 'raised' in m:
                        ctx.disagree('model.cli(raise)', {**inp, 'model': m})
                    else:
                        if os.path.normpath(os.path.join(r['wd'], m['save'])) != r['expected_abs'] or m['loop_mode'] != (mode == 'L') or m['fin'] != fin \
                                or m['strict'] != strict or m['use_cpp'] != (not no_cpp):
                            ctx.disagree('model.cli', {**inp, 'model': m, 'expected_path': r['expected']})
                        mode, fin, strict = ('L' if m['loop_mode'] else 'F'), m['fin'], m['strict']
                key = (fi, mode, fin, strict, r['fname'])
                if key not in lib_cache:
                    lp = os.path.join(libdir, r['fname'])
                    with open(lp, 'w') as f:
                        f.write(src)
                    cwd = os.getcwd()
                    os.chdir(libdir)
                    try:
                        lib_cache[key] = library_result(r['fname'], mode, fin, strict)
                    except Exception as e:
                        lib_cache[key] = {'raised': type(e).__name__}
                    finally:
                        os.chdir(cwd)
                want = lib_cache[key]
                if r['doc'] != want:
                    from props.c14 import diff_keys, generic_path
                    dk = diff_keys(r['doc'], want) if isinstance(r['doc'], dict) and isinstance(want, dict) else '/'
                    ctx.violation({'kind': 'cli-result-differs-from-library', 'path': generic_path(dk or '/')},
                                  f"pymwp {' '.join(r['flags'])}: saved JSON differs from the library result at {dk}", inp)
    finally:
        shutil.rmtree(base, ignore_errors=True)


def replay(ctx, payload):
    inp = payload['input']
    base = tempfile.mkdtemp(prefix='c17r_')
    try:
        os.makedirs(os.path.join(base, 'w0'), exist_ok=True)
        shutil.rmtree(os.path.join(base, 'w0'))
        wd = os.path.join(base, 'w0')
        os.makedirs(wd)
        with open(os.path.join(wd, 'prog.c'), 'w') as f:
            f.write(inp['src'])
        rc, err = run_cli(wd, 'prog.c', inp['flags'])
        return {'rc': rc, 'stderr_tail': err}
    finally:
        shutil.rmtree(base, ignore_errors=True)
