"""C01 -- every reported bound is a derivation of the mwp flow calculus."""
from props import funcs_common as FC
from gens.programs import Opts

LEAN_MODULES = ['Mwp.Props.C01', 'Mwp.Props.C01b']
THEOREMS = ['vector_table_documented', 'loopfree_analysis_is_calculus'] + \
    ['Mwp.Props.C01b.' + n for n in ['relabel_involutive', 'relabel_preserves', 'applyChoice_is_toSMat', 'valid_choices_are_derivations', 'reported_matrices_are_exactly_derivable', 'finite_has_derivable_matrix']]
RULE = ('generated C functions of the supported fragment (assignments of variables/constants/binary ops with all '
        'aliasing patterns, unary/cast sugar, if/else, while, do-while, counted for, nested <=3 deep, <=6 binary '
        'operations so that all 3^k choice vectors are tabulated) plus a corpus of past witnesses, each x {fin} x '
        '{strict}; the real Analysis.func is run, then (a) Lean predicate check.func compares the reported valid set '
        'with the set of choices at which the pointwise calculus Spec.sem derives a matrix, the matrices at (sampled) '
        'valid choices, and the bound with the columns at the first choice; (b) the Lean model model.func is diffed '
        'against the implementation (verdict, variables, index, relation polynomials, accepted set); non-trivial = '
        'at least one binary operation; distinct by (source, fin, strict)')
EXPLANATION = 'see DESIGN.md C01'
ASSUMPTIONS = ['functions of the supported fragment as delimited by Spec.desugar']


def classify(v, src, fin, strict, obs):
    return {'kind': v['kind']}


def _opts(o, i):
    o.reserved = (i % 3 == 1)
    return o


def run(ctx):
    n = ctx.budget(60, 900)
    srcs = FC.gen_sources(ctx, n, lambda i: _opts(Opts(sugar=(i % 3 == 0), max_bin=5 if ctx.tier == 'quick' else 6,
                                                        whole_rhs_cast=(i % 6 == 0)), i))
    FC.run_functions(ctx, srcs, [(False, False), (True, False), (False, True), (True, True)], classify=classify,
                     strict_every=4 if ctx.tier == 'quick' else 0)


def replay(ctx, payload):
    import astwire, implobs
    inp = payload['input']
    ast = astwire.parse(inp['src'])
    node, info = implobs.prepare(astwire.funcs(ast)[0], inp['strict'])
    if node is None:
        return info
    obs, _ = implobs.observe_func(node, inp['fin'])
    return {'src': inp['src'], 'observed_now': {k: obs.get(k) for k in ('infinite', 'index', 'variables', 'first', 'bound', 'valid', 'raised')}}
