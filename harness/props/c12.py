"""C12 -- results do not depend on names, layout or equivalent spellings."""
import itertools
import json
import re

import astwire
import implobs
from gens.programs import Opts, Gen
from props import funcs_common as FC

THEOREMS = ['plus_minus_same', 'do_while_is_while', 'empty_statement_is_skip', 'sem_square_no_infty', 'sem_seq_skip', 'sem_seq_singleton', 'sem_rename',
            'verdict_depends_only_on_reading', 'verdict_invariant_under_renaming', 'derivable_matrices_depend_only_on_reading']
RULE = ('each generated / corpus function and a transformed twin are analysed by the real code (both fin modes): '
        'injective renaming that reverses the sorted order of the variables, + replaced by -, redundant braces and '
        'empty statements inserted, while written as do-while, two functions of a file swapped; compared: verdict, '
        'degree, set of valid choice vectors, and the matrix at EVERY valid choice (up to the renaming); non-trivial = '
        'at least one binary operation; distinct by (source, transformation)')
EXPLANATION = 'see DESIGN.md C12'
ASSUMPTIONS = []

# not variables: keywords, the function names, and the two call names the analysis knows
KEYWORDS = {'int', 'long', 'for', 'while', 'do', 'if', 'else', 'return', 'f', 'g', 'assert', 'assume', 'sizeof', 'break', 'continue'}


def observe(src, fin, fname=None):
    ast = astwire.parse(src)
    fs = astwire.funcs(ast)
    fn = fs[0] if fname is None else next(f for f in fs if f.decl.name == fname)
    node, info = implobs.prepare(fn, False)
    if node is None:
        return {'raised': str(info)}
    obs, _ = implobs.observe_func(node, fin, None, max_mats=10 ** 6)
    return obs


def mat_dict(variables, rows, rho=None):
    rho = rho or (lambda v: v)
    return {(rho(a), rho(b)): rows[i][j] for i, a in enumerate(variables) for j, b in enumerate(variables)}


def summary(obs, rho=None):
    """comparable digest: verdict, degree, valid set, matrices at valid choices (renamed)"""
    if 'raised' in obs:
        return {'raised': obs['raised']}
    rho_f = (lambda v: rho.get(v, v)) if rho else None
    d = {'infinite': obs['infinite'], 'index': obs['index'] if not obs['infinite'] else None,
         'variables': sorted((rho_f(v) if rho_f else v) for v in obs['variables']) if not obs['infinite'] else None,
         'valid': obs.get('valid')}
    if 'mats' in obs:
        d['mats'] = {tuple(c): sorted(mat_dict(obs['variables'], m, rho_f).items()) for c, m in obs['mats']}
    return d


def loop_summary(src, rho=None):
    """loop-mode digest: per function the list of per-variable (flags, bound) of every loop, renamed"""
    import copy
    from pymwp import LoopAnalysis
    r = (lambda v: rho.get(v, v)) if rho else (lambda v: v)
    res = LoopAnalysis.run(copy.deepcopy(astwire.parse(src)), strict=False)
    out = {}
    for fname, fl in res.loops.items():
        out[fname] = []
        for lp in fl.loops:
            d = {}
            for v, vr in lp.variables.items():
                b = None
                if vr.bound:
                    b = tuple(tuple(sorted(r(x) for x in part)) for part in vr.bound.bound_triple)
                d[r(v)] = (vr.is_m, vr.is_w, vr.is_p, b)
            out[fname].append(sorted(d.items()))
    return out


def rename_src(src, rho):
    return re.sub(r'\b[A-Za-z_]\w*\b', lambda m: rho.get(m.group(0), m.group(0)), src)


def names_in(src):
    ids = set(re.findall(r'\b[A-Za-z_]\w*\b', src)) - KEYWORDS
    return sorted(ids)


def run(ctx):
    rng = ctx.rng
    n = ctx.budget(45, 1500)
    progs = []
    for src in FC.CORPUS_SRC + [
            'int f(int x,int y){ while (x < 3) while (y < 2) y = y + x; }',
            'int f(int x,int y){ while (x < 3) { while (y < 2) { y = y + x; } } }']:
        progs.append((src, None))
    for i in range(n):
        g = Gen(rng, Opts(sugar=False, max_bin=5, max_stmts=3))
        g.o.loop_twin = True
        src = g.function()
        progs.append((src, g))
    # loop-mode result selection reads the columns of a variable's sources: accumulators with dependents, names drawn
    # at random (so that sources are adjacent / apart / around the variable in sorted order), plus a witness shape
    import props.funcs_common as FCm
    progs.append(('int f(int g,int x,int y,int z){ int i; for (i = 0; i < g; i++) { z = y; y = x + y; } }', None))
    for i in range(ctx.budget(24, 600)):
        progs.append(((FCm.dependent_family, FCm.dependent_family, FCm.chain_loop)[i % 3](rng), None))
    explicit_twins = [
        ('int f(int x,int y){ do { while (y < 2) { y = y + x; } } while (x < 3); }',
         'int f(int x,int y){ do while (y < 2) { y = y + x; } while (x < 3); }', 'braces-removed'),
        ('int f(int x,int y){ while (x < 3) { while (y < 2) { y = y + x; } } }',
         'int f(int x,int y){ while (x < 3) while (y < 2) y = y + x; }', 'braces-removed'),
        ('int f(int x,int y,int n){ int i; for (i = 0; i < n; i++) { do { x = x + y; } while (x < 9); } }',
         'int f(int x,int y,int n){ int i; for (i = 0; i < n; i++) do x = x + y; while (x < 9); }', 'braces-removed'),
        ('int f(int x,int y){ if (x < y) { while (y < 2) { y = y + 1; } } else { do { x = x * x; } while (x < 2); } }',
         'int f(int x,int y){ if (x < y) while (y < 2) y = y + 1; else do x = x * x; while (x < 2); }', 'braces-removed'),
    ]
    for a, b, kind in explicit_twins:
        for fin in (False, True):
            try:
                sa, sb = summary(observe(a, fin)), summary(observe(b, fin))
                la, lb2 = loop_summary(a), loop_summary(b)
            except Exception as e:
                ctx.count('harness_error')
                continue
            ctx.case((a, kind, fin), nontrivial=True, sample={'src': a, 'variant': b, 'kind': kind})
            ctx.count('t_' + kind)
            if sa != sb or la != lb2:
                ctx.violation({'kind': 'result-changes-under-' + kind, 'mode': 'function' if sa != sb else 'loop'},
                              f'{kind}: `{a}` vs `{b}` (fin={fin}) differ', {'src': a, 'variant': b, 'transformation': kind, 'fin': fin, 'strict': False})
    for src, g in progs:
        names = names_in(src)
        # reverse the sorted order: k-th smallest name becomes a name sorting k-th largest
        targets = ['v%02d_%s' % (len(names) - k, 'q') for k in range(len(names))]
        rho = dict(zip(names, targets))
        variants = [('rename', rename_src(src, rho), rho)]
        # names that contain one another (a, ab, abc, ... / v1, v10, v100, ...), assigned in a random order:
        # nothing may depend on how a name is spelled, only on which name it is
        fam = rng.choice([['a' + 'b' * k for k in range(len(names))], ['v1' + '0' * k for k in range(len(names))],
                          ['n' * (k + 1) for k in range(len(names))], ['x', 'xx', 'x_', '_x', 'x1', 'x11', 'xy', 'yx', 'y', 'yy', 'y1', 'x_y'][:max(len(names), 1)]])
        if len(fam) >= len(names) and not (set(fam) & (KEYWORDS | {'f', 'f0', 'f1', 'f2'})):
            tg = list(fam[:len(names)])
            rng.shuffle(tg)
            rho2 = dict(zip(names, tg))
            variants.append(('rename-nested-names', rename_src(src, rho2), rho2))
        # the same names dealt out again in a random order (neighbours in sorted order become non-neighbours)
        called = set(re.findall(r'\b([A-Za-z_]\w*)\s*\(', src))
        pn = [a for a in names if a not in called]
        pm = list(pn)
        rng.shuffle(pm)
        rho3 = dict(zip(pn, pm))
        if pm != pn:
            variants.append(('rename-permute', rename_src(src, rho3), rho3))
        if ' + ' in src or ' - ' in src:
            swapped = src.replace(' + ', ' \x00 ').replace(' - ', ' + ').replace(' \x00 ', ' - ')
            variants.append(('plus-minus', swapped, None))
        braces = src.replace('{ ', '{ ; ', 2).replace('; }', '; ; }', 1)
        i0 = braces.index('{')
        braces = braces[:i0] + '{ {' + braces[i0 + 1:-1] + '} }'
        variants.append(('braces-empty', braces, None))
        if g is not None and 'loop' in g.kinds:
            variants.append(('do-while', g.render(g.template, only={'loop'}), None))
        for fin in (False, True):
            try:
                base = summary(observe(src, fin))
            except Exception as e:
                ctx.count('harness_error')
                continue
            for kind, vsrc, vr in variants:
                try:
                    got = observe(vsrc, fin)
                except Exception as e:
                    ctx.count('variant_parse_error_' + kind)
                    continue
                inv = {v: k for k, v in (vr or {}).items()}
                s2 = summary(got, inv if vr else None)
                ctx.case((src, kind, fin), nontrivial=(base.get('index') or 0) >= 1 or base.get('infinite', False),
                         sample={'src': src, 'variant': vsrc, 'kind': kind, 'fin': fin})
                ctx.count('t_' + kind)
                if 'raised' in base or s2.get('raised') == 'Timeout':
                    ctx.count('base_raises_or_timeout')
                    continue
                # loop mode must agree as well (same loops found, same per-variable results)
                if fin is False:
                    try:
                        lb, lv = loop_summary(src), loop_summary(vsrc, inv if vr else None)
                        ctx.count('loop_mode_compared')
                        if lb != lv:
                            ctx.violation({'kind': 'loop-mode-result-changes-under-' + kind},
                                          f'{kind}: loop analysis of `{src}` vs `{vsrc}` differs',
                                          {'src': src, 'variant': vsrc, 'transformation': kind, 'fin': fin, 'strict': False})
                    except Exception as e:
                        ctx.count('loop_mode_raised_' + type(e).__name__)
                if s2 != base:
                    what = next((k for k in ('raised', 'infinite', 'index', 'variables', 'valid', 'mats')
                                 if s2.get(k) != base.get(k)), '?')
                    ctx.violation({'kind': 'result-changes-under-' + kind, 'what': what},
                                  f'{kind}: `{src}` vs `{vsrc}` (fin={fin}) differ in {what}',
                                  {'src': src, 'variant': vsrc, 'transformation': kind, 'fin': fin, 'strict': False})
    # function order in a file
    for i in range(ctx.budget(8, 200)):
        ga = Gen(rng, Opts(max_bin=4, max_stmts=3)); a = ga.function('f')
        gb = Gen(rng, Opts(max_bin=4, max_stmts=3)); b = gb.function('g')
        for fin in (False, True):
            try:
                r1 = {nm: summary(observe(a + '\n' + b, fin, nm)) for nm in ('f', 'g')}
                r2 = {nm: summary(observe(b + '\n' + a, fin, nm)) for nm in ('f', 'g')}
            except Exception:
                ctx.count('harness_error')
                continue
            ctx.case((a, b, 'order', fin), nontrivial=True)
            ctx.count('t_function-order')
            if r1 != r2:
                ctx.violation({'kind': 'result-changes-under-function-order'},
                              f'function order changes the result: `{a}` / `{b}`', {'src': a + '\n' + b, 'fin': fin, 'strict': False})

    # ... and through the driver the user calls, in strict mode too, with a function the syntax check refuses
    # among the others: every permutation of the functions of a file gives the same entry for each function
    import itertools as _it
    import copy as _copy
    from pymwp import Analysis as _An, LoopAnalysis as _LA
    sup = ['int f(int x,int y){ while (x < 3) { y = y + x; } }', 'int g(int a,int b,int c){ a = b * c; if (a < b) { c = a; } }',
           'int k(int n,int x){ int i; for (i = 0; i < n; i++) { x = x + x; } }']
    uns = ['int h(int x,int y){ x = a[y]; y = x + 1; }', 'int h(int x){ x = foo(x); }']
    for i in range(ctx.budget(2, 12)):
        funcs = [rng.choice(sup[:2]), sup[2] if i % 2 else rng.choice(sup[:2]).replace('int f(', 'int m(').replace('int g(', 'int m('), rng.choice(uns)]
        if len({f_.split('(')[0] for f_ in funcs}) < 3:
            continue
        results = {}
        for perm in _it.permutations(range(3)):
            text = '\n'.join(funcs[j] for j in perm)
            for strict in (False, True):
                for mode in ('F', 'L'):
                    try:
                        ast = astwire.parse(text)
                        res = _An.run(_copy.deepcopy(ast), strict=strict) if mode == 'F' else _LA.run(_copy.deepcopy(ast), strict=strict)
                        d = res.to_dict()
                        entries = d.get('relations' if mode == 'F' else 'loops', {})
                        from props.c13 import strip_times as _st
                        digest = json.dumps(_st(json.loads(json.dumps(dict(sorted(entries.items())), default=str))), sort_keys=True)
                    except Exception as e:
                        digest = 'raised ' + type(e).__name__
                    key = (strict, mode)
                    ctx.case(('perm', text, strict, mode), nontrivial=True)
                    ctx.count('t_function-order-driver')
                    if key in results and results[key][0] != digest:
                        ctx.violation({'kind': 'result-changes-under-function-order', 'driver': True, 'strict': strict},
                                      f'function order changes the result of the {"function" if mode == "F" else "loop"} driver '
                                      f'(strict={strict}): `{results[key][1][:120]}` vs `{text[:120]}`',
                                      {'src': results[key][1], 'variant': text, 'fin': False, 'strict': strict, 'mode': mode})
                    results.setdefault(key, (digest, text))


def replay(ctx, payload):
    inp = payload['input']
    out = {'base': json.dumps(summary(observe(inp['src'], inp['fin'])), default=str)[:500]}
    if 'variant' in inp:
        out['variant'] = json.dumps(summary(observe(inp['variant'], inp['fin'])), default=str)[:500]
    return out
