"""C16 -- the coefficient semiring obeys its laws and its documented tables."""
import itertools

THEOREMS = ['extraction_clean', 'keys_documented', 'sum_comm', 'prod_comm', 'sum_assoc',
            'prod_assoc', 'distrib_left', 'distrib_right', 'sum_idem', 'sum_is_max',
            'prod_unit_left', 'prod_unit_right', 'sum_zero_left', 'sum_zero_right',
            'infty_absorbs_sum', 'infty_absorbs_prod', 'zero_annihilates',
            'sum_documented', 'prod_documented', 'non_coefficient_raises']
RULE = ('every law instance over the five coefficients (pairs and triples, exhaustive) evaluated on the '
        'live sum_mwp/prod_mwp; plus a stream of non-coefficient arguments that must raise; '
        'non-trivial = the instance involves at least one non-neutral coefficient; distinct by (law,args)')
EXPLANATION = ('Tables regenerated from the live functions (all 25+25 calls, cross-checked with the dict '
               'literals); all laws re-proved by exhaustive case split in the Lean kernel on every run.')
ASSUMPTIONS = ['sum_mwp/prod_mwp are pure functions of their two arguments (called once per pair)']

SC = ['o', 'm', 'w', 'p', 'i']
ORDER = {s: k for k, s in enumerate(SC)}


def doc_prod(a, b):
    """Documented product table (docstring of prod_mwp), transcribed by hand."""
    if a == 'i' or b == 'i':
        return 'i'
    if a == 'o' or b == 'o':
        return 'o'
    if a == 'm':
        return b
    if b == 'm':
        return a
    return 'w' if (a, b) == ('w', 'w') else 'p'


def run(ctx):
    import pymwp.semiring as S

    def f(fn, *a):
        try:
            return fn(*a)
        except Exception as e:
            return ('raised', type(e).__name__)

    def add(a, b): return f(S.sum_mwp, a, b)
    def mul(a, b): return f(S.prod_mwp, a, b)

    def chk(law, args, lhs, rhs):
        ctx.case((law, args), nontrivial=any(x not in ('o', 'm') for x in args),
                 sample={'law': law, 'args': list(args), 'lhs': lhs, 'rhs': rhs})
        ctx.count(law)
        if lhs != rhs or not (isinstance(lhs, str) and lhs in SC):
            ctx.violation({'kind': 'law', 'law': law, 'args': list(args)},
                          f'{law} fails at {args}: {lhs!r} vs {rhs!r}',
                          {'law': law, 'args': list(args), 'lhs': lhs, 'rhs': rhs})

    for a in SC:
        chk('sum_idem', (a,), add(a, a), a)
        chk('prod_unit', (a,), mul('m', a), a)
        chk('prod_unit_r', (a,), mul(a, 'm'), a)
        chk('sum_zero', (a,), add('o', a), a)
        chk('sum_zero_r', (a,), add(a, 'o'), a)
        chk('infty_absorbs_sum', (a,), add('i', a), 'i')
        chk('infty_absorbs_sum_r', (a,), add(a, 'i'), 'i')
        chk('infty_absorbs_prod', (a,), mul('i', a), 'i')
        chk('infty_absorbs_prod_r', (a,), mul(a, 'i'), 'i')
        if a != 'i':
            chk('zero_annihilates', (a,), mul('o', a), 'o')
            chk('zero_annihilates_r', (a,), mul(a, 'o'), 'o')
    for a, b in itertools.product(SC, SC):
        chk('sum_comm', (a, b), add(a, b), add(b, a))
        chk('prod_comm', (a, b), mul(a, b), mul(b, a))
        chk('sum_is_max', (a, b), add(a, b), b if ORDER[a] <= ORDER[b] else a)
        chk('prod_documented', (a, b), mul(a, b), doc_prod(a, b))
    for a, b, c in itertools.product(SC, SC, SC):
        chk('sum_assoc', (a, b, c), add(add(a, b), c), add(a, add(b, c)))
        chk('prod_assoc', (a, b, c), mul(mul(a, b), c), mul(a, mul(b, c)))
        chk('distrib_left', (a, b, c), mul(a, add(b, c)), add(mul(a, b), mul(a, c)))
        chk('distrib_right', (a, b, c), mul(add(a, b), c), add(mul(a, c), mul(b, c)))
    ctx.exhaustive = True

    # non-coefficient arguments must raise, never return
    junk = ['', 'mm', 'O', 'M', ' m', 'x', '0', 'infty', 0, 1, None, 1.5, ('m',), ['m'], True, b'm']
    rng = ctx.rng
    for _ in range(ctx.budget(40, 400)):
        junk.append(''.join(rng.choice('omwpi xyz01') for _ in range(rng.randint(0, 3))))
    # every two-letter word over the coefficients, and the empty string: the pair ('', 'mw') must not be
    # mistaken for ('m', 'w')
    junk += [a + b for a in SC for b in SC] + [a + b + c for a in 'om' for b in 'wp' for c in 'io']
    pairs_extra = [(x, y) for x in ('', 'o', 'mw', 'oo', 'i', None, 0) for y in junk if not (x in SC and y in SC)]
    for x in junk:
        if isinstance(x, str) and x in SC:
            continue
        for fn, name in ((S.sum_mwp, 'sum_mwp'), (S.prod_mwp, 'prod_mwp')):
            for good in SC + [None]:
                cands = ((x, good), (good, x), (x, x)) if good is not None else \
                    tuple(p for p in pairs_extra if p[1] is x) + tuple((p[1], p[0]) for p in pairs_extra if p[1] is x)
                for args in cands:
                    if all(isinstance(a, str) and a in SC for a in args):
                        continue
                    try:
                        r = fn(*args)
                        raised = False
                    except Exception:
                        r, raised = None, True
                    ctx.case(('junk', name, repr(args)), nontrivial=True)
                    ctx.count('non_coefficient_' + ('raised' if raised else 'RETURNED'))
                    if not raised:
                        ctx.violation({'kind': 'non-coefficient-returns', 'fn': name},
                                      f'{name}{args!r} returned {r!r} instead of raising',
                                      {'fn': name, 'args': repr(args), 'returned': repr(r)})


def replay(ctx, payload):
    import pymwp.semiring as S
    inp = payload['input']
    if 'law' in inp:
        return {'law': inp['law'], 'args': inp['args'],
                'sum_table_now': {a + b: S.sum_mwp(a, b) for a in SC for b in SC},
                'prod_table_now': {a + b: S.prod_mwp(a, b) for a in SC for b in SC}}
    return inp
