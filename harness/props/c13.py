"""C13 -- analysing one function is unaffected by anything analysed before."""
import copy
import glob
import json
import os
import subprocess
import sys

import astwire
import implobs
from gens.programs import Opts, Gen

THEOREMS = ['while_correction_write_set', 'while_correction_spares_constants', 'loop_correction_write_set', 'fixpoint_diagonal_no_zero', 'rEx_wf', 'rEx_fixpoint', 'corrections_never_touch_shared_constants',
            'file_entry_is_named_after_function', 'file_results_are_per_function', 'file_entry_is_entry_alone',
            'file_duplicate_name_replaces', 'file_failures_are_per_function', 'file_loop_results_are_per_function']
RULE = ('a pool of generated functions and files of the repository corpus (c_files) is analysed (a) each alone in a '
        'fresh interpreter (reference), (b) in one process in random order, repeatedly and in different modes '
        '(function mode fin on/off, loop mode) interleaved, (c) as one of several functions of a file, (d) in fresh '
        'interpreters under PYTHONHASHSEED 1..n; every response must equal the reference as a JSON value (timestamps '
        'aside); the shared zero / unit polynomials of pymwp.matrix are snapshotted before and after every analysis; '
        'the caller tree is snapshotted and must be unchanged for fully supported functions and equal to the removal '
        'pass otherwise; non-trivial = history has >=3 analyses with a loop among them; distinct by (history position, '
        'source, mode); (e) the file-level drivers are diffed against their Lean model (Model/Run.lean) on multi-function '
        'files (duplicate names included), strict and fin on/off, function and loop mode')
EXPLANATION = 'see DESIGN.md C13'
ASSUMPTIONS = ['CPython object identity / aliasing and set ordering are explored, not proved']
PY = sys.executable
REPO = os.environ.get('PYMWP_REPO', '/repo')

WORKER = r'''
import sys, json, copy
sys.path.insert(0, %(repo)r)
sys.path.insert(0, %(harness)r)
import logging; logging.disable(logging.CRITICAL)
import astwire
from props.c13 import analyse_src
jobs = json.load(sys.stdin)
out = []
for src, mode, fin in jobs:
    out.append(analyse_src(src, mode, fin))
json.dump(out, sys.stdout)
'''


def strip_times(d):
    if isinstance(d, dict):
        return {k: strip_times(v) for k, v in d.items() if k not in ('start_time', 'end_time')}
    if isinstance(d, list):
        return [strip_times(x) for x in d]
    return d


def analyse_ast(ast, mode, fin):
    from pymwp import Analysis, LoopAnalysis
    try:
        if mode == 'F':
            res = Analysis.run(ast, fin=fin, strict=False)
        else:
            res = LoopAnalysis.run(ast, strict=False)
        return strip_times(json.loads(json.dumps(res.to_dict())))
    except Exception as e:
        return {'raised': type(e).__name__}


def analyse_src(src, mode, fin):
    return analyse_ast(astwire.parse(src), mode, fin)


def fresh(jobs, seed):
    env = dict(os.environ)
    env['PYTHONHASHSEED'] = str(seed)
    code = WORKER % {'repo': REPO, 'harness': os.path.dirname(os.path.dirname(os.path.abspath(__file__)))}
    p = subprocess.run([PY, '-c', code], input=json.dumps(jobs), stdout=subprocess.PIPE, stderr=subprocess.PIPE,
                       text=True, env=env, timeout=600)
    if p.returncode != 0:
        raise RuntimeError('worker failed: ' + p.stderr[-400:])
    return json.loads(p.stdout[p.stdout.index('['):])


def shared_snapshot():
    from pymwp import matrix
    return json.dumps([implobs.wire_poly(matrix.ZERO), implobs.wire_poly(matrix.UNIT)])


def corpus_sources(limit):
    out = []
    for path in sorted(glob.glob(os.path.join(REPO, 'c_files', '*', '*.c'))):
        try:
            txt = open(path).read()
            if '#' in txt or len(txt) > 1500:
                continue
            astwire.parse(txt)
            out.append(txt)
        except Exception:
            continue
        if len(out) >= limit:
            break
    return out


def run(ctx):
    from pymwp import Parser as pr, Coverage
    rng = ctx.rng
    pool = []
    for i in range(ctx.budget(10, 60)):
        g = Gen(rng, Opts(sugar=(i % 3 == 0), unsupported=(i % 4 == 0), max_bin=4, max_stmts=3))
        pool.append(g.function())
    # names the variable scan skips (`true`, `false`) enter a relation late and together: their order must not
    # depend on the interpreter's string hashing (these two go first so that the hash-seed runs include them)
    pool = ['int f(int c,int x){ if (c) { x = true; } else { x = false; } }',
            'int f(int x,int y){ while (true) { x = false; y = true; } y = x + false; }'] + pool
    pool += corpus_sources(ctx.budget(6, 40))
    pool.append('int f(int x,int y){ while (x < 1) { x = x + x; } }')
    # same text positions, different programs: whatever is remembered per source position or per node must not
    # carry over from one analysis to the next (the second loop writes its guard: not a counted loop)
    pool.append('int f(int n,int x,int y){ int i; for (i = 0; i < n; i++) { x = x + y; } }')
    pool.append('int f(int n,int x,int y){ int i; for (i = 0; i < n; i++) { n = x + y; } }')
    # the same failing loop in functions of different degree (anything remembered per set of failing choices
    # must not be reused for a vector of another length)
    pool.append('int f(int y1,int y2,int r){ while (r < 1) { y2 = y1 + y1; } }')
    pool.append('int f(int y1,int y2,int r){ while (r < 1) { y2 = y1 + y1; } r = y2 + y2; }')
    pool.append('int f(int X1,int X2,int X3,int X4,int X5,int X6){ while (X1 < 10) { X1 = X2 + X3; } X4 = X5 + X6; }')
    # sugar that the analysis rewrites on the fly (must happen on copies, never in the caller's tree)
    pool.append('int f(int x,int y,int z){ y = (int)(x * z); while (x < 1) { x = (long)y; z = -x; y = x++; } }')
    pool.append('int f(int x,int y){ x = (int)(long)(y + y); y = !x; L1: x = +y; }')
    pool.append('int f(int n,int x,int y){ int i; for (i = 0; i < n; i++) { x = x + y; y = x; } }')
    modes = [('F', False), ('F', True), ('L', False)]
    jobs = [(s, m, f) for s in pool for (m, f) in modes]
    # (a) references: each job alone would be |jobs| interpreters; one fresh interpreter per SOURCE analysing only that source
    ref = {}
    ref_sources = set(pool)
    try:
        for s in pool:
            outs = fresh([(s, m, f) for (m, f) in modes], 0)
            for (m, f), o in zip(modes, outs):
                ref[(s, m, f)] = o
    except Exception as e:
        ctx.notes.append(f'reference workers failed: {e}')
        raise
    zero0 = shared_snapshot()
    # (b) one process, random history
    hist = [rng.choice(jobs) for _ in range(ctx.budget(120, 1500))]
    hist += [hist[0], hist[0]]
    for pos, (s, m, f) in enumerate(hist):
        ast = astwire.parse(s)
        before = pr.to_c(ast)
        full = all(Coverage(copy.deepcopy(fn)).full for fn in astwire.funcs(ast))
        got = analyse_ast(ast, m, f)
        ctx.case((pos, s, m, f), nontrivial=pos >= 2 and 'while' in s or 'for' in s,
                 sample={'pos': pos, 'mode': m, 'fin': f, 'src': s[:120]})
        ctx.count('mode_%s%s' % (m, '+fin' if f else ''))
        if got != ref[(s, m, f)]:
            ctx.violation({'kind': 'result-depends-on-history'},
                          f'analysis #{pos} ({m}, fin={f}) of `{s[:100]}` differs from the same analysis in a fresh interpreter',
                          {'history': [[x[0], x[1], x[2]] for x in hist[:pos + 1]][-6:], 'src': s, 'mode': m, 'fin': f})
        z = shared_snapshot()
        if z != zero0:
            ctx.violation({'kind': 'shared-constant-modified'}, f'matrix.ZERO/UNIT changed after analysing `{s[:100]}` ({m}, fin={f}): {z}',
                          {'src': s, 'mode': m, 'fin': f})
            from pymwp import matrix, Polynomial
            matrix.ZERO.list[0].scalar, matrix.UNIT.list[0].scalar = 'o', 'm'
        after = pr.to_c(ast)
        if full and after != before:
            ctx.violation({'kind': 'caller-tree-modified'}, f'the tree of fully supported `{s[:100]}` was modified by the analysis', {'src': s, 'mode': m, 'fin': f})
        elif not full:
            exp = astwire.parse(s)
            for fn in astwire.funcs(exp):
                c = Coverage(fn)
                c.ast_mod()
            if m == 'F' and pr.to_c(exp) != after:
                ctx.violation({'kind': 'caller-tree-modified-beyond-removal'},
                              f'tree of `{s[:100]}` after analysis differs from the removal pass alone', {'src': s, 'mode': m, 'fin': f})
    # (b') strict mode never modifies the caller's tree, whatever the function contains (refused or analysed)
    from pymwp import Analysis as _An, LoopAnalysis as _LA
    strict_pool = pool + [
        'int f(int a,int b,int x){ int i; for (i = a; i < b; i++) { while (x < 3) { x = x + 1; } } return x; }',
        'int f(int x,int y){ while (x++ < 3) { while (y < 2) { y = y + 1; } } }',
        'int f(int x,int y){ switch (x) { case 1: while (y < 2) { y = y + 1; } break; default: y = 0; } }',
        'int f(int x,int y){ do { x = a[y]; while (y < 2) { y = y + x; } } while (x = y); }',
    ]
    for s_ in strict_pool:
        try:
            ast = astwire.parse(s_)
        except Exception:
            continue
        before = pr.to_c(ast)
        for what, fn_ in (('function mode', lambda a_: _An.run(a_, strict=True)), ('loop mode', lambda a_: _LA.run(a_, strict=True))):
            try:
                fn_(ast)
            except Exception:
                ctx.count('strict_run_raised')
            ctx.case(('strict-tree', s_, what), nontrivial=True)
            ctx.count('strict_tree_checks')
            if pr.to_c(ast) != before:
                ctx.violation({'kind': 'caller-tree-modified', 'strict': True},
                              f'strict {what} modified the tree of `{s_[:100]}`', {'src': s_, 'mode': 'F' if what[0] == 'f' else 'L', 'fin': False})
                break
    # (c) one of many functions in a file
    singles = [s for s in pool if s.count('int f') == 1 and s.strip().startswith('int f(')][:8]
    # pairs whose first function fails partially / completely and whose second one has a loop of its own
    extra_pairs = [('int f(int x1,int x2,int x0){ while (x1 < x2) { x0 = x1 + x2; } }',
                    'int f(int n,int x0,int x1){ int i; for (i = 0; i < n; i++) { x0 = x0 + x1; } }'),
                   ('int f(int a,int b){ while (a < b) { a = a * a; } }',
                    'int f(int x,int y){ while (x < 1) { x = y + y; } }')]
    for a_, b_ in extra_pairs:
        for s_ in (a_, b_):
            if s_ not in ref_sources:
                outs = fresh([(s_, m, f) for (m, f) in modes], 0)
                for (m, f), o in zip(modes, outs):
                    ref[(s_, m, f)] = o
                ref_sources.add(s_)
        singles = [a_, b_] + singles
    for k in range(0, len(singles) - 1, 2):
        a, b = singles[k], singles[k + 1].replace('int f(', 'int g(', 1)
        both = a + '\n' + b
        for (m, f) in modes:
            got = analyse_src(both, m, f)
            ra, rb = ref[(singles[k], m, f)], ref[(singles[k + 1], m, f)]
            ctx.case(('multi', both, m, f), nontrivial=True)
            key = 'relations' if m == 'F' else 'loops'
            if 'raised' in got or 'raised' in ra or 'raised' in rb:
                continue
            ga = got.get(key, {}).get('f')
            if ga != ra.get(key, {}).get('f'):
                ctx.violation({'kind': 'result-depends-on-other-functions'},
                              f'function f analysed in a two-function file differs from f alone ({m}, fin={f})', {'src': both, 'mode': m, 'fin': f})

            def anon(d):
                return {k: v for k, v in d.items() if k not in ('name', 'func_code')} if isinstance(d, dict) else d
            gb = got.get(key, {}).get('g')
            if anon(gb) != anon(rb.get(key, {}).get('f')):
                ctx.violation({'kind': 'result-depends-on-other-functions', 'position': 'later'},
                              f'the SECOND function of a two-function file differs from the same function alone ({m}, fin={f})',
                              {'src': both, 'mode': m, 'fin': f})
    # (e) the file-level drivers against their Lean model (Mwp/Model/Run.lean): which functions / loops get a
    #     result, in which order, under which name, on which tree -- strict on/off, fin on/off
    if ctx.drv is not None:
        file_level(ctx, pool)
    # (d) hash seeds
    seeds = list(range(1, ctx.budget(3, 12)))
    sub = [(s, m, f) for s in pool[:ctx.budget(10, 60)] for (m, f) in modes]
    for sd in seeds:
        outs = fresh(sub, sd)
        for job, o in zip(sub, outs):
            ctx.case(('seed', sd) + tuple(job), nontrivial=True)
            ctx.count('hash_seed_runs')
            if o != ref[tuple(job)]:
                ctx.violation({'kind': 'result-depends-on-hash-seed'},
                              f'PYTHONHASHSEED={sd}: result of `{job[0][:100]}` ({job[1]}, fin={job[2]}) differs as a JSON value',
                              {'src': job[0], 'mode': job[1], 'fin': job[2], 'seed': sd})


def file_level(ctx, pool):
    from pymwp import Analysis, LoopAnalysis, Parser as pr
    from props import funcs_common as FC
    rng = ctx.rng
    singles = [s for s in pool if s.count('int f') == 1 and s.strip().startswith('int f(')]
    files = []
    names = ['f', 'g', 'h', 'k']
    for _ in range(ctx.budget(14, 200)):
        k = rng.choice([1, 2, 2, 3, 4])
        parts = []
        for i in range(k):
            nm = names[i] if rng.random() < 0.9 else 'f'        # sometimes the same name twice
            parts.append(rng.choice(singles).replace('int f(', f'int {nm}(', 1))
        files.append('\n'.join(parts))
    files.append('int f(int x){ x = x + 1; }\nint g(int y){ y = y * y; }\nint f(int z){ while (z < 1) { z = z + z; } }')
    files.append('int f(int x,int y){ while (x) g(x); while (y) { g(y); x = y; } }\nint g(int y){ y = a[1]; }')
    for src in files:
        try:
            ast = astwire.parse(src)
        except Exception:
            continue
        fwires = [astwire.W(f) for f in astwire.funcs(ast)]
        for strict in (False, True):
            for fin in (False, True):
                val, err = implobs.with_time_limit(lambda: Analysis.run(copy.deepcopy(ast), fin=fin, strict=strict))
                ctx.case(('file', src, strict, fin), nontrivial=len(fwires) > 1)
                ctx.count('file_level_function_mode')
                m = ctx.drv.call('model.run_file', asts=fwires, fin=fin, strict=strict)['ok']
                if err is not None:
                    if err['raised'] == 'Timeout':
                        ctx.count('file_level_timeouts')
                    elif 'raised' not in m:
                        ctx.disagree('model.run_file(raise)', {'src': src, 'strict': strict, 'fin': fin, 'impl': err})
                    continue
                if 'raised' in m:
                    ctx.disagree('model.run_file(raise)', {'src': src, 'strict': strict, 'fin': fin, 'model': m})
                    continue
                impl = [(name, implobs.obs_of_result(fr)) for name, fr in val.relations.items()]
                if [n for n, _ in impl] != [e[0] for e in m]:
                    ctx.disagree('model.run_file(keys)', {'src': src, 'strict': strict, 'fin': fin,
                                                          'impl': [n for n, _ in impl], 'model': [e[0] for e in m]})
                    continue
                for (name, obs), (_, mo) in zip(impl, m):
                    FC.compare_model(ctx, src, fin, strict, obs, mo, 'file-level:' + name)
            # loop mode
            val, err = implobs.with_time_limit(lambda: LoopAnalysis.run(copy.deepcopy(ast), strict=strict))
            ctx.count('file_level_loop_mode')
            m = ctx.drv.call('model.run_loops', asts=fwires, strict=strict)['ok']
            if err is not None:
                if err['raised'] != 'Timeout' and 'raised' not in m:
                    ctx.disagree('model.run_loops(raise)', {'src': src, 'strict': strict, 'impl': err})
                continue
            if 'raised' in m:
                ctx.disagree('model.run_loops(raise)', {'src': src, 'strict': strict, 'model': m})
                continue
            impl = []
            for name, fl in val.loops.items():
                codes = []
                for lp in fl.loops:
                    try:
                        st = astwire.parse('int solo(){ %s }' % lp.loop_code).ext[0].body.block_items[0]
                        codes.append(astwire.W(st))
                    except Exception:
                        codes.append({'unparseable': lp.loop_code[:80]})
                impl.append([name, codes])
            def norm(w):
                # the loop code is re-parsed from its printed form: `{ }` reads back as an empty block
                if isinstance(w, dict):
                    d = {k: norm(v) for k, v in w.items()}
                    if d.get('k') == 'compound' and d.get('items') == []:
                        d['items'] = None
                    return d
                if isinstance(w, list):
                    return [norm(x) for x in w]
                return w
            if json.dumps(norm(impl), sort_keys=True) != json.dumps(norm([[e[0], e[1]] for e in m]), sort_keys=True):
                ctx.disagree('model.run_loops', {'src': src, 'strict': strict,
                                                 'impl': [[n, len(c)] for n, c in impl], 'model': [[e[0], len(e[1])] for e in m]})


def replay(ctx, payload):
    inp = payload['input']
    return {'now': analyse_src(inp['src'], inp['mode'], inp['fin']) == fresh([(inp['src'], inp['mode'], inp['fin'])], 0)[0]}
