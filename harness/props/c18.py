"""C18 -- unary operators and casts are analysed as their documented rewriting."""
import json
import re

import astwire
import implobs
from props import funcs_common as FC
from props.c15 import canon_obs
from gens.programs import Opts, Gen

THEOREMS = ['post_incr', 'pre_incr', 'post_decr', 'pre_decr', 'asgn_post_incr', 'asgn_post_decr', 'asgn_pre_incr', 'asgn_pre_decr', 'asgn_minus', 'asgn_plus', 'asgn_not', 'asgn_sizeof', 'asgn_unary_const', 'asgn_minus_const', 'cast_whole_rhs', 'cast_operands', 'cast_unary_operand', 'standalone_unary_no_effect']
RULE = ('generated functions in which unary/cast forms (x++ ++x x-- --x, y=x++ y=++x y=x-- y=--x, y=-x, y=+x, y=!x, '
        'y=sizeof(x), y=-c, cast around an operand, cast around a whole right-hand side) occur at every statement '
        'position (top level, branches, loop bodies); each program is analysed by the real code next to its documented '
        'plain rewriting and the results must be equal (verdict, variables, degree, relation polynomials, valid set, '
        'bound); on a difference each sugar occurrence is rewritten alone to name the guilty form; stand-alone unary '
        'expressions must have no effect; non-trivial = at least one sugar form; distinct by source')
EXPLANATION = 'see DESIGN.md C18'
ASSUMPTIONS = []

FORM_RE = [
    (r'^\(int\)\w+$', 'cast-operand'), (r'= \(int\)\(', 'cast-whole-rhs-binop'), (r'= \(int\)\w+;', 'cast-whole-rhs-id'),
    (r'^\w+\+\+;$', 'x++'), (r'^\w+--;$', 'x--'), (r'^\+\+\w+;$', '++x'), (r'^--\w+;$', '--x'),
    (r'= \w+\+\+;', 'y=x++'), (r'= \w+--;', 'y=x--'), (r'= \+\+\w+;', 'y=++x'), (r'= --\w+;', 'y=--x'),
    (r'= -\d', 'y=-c'), (r'= -\w', 'y=-x'), (r'= \+\w', 'y=+x'), (r'= !', 'y=!x'), (r'sizeof', 'y=sizeof'),
]


def form_of(text):
    for rx, name in FORM_RE:
        if re.search(rx, text):
            return name
    return 'other'


def analyse(src, fin):
    ast = astwire.parse(src)
    node, info = implobs.prepare(astwire.funcs(ast)[0], False)
    if node is None:
        return {'refused_or_raised': info}
    obs, _ = implobs.observe_func(node, fin)
    return obs


def grammar_forms(thorough):
    """every combination of one or two unary operators with 0-2 casts at each level on a right-hand side, with
    the rewriting the documentation gives for it (bounded-exhaustive, complements the hand-picked list)"""
    casts = ['', '(int)', '(int)(long)']
    out = []

    def fn(body, loop):
        if loop == 'forguard':
            # the operand x is the guard of the enclosing counted loop: form and rewriting must be refused alike
            return 'int f(int x,int y,int z){ int i; for (i = 0; i < x; i++) { %s } z = z + y; }' % body
        if loop:
            return 'int f(int x,int y,int z){ while (z < 9) { %s z = z + y; } }' % body
        return 'int f(int x,int y,int z){ %s }' % body
    single = {'-': 'y = x * 3;', '+': 'y = x;', '!': 'y = 0;', 'sizeof': 'y = 0;'}
    for loop in ((False, True, 'forguard') if thorough else (False, 'forguard')):
        for c1 in casts:
            for c2 in casts:
                for op, twin in single.items():
                    e = f'sizeof({c2}x)' if op == 'sizeof' else f'{op}{c2}x'
                    out.append((fn(f'y = {c1}{e};', loop), fn(twin, loop), f'grammar:{op}'))
                # nested: only ! and sizeof may sit on top of another unary operator
                for outer in ('!', 'sizeof'):
                    for inner in ('-', '+', '!', 'sizeof'):
                        for c3 in (casts if thorough else casts[:2]):
                            ie = f'sizeof({c3}x)' if inner == 'sizeof' else f'{inner}{c3}x'
                            e = f'sizeof({c2}{ie})' if outer == 'sizeof' else f'!{c2}{ie}'
                            out.append((fn(f'y = {c1}{e};', loop), fn('y = 0;', loop), f'grammar:{outer}-of-{inner}'))
            for inc, twin in (('x++', 'y = x; x = x + 1;'), ('++x', 'x = x + 1; y = x;'),
                              ('x--', 'y = x; x = x - 1;'), ('--x', 'x = x - 1; y = x;')):
                out.append((fn(f'y = {c1}{inc};', loop), fn(twin, loop), 'grammar:incdec'))
                out.append((fn(f'{c1}{inc};', loop), fn(twin.replace('y = x;', '').strip(), loop), 'grammar:incdec-stmt'))
    return out


def run(ctx):
    rng = ctx.rng
    n = ctx.budget(90, 3000)
    extra = [  # stand-alone unary expressions have no effect
        ('int f(int x,int y){ -x; y = x + y; }', 'int f(int x,int y){ y = x + y; }', 'standalone--x'),
        ('int f(int x,int y){ !x; y = x + y; }', 'int f(int x,int y){ y = x + y; }', 'standalone-!x'),
        ('int f(int x,int y){ +x; while (y < 3) { y = y + x; } }', 'int f(int x,int y){ while (y < 3) { y = y + x; } }', 'standalone-+x'),
        ('int f(int x,int y){ sizeof(x); y = x * y; }', 'int f(int x,int y){ y = x * y; }', 'standalone-sizeof'),
        ('int f(int x,int y){ y = (int)x; }', 'int f(int x,int y){ y = x; }', 'cast-whole-rhs-id'),
        ('int f(int x,int y,int z){ y = (int)(x + z); }', 'int f(int x,int y,int z){ y = x + z; }', 'cast-whole-rhs-binop'),
        ('int f(int x,int y){ y = (int)-x; }', 'int f(int x,int y){ y = x * 3; }', 'cast-whole-rhs-unary'),
        ('int f(int x,int y){ y = -(int)x; }', 'int f(int x,int y){ y = x * 3; }', 'unary-of-cast'),
        ('int f(int x,int y){ y = (int)x + (int)y; }', 'int f(int x,int y){ y = x + y; }', 'cast-operand'),
        ('int f(int x,int y){ y = -(int)(long)x; }', 'int f(int x,int y){ y = x * 3; }', 'unary-of-double-cast'),
        ('int f(int x,int y){ y = +(long)(int)x; }', 'int f(int x,int y){ y = x; }', 'unary-of-double-cast'),
        ('int f(int x,int y){ (int)(long)x++; }', 'int f(int x,int y){ x = x + 1; }', 'double-cast-statement'),
        ('int f(int x,int y){ y = (int)(long)x + (long)(int)y; }', 'int f(int x,int y){ y = x + y; }', 'double-cast-operand'),
        ('int f(int x,int y){ y = (long)(int)x++; }', 'int f(int x,int y){ y = x; x = x + 1; }', 'double-cast-incr-operand'),
        ('int f(int x,int y,int z){ y = (int)(long)(x * z); }', 'int f(int x,int y,int z){ y = x * z; }', 'double-cast-whole-rhs'),
        ('int f(int x,int y){ while (y < 9) { y = -(long)(int)x; x = x + y; } }', 'int f(int x,int y){ while (y < 9) { y = x * 3; x = x + y; } }', 'unary-of-double-cast'),
        ('int f(int x,int y){ while (x < 9) { y = (int)x; x++; } }', 'int f(int x,int y){ while (x < 9) { y = x; x = x + 1; } }', 'cast-whole-rhs-id'),
    ]
    cases = []
    for a, b, form in extra + grammar_forms(ctx.tier == 'thorough'):
        cases.append((a, b, None, form))
    for i in range(n):
        g = Gen(rng, Opts(sugar=True, max_bin=5, max_stmts=3, whole_rhs_cast=(i % 2 == 0)))
        g.o.double_casts = (i % 3 == 0)
        src = g.function()
        if not g.twins:
            continue
        cases.append((src, g.plain_twin(), g, None))
        for k, v in g.stats.items():
            ctx.count('gen_' + k, v)
    for src, twin, g, form in cases:
        for fin in (False, True):
            try:
                a = analyse(src, fin)
                b = analyse(twin, fin)
            except Exception as e:
                ctx.count('harness_parse_error')
                continue
            ctx.case((src, fin), nontrivial=True, sample={'sugar': src, 'plain': twin, 'fin': fin})
            if a.get('raised') == 'Timeout' or b.get('raised') == 'Timeout':
                ctx.count('analysis_timeout')
                continue
            if 'raised' in b or 'refused_or_raised' in b:
                ctx.count('twin_itself_fails')   # not this property's business (C06)
                continue
            bad = None
            if 'raised' in a or 'refused_or_raised' in a:
                bad = 'raises:' + str(a.get('raised') or a.get('refused_or_raised'))
            elif canon_obs(a) != canon_obs(b):
                bad = 'differs'
            if bad is None:
                ctx.count('equal')
                continue
            # name the guilty form: rewrite one occurrence at a time
            guilty = [form] if form else []
            if g is not None:
                for k, (s_txt, p_txt) in enumerate(g.twins):
                    only = g.template
                    for k2, (s2, p2) in enumerate(g.twins):
                        only = only.replace('§%d§' % k2, s2 if k2 == k else p2)
                    try:
                        o = analyse(only, fin)
                    except Exception:
                        continue
                    if 'raised' in o or 'refused_or_raised' in o or canon_obs(o) != canon_obs(b):
                        guilty.append(form_of(s_txt))
            guilty = sorted(set(guilty)) or ['unknown']
            for fm in guilty:
                ctx.violation({'kind': 'sugar-differs-from-rewriting', 'form': fm,
                               'how': 'raises' if bad.startswith('raises') else 'differs'},
                              f'form {fm}: `{src}` vs rewriting `{twin}` (fin={fin}): {bad}',
                              {'src': src, 'twin': twin, 'fin': fin, 'strict': False})


def replay(ctx, payload):
    inp = payload['input']
    return {'sugar_now': canon_obs(analyse(inp['src'], inp['fin']))[:600],
            'plain_now': canon_obs(analyse(inp['twin'], inp['fin']))[:600]}
