"""C20 -- the printed bound expression denotes the computed bound."""
import itertools

THEOREMS = ['boundPoly_eval', 'parse_boundStr', 'significant_iff']
RULE = ('all triples of pairwise disjoint name lists with up to N names per list (N=3 quick; names include '
        'multi-letter and prefix-related identifiers) x {compact, normal}; each printed text compared with the '
        'model rendering (exact string) and evaluated by the independent Lean reader Spec.BoundText on sampled '
        'valuations; non-trivial = at least one list non-empty; distinct by (x,y,z,compact)')
EXPLANATION = ('Lean theorems over the model of MwpBound.bound_poly/bound_str/parse/Bound.show; correspondence is exact '
               'string equality between model rendering and pymwp on every enumerated triple.')
ASSUMPTIONS = ['variable names are C identifiers (no , ; + * parentheses)']

NAMES = ['a', 'b', 'x1', 'x10', 'y', 'zz', 'maxi', 'n0', 'B']   # `max` itself is reserved by the reader of the printed text


def run(ctx):
    from pymwp.bound import MwpBound, Bound
    drv = ctx.drv
    rng = ctx.rng
    nmax = 3
    pool = NAMES[:6] if ctx.tier == 'quick' else NAMES[:7]
    triples = []
    # exhaustive: choose disjoint ordered subsets by assigning each pool name to none/x/y/z
    for assign in itertools.product(range(4), repeat=len(pool)):
        x = [n for n, a in zip(pool, assign) if a == 1]
        y = [n for n, a in zip(pool, assign) if a == 2]
        z = [n for n, a in zip(pool, assign) if a == 3]
        if max(len(x), len(y), len(z)) <= nmax:
            triples.append((x, y, z))
    ctx.exhaustive = True
    if ctx.tier == 'thorough':
        for _ in range(3000):
            names = rng.sample(NAMES, rng.randint(0, len(NAMES)))
            cut = sorted(rng.randint(0, len(names)) for _ in range(2))
            triples.append((names[:cut[0]], names[cut[0]:cut[1]], names[cut[1]:]))
    reqs, metas = [], []
    for (x, y, z) in triples:
        allv = x + y + z
        k = allv[0] if allv else 'a'
        mb = MwpBound()
        # every other bound is LOOKED AT while it is being filled (text, triple, formatted form): a look must not
        # freeze what later appends add -- the finished bound is compared with one filled without looking
        peek = (len(triples) + len(allv)) % 2 == 0 and ctx.count('built_with_looks') is None
        for lst_, scal_ in ((x, 'm'), (y, 'w'), (z, 'p')):
            for n in lst_:
                if peek:
                    _ = (mb.bound_str, mb.bound_triple, str(mb), MwpBound.bound_poly(mb, compact=True))
                mb.append(scal_, n)
        if peek:
            plain = MwpBound()
            for lst_, scal_ in ((x, 'm'), (y, 'w'), (z, 'p')):
                for n in lst_:
                    plain.append(scal_, n)
            if (mb.bound_str, mb.bound_triple, str(mb)) != (plain.bound_str, plain.bound_triple, str(plain)):
                ctx.violation({'kind': 'bound-depends-on-when-it-was-read'},
                              f'bound {x},{y},{z} filled while being read prints as {mb.bound_str!r} / {str(mb)!r}, '
                              f'filled at once as {plain.bound_str!r} / {str(plain)!r}', {'x': x, 'y': y, 'z': z})
        # parse round trip on the implementation
        back = MwpBound(mb.bound_str)
        ctx.count('lens_%d%d%d' % (len(x), len(y), len(z)))
        if not (back == mb and back.bound_triple == mb.bound_triple):
            ctx.violation({'kind': 'parse-roundtrip'}, f'parse(bound_str) != triple for {x},{y},{z}',
                          {'x': x, 'y': y, 'z': z, 'str': mb.bound_str, 'back': back.bound_triple})
        if mb.bound_triple != (tuple(sorted(x)), tuple(sorted(y)), tuple(sorted(z))):
            ctx.violation({'kind': 'triple-wrong'}, f'bound_triple wrong for {x},{y},{z}',
                          {'x': x, 'y': y, 'z': z, 'got': mb.bound_triple})
        # significant display, on a one-variable Bound
        bd = Bound()
        bd.bound_dict[k] = mb
        shown = bd.show(significant=True) != ''
        only_self = sorted(allv) == [k]
        if shown == only_self:
            ctx.violation({'kind': 'significant'}, f'significant display wrong for {k}: {x},{y},{z}',
                          {'k': k, 'x': x, 'y': y, 'z': z, 'shown': shown})
        for compact in (False, True):
            text = MwpBound.bound_poly(mb, compact=compact)
            rhos = []
            # every name of the pool gets a value, also those the triple does not list (a name printed that should
            # not be there must change the value), and one valuation has no zero at all
            for _ in range(4):
                rhos.append([[n, rng.choice([0, 0, 1, 2, 3, 5, 7, 11])] for n in NAMES])
            rhos.append([[n, 0] for n in NAMES])
            rhos.append([[n, p_] for n, p_ in zip(NAMES, [2, 3, 5, 7, 11, 13, 17, 19, 23, 29, 31, 37])])
            reqs.append({'op': 'model.bound_poly', 'x': x, 'y': y, 'z': z, 'compact': compact, 'k': k})
            metas.append(('model', x, y, z, compact, text, mb.bound_str, shown, k))
            reqs.append({'op': 'check.C20', 'x': x, 'y': y, 'z': z, 'text': text, 'rhos': rhos})
            metas.append(('check', x, y, z, compact, text, None, None, k))
            # the header line shown by Bound.show / MwpBound.poly
            hdr = mb.poly(k, compact)
            want_hdr = f'{k}′{"≤" if compact else " ≤ "}{text}'
            if hdr != want_hdr:
                ctx.violation({'kind': 'poly-header'}, 'MwpBound.poly header differs', {'got': hdr, 'want': want_hdr})
    if drv is None:
        ctx.notes.append('driver unavailable: model comparison skipped')
        return
    outs = drv.batch(reqs)
    for meta, r in zip(metas, outs):
        kind, x, y, z, compact, text, bstr, shown, k = meta
        key = (tuple(x), tuple(y), tuple(z), compact)
        if 'error' in r:
            raise RuntimeError(r['error'])
        if kind == 'model':
            ctx.case(key, nontrivial=bool(x or y or z),
                     sample={'x': x, 'y': y, 'z': z, 'compact': compact, 'text': text})
            m = r['ok']
            if m['text'] != text or m['str'] != bstr or (not compact and m['significant'] != shown):
                ctx.disagree('model.bound_poly', {'x': x, 'y': y, 'z': z, 'compact': compact, 'k': k,
                                                  'impl': {'text': text, 'str': bstr, 'significant': shown},
                                                  'model': m})
        else:
            if 'violation' in r:
                v = r['violation']
                ctx.violation({'kind': v['kind'], 'compact': compact,
                               'shape': [min(len(x), 2), min(len(y), 2), min(len(z), 2)]},
                              f"printed bound {text!r} for x={x} y={y} z={z}: {v}",
                              {'x': x, 'y': y, 'z': z, 'compact': compact, 'text': text, 'detail': v})


def replay(ctx, payload):
    from pymwp.bound import MwpBound
    inp = payload['input']
    mb = MwpBound()
    for n in inp.get('x', []):
        mb.append('m', n)
    for n in inp.get('y', []):
        mb.append('w', n)
    for n in inp.get('z', []):
        mb.append('p', n)
    return {'text_now': MwpBound.bound_poly(mb, compact=inp.get('compact', False)), 'str_now': mb.bound_str,
            'recorded': inp}
