"""C10 -- relation operations mean matrix operations at every choice."""
import copy
import json

import astwire
import implobs
from gens.programs import Opts, Gen
from props import funcs_common as FC

THEOREMS = ['sum_is_matrix_sum', 'composition_is_matrix_product', 'composition_is_matrix_product_everywhere',
            'composition_keeps_infinity', 'sum_keeps_infinity', 'results_well_formed',
            'fixpoint_is_closure', 'fixpoint_total', 'while_correction_pointwise']
RULE = ('relations built by the real analysis from assignment statements (all operand patterns), then combined by '
        'random composition, sum, fixpoint and while/loop correction, over differently ordered and partially '
        'overlapping variable lists, <=4 derivation indices; for every pair the real sum / composition / fixpoint are '
        '(a) checked by the Lean predicate check.C10 against the semiring matrix sum / product / closure of the '
        'operands meanings at all 3^n choice vectors incl. infinity persistence, (b) diffed cell by cell against the '
        'model; plus statement lists analysed whole vs composed from every split; non-trivial = operands have '
        'different variable lists or an infinity; distinct by operands')
EXPLANATION = 'see DESIGN.md C10'
ASSUMPTIONS = ['relations are well formed (square, distinct names) as the analysis builds them']


def leaf(rng, names, nidx):
    """a relation of one assignment, through the real handlers"""
    from pymwp import Analysis, DeltaGraph
    x = rng.choice(names)
    k = rng.random()
    idx = rng.randrange(nidx)
    if k < 0.2:
        src = f'{x} = {rng.choice(names)};'
    elif k < 0.3:
        src = f'{x} = 3;'
    else:
        a = rng.choice(names + ['1'])
        b = rng.choice(names + ['2'])
        if a.isdigit() and b.isdigit():
            b = rng.choice(names)
        src = f'{x} = {a} {rng.choice("+-*")} {b};'
    ast = astwire.parse('int f(){ %s }' % src)
    stmt = ast.ext[0].body.block_items[0]
    _, rl, _ = Analysis.compute_relation(idx, stmt, DeltaGraph())
    return rl.first


def build(rng, names, nidx, depth):
    from pymwp import DeltaGraph
    if depth == 0 or rng.random() < 0.3:
        return leaf(rng, rng.sample(names, rng.randint(2, len(names))), nidx)
    a = build(rng, names, nidx, depth - 1)
    k = rng.random()
    if k < 0.45:
        return a * build(rng, names, nidx, depth - 1)
    if k < 0.65:
        return a + build(rng, names, nidx, depth - 1)
    f = a.fixpoint()
    if k < 0.85:
        f.while_correction(DeltaGraph())
    elif f.variables:
        f.loop_correction(rng.choice(f.variables), DeltaGraph())
    return f


def run(ctx):
    rng = ctx.rng
    from pymwp import Relation
    pending = []
    names = ['x', 'y', 'z', 'a']

    def flush():
        if ctx.drv is None or not pending:
            pending.clear()
            return
        outs = ctx.drv.batch([p[0] for p in pending])
        for (req, meta), r in zip(pending, outs):
            if 'error' in r:
                raise RuntimeError(r['error'])
            kind, inp, impl = meta
            if kind == 'check':
                if 'violation' in r:
                    v = r['violation']
                    ctx.violation({'kind': v['kind']}, f"relations {inp['r1']['vars']} / {inp['r2']['vars']}: {json.dumps(v)[:300]}",
                                  {**inp, 'detail': v})
            else:
                m = r['ok']
                for k in ('sum', 'composition', 'fixpoint'):
                    if k in impl and FC.canon_rel(m[k]) != FC.canon_rel(impl[k]) and 'raised' not in m[k]:
                        ctx.disagree('model.rel_ops.' + k, {**inp, 'impl': impl[k], 'model': m[k]})
        pending.clear()

    def loop_body(nv):
        """relation of a loop body: sums (if/else) and compositions of 2-4 assignments over few variables,
        the shape whose closure needs long walks (cycles through a heavy edge)"""
        vs = names[:nv]
        r = leaf(rng, vs, 2)
        for _ in range(rng.randint(1, 4)):
            nxt = leaf(rng, vs, 2)
            r = (r + nxt) if rng.random() < 0.6 else (r * nxt)
        return r

    def shift_rel():
        """relation of `a = b; b = c; c = d; ...` (3-6 stages, some with + / *): zero diagonal along the
        path, the k-th stage appears only in the k-th power"""
        from pymwp import Analysis, DeltaGraph
        vs = rng.sample(['x', 'y', 'z', 'a', 'b', 'c'], rng.randint(4, 6))
        r = None
        nb = 0
        idx = 0
        for i in range(len(vs) - 1):
            if rng.random() < 0.75 or nb >= 2:
                src = f'{vs[i]} = {vs[i + 1]};'
            else:
                nb += 1
                src = f'{vs[i]} = {vs[i + 1]} {rng.choice("+*")} {rng.choice(vs)};'
            stmt = astwire.parse('int f(){ %s }' % src).ext[0].body.block_items[0]
            idx, rl, _ = Analysis.compute_relation(idx, stmt, DeltaGraph())
            r = rl.first if r is None else r * rl.first
        return r

    n_total = ctx.budget(260, 5000)
    for it in range(n_total):
        if ctx.expired():
            break
        nidx = rng.randint(1, 3)
        try:
            shifted = False
            if it % 6 == 5:
                r1 = shift_rel()
                r2 = loop_body(2)
                shifted = True
            elif it % 2 == 0:
                nidx = 2
                r1 = loop_body(rng.choice([2, 3, 3, 4]))
                r2 = loop_body(2)
            else:
                r1 = build(rng, names, nidx, rng.randint(0, 2))
                r2 = build(rng, names, nidx, rng.randint(0, 2))
        except Exception as e:
            ctx.count('build_raised_' + type(e).__name__)
            continue
        w1, w2 = implobs.wire_relation(r1), implobs.wire_relation(r2)
        snap = json.dumps([w1, w2])
        try:
            s, t = r1 + r2, r1 * r2
            f = r1.fixpoint() if (len(r1.variables) <= 3 or shifted) else None
        except Exception as e:
            ctx.violation({'kind': 'raises', 'exception': type(e).__name__}, f'relation operation raised {type(e).__name__}',
                          {'r1': w1, 'r2': w2})
            continue
        if json.dumps([implobs.wire_relation(r1), implobs.wire_relation(r2)]) != snap:
            ctx.violation({'kind': 'operand-mutated'}, 'a relation operand changed during +, * or fixpoint', {'r1': w1, 'r2': w2})
        impl = {'sum': implobs.wire_relation(s), 'composition': implobs.wire_relation(t)}
        if f is not None:
            impl['fixpoint'] = implobs.wire_relation(f)
        # Relation.apply_choice (the evaluator every user of a relation reads matrices with) against the stored
        # polynomials read by definition, for operands and results
        import itertools as _it
        allw = [wp_ for wr in [w1, w2] + list(impl.values()) for row in wr['mat'] for wp_ in row]
        nn = max(nidx, implobs.max_index(allw) + 1)
        vecs = list(_it.product(range(3), repeat=nn)) if nn <= 3 else [tuple(rng.randrange(3) for _ in range(nn)) for _ in range(27)]
        for nm, ro, wr in [('r1', r1, w1), ('r2', r2, w2), ('sum', s, impl['sum']), ('composition', t, impl['composition'])] + \
                ([('fixpoint', f, impl['fixpoint'])] if f is not None else []):
            mm = implobs.relation_evaluator_mismatch(ro, wr, vecs)
            if mm:
                ctx.violation({'kind': 'apply_choice-differs-from-definition', 'in': nm},
                              f'apply_choice of {nm} at {mm["choice"]}, cell {mm["cell"]}: {mm["apply_choice"]}, the polynomial says {mm["by_definition"]}',
                              {'r1': w1, 'r2': w2, 'detail': mm})
                break
        has_inf = 'i' in json.dumps(w1) + json.dumps(w2)
        ctx.case(snap, nontrivial=(w1['vars'] != w2['vars']) or has_inf,
                 sample={'r1': str(r1), 'r2': str(r2)})
        ctx.count('same_vars' if w1['vars'] == w2['vars'] else ('overlap' if set(w1['vars']) & set(w2['vars']) else 'disjoint'))
        ctx.count('has_infinity' if has_inf else 'finite')
        inp = {'r1': w1, 'r2': w2, 'n': nidx}
        pending.append(({'op': 'check.C10', **inp, **impl}, ('check', inp, impl)))
        pending.append(({'op': 'model.rel_ops', 'r1': w1, 'r2': w2}, ('model', inp, impl)))
        if len(pending) > 80:
            flush()
    flush()
    # statement lists: whole vs any split
    from pymwp import Analysis, RelationList, Variables
    for _ in range(ctx.budget(25, 600)):
        g = Gen(rng, Opts(max_bin=4, max_stmts=4, max_depth=2, sugar=False))
        src = g.function()
        ast = astwire.parse(src)
        fn = astwire.funcs(ast)[0]
        body = fn.body.block_items or []
        variables = Variables(fn).vars

        def analyse(stmts, start_index=0):
            rl = RelationList.identity(variables)
            inf, idx = Analysis.cmds(rl, start_index, copy.deepcopy(stmts), stop=False)
            return rl.first, idx
        try:
            whole, n = analyse(body)
        except Exception:
            ctx.count('split_base_raises')
            continue
        if n > 5:
            continue
        for cut in range(0, len(body) + 1):
            try:
                a, i1 = analyse(body[:cut])
                b, i2 = analyse(body[cut:], i1)
                comp = a * b
            except Exception as e:
                ctx.violation({'kind': 'split-raises'}, f'split analysis raised {type(e).__name__} on `{src}`', {'src': src, 'cut': cut})
                continue
            ctx.case((src, cut), nontrivial=0 < cut < len(body))
            ctx.count('splits')
            ww, wc = implobs.wire_relation(whole), implobs.wire_relation(comp)
            # equal meaning at all choices: ask Lean (sum with the zero relation is not needed: compare dens via check op)
            pending.append(({'op': 'check.C10eq', 'a': ww, 'b': wc, 'n': n}, ('eq', {'src': src, 'cut': cut}, None)))
    if ctx.drv is not None and pending:
        outs = ctx.drv.batch([p[0] for p in pending])
        for (req, meta), r in zip(pending, outs):
            if 'error' in r:
                raise RuntimeError(r['error'])
            if 'violation' in r:
                ctx.violation({'kind': 'split-composition-differs'},
                              f"analysing `{meta[1]['src']}` whole differs from composing the split at {meta[1]['cut']}: {json.dumps(r['violation'])[:200]}",
                              meta[1])
    pending.clear()


def replay(ctx, payload):
    return payload['input']
