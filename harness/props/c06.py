"""C06 -- analysis of any parseable C file terminates without raising."""
import copy
import json
import signal

import astwire
import implobs
from gens.programs import Opts, Gen

THEOREMS = ['findLoops_never_raises', 'variables_never_raise', 'delta_graph_never_raises', 'choices_never_raise', 'loopfree_compute_never_raises', 'while_correction_never_raises', 'loop_correction_never_raises',
            'fixpoint_loop_stops', 'fixpoint_fuel_irrelevant', 'fixpoint_never_diverges',
            'supported_function_never_raises', 'supported_statement_never_raises']
RULE = ('translation units accepted by pycparser, built from the mixed grammar (supported statements, unary/cast sugar, '
        'edge forms: labels, comma expressions, nested unary, casts of compound expressions, side effects in '
        'conditions, constant-only right-hand sides, typedefs, non-counted for loops; unsupported statements of every '
        'kind) with 1-3 functions per file, x {function mode, loop mode} x {strict} x {fin}; the real Analysis.run / '
        'LoopAnalysis.run must return a Result whose to_dict() is JSON-serialisable, within a time limit, and in '
        'non-strict function mode every function definition must be a key of the result; each function is also run '
        'through the Lean model, which must agree on raising; non-trivial = file has a loop or an edge/unsupported '
        'form; distinct by (source, mode, fin, strict)')
EXPLANATION = 'see DESIGN.md C06'
ASSUMPTIONS = ['termination is observed under a wall-clock limit (a timeout is reported as exit 2, not as a violation)']

CORPUS = [
    'int f(int x){ x = 1 + 2; }',
    'int f(int x,int y){ y = (int)x; }',
    'int f(int x,int y,int z){ while(x<10){y=y+y;} while(z<10){x=x+x;} }',
    'int f(int x,int y){ for (x++; x < y; x++) { y = y + 1; } }',
    'int f(int x,int y){ typedef int T; x = y; }',
    'int f(int x,int y){ L: x = y + y; }',
    'int f(void){ }',
    'int f(int x,int y){ x = y, y = x; }',
    'int f(int x, int y, int z){ while (x < y) { if (z < 2) { z = z + x; } else { y = z * z; } } }',
    'int f(int x,int y,int z){ int i; for (i = 0; i < x; i++) { while (y < z) { y = y + 1; z = y * y; } } }',
    'int g(int a){ while (a < 3) ; } int f(int x){ do ; while (x<1); }',
    'int f(int x,int y){ while (x<3) { } }',
    'int f(int x, int y){ while (x < y) { x = x + y; } while (y < 3) { y = y * y; } }',
    'int f(int x,int y){ assert(x < 1); assume(y); while (x) { assert(x); x = x + y; } }', 'int f(int x){ assert(x < 1) ; g(x); assume(g(x)); }',
    'int f(int i,int n,int x){ while (i < n) a[i] = 0; for (i = 0; i < n; i++) a[i] = x; do g(x); while (x < 1); }',
    'int f(int i,int n){ while (i < n) { } do { } while (i < n); for (i = 0; i < n; i++) { } while (i) ; }',
    # nested loops whose failing choices leave a gap in the lengths of the delta graph's tuples
    'int f(int a,int b,int d){ while (a < b) { a = b + b; while (a < b) { d = b + a; } d = b + d; } }',
    'int f(int a,int b,int c,int d){ while (a < b) { while (c < d) { c = c + d; } a = b + c; d = a + b; b = d + c; } }',
    'int f(int *p, int i){ (*p)[i]; }', 'int f(int *p, int i){ return (*p)[i]; }',
    'int f(int *p, int i){ while (i) { (p + 1)[i]; } }', 'int f(int i){ s.arr[i] = 1; (&s)->arr[i] = 2; }',
    'int f(int x){ x = ((int*)x)[0]; }', 'int f(int x,int y){ y = (int)(long)x + 1; y = -(long)(int)x; }',
]


class Timeout(Exception):
    pass


def _alarm(sig, frm):
    raise Timeout()


def run_once(ast, mode, fin, strict, limit=20):
    from pymwp import Analysis, LoopAnalysis, Result
    a = copy.deepcopy(ast)
    signal.signal(signal.SIGALRM, _alarm)
    signal.alarm(limit)
    try:
        if mode == 'F':
            res = Analysis.run(a, fin=fin, strict=strict)
        else:
            res = LoopAnalysis.run(a, strict=strict)
        d = res.to_dict()
        json.dumps(d)
        return {'ok': True, 'relations': list(res.relations.keys()), 'loops': list(res.loops.keys())}
    except Timeout:
        return {'timeout': True}
    except Exception as e:
        import traceback
        tb = traceback.extract_tb(e.__traceback__)
        where = next((f'{fr.filename.split("/")[-1]}:{fr.name}' for fr in reversed(tb) if '/pymwp/' in fr.filename), '?')
        return {'raised': type(e).__name__, 'where': where, 'msg': str(e)[:120]}
    finally:
        signal.alarm(0)


def run(ctx):
    rng = ctx.rng
    from props import funcs_common as FCm
    from props.c05 import grammar_programs, wrapper_programs
    files = list(CORPUS) + FCm.failure_patterns(1 if ctx.tier == 'thorough' else 5)
    # every expression of the bounded grammar (all operators, subscripts, dereferences, calls, casts, nested) as a
    # statement, a right-hand side, a condition and a returned value: the syntax report must cope with all of them
    gp = grammar_programs(ctx.tier == 'thorough')
    files += gp if ctx.tier != 'thorough' else gp[::3]
    files += wrapper_programs()
    files += ['int f(int i,int j){ return (*m)[i][j]; }', 'int f(int i){ return (*v).a[i]; }', 'int f(int i,int j){ (p + 1)[i][j]; }',
              'int f(int i,int x){ return (*fp)(x)[i]; }', 'int f(int i){ while (i) ((int*)q)[i][i]; }']
    # loop-mode result selection: accumulators with dependents (the intersection of the choices of a variable and of
    # its sources may be empty), if/else-if chains and shifting paths under every kind of loop
    for i in range(ctx.budget(60, 1500)):
        files.append((FCm.dependent_family, FCm.chain_loop, FCm.shift_loop, FCm.dependent_family)[i % 4](rng))
    files += ['int f(int n,int s,int t,int v){ for (int i = 0; i < n; i++) { s = s + t; v = s; } return v; }',
              'int g(int n,int a,int c,int d){ int i; for (i = 0; i < n; i++) { if (a) { a = d + d; } else { d = c - d; } } return a; }']
    for i in range(ctx.budget(70, 2500)):
        nf = rng.choice([1, 1, 2, 3])
        parts = []
        for k in range(nf):
            g = Gen(rng, Opts(sugar=(i % 2 == 0), edge=(i % 3 != 2), unsupported=(i % 4 == 1), max_bin=5, max_stmts=3,
                              max_depth=3))
            parts.append(g.function('f%d' % k))
            for kk, v in g.stats.items():
                ctx.count('gen_' + kk, v)
        files.append('\n'.join(parts))
    pending = []
    for src in files:
        try:
            ast = astwire.parse(src)
        except Exception:
            ctx.count('not_parseable')
            continue
        fdefs = [n.decl.name for n in astwire.funcs(ast)]
        combos = [('F', False, False), ('F', True, False), ('F', False, True), ('F', True, True), ('L', False, False), ('L', False, True)]
        for mode, fin, strict in combos:
            r = run_once(ast, mode, fin, strict)
            nontrivial = any(t in src for t in ('while', 'for', 'L1', 'fr1', '(int)', ','))
            ctx.case((src, mode, fin, strict), nontrivial=nontrivial,
                     sample={'src': src[:300], 'mode': mode, 'fin': fin, 'strict': strict, 'outcome': r})
            ctx.count('mode_%s' % mode)
            if r.get('timeout'):
                ctx.notes.append(f'timeout on {src[:80]}')
                ctx.count('timeout')
                continue
            if 'raised' in r:
                ctx.count('raised_' + r['raised'])
                ctx.violation({'kind': 'raises', 'exception': r['raised'], 'where': r['where'], 'mode': mode},
                              f"{'Analysis' if mode == 'F' else 'LoopAnalysis'}.run raised {r['raised']} in {r['where']} "
                              f"(fin={fin}, strict={strict}) on `{src[:200]}`: {r['msg']}",
                              {'src': src, 'mode': mode, 'fin': fin, 'strict': strict})
                continue
            if mode == 'F' and not strict:
                missing = [f for f in fdefs if f not in r['relations']]
                if missing:
                    ctx.violation({'kind': 'function-missing-from-result'},
                                  f'functions {missing} missing from non-strict result of `{src[:200]}`',
                                  {'src': src, 'mode': mode, 'fin': fin, 'strict': strict})
        # model agreement on raising, per function (function mode)
        for fnode in astwire.funcs(ast):
            for fin in (False, True):
                node, info = implobs.prepare(fnode, False)
                if node is None:
                    continue
                obs, _ = implobs.observe_func(node, fin)
                pending.append(({'op': 'model.func', 'ast': astwire.W(node), 'stop': not fin},
                                (src, fin, obs)))
    if ctx.drv is not None:
        outs = ctx.drv.batch([p[0] for p in pending])
        for (req, (src, fin, obs)), r in zip(pending, outs):
            if 'error' in r:
                raise RuntimeError(r['error'])
            m = r['ok']
            if ('raised' in obs) != ('raised' in m):
                ctx.disagree('model.func(raise)', {'src': src, 'fin': fin, 'impl': obs.get('raised'), 'model': m.get('raised')})


def replay(ctx, payload):
    inp = payload['input']
    ast = astwire.parse(inp['src'])
    return run_once(ast, inp['mode'], inp['fin'], inp['strict'])
