"""C09 -- polynomial sum and product are pointwise semiring operations on choices."""
import copy
import json

THEOREMS = ['add_eval', 'times_eval', 'add_wf', 'times_wf', 'add_nodup', 'times_nodup',
            'add_no_zero_alongside', 'times_no_zero_alongside']
RULE = ('pairs of polynomials reachable by + and x (real implementation) from the leaf forms the analysis uses '
        '(from_scalars rows of create_vector, constants o/m, corrected rows with infinity coefficients) over <=4 '
        'indices; for each pair the implementation sum and product are (a) compared with the model as sorted monomial '
        'sets and (b) fed to the Lean predicate check.C09 which tabulates all 3^n choice vectors; operands are '
        'deep-snapshotted before/after; non-trivial = both operands have >=2 monomials or an infinity coefficient; '
        'distinct by (p,q)')
EXPLANATION = 'Lean theorems add_eval/times_eval etc. over the model; model tied to the code by differential runs.'
ASSUMPTIONS = ['monomials are well formed (strictly increasing delta indices), as Monomial.insert_delta guarantees']

SC = ['o', 'm', 'w', 'p', 'i']


def wire(poly):
    return [{'s': m.scalar, 'd': [list(d) for d in m.deltas]} for m in poly.list]


def canon(w):
    return sorted((m['s'], tuple(map(tuple, m['d']))) for m in w)


def leaf(rng, n):
    from pymwp import Polynomial, Monomial
    r = rng.random()
    if r < 0.1:
        return Polynomial(rng.choice(['o', 'm', 'm', 'w']))
    if r < 0.75:
        rows = [('m', 'm', 'm'), ('w', 'w', 'w'), ('p', 'p', 'w'), ('m', 'p', 'w'), ('p', 'm', 'w')]
        row = list(rng.choice(rows))
        if rng.random() < 0.25:   # a corrected row (while/loop correction turns w/p into i)
            row = ['i' if (s in ('p', 'w') and rng.random() < 0.6) else s for s in row]
        return Polynomial.from_scalars(rng.randrange(n), *row)
    idxs = sorted(rng.sample(range(n), rng.randint(1, min(n, 3))))
    return Polynomial(Monomial(rng.choice(SC[1:]), [(rng.randrange(3), i) for i in idxs]))


def build(rng, n, depth):
    if depth == 0 or rng.random() < 0.25:
        return leaf(rng, n)
    a, b = build(rng, n, depth - 1), build(rng, n, depth - 1)
    return a + b if rng.random() < 0.5 else a * b


def run(ctx):
    rng = ctx.rng
    from pymwp import Polynomial, Monomial
    reqs, metas = [], []
    cases = []
    # corpus: small hand cases (zero polynomial times infinity, conflicting deltas, domination)
    P = Polynomial
    corpus = [
        (P('o'), P(Monomial('i', [(0, 0)]))),
        (P(Monomial('m', [(0, 0)])), P(Monomial('w', [(1, 0)]))),
        (P(Monomial('m', [(0, 0)]), Monomial('w', [(1, 0)])), P(Monomial('p', [(0, 0), (1, 1)]))),
        (P.from_scalars(0, 'm', 'p', 'w'), P.from_scalars(0, 'p', 'm', 'w')),
        (P.from_scalars(0, 'm', 'p', 'w'), P.from_scalars(1, 'p', 'p', 'w')),
        (P('m'), P('o')), (P('o'), P('o')),
    ]
    for p, q in corpus:
        cases.append((2, p, q))
    for _ in range(ctx.budget(700, 12000)):
        n = rng.randint(1, 4)
        cases.append((n, build(rng, n, rng.randint(0, 3)), build(rng, n, rng.randint(0, 3))))
    for n, p, q in cases:
        if ctx.expired():
            break
        wp, wq = wire(p), wire(q)
        snap_p, snap_q = copy.deepcopy(wp), copy.deepcopy(wq)
        try:
            s, t = p + q, p * q
        except Exception as e:
            ctx.violation({'kind': 'raises', 'exception': type(e).__name__},
                          f'polynomial operation raised {type(e).__name__}', {'p': wp, 'q': wq})
            continue
        ws, wt = wire(s), wire(t)
        nontrivial = (len(wp) >= 2 and len(wq) >= 2) or any(m['s'] == 'i' for m in wp + wq)
        ctx.case((json.dumps(wp), json.dumps(wq)), nontrivial=nontrivial,
                 sample={'p': str(p), 'q': str(q), 'sum': str(s), 'prod': str(t)})
        ctx.count('size_p_%d' % min(len(wp), 6))
        ctx.count('has_infty' if any(m['s'] == 'i' for m in wp + wq) else 'finite')
        if wire(p) != snap_p or wire(q) != snap_q:
            ctx.violation({'kind': 'operand-mutated'}, 'an operand changed during + or *',
                          {'p': snap_p, 'q': snap_q, 'p_after': wire(p), 'q_after': wire(q)})
        inp = {'p': wp, 'q': wq, 'n': n}
        # the code's own evaluator (Polynomial.choice_scalar -- what apply_choice and every user of a result reads
        # values with) against the definition, on operands and results, at every choice vector; then the two laws
        # through that evaluator and the semiring functions themselves
        import itertools as _it
        import implobs as _io
        from pymwp.semiring import sum_mwp as _sum, prod_mwp as _prod
        nn = max(n, _io.max_index([wp, wq, ws, wt]) + 1)
        vecs = list(_it.product(range(3), repeat=nn)) if nn <= 4 else [tuple(rng.randrange(3) for _ in range(nn)) for _ in range(81)]
        for nm, po, wpo in (('p', p, wp), ('q', q, wq), ('sum', s, ws), ('prod', t, wt)):
            mm = _io.evaluator_mismatch(po, wpo, vecs)
            if mm:
                ctx.violation({'kind': 'evaluator-differs-from-definition', 'in': nm},
                              f'Polynomial.choice_scalar of {nm} = {po} at {mm["choice"]} gives {mm["choice_scalar"]}, the monomials say {mm["by_definition"]}',
                              {**inp, 'detail': mm})
                break
        else:
            for c in vecs:
                rp, rq = p.choice_scalar(*c), q.choice_scalar(*c)
                vp, vq = rp or 'o', rq or 'o'
                # product: zero when either operand has NO term for the choice (the property's wording); an explicit
                # zero monomial is left to the Lean predicate, which knows the stored form
                want_t = 'o' if (rp is None or rq is None) else (_prod(vp, vq) if 'o' not in (vp, vq) else None)
                if (s.choice_scalar(*c) or 'o') != _sum(vp, vq) or (want_t is not None and (t.choice_scalar(*c) or 'o') != want_t):
                    ctx.violation({'kind': 'pointwise-law-fails-through-choice_scalar'},
                                  f'at choice {list(c)}: p={vp} q={vq} but p+q={s.choice_scalar(*c)} p*q={t.choice_scalar(*c)}', {**inp, 'choice': list(c)})
                    break
        ctx.count('evaluator_checked_vectors', len(vecs))
        reqs.append({'op': 'check.C09', **inp, 'sum': ws, 'prod': wt}); metas.append(('check', inp, ws, wt))
        reqs.append({'op': 'model.poly_add', 'p': wp, 'q': wq}); metas.append(('add', inp, ws, wt))
        reqs.append({'op': 'model.poly_times', 'p': wp, 'q': wq}); metas.append(('times', inp, ws, wt))
    if ctx.drv is None:
        ctx.notes.append('driver unavailable')
        return
    outs = ctx.drv.batch(reqs)
    for (kind, inp, ws, wt), r in zip(metas, outs):
        if 'error' in r:
            raise RuntimeError(r['error'])
        if kind == 'check':
            if 'violation' in r:
                v = r['violation']
                ctx.violation({'kind': v['kind'], 'in': v.get('in')},
                              f"polynomials p={inp['p']} q={inp['q']}: {v}", {**inp, 'sum': ws, 'prod': wt, 'detail': v})
        elif kind == 'add':
            if canon(r['ok']) != canon(ws):
                ctx.disagree('model.poly_add', {**inp, 'impl': ws, 'model': r['ok']})
            elif r['ok'] != ws:
                ctx.count('add_order_differs')
        else:
            if canon(r['ok']) != canon(wt):
                ctx.disagree('model.poly_times', {**inp, 'impl': wt, 'model': r['ok']})
            elif r['ok'] != wt:
                ctx.count('times_order_differs')


    # failing-input search: the model and the code disagree but the property held on everything
    # so far -- look deeper (bigger expression trees) for a concrete violation of the property
    if ctx.disagreements and not ctx.violations:
        import time
        t_end = time.time() + (60 if ctx.tier == 'quick' else 600)
        batch_reqs, batch_meta = [], []
        k = 0
        while time.time() < t_end and not ctx.violations:
            n = rng.randint(2, 4)
            p, q = build(rng, n, rng.randint(2, 4)), build(rng, n, rng.randint(2, 4))
            wp, wq = wire(p), wire(q)
            snap = (json.dumps(wp), json.dumps(wq))
            try:
                s_, t_ = p + q, p * q
            except Exception as e:
                ctx.violation({'kind': 'raises', 'exception': type(e).__name__}, 'polynomial operation raised', {'p': wp, 'q': wq})
                break
            k += 1
            if (json.dumps(wire(p)), json.dumps(wire(q))) != snap:
                ctx.violation({'kind': 'operand-mutated'}, f'an operand changed during + or *: p={p} q={q}',
                              {'p': wp, 'q': wq, 'p_after': wire(p), 'q_after': wire(q)})
                break
            batch_reqs.append({'op': 'check.C09', 'p': wp, 'q': wq, 'n': n, 'sum': wire(s_), 'prod': wire(t_)})
            batch_meta.append((wp, wq))
            if len(batch_reqs) >= 200:
                for (wp2, wq2), r in zip(batch_meta, ctx.drv.batch(batch_reqs)):
                    if 'violation' in r:
                        v = r['violation']
                        ctx.violation({'kind': v['kind'], 'in': v.get('in')}, f'polynomials p={wp2} q={wq2}: {v}', {'p': wp2, 'q': wq2, 'detail': v})
                batch_reqs, batch_meta = [], []
        ctx.extra['failing_input_search_cases'] = k


def replay(ctx, payload):
    from pymwp import Polynomial, Monomial
    inp = payload['input']

    def mk(w):
        return Polynomial(*[Monomial(m['s'], [tuple(d) for d in m['d']]) for m in w])
    p, q = mk(inp['p']), mk(inp['q'])
    return {'p': str(p), 'q': str(q), 'sum_now': wire(p + q), 'prod_now': wire(p * q)}
