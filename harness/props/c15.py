"""C15 -- the fields of a function result agree with each other and across modes."""
import json
from props import funcs_common as FC
from gens.programs import Opts

THEOREMS = ['infinite_fields', 'finite_fields', 'bound_one_entry_per_variable', 'choices_exact', 'finite_result_same_in_both_modes']
RULE = ('every function of the generated stream x {fin} x {strict}: field-by-field consistency of the real FuncResult '
        '(infinite => no bound/choices, relation iff fin; finite => relation, >=1 valid vector of length = degree, one '
        'bound entry per variable), choice object vs "relation has no infinity at the vector" for all 3^k vectors (Lean '
        'predicate on the reported relation), equality of the two modes for finite functions, problematic-flow text '
        'only for infinite+fin and naming only pairs with a possibly-infinite cell; non-trivial = >=1 binary operation')
EXPLANATION = 'see DESIGN.md C15'
ASSUMPTIONS = []


def canon_obs(o):
    keep = {k: o.get(k) for k in ('infinite', 'variables', 'index', 'valid', 'bound', 'inf_flows', 'first')}
    keep['relation'] = FC.canon_rel(o.get('relation'))
    return json.dumps(keep, sort_keys=True, default=str)


def parse_flows(txt):
    pairs = []
    for part in txt.split('‖'):
        part = part.strip()
        if not part:
            continue
        src, tg = part.split('➔')
        for t in tg.split(','):
            pairs.append([src.strip(), t.strip()])
    return pairs


def _opts(o, i):
    o.reserved = (i % 3 == 1)
    return o


def run(ctx):
    seen = {}
    pending = []

    def V(kind, msg, src, fin, strict):
        ctx.violation({'kind': kind}, f'{msg} for `{src}` (fin={fin}, strict={strict})',
                      {'src': src, 'fin': fin, 'strict': strict})

    def on_result(src, fin, strict, obs, res, wire):
        if 'raised' in obs or 'infinite' not in obs:
            return
        seen.setdefault((src, strict), {})[fin] = obs
        if obs['infinite']:
            if obs['has_bound'] or obs['has_choices']:
                V('infinite-with-bound-or-choices', 'infinite result carries a bound or choices', src, fin, strict)
            if obs['has_relation'] != bool(fin):
                V('infinite-relation-presence', f'infinite result has_relation={obs["has_relation"]}', src, fin, strict)
            if (obs['inf_flows'] is not None) != bool(fin):
                V('inf-flows-presence', f'inf_flows={obs["inf_flows"]!r}', src, fin, strict)
            if fin and obs['inf_flows'] is not None and obs.get('relation'):
                pending.append(({'op': 'check.C15', 'relation': obs['relation'], 'index': 0, 'valid': '0' if False else '',
                                 'flow_pairs': parse_flows(obs['inf_flows'])}, (src, fin, strict, 'flows')))
        else:
            if not obs['has_relation'] or not obs['has_choices'] or not obs['has_bound']:
                V('finite-missing-field', 'finite result lacks relation/choices/bound', src, fin, strict)
                return
            if obs['inf_flows'] is not None:
                V('inf-flows-presence', 'finite result has inf_flows', src, fin, strict)
            if obs.get('choices_index') != obs['index'] or obs['first'] is None or len(obs['first']) != obs['index']:
                V('choice-length', f'choices index {obs.get("choices_index")} / first {obs.get("first")} vs degree {obs["index"]}',
                  src, fin, strict)
            if sorted(obs.get('bound_keys', [])) != sorted(obs['variables']) or len(obs.get('bound_keys', [])) != len(obs['variables']):
                V('bound-keys', f'bound keys {obs.get("bound_keys")} vs variables {obs["variables"]}', src, fin, strict)
            if 'valid' in obs:
                pending.append(({'op': 'check.C15', 'relation': obs['relation'], 'index': obs['index'],
                                 'valid': obs['valid']}, (src, fin, strict, 'choices')))

    n = ctx.budget(50, 2000)
    srcs = FC.gen_sources(ctx, n, lambda i: _opts(Opts(sugar=(i % 4 == 0), max_bin=5, whole_rhs_cast=False), i))
    FC.run_functions(ctx, srcs, [(False, False), (True, False), (False, True), (True, True)], on_result=on_result,
                     check_op=None, strict_every=3)
    # flows check needs an empty valid string of length 3^0 = 1: patch requests
    if ctx.drv is not None and pending:
        for req, meta in pending:
            if meta[3] == 'flows':
                req['valid'] = '0'      # index 0: one (empty) vector; relation is infinite somewhere or not
        outs = ctx.drv.batch([p[0] for p in pending])
        for (req, meta), r in zip(pending, outs):
            src, fin, strict, what = meta
            if 'error' in r:
                raise RuntimeError(r['error'])
            if 'violation' in r:
                v = r['violation']
                if what == 'flows' and v['kind'] in ('accepted-choice-has-infinity', 'rejected-choice-has-no-infinity'):
                    continue   # the flags were dummies for this request
                V(v['kind'], json.dumps(v), src, fin, strict)
    for (src, strict), d in seen.items():
        if False in d and True in d and not d[False]['infinite'] and not d[True]['infinite']:
            if canon_obs(d[False]) != canon_obs(d[True]):
                V('modes-differ-on-finite-function', 'early-stop and run-to-completion results differ', src, True, strict)


def replay(ctx, payload):
    from props import c01
    return c01.replay(ctx, payload)
