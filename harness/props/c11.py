"""C11 -- the delta graph never declares failure while a valid choice remains."""
import itertools
import json

THEOREMS = ['collapse_sound', 'run_never_raises']
RULE = ('histories of insert(t)/fuse over well-formed delta tuples (values 0..2, strictly increasing indices): '
        'exhaustive over <=2 indices up to a length bound, random over <=5 indices, always with extra fuse passes '
        'appended (fuse after collapse); each history is run on the real DeltaGraph and on the model, compared after '
        'every operation (full graph incl. dict order, is_empty, raised); non-trivial = history contains a fuse after '
        'at least two inserts; distinct by op sequence')
EXPLANATION = ('Invariant proof over all histories in Lean on the association-list model of graph_dict; '
               'model tied to the code by step-by-step differential runs.')
ASSUMPTIONS = ['inserted tuples are well formed (what Monomial guarantees): values in the choice domain {0,1,2}, '
               'strictly increasing indices']


def tuples_over(n_idx):
    out = [()]
    for k in range(1, n_idx + 1):
        for idxs in itertools.combinations(range(n_idx), k):
            for vals in itertools.product(range(3), repeat=k):
                out.append(tuple(zip(vals, idxs)))
    return out


def canon_graph(dg):
    return [[size, [[[list(d) for d in node], [[[list(d) for d in nb], lab] for nb, lab in adj.items()]]
                    for node, adj in lvl.items()]] for size, lvl in dg.graph_dict.items()]


def run_impl(ops):
    from pymwp import DeltaGraph
    dg = DeltaGraph()
    out = []
    for op in ops:
        try:
            if op[0] == 'i':
                dg.insert_node(tuple(tuple(d) for d in op[1]))
            else:
                dg.fusion()
            out.append({'graph': canon_graph(dg), 'empty': bool(dg.is_empty)})
        except Exception as e:
            out.append({'raised': type(e).__name__})
            break
    return out


def check_history(ctx, ops, n_idx, pending):
    impl = run_impl(ops)
    n_ins = sum(1 for o in ops if o[0] == 'i')
    fuse_after = any(o[0] == 'f' for o in ops[2:]) and n_ins >= 2
    ctx.case(json.dumps(ops), nontrivial=fuse_after,
             sample={'ops': ops, 'final': impl[-1] if impl else None})
    ctx.count('len_%d' % len(ops))
    # property clause 2: never raises
    if impl and 'raised' in impl[-1]:
        k = len(impl) - 1
        empty_node_present = k > 0 and any(sz == 0 and lvl for sz, lvl in impl[k - 1]['graph'])
        ctx.count('raised_' + impl[-1]['raised'])
        ctx.violation({'kind': 'raises', 'op': 'fuse' if ops[k][0] == 'f' else 'insert',
                       'exception': impl[-1]['raised'], 'empty_node_present': empty_node_present},
                      f"{'fusion' if ops[k][0] == 'f' else 'insert_node'} raised {impl[-1]['raised']} at step {k} of {ops}",
                      {'ops': ops, 'step': k})
    # property clause 1: collapsed only if every choice vector is covered
    for k, st in enumerate(impl):
        if st.get('empty'):
            tuples = [o[1] for o in ops[:k + 1] if o[0] == 'i']
            pending.append(({'op': 'check.C11', 'tuples': tuples, 'n': n_idx}, ('check', ops, k)))
            ctx.count('collapsed')
            break
    pending.append(({'op': 'model.dg_history', 'ops': ops}, ('model', ops, impl)))


def flush(ctx, pending):
    if ctx.drv is None or not pending:
        pending.clear()
        return
    outs = ctx.drv.batch([p[0] for p in pending])
    for (req, meta), r in zip(pending, outs):
        if 'error' in r:
            raise RuntimeError(r['error'])
        if meta[0] == 'check':
            if 'violation' in r:
                ctx.violation({'kind': 'collapsed-but-valid-choice-remains'},
                              f"delta graph empty after {meta[1][:meta[2] + 1]} but choice {r['violation']['choice']} matches no inserted tuple",
                              {'ops': meta[1], 'step': meta[2], 'choice': r['violation']['choice']})
        else:
            model = r['ok']
            if model != meta[2]:
                k = next((i for i, (a, b) in enumerate(zip(model, meta[2])) if a != b), min(len(model), len(meta[2])))
                ctx.disagree('model.dg_history', {'ops': meta[1], 'first_diff_step': k,
                                                  'impl': meta[2][k] if k < len(meta[2]) else None,
                                                  'model': model[k] if k < len(model) else None})
    pending.clear()


def run(ctx):
    rng = ctx.rng
    pending = []
    # corpus: fuse after collapse, and classic cliques
    corpus = [
        [['i', [[0, 0]]], ['i', [[1, 0]]], ['i', [[2, 0]]], ['f'], ['f']],
        [['i', [[0, 0], [0, 1]]], ['i', [[1, 0], [0, 1]]], ['i', [[2, 0], [0, 1]]], ['f'],
         ['i', [[0, 0], [1, 1]]], ['i', [[1, 0], [1, 1]]], ['i', [[2, 0], [1, 1]]],
         ['i', [[0, 0], [2, 1]]], ['i', [[1, 0], [2, 1]]], ['i', [[2, 0], [2, 1]]], ['f'], ['f']],
        [['i', []], ['f'], ['i', [[0, 0]]], ['f']],
    ]
    for ops in corpus:
        check_history(ctx, ops, 2, pending)
    # exhaustive over <= 2 indices
    T2 = [[list(d) for d in t] for t in tuples_over(2)]
    alphabet = [['i', t] for t in T2] + [['f']]
    L = ctx.budget(2, 3)
    for n in range(1, L + 1):
        for seq in itertools.product(alphabet, repeat=n):
            check_history(ctx, list(seq) + [['f']], 2, pending)
            if len(pending) > 400:
                flush(ctx, pending)
    ctx.exhaustive = True
    ctx.extra['exhaustive_bound'] = f'all histories of length <= {L} over {len(alphabet)} operations (2 indices), each followed by a fuse'
    # random, biased towards completing cliques
    for _ in range(ctx.budget(2500, 40000)):
        if ctx.expired():
            break
        n_idx = rng.choice([1, 2, 2, 2, 3, 3, 4, 5])
        ops = []
        base_pool = []
        for _ in range(rng.randint(2, 16)):
            r = rng.random()
            if r < 0.22:
                ops.append(['f'])
            elif r < 0.40 and base_pool:
                # re-insert an earlier tuple exactly (it may have been fused away meanwhile)
                t = [list(d) for d in rng.choice(base_pool)]
                ops.append(['i', t])
            elif r < 0.75 and base_pool:
                # vary one index of an earlier tuple (builds cliques)
                t = [list(d) for d in rng.choice(base_pool)]
                if t:
                    j = rng.randrange(len(t))
                    t[j][0] = rng.randrange(3)
                ops.append(['i', t])
                base_pool.append(t)
            else:
                idxs = sorted(rng.sample(range(n_idx), rng.randint(0 if rng.random() < 0.1 else 1, n_idx)))
                t = [[rng.randrange(3), i] for i in idxs]
                ops.append(['i', t])
                base_pool.append(t)
        ops += [['f']] * rng.randint(1, 3)
        check_history(ctx, ops, n_idx, pending)
        if len(pending) > 400:
            flush(ctx, pending)
    flush(ctx, pending)


def replay(ctx, payload):
    inp = payload['input']
    return {'ops': inp['ops'], 'impl_now': run_impl(inp['ops'])}
