#!/venv/bin/python
"""Mutation campaign: measures which mechanical changes of pymwp that pass its test suite are
caught by the checks.  NOT part of any registered check; a tool to find blind spots.

  mutation_campaign.py --n 120 --workers 6 --seed 1 [--files analysis.py,relation.py] [--out mutation/run1.jsonl]

Every worker owns a scratch copy of /verif (its Lean build directory and generated tables depend on
the tree under test) and a scratch worktree of /repo, both under /tmp/mc/, removed at the end.
For each sampled mutant: apply -> pytest (must pass, otherwise "killed by tests") -> the quick checks,
most relevant first, until one reports a VIOLATION.  Survivors are listed for manual review:
they are either equivalent / outside every property, or a gap to close.
"""
import argparse
import ast
import json
import os
import random
import re
import shutil
import subprocess
import sys
import time
from concurrent.futures import ThreadPoolExecutor

VERIF = os.path.dirname(os.path.dirname(os.path.abspath(__file__)))
REPO = '/repo'
ROOT = '/tmp/mc'
FILES = ['analysis.py', 'relation.py', 'relation_list.py', 'matrix.py', 'polynomial.py', 'monomial.py',
         'semiring.py', 'choice.py', 'delta_graphs.py', 'bound.py', 'syntax.py', 'result.py',
         'file_io.py', '__main__.py']
ALL = ['C%02d' % i for i in range(1, 21)]
RELEVANT = {
    'analysis.py': ['C01', 'C02', 'C08', 'C15', 'C18', 'C06', 'C05', 'C12', 'C03', 'C13', 'C19'],
    'relation.py': ['C10', 'C01', 'C02', 'C08', 'C03', 'C15', 'C14'],
    'relation_list.py': ['C10', 'C01', 'C02', 'C08'],
    'matrix.py': ['C10', 'C01', 'C14', 'C02', 'C13'],
    'polynomial.py': ['C09', 'C10', 'C01', 'C02', 'C14', 'C13'],
    'monomial.py': ['C09', 'C10', 'C01', 'C11', 'C14'],
    'semiring.py': ['C16', 'C09', 'C10', 'C01'],
    'choice.py': ['C04', 'C01', 'C02', 'C15', 'C08'],
    'delta_graphs.py': ['C11', 'C02', 'C01', 'C06'],
    'bound.py': ['C20', 'C15', 'C03', 'C14', 'C08'],
    'syntax.py': ['C05', 'C07', 'C19', 'C18', 'C06', 'C12', 'C01', 'C03'],
    'result.py': ['C14', 'C15', 'C17', 'C19', 'C08'],
    'file_io.py': ['C17', 'C14', 'C19'],
    '__main__.py': ['C17'],
}
CMP = {ast.Lt: '<=', ast.LtE: '<', ast.Gt: '>=', ast.GtE: '>', ast.Eq: '!=', ast.NotEq: '==',
       ast.Is: 'is not', ast.IsNot: 'is', ast.In: 'not in', ast.NotIn: 'in'}
CMP_TXT = {ast.Lt: '<', ast.LtE: '<=', ast.Gt: '>', ast.GtE: '>=', ast.Eq: '==', ast.NotEq: '!=',
           ast.Is: 'is', ast.IsNot: 'is not', ast.In: 'in', ast.NotIn: 'not in'}
BIN = {ast.Add: ('+', '-'), ast.Sub: ('-', '+'), ast.Mult: ('*', '+')}


def offsets(src_bytes):
    lines = src_bytes.split(b'\n')
    starts, pos = [], 0
    for l in lines:
        starts.append(pos)
        pos += len(l) + 1
    return starts


def sites(path):
    """list of (start, end, replacement_bytes, description) for one file"""
    src = open(path, 'rb').read()
    tree = ast.parse(src)
    st = offsets(src)

    def o(line, col):
        return st[line - 1] + col

    def span(n):
        return o(n.lineno, n.col_offset), o(n.end_lineno, n.end_col_offset)

    out = []
    doc_consts = set()
    for n in ast.walk(tree):
        if isinstance(n, (ast.FunctionDef, ast.ClassDef, ast.Module)) and n.body and \
                isinstance(n.body[0], ast.Expr) and isinstance(getattr(n.body[0], 'value', None), ast.Constant):
            doc_consts.add(id(n.body[0]))

    def between(a_end, b_start, old, new, desc):
        seg = src[a_end:b_start]
        m = re.search(rb'(?<![\w<>=!])' + re.escape(old.encode()) + rb'(?![=\w])', seg)
        if m:
            out.append((a_end + m.start(), a_end + m.end(), new.encode(), desc))

    for n in ast.walk(tree):
        ln = getattr(n, 'lineno', 0)
        if isinstance(n, ast.Compare):
            prev = n.left
            for op, comp in zip(n.ops, n.comparators):
                if type(op) in CMP:
                    between(span(prev)[1], span(comp)[0], CMP_TXT[type(op)], CMP[type(op)],
                            f'L{ln} cmp {CMP_TXT[type(op)]} -> {CMP[type(op)]}')
                prev = comp
        elif isinstance(n, ast.BoolOp):
            old, new = ('and', 'or') if isinstance(n.op, ast.And) else ('or', 'and')
            for a, b in zip(n.values, n.values[1:]):
                between(span(a)[1], span(b)[0], old, new, f'L{ln} {old} -> {new}')
        elif isinstance(n, ast.BinOp) and type(n.op) in BIN:
            if isinstance(n.left, ast.Constant) and isinstance(n.left.value, str):
                continue
            old, new = BIN[type(n.op)]
            seg = src[span(n.left)[1]:span(n.right)[0]]
            i = seg.find(old.encode())
            if i >= 0:
                a = span(n.left)[1] + i
                out.append((a, a + 1, new.encode(), f'L{ln} binop {old} -> {new}'))
        elif isinstance(n, ast.UnaryOp) and isinstance(n.op, ast.Not):
            s, e = span(n)
            es, ee = span(n.operand)
            out.append((s, e, b'(' + src[es:ee] + b')', f'L{ln} drop not'))
        elif isinstance(n, (ast.If, ast.While)) and not (isinstance(n.test, ast.Constant)):
            s, e = span(n.test)
            out.append((s, e, b'not (' + src[s:e] + b')', f'L{ln} negate {type(n).__name__.lower()} test'))
        elif isinstance(n, ast.IfExp):
            s, e = span(n.test)
            out.append((s, e, b'not (' + src[s:e] + b')', f'L{ln} negate ifexp test'))
        elif isinstance(n, ast.Constant) and id(n) not in doc_consts:
            s, e = span(n)
            if isinstance(n.value, bool):
                out.append((s, e, repr(not n.value).encode(), f'L{ln} {n.value} -> {not n.value}'))
            elif isinstance(n.value, int):
                out.append((s, e, str(n.value + 1).encode(), f'L{ln} const {n.value} -> {n.value + 1}'))
                if n.value > 0:
                    out.append((s, e, str(n.value - 1).encode(), f'L{ln} const {n.value} -> {n.value - 1}'))
        elif isinstance(n, ast.Expr) and id(n) not in doc_consts and isinstance(n.value, ast.Call):
            s, e = span(n)
            if src[s:e].startswith((b'logger.', b'logging.', b'debug(', b'self.logger')):
                continue
            out.append((s, e, b'pass', f'L{ln} delete call statement {src[s:e][:40].decode(errors="replace")!r}'))
        elif isinstance(n, (ast.AugAssign,)):
            s, e = span(n)
            out.append((s, e, b'pass', f'L{ln} delete {src[s:e][:40].decode(errors="replace")!r}'))
        elif isinstance(n, (ast.Break, ast.Continue)):
            s, e = span(n)
            out.append((s, e, b'pass', f'L{ln} {type(n).__name__.lower()} -> pass'))
        elif isinstance(n, ast.Call) and len(n.args) == 2 and not n.keywords and \
                not any(isinstance(a, ast.Starred) for a in n.args):
            (s1, e1), (s2, e2) = span(n.args[0]), span(n.args[1])
            if src[s1:e1] != src[s2:e2]:
                out.append((s1, e2, src[s2:e2] + src[e1:s2] + src[s1:e1], f'L{ln} swap call arguments'))
        elif isinstance(n, ast.Return) and n.value is not None and isinstance(n.value, (ast.BoolOp, ast.Compare)):
            s, e = span(n.value)
            out.append((s, e, b'not (' + src[s:e] + b')', f'L{ln} negate returned condition'))
    # slices: a[1:] -> a[:] style handled by constants; range(len(x)) -> range(len(x) - 1)
    for n in ast.walk(tree):
        if isinstance(n, ast.Call) and isinstance(n.func, ast.Name) and n.func.id == 'range' and len(n.args) == 1:
            s, e = span(n.args[0])
            out.append((s, e, src[s:e] + b' - 1', f'L{n.lineno} range upper bound - 1'))
    return src, out


def run(cmd, cwd=None, env=None, timeout=None):
    try:
        p = subprocess.run(cmd, cwd=cwd, env=env, stdout=subprocess.PIPE, stderr=subprocess.STDOUT,
                           text=True, timeout=timeout)
        return p.returncode, p.stdout
    except subprocess.TimeoutExpired as e:
        return 124, (e.stdout or b'').decode(errors='replace') if isinstance(e.stdout, bytes) else (e.stdout or '')


class Worker:
    def __init__(self, k):
        self.k = k
        self.dir = os.path.join(ROOT, f'w{k}')
        self.repo = os.path.join(self.dir, 'repo')
        self.verif = os.path.join(self.dir, 'verif')

    def setup(self):
        shutil.rmtree(self.dir, ignore_errors=True)
        os.makedirs(self.dir)
        run(['git', '-C', REPO, 'worktree', 'prune'])
        rc, out = run(['git', '-C', REPO, 'worktree', 'add', '-q', '--detach', self.repo, 'HEAD'])
        assert rc == 0, out
        run(['rsync', '-a', '--exclude', '.git', '--exclude', 'evidence/replay', VERIF + '/', self.verif + '/'])
        env = self.env()
        rc, out = run(['bash', '-c', '/venv/bin/python harness/gen_lean.py >/dev/null 2>&1; cd lean && lake build mwpdrv Mwp.AuditCmd ' +
                       ' '.join(f'Mwp.Props.{p}' for p in ALL) + ' Mwp.Props.C01b'], cwd=self.verif, env=env, timeout=3000)
        return rc, out[-400:]

    def env(self):
        e = dict(os.environ)
        e.update(PYMWP_REPO=self.repo, PYTHONPATH=self.repo, VERIF_SEED='0', VERIF_SEARCH_S='45',
                 PYTHONHASHSEED='0')
        return e

    def teardown(self):
        run(['git', '-C', REPO, 'worktree', 'remove', '--force', self.repo])
        shutil.rmtree(self.dir, ignore_errors=True)

    def one(self, mut):
        f, s, e, rep, desc = mut
        path = os.path.join(self.repo, 'pymwp', f)
        orig = open(os.path.join(REPO, 'pymwp', f), 'rb').read()
        new = orig[:s] + rep + orig[e:]
        res = {'file': f, 'desc': desc, 'old': orig[s:e].decode(errors='replace'), 'new': rep.decode(errors='replace')}
        try:
            compile(new, path, 'exec')
        except SyntaxError:
            res['outcome'] = 'syntax-error'
            return res
        open(path, 'wb').write(new)
        try:
            t0 = time.time()
            rc, out = run(['/venv/bin/python', '-m', 'pytest', '-q', '-x', '-p', 'no:cacheprovider'],
                          cwd=self.repo, env=self.env(), timeout=180)
            if rc != 0:
                res['outcome'] = 'killed-by-tests' if rc != 124 else 'tests-timeout'
                return res
            order = RELEVANT.get(f, []) + [p for p in ALL if p not in RELEVANT.get(f, [])]
            res['checks'] = {}
            for p in order:
                rc, out = run(['/venv/bin/python', 'harness/check.py', p], cwd=self.verif, env=self.env(), timeout=900)
                lines = [l for l in out.splitlines() if 'conda' not in l]
                viol = [l for l in lines if l.startswith('VIOLATION')]
                res['checks'][p] = rc
                if rc == 1 and viol:
                    res['outcome'] = 'detected'
                    res['by'] = p
                    res['how'] = 'no-failing-input-found' if all('no-failing-input-found' in v for v in viol) else 'failing-input'
                    break
                if rc not in (0, 1):
                    res.setdefault('infra', []).append((p, rc, lines[-1][-200:] if lines else ''))
            else:
                res['outcome'] = 'survived'
            res['wall_s'] = round(time.time() - t0, 1)
            return res
        finally:
            open(path, 'wb').write(orig)


def main():
    ap = argparse.ArgumentParser()
    ap.add_argument('--n', type=int, default=60)
    ap.add_argument('--workers', type=int, default=6)
    ap.add_argument('--seed', type=int, default=1)
    ap.add_argument('--files', default='')
    ap.add_argument('--out', default=os.path.join(VERIF, 'mutation', 'campaign.jsonl'))
    ap.add_argument('--list', action='store_true')
    a = ap.parse_args()
    files = [x for x in a.files.split(',') if x] or FILES
    pool = []
    for f in files:
        src, ss = sites(os.path.join(REPO, 'pymwp', f))
        pool += [(f, s, e, rep, d) for s, e, rep, d in ss]
    print(f'{len(pool)} mutation sites in {len(files)} files', flush=True)
    if a.list:
        for m in pool:
            print(m[0], m[4], '|', m[3][:50])
        return
    rng = random.Random(a.seed)
    rng.shuffle(pool)
    sample = pool[:a.n]
    os.makedirs(os.path.dirname(a.out), exist_ok=True)
    workers = [Worker(k) for k in range(a.workers)]
    with ThreadPoolExecutor(a.workers) as ex:
        for w, (rc, out) in zip(workers, ex.map(lambda w: w.setup(), workers)):
            if rc != 0:
                print('worker setup failed', w.k, out)
                for w2 in workers:
                    w2.teardown()
                return 2
    print('workers ready', flush=True)
    import queue
    q = queue.Queue()
    for m in sample:
        q.put(m)
    outf = open(a.out, 'a')

    def loop(w):
        while True:
            try:
                m = q.get_nowait()
            except queue.Empty:
                return
            try:
                r = w.one(m)
            except Exception as e:  # noqa
                r = {'file': m[0], 'desc': m[4], 'outcome': 'error', 'error': repr(e)}
            r['seed'] = a.seed
            outf.write(json.dumps(r) + '\n')
            outf.flush()
            print(r['outcome'], r['file'], r['desc'], r.get('by', ''), r.get('how', ''), flush=True)
    try:
        with ThreadPoolExecutor(a.workers) as ex:
            list(ex.map(loop, workers))
    finally:
        for w in workers:
            w.teardown()
        try:
            os.rmdir(ROOT)
        except OSError:
            pass


if __name__ == '__main__':
    sys.exit(main())
