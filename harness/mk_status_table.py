"""Rewrites the per-property proof-status table of DESIGN.md §10 from lean/Mwp/Props/*.lean and MANIFEST.json."""
import json
import os
import re

VERIF = os.path.dirname(os.path.dirname(os.path.abspath(__file__)))
man = json.load(open(os.path.join(VERIF, 'MANIFEST.json')))
claimed = {c['property_id']: c for c in man['checks']}
rows = []
for k in range(1, 21):
    pid = 'C%02d' % k
    path = os.path.join(VERIF, 'lean', 'Mwp', 'Props', pid + '.lean')
    names = re.findall(r"^theorem ([A-Za-z_0-9']+)", open(path).read(), re.M) if os.path.exists(path) else []
    status = 'claimed' if pid in claimed else 'not claimed'
    rows.append(f"| {pid} | {status} | {len(names)} | {', '.join('`%s`' % n for n in names) or '—'} |")
table = "| property | MANIFEST | theorems | names (Mwp.Props.Cxx) |\n|---|---|---|---|\n" + "\n".join(rows) + "\n"
p = os.path.join(VERIF, 'DESIGN.md')
s = open(p).read()
a, b = '<!-- status-table-begin -->', '<!-- status-table-end -->'
if a in s:
    s = s[:s.index(a) + len(a)] + "\n" + table + s[s.index(b):]
    open(p, 'w').write(s)
    print('updated')
else:
    print('markers missing')
