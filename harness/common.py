"""Shared machinery of the checks: build + audit of the Lean project, the driver
process, evidence / replay / known-finding handling and the final decision."""
import fcntl
import hashlib
import json
import os
import random
import re
import subprocess
import sys
import time

HERE = os.path.dirname(os.path.abspath(__file__))
VERIF = os.path.dirname(HERE)
LEAN_DIR = os.path.join(VERIF, 'lean')
EVID_DIR = os.path.join(VERIF, 'evidence')
REPLAY_DIR = os.path.join(EVID_DIR, 'replay')
CORPUS_DIR = os.path.join(VERIF, 'corpus')
REPO = os.environ.get('PYMWP_REPO', '/repo')
DRV = os.path.join(LEAN_DIR, '.lake', 'build', 'bin', 'mwpdrv')
ALLOWED_AXIOMS = {'propext', 'Classical.choice', 'Quot.sound'}
FORBIDDEN_RE = re.compile(
    r'\bsorry\b|\badmit\b|^axiom |native_decide|bv_decide|implemented_by|\bunsafe |maxHeartbeats 0',
    re.M)
TRUSTED_BASE = [
    'Lean 4.33.0 kernel (thorough tier: leanchecker replay of the compiled modules)',
    'axioms allowed in property theorems: propext, Classical.choice, Quot.sound; '
    'no native_decide / bv_decide / sorry / own axioms (audited every run)',
    'harness/gen_lean.py table extractor (calls the live pymwp functions on their whole finite domain)',
    'harness correspondence: AST/JSON converters, canonicalisers and the diff (Python)',
    'hand-written Lean model is NOT trusted: it is compared with /repo on every run',
    'modelled, not verified: CPython semantics (object identity, dict/set order), pycparser, gcc -E, argparse, json, filesystem',
]

os.environ.setdefault('PYTHONHASHSEED', '0')


def setup_repo_path():
    if REPO not in sys.path:
        sys.path.insert(0, REPO)
    import logging
    logging.disable(logging.CRITICAL)


def sh(cmd, cwd=None, timeout=None, env=None):
    t0 = time.time()
    p = subprocess.run(cmd, cwd=cwd, shell=isinstance(cmd, str), stdout=subprocess.PIPE,
                       stderr=subprocess.STDOUT, text=True, timeout=timeout, env=env)
    return p.returncode, p.stdout, time.time() - t0


class Lock:
    """Cross-process lock around generation + lake build (checks may run in parallel)."""

    def __init__(self):
        os.makedirs(os.path.join(LEAN_DIR, '.lake'), exist_ok=True)
        self.path = os.path.join(LEAN_DIR, '.lake', 'verif.lock')

    def __enter__(self):
        self.f = open(self.path, 'w')
        fcntl.flock(self.f, fcntl.LOCK_EX)
        return self

    def __exit__(self, *a):
        fcntl.flock(self.f, fcntl.LOCK_UN)
        self.f.close()


def regenerate():
    """Run the translator in a fresh interpreter (so that it sees /repo as it is now)."""
    rc, out, _ = sh([sys.executable, os.path.join(HERE, 'gen_lean.py')],
                    env={**os.environ, 'PYMWP_REPO': REPO}, timeout=300)
    out = '\n'.join(l for l in out.splitlines() if 'conda' not in l)
    try:
        return json.loads(out[out.index('['):])
    except Exception:
        return [{'file': 'gen_lean.py', 'error': out[-2000:], 'notes': [], 'changed': False}]


def lake_build(targets, timeout=3000):
    rc, out, dt = sh(['lake', 'build'] + list(targets), cwd=LEAN_DIR, timeout=timeout)
    return rc == 0, out, dt


def parse_build_errors(out):
    """module -> first error text, from lake output."""
    errs = {}
    for m in re.finditer(r'^error: (\S+?\.lean):(\d+):(\d+): (.*)$', out, re.M):
        errs.setdefault(m.group(1), []).append((int(m.group(2)), m.group(4)))
    return errs


def grep_forbidden(paths):
    hits = []
    for p in paths:
        try:
            src = open(p, encoding='utf-8').read()
        except OSError:
            continue
        # strip comments (block and line) before matching
        s = re.sub(r'/-.*?-/', lambda m: '\n' * m.group(0).count('\n'), src, flags=re.S)
        s = re.sub(r'--.*$', '', s, flags=re.M)
        for m in FORBIDDEN_RE.finditer(s):
            line = s.count('\n', 0, m.start()) + 1
            hits.append(f'{os.path.relpath(p, VERIF)}:{line}: {m.group(0).strip()}')
    return hits


def lean_closure(modules):
    """source files of the given modules and everything of this project they import (transitively)"""
    seen, todo = {}, list(modules)
    while todo:
        m = todo.pop()
        if m in seen:
            continue
        if m == 'Driver':
            path = os.path.join(LEAN_DIR, 'Driver.lean')
        else:
            path = os.path.join(LEAN_DIR, *m.split('.')) + '.lean'
        if not os.path.exists(path):
            continue
        seen[m] = path
        try:
            for line in open(path, encoding='utf-8'):
                mm = re.match(r'\s*import\s+(Mwp(?:\.\w+)*)\s*$', line)
                if mm:
                    todo.append(mm.group(1))
        except OSError:
            pass
    return sorted(seen.values())


def lean_sources():
    out = []
    for root, _, files in os.walk(os.path.join(LEAN_DIR, 'Mwp')):
        for f in files:
            if f.endswith('.lean'):
                out.append(os.path.join(root, f))
    out.append(os.path.join(LEAN_DIR, 'Driver.lean'))
    return sorted(out)


def audit_namespace(ns_list, modules):
    """Run #audit_ns for each namespace; returns {theorem: [axioms]} or raises."""
    body = 'import Mwp.AuditCmd\n' + ''.join(f'import {m}\n' for m in modules) + \
           ''.join(f'#audit_ns {ns}\n' for ns in ns_list)
    tmp = os.path.join(LEAN_DIR, '.lake', f'audit_{os.getpid()}.lean')
    with open(tmp, 'w') as f:
        f.write(body)
    try:
        rc, out, _ = sh(['lake', 'env', 'lean', tmp], cwd=LEAN_DIR, timeout=900)
    finally:
        try:
            os.remove(tmp)
        except OSError:
            pass
    res = {}
    for m in re.finditer(r'AUDIT (\{.*\})', out):
        d = json.loads(m.group(1))
        res[d['theorem']] = d['axioms']
    return rc, res, out


class Driver:
    """Persistent mwpdrv process; one JSON line in, one out."""

    def __init__(self):
        self.p = subprocess.Popen([DRV], stdin=subprocess.PIPE, stdout=subprocess.PIPE,
                                  text=True, bufsize=1)
        self.calls = 0

    def call(self, op, **kw):
        kw['op'] = op
        self.p.stdin.write(json.dumps(kw) + '\n')
        self.p.stdin.flush()
        line = self.p.stdout.readline()
        self.calls += 1
        if not line:
            raise RuntimeError(f'mwpdrv died on {op}')
        r = json.loads(line)
        if 'error' in r:
            raise DriverError(f'{op}: {r["error"]}')
        return r

    def batch(self, reqs):
        """Send many requests, then read all answers (pipelined through a thread-free
        chunking that stays under the pipe buffer)."""
        out = []
        CH = 64
        for i in range(0, len(reqs), CH):
            chunk = reqs[i:i + CH]
            payload = ''.join(json.dumps(r) + '\n' for r in chunk)
            if len(payload) < 30000:
                self.p.stdin.write(payload)
                self.p.stdin.flush()
                for _ in chunk:
                    out.append(json.loads(self.p.stdout.readline()))
            else:
                for r in chunk:
                    self.p.stdin.write(json.dumps(r) + '\n')
                    self.p.stdin.flush()
                    out.append(json.loads(self.p.stdout.readline()))
        self.calls += len(reqs)
        return out

    def close(self):
        try:
            self.p.stdin.close()
            self.p.wait(timeout=5)
        except Exception:
            self.p.kill()


class DriverError(Exception):
    pass


def load_known():
    p = os.path.join(VERIF, 'known_findings.json')
    if not os.path.exists(p):
        return []
    return json.load(open(p))


def sig_matches(finding_sig, sig):
    return all(sig.get(k) == v for k, v in finding_sig.items())


class Ctx:
    """Per-run context handed to a property module."""

    def __init__(self, prop, tier, seed):
        self.prop, self.tier, self.seed = prop, tier, seed
        self.rng = random.Random(seed * 1000003 + int(hashlib.sha1(prop.encode()).hexdigest()[:6], 16))
        self.drv = None
        self.t0 = time.time()
        self.evaluations = 0
        self.nontrivial = set()
        self.samples = []
        self.hist = {}
        self.violations = []      # (signature, what, replay_payload)
        self.disagreements = []   # (layer, payload)
        self.notes = []
        self.gen_notes = []
        self.extra = {}
        self.exhaustive = False
        self.deadline = None

    # -- bookkeeping ---------------------------------------------------
    def count(self, key, n=1):
        self.hist[key] = self.hist.get(key, 0) + n

    def case(self, key, nontrivial=True, sample=None):
        """Register one explored case; `key` identifies it for distinctness."""
        self.evaluations += 1
        if nontrivial:
            self.nontrivial.add(hashlib.sha1(repr(key).encode()).hexdigest()[:16])
        if sample is not None and len(self.samples) < 6:
            self.samples.append(sample)

    def violation(self, signature, what, payload):
        self.violations.append((signature, what, payload))

    def disagree(self, layer, payload):
        self.disagreements.append((layer, payload))

    def time_left(self):
        return None if self.deadline is None else self.deadline - time.time()

    def expired(self):
        """true once a failing-input search has used up its time (or found what it looked for)"""
        return self.deadline is not None and (time.time() > self.deadline or bool(self.violations))

    def budget(self, quick, thorough):
        return quick if self.tier == 'quick' else thorough


def write_json(path, obj):
    os.makedirs(os.path.dirname(path), exist_ok=True)
    tmp = path + '.tmp%d' % os.getpid()
    with open(tmp, 'w', encoding='utf-8') as f:
        json.dump(obj, f, indent=1, ensure_ascii=False, default=str)
        f.write('\n')
    os.replace(tmp, path)
