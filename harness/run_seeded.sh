#!/bin/bash
# Re-run every seeded change against the check of the property it breaks (detection matrix regression).
# usage: run_seeded.sh [ids...]
cd /verif
ids="$@"; [ -z "$ids" ] && ids=$(ls seeded)
touched=""
for id in $ids; do
  prop=$(python3 -c "import json;print(json.load(open('seeded/$id/meta.json'))['breaks_property'])")
  if grep -q '"neutralised"' seeded/$id/meta.json; then echo "$id $prop: neutralised by a later repair (skipped)"; continue; fi
  touched="$touched $prop"
  out=$(harness/try_mutant.sh seeded/$id/patch.diff $prop 2>&1 | grep -v KNOWN | grep -E "VIOLATION|exit|apply" | head -3 | tr '\n' ' ')
  case "$out" in
    *"does not apply"*) echo "$id $prop: patch no longer applies (the code it changed was repaired since)";;
    *VIOLATION*) echo "$id $prop: DETECTED";;
    *) echo "$id $prop: MISSED  $out";;
  esac
done
# the evidence files now describe runs against changed trees: rewrite them from the unchanged tree
for p in $(echo $touched | tr ' ' '\n' | sort -u); do /venv/bin/python harness/check.py $p >/dev/null 2>&1; done
