"""Observation of the real pymwp on one function / loop: everything compared with the model or
handed to the Lean predicates, in canonical (order-free, timestamp-free) form."""
import copy
import itertools

import astwire

MAX_TAB = 6   # tabulate all 3^index choices up to this index
TIME_LIMIT_S = 25   # wall-clock limit of one real analysis inside the harness


def wire_poly(poly):
    return [{'s': m.scalar, 'd': [list(d) for d in m.deltas]} for m in poly.list]


def wire_relation(rel):
    return {'vars': list(rel.variables), 'mat': [[wire_poly(p) for p in row] for row in rel.matrix]}


_ORD = 'omwpi'


def ref_eval(wpoly, choice):
    """the value of a polynomial (wire form: the stored monomial list) at a choice vector, read directly from the
    definition: the greatest scalar among the monomials all of whose deltas agree with the choice, zero if none"""
    best = 'o'
    for m in wpoly:
        if all(choice[j] == v for v, j in m['d']) and _ORD.index(m['s']) > _ORD.index(best):
            best = m['s']
    return best


def max_index(wpolys):
    return max([j for wp in wpolys for m in wp for _, j in m['d']] + [-1])


def evaluator_mismatch(poly, wpoly, choices):
    """first choice vector at which the code's own evaluator (Polynomial.choice_scalar) differs from ref_eval"""
    for c in choices:
        got = poly.choice_scalar(*c) or 'o'
        want = ref_eval(wpoly, c)
        if got != want:
            return {'choice': list(c), 'choice_scalar': got, 'by_definition': want}
    return None


def relation_evaluator_mismatch(rel, wrel, choices):
    """the same for Relation.apply_choice, cell by cell"""
    for c in choices:
        got = rel.apply_choice(*c).matrix
        for i, row in enumerate(wrel['mat']):
            for j, wp in enumerate(row):
                want = ref_eval(wp, c)
                if got[i][j] != want:
                    return {'choice': list(c), 'cell': [wrel['vars'][i], wrel['vars'][j]], 'apply_choice': got[i][j], 'by_definition': want}
    return None


def smat(simple):
    return [''.join(row) for row in simple.matrix]


def bound_triples(bound, variables):
    out = []
    for v in variables:
        mb = bound.bound_dict[v]
        x, y, z = mb.bound_triple
        out.append([v, list(x), list(y), list(z)])
    return out


def observe_func(node, fin, rng=None, max_mats=40):
    """Run Analysis.func on an (already syntax-checked) FuncDef node."""
    from pymwp import Analysis
    import signal

    class _Timeout(BaseException):
        pass

    def _alarm(sig, frm):
        raise _Timeout()
    old_h = signal.signal(signal.SIGALRM, _alarm)
    signal.alarm(TIME_LIMIT_S)
    try:
        res = Analysis.func(node, not fin)
    except _Timeout:
        return {'raised': 'Timeout', 'msg': f'analysis exceeded {TIME_LIMIT_S} s (not a violation: counted and skipped)'}, None
    except Exception as e:
        return {'raised': type(e).__name__, 'msg': str(e)[:200]}, None
    finally:
        signal.alarm(0)
        signal.signal(signal.SIGALRM, old_h)
    return obs_of_result(res, rng, max_mats), res


def obs_of_result(res, rng=None, max_mats=40):
    """canonical observation of a FuncResult"""
    obs = {
        'name': res.name, 'infinite': bool(res.infinite), 'variables': list(res.variables),
        'index': res.index, 'has_relation': res.relation is not None,
        'has_choices': res.choices is not None, 'has_bound': res.bound is not None,
        'inf_flows': res.inf_flows,
    }
    if res.relation is not None:
        obs['relation'] = wire_relation(res.relation)
    if res.choices is not None and not res.infinite:
        ch = res.choices
        obs['choices_index'] = ch.index
        f = ch.first
        obs['first'] = None if f is None else list(f)
        if res.index <= MAX_TAB:
            allc = list(itertools.product(range(3), repeat=res.index))
            flags = [ch.is_valid(*c) for c in allc]
            obs['valid'] = ''.join('1' if b else '0' for b in flags)
            valid = [c for c, b in zip(allc, flags) if b]
            if rng is not None and len(valid) > max_mats:
                valid = rng.sample(valid, max_mats)
            mats = []
            for c in valid[:max_mats]:
                mats.append([list(c), smat(res.relation.apply_choice(*c))])
            obs['mats'] = mats
        if res.bound is not None:
            obs['bound'] = bound_triples(res.bound, res.variables)
            obs['bound_keys'] = list(res.bound.bound_dict.keys())
    return obs


def with_time_limit(fn):
    """run fn() under the analysis time limit; returns (value, None) or (None, {'raised': ...})"""
    import signal

    class _Timeout(BaseException):
        pass

    def _alarm(sig, frm):
        raise _Timeout()
    old_h = signal.signal(signal.SIGALRM, _alarm)
    signal.alarm(TIME_LIMIT_S)
    try:
        return fn(), None
    except _Timeout:
        return None, {'raised': 'Timeout'}
    except Exception as e:
        return None, {'raised': type(e).__name__, 'msg': str(e)[:200]}
    finally:
        signal.alarm(0)
        signal.signal(signal.SIGALRM, old_h)


def prepare(fnode, strict):
    """Copy the function node and run the syntax gate the way Analysis.run does.
    Returns (node or None if strict refuses it, info)."""
    from pymwp import Analysis
    node = copy.deepcopy(fnode)
    try:
        ok = Analysis.syntax_check(node, strict)
    except Exception as e:
        return None, {'raised': type(e).__name__, 'where': 'syntax_check', 'msg': str(e)[:200]}
    if not ok:
        return None, {'refused': True}
    return node, {}
