"""Rewrites the table of DESIGN.md §11 from seeded/*/meta.json (between the two markers)."""
import glob
import json
import os

VERIF = os.path.dirname(os.path.dirname(os.path.abspath(__file__)))
rows = []
for meta in sorted(glob.glob(os.path.join(VERIF, 'seeded', '*', 'meta.json'))):
    sid = os.path.basename(os.path.dirname(meta))
    m = json.load(open(meta))
    notes = os.path.join(os.path.dirname(meta), 'notes.md')
    change = m.get('change') or ''
    det = '; '.join((d.get('check', '') + (': ' + d['how'] if d.get('how') else '')) for d in m.get('detected_by', [])) or 'NOT DETECTED'
    if m.get('neutralised'):
        det += ' — NEUTRALISED: ' + m['neutralised'][:220]
    if m.get('rebased'):
        det += ' (patch rebased by hand after later fix: commits)'
    rows.append(f"| {sid} | {m['breaks_property']} | {m['needs_to_manifest']} | {det} |")
table = "| id | property | needs, to manifest | caught by |\n|---|---|---|---|\n" + "\n".join(rows) + "\n"
p = os.path.join(VERIF, 'DESIGN.md')
s = open(p).read()
a, b = '<!-- seeded-table-begin -->', '<!-- seeded-table-end -->'
if a in s:
    s = s[:s.index(a) + len(a)] + "\n" + table + s[s.index(b):]
    open(p, 'w').write(s)
    print('updated', len(rows), 'rows')
else:
    print('markers missing')
