"""Writes /verif/MANIFEST.json from the table below (kept next to the checks so the two stay in step)."""
import json
import os

HERE = os.path.dirname(os.path.abspath(__file__))
VERIF = os.path.dirname(HERE)
PY = '/venv/bin/python'

LEVEL_NOTE = ('Trusted: Lean 4.33 kernel; axioms propext/Classical.choice/Quot.sound only (audited each run, no '
              'native_decide/sorry/own axioms); the table translator harness/gen_lean.py; the Python correspondence '
              'harness. The hand-written model is not trusted: it is compared with /repo on every run. ')

CHECKS = {
    'C16': dict(
        technique='Lean 4 proof (exhaustive kernel case split) over semiring tables regenerated from the live code each run',
        text='Full proof: sum/prod tables are regenerated from the live functions on all 25 pairs every run and all '
             'laws plus equality with the hand-transcribed documented tables are re-proved by the Lean kernel; the '
             'finite domain makes this complete. Non-coefficient arguments: model of the KEYS guard proved to reject, '
             'live functions tested on a junk stream.',
        design_ref='DESIGN.md §5 C16',
        note='Assumes sum_mwp/prod_mwp are pure (each pair called once by the translator).'),
    'C09': dict(
        technique='Lean 4 proof (induction on monomial lists, domination lemma) over a hand model of Polynomial.add/times + differential correspondence',
        text='Theorems add_eval / times_eval (value at EVERY choice vector is the semiring sum / product, zero when an '
             'operand has no term), well-formedness, no repeated delta list, no zero term alongside others, proved for all '
             'well-formed polynomials; semiring facts come from the regenerated C16 tables. The model is tied to the code by '
             'running both on reachable polynomial pairs each run (sorted monomial sets equal) and the spec predicate is '
             'evaluated on the implementation outputs over all 3^n choices. "Operands unchanged" is a Python aliasing fact: '
             'checked by deep snapshots, not proved.',
        design_ref='DESIGN.md §5 C09',
        note='Model ignores list positions inside add/times (cursor, k-way merge); compared as sorted sets.'),
    'C20': dict(
        technique='Lean 4 proof (case analysis, list induction) over a hand model of MwpBound.bound_poly/bound_str/parse + exact-string correspondence',
        text='Theorems boundPoly_eval (both formats denote max(x,sum y)+prod z over all naturals), parse_boundStr (round '
             'trip), significant_iff (significant-only display omits exactly self-only bounds), for ALL name lists. The model '
             'rendering is compared character for character with pymwp on every triple of disjoint lists up to 3 names (exhaustive) '
             'and the printed text is evaluated by an independent Lean reader on sampled valuations.',
        design_ref='DESIGN.md §5 C20',
        note='Names are identifiers (no , ; + * parentheses).'),
    'C04': dict(
        technique='Lean 4 proof (rewrite-preserves-complement invariants, box-cover invariant over the cross product) over a hand model of Choices + differential correspondence on accepted sets',
        text='Theorem generate_exact: for every domain, length and set of well-formed sequences, generate succeeds and its '
             'object accepts a vector (is_valid, all(), first) iff the vector matches no sequence, and is infinite iff none '
             'exists; intersection_exact: intersection accepts exactly what both accept. Proved for every iteration order the '
             'model could take is NOT needed: the theorem is about the accepted SET, which the correspondence compares with '
             'the real code (accepted set observed three ways on every vector) and with a brute-force complement in Lean.',
        design_ref='DESIGN.md §5 C04',
        note='Python iterates hash-ordered sets; the model fixes one order, only order-independent observables are compared.'),
    'C11': dict(
        technique='Lean 4 proof (invariant by induction over the operation history) over an exact association-list model of DeltaGraph + step-by-step differential correspondence',
        text='Theorems collapse_sound (after ANY history of insertions and fusion passes the graph reports collapse only if '
             'every choice vector over {0,1,2} matches an inserted tuple) and run_never_raises (no KeyError/IndexError/'
             'recursion failure for any history), by induction over the op list with coverage + symmetry invariants. '
             'The model is exact (dict order included) and is compared with the real class after every operation on '
             'exhaustive short histories over two indices and random longer ones, always with fuse-after-collapse.',
        design_ref='DESIGN.md §5 C11',
        note='Inserted tuples well formed (strictly increasing indices, values in {0,1,2}) as Monomial guarantees; degree fixed to 3.'),
    'C10': dict(
        technique='Lean 4 proof (cell-wise polynomial lemmas + homogenisation index maps) over a hand model of Relation/matrix + differential correspondence',
        text='Theorems: sum of relations over arbitrary, differently ordered, overlapping variable lists is the pointwise '
             'semiring sum; composition is the semiring matrix product of the meanings extended by identity (at every '
             'infinity-free choice over any universe, and at EVERY choice between operand variables); an infinity in an '
             'operand persists; results are well formed. The real +, *, fixpoint are checked against matrix sum/product/'
             'closure at all 3^n choices by a Lean predicate and diffed with the model; statement lists are analysed whole '
             'vs composed from every split. Fixpoint = closure is proved separately (RelFix) when that file is present.',
        design_ref='DESIGN.md §5 C10',
        note='Relations well formed (square, distinct non-empty names, well-formed monomials).'),
    'C17': dict(
        technique='Lean 4 proof (case analysis over all flag combinations) over a model of the argparse table (regenerated) and main() plumbing + subprocess correspondence',
        text='Partial: theorem plan_flags proves, for all 2^6 flag settings x {F,L} x {--out or not} and every path not '
             'starting with -, that the options reach the library unchanged and exactly one file (--out or '
             'output/<stem>.json) is written unless --no_save; the argparse table is regenerated from the live parser. '
             'Runtime part (process exit status, files on disk, gcc -E, equality of the saved JSON with the in-process '
             'library result, independence of --no_cpp) is explored by running the real CLI in subprocesses.',
        design_ref='DESIGN.md §5 C17',
        note='Process, filesystem, logging and the C pre-processor are observed, not modelled; gcc -E assumed identity on directive-free text.'),
    'C01': dict(
        technique='Lean 4 proof (refinement of the analysis model to a pointwise reference calculus by structural induction incl. loops; function-level theorem; table tie by regenerated create_vector table) + Lean spec oracle on the implementation reports + differential correspondence',
        text='Proved on the model of Analysis.func (Props/C01b): for a function reported not infinite the choice object '
             'accepts exactly the choice vectors at which the pointwise calculus Spec.sem derives a matrix, applying such a '
             'vector to the reported relation gives exactly that matrix, hence the set of reported matrices equals the set of '
             'derivable matrices (reported_matrices_are_exactly_derivable), via the statement-level refinement '
             '(compute_refines, loops included: fixpoint = closure, W and L corrections pointwise) and C04/C11; the '
             'create_vector table is regenerated and proved equal to the documented rule table. The model is tied to the code '
             'every run: the Lean model of the whole analysis is diffed against the implementation (relation polynomials '
             'included) and the full property is evaluated on the real reports with Spec.sem as oracle (valid set = derivable '
             'set over all 3^k choices, matrices, bound at the first choice, fin and strict on/off).',
        design_ref='DESIGN.md §5 C01, §10',
        note='Side condition FuncOk (decidable): names non-empty, loop guard names not themselves used as loop-guard markers (guardsFresh), every variable of the reading found by the variable collector; that the model run succeeds is a theorem (Mwp.func_total), not a hypothesis; numbering of alternatives via Spec.relabel.'),
    'C02': dict(
        technique='Lean 4 proof (function-level: infinite verdict iff no choice vector derives, both modes; via statement refinement, delta-graph ghost invariant + C11 collapse soundness, C04 exactness) + Lean spec oracle + differential correspondence',
        text='Proved on the model of Analysis.func (Props/C02): the function is reported infinite iff the pointwise calculus '
             'fails at every choice vector, in early-stop and run-to-completion mode alike (infinite_iff_no_derivation), the '
             'verdict is mode independent, a finite verdict comes with a valid first choice which is a derivation; a verdict always '
             'exists (verdict_exists_and_is_exact: no hypothesis on the run, by func_total). The '
             'early-exit path is covered by a ghost invariant (every tuple inserted into the delta graph matches only failing '
             'vectors) and the C11 theorem. Every run compares the real verdict in both modes with "no choice derives" computed '
             'by Spec.sem in Lean on generated functions biased towards failing / jointly failing / nested loops, and diffs '
             'the model.',
        design_ref='DESIGN.md §5 C02, §10',
        note='Same side condition FuncOk as C01.'),
    'C05': dict(
        technique='Lean 4 proof (mutual structural induction over the syntax tree: Coverage model vs calculus reading) + bounded-exhaustive template correspondence',
        text='Proved: if the model of the syntax check reports full support then every statement is readable by the '
             'calculus reading Spec.desugar, under two explicit exclusions each with a kernel-checked witness (++ on a '
             'constant; trees the C parser cannot produce); nested unary operations no longer need an exclusion since the repair of Coverage.UnaryOp. Controlling '
             'expressions: full support implies that no condition of if / while / do-while / for changes a variable '
             '(full_support_means_effect_free_conditions; the four former known findings are repaired). Every '
             'run feeds the real Coverage verdict and the real analysis warnings for every statement form x position '
             'template to the Lean predicate and diffs the Coverage model (omit count, tree after ast_mod).',
        design_ref='DESIGN.md §5 C05',
        note='One known finding for C05 (KNOWN-FINDING line, exit 0): an assert(...) / assume(...) call whose argument changes a variable is accepted as fully supported and gets no flow; it is found by a source-level oracle of the harness, the Lean specification follows the code there (DESIGN 10.4); the repaired findings are kept as fixed entries in known_findings.json.'),
    'C07': dict(
        technique='Lean 4 proof (mutual structural induction over the syntax tree on the Coverage/ast_mod model) + differential correspondence and metamorphic runs',
        text='Proved: a fully supported tree is untouched by the removal pass; after the removal pass the syntax check '
             'reports full support and a second pass changes nothing (for-loop compatibility is preserved when the body '
             'shrinks). Every run inserts multisets of unsupported statements over fresh identifiers at random positions '
             '(incl. loop/branch bodies) and compares the real function-mode and loop-mode results with the originals, '
             'checks strict mode refuses them, and diffs the model (omit count, tree after removal).',
        design_ref='DESIGN.md §5 C07',
        note='Result equality under insertion is explored on the implementation, the tree-level statements are proved on the model.'),
    'C14': dict(
        technique='Lean 4 proof (table-driven model of Serializable.to_dict / from_dict over JSON values; round-trip theorem for every result class) + differential correspondence on saved files',
        text='Proved for every result class (attribute lists regenerated from the live classes): fromDict (toDict o) = o '
             'for every well-formed object, hence load-then-save is the identity on saved documents and simple attributes '
             'come back exactly, also 0 / False / "" / []; negative witness for the repaired defect. Every run saves, '
             'loads and re-saves real results (function mode finite/infinite, fin, loop mode, functions without variables), '
             'compares JSON, re-uses the restored relation (apply_choice at all choices, eval, composition), choices and '
             'bounds, and diffs the model round trip on the same documents.',
        design_ref='DESIGN.md §5 C14',
        note='WFObj lists what real result objects satisfy (see Lemmas/ResultThmsDefs.lean); file system is observed, not modelled.'),
    'C19': dict(
        technique='Lean 4 proof (mutual structural induction: FindLoops model = generic pre-order traversal) + correspondence incl. a line-lexer specification',
        text='Proved: the model of FindLoops returns exactly the loop statements of the source in pre-order through every '
             'statement container (blocks, branches, loop bodies, switch bodies, labels), counted for-loops only. Every '
             'run compares the real FindLoops with the independent traversal in Lean, loop-mode results (one per non-empty '
             'loop, order, each equal to the loop analysed alone), the program statistics, and loc with a Lean line lexer '
             'on texts with comments / strings / character literals.',
        design_ref='DESIGN.md §5 C19',
        note='loc regex vs lexer equivalence is explored (character-level fuzz), not proved; variable counts are compared with the model only.'),
    'C18': dict(
        technique='Lean 4 proof (definitional unfolding of the analysis model: sugar statement = documented rewriting) + twin-program correspondence on the real code',
        text='Proved on the model of compute_relation, for every context index / delta graph / mode: x++ ++x x-- --x equal '
             'x = x +/- 1; y = x++ equals { y = x; x = x + 1; } and y = ++x equals { x = x + 1; y = x; } (and decrements); '
             'y = -x equals y = x * c; y = +x equals y = x; y = !e and y = sizeof e equal y = c; a cast around a whole '
             'right-hand side, an operand, or a unary operand is transparent; other stand-alone unary expressions have no '
             'effect. Equalities are of the whole outcome (index, relations, exit flag, delta graph, skipped list, error). '
             'Every run analyses generated programs next to their plain rewriting with the real code (every form at top '
             'level, in branches, in loop bodies) and names the guilty form on a difference.',
        design_ref='DESIGN.md §5 C18',
        note='Context closure (same result inside any statement context) follows from compositionality of compute (C01 refinement); the twin runs exercise contexts on the real code.'),
    'C15': dict(
        technique='Lean 4 proof (decision logic of Analysis.func stated outright; choice object exactness via the C04 theorem) + field-by-field correspondence',
        text='Proved on the model of Analysis.func, whatever the body analysis returns: an infinite result has no choices, '
             'has a relation iff run-to-completion, and a flow description iff run-to-completion; a finite result has a '
             'relation, a non-infinite choice object and no flow description; the bound has one entry per variable; and '
             '(with C04) the choice object accepts exactly the vectors at which the reported relation has no infinity. Every '
             'run checks these on real results (all 3^k vectors via a Lean predicate on the reported relation), plus '
             'equality of the two modes on finite functions and that named flow pairs have a possibly-infinite cell.',
        design_ref='DESIGN.md §5 C15',
        note='Mode equality for finite functions is explored on the implementation, not proved.'),
    'C12': dict(
        technique='Lean 4 proof (invariances of the reference calculus: renaming, + vs -, skips and singleton sequences, do-while) + metamorphic runs on the real code',
        text='Proved on the pointwise calculus Spec.sem: invariance under injective renaming of variables, + and - have '
             'the same rule, a skip inside a sequence and a singleton sequence change nothing (redundant braces / empty '
             'statements), do-while reads as while, derived matrices are square and never contain infinity. Transfer to '
             'the code is by the C01 refinement (loop-free part proved) and by metamorphic runs every time: each function '
             'vs its renamed (sorted order reversed) / +<->- / braces+empty statements / do-while twin and swapped function '
             'order: verdict, degree, valid set and the matrix at EVERY valid choice must agree up to the renaming.',
        design_ref='DESIGN.md §5 C12',
        note='The proof is about the specification; the implementation side is metamorphic exploration + C01.'),
    'C08': dict(
        technique='Lean 4 proof (soundness of the per-variable choice object and flag logic of the loop-mode model) + Lean oracle (calculus with per-cell failure) on real loop-mode results + differential correspondence',
        text='Proved on the model, against the calculus itself (loop_mode_bound_is_a_valid_derivation, for loops of any '
             'nesting): a choice reported for a variable is one at which the derivation of Spec.semI (the calculus with failure '
             'recorded per cell) is failure-free for the variable and every variable with a non-zero path into it, and the '
             'column the bound is read from is the calculus column; the same for partial results (maybe_result). At value level: every vector accepted by the choice object reported for a '
             'variable keeps the column of that variable AND the columns of all variables with a flow into it free of '
             'infinity (reported_choices_valid_for_dependencies; the loop relation is transitively closed, so these are all '
             'its sources), flags are nested (linear => weak => polynomial), unbounded means all false, a bounded variable '
             'carries a non-infinite choice object. The same clause (plus bound = that column, class = largest coefficient) is '
             'decided every run on the REAL LoopAnalysis results by the Lean predicate check.C08 over all 3^k '
             'choices with Spec.semI as oracle; the model of inspect is diffed (flags, accepted sets). The former known '
             'finding (dependency ignored) is repaired.',
        design_ref='DESIGN.md §5 C08, §10.2',
        note='Failure-local reading of the calculus (pathProd) is a specification choice, see DESIGN §10.2; execution clause rests on C03.'),
    'C03': dict(
        technique='Lean 4 proof (soundness of the calculus for the shape of exact final values: store invariant carried through symbolic execution, closure fixed point) + Lean symbolic execution as oracle on the real bounds',
        text='Proved (exec_respects_derivation): for every constant-free command, every choice vector at which the pointwise '
             'calculus derives a matrix M, and every terminating execution (any branch outcomes, any loop counts), the exact '
             'final value of every variable, as a polynomial in the inputs, has the shape its column of M prescribes: only '
             'listed variables, a max-listed variable only as one summand with coefficient one, at most one such summand, '
             'never next to a weak-listed variable. Chained with C01 and the bound model into an end-to-end theorem on the model '
             'of the analysis (reported_bounds_respected[_total]): for a supported function the analysis returns a result, and '
             'for EVERY valid choice of the reported choice object the reported (m,w,p) triple of every variable is respected '
             'by every execution. The tie to the code is checked every run, directly: the real strict-mode bounds for EVERY valid choice are '
             'checked against exact symbolic executions computed in Lean along enumerated / sampled paths; counted-loop '
             'recognition is checked on guards written in the body.',
        design_ref='DESIGN.md §5 C03',
        note='Shape (the property sentence) rather than numeric Jones-Kristiansen soundness; values are exact polynomials over naturals.'),
    'C06': dict(
        technique='Lean 4 proof (totality of the whole analysis model on supported functions; termination of the fixpoint loop by a canonical-form + lattice-height argument) + crash search on the real code over a mixed grammar, model agreement on raising',
        text='Proved on the model: (1) the analysis of every supported function (any nesting of branches, while, do-while, '
             'counted for; both modes) returns a result -- no Except.error branch (Diverged, IndexError, KeyError, ValueError '
             'of corrections, delta graph, Choices.generate, infinity-flow report) is reachable (supported_function_never_raises, '
             'supported_statement_never_raises); (2) the while-True loop of Relation.fixpoint stops after at most 4n^2+1 rounds '
             'for every well-formed relation, whatever its polynomials (fixpoint_loop_stops, fixpoint_never_diverges); (3) loop '
             'discovery, variable collection, the delta graph under any history, choice generation and the two corrections '
             'are total. Not provable here: wall-clock time. For files with unsupported statements (outside the calculus '
             'reading) the no-raise claim rests on the correspondence: every run analyses pycparser-accepted files from the '
             'mixed grammar (supported, sugar, edge forms, every unsupported kind) in function and loop mode x strict x fin '
             'with the real code under a time limit, requires a JSON-serialisable result with every function present, and '
             'compares raising with the model.',
        design_ref='DESIGN.md §5 C06',
        note='Timeouts are reported as exit 2, never as violations. The theorems cover functions inside the calculus reading (FuncOk); the skipping of unsupported statements is covered by the C07 theorems and the differential runs.'),
    'C13': dict(
        technique='Lean 4 proof (write-set lemmas: what the in-place corrections can ever modify; diagonal lemma for fixpoints) + session / hash-seed exploration of the real process',
        text='Partial: proved at value level what makes Python aliasing harmless: the while correction only rewrites '
             'monomials whose scalar is p (or w on the diagonal), the for correction only diagonal monomials other than m, '
             'and diagonal cells of a fixpoint result hold no 0-monomial, so no write can land on a monomial carrying the '
             'scalar of the shared zero / unit polynomial. Object identity, set ordering and the process are explored: random '
             'histories of analyses (function / loop mode, fin) in one process vs fresh interpreters, multi-function files, '
             'PYTHONHASHSEED 1..n, snapshots of matrix.ZERO/UNIT and of the caller tree after every analysis. The file-level '
             'drivers Analysis.run / LoopAnalysis.run (syntax gate, result dictionary, which loops are analysed on which tree) '
             'are modelled (Model/Run.lean), proved to assemble a file result per function independently of the other '
             'functions (file_results_are_per_function, file_failures_are_per_function, file_loop_results_are_per_function) '
             'and diffed against the real drivers on multi-function files, strict and fin on/off.',
        design_ref='DESIGN.md §5 C13',
        note='CPython aliasing and hash ordering are runtime behaviour: explored, not proved.'),
}

NOT_YET = {}


def main():
    props = [json.loads(l) for l in open(os.path.join(VERIF, 'properties.jsonl'))]
    checks = []
    for p in props:
        pid = p['id']
        if pid not in CHECKS:
            continue
        c = CHECKS[pid]
        checks.append({
            'property_id': pid,
            'quick_cmd': f'{PY} harness/check.py {pid} --tier quick',
            'thorough_cmd': f'{PY} harness/check.py {pid} --tier thorough',
            'evidence_file': f'evidence/{pid}.json',
            'replay_cmd_template': f'{PY} harness/check.py {pid} --replay {{path}}',
            'engine': 'lean4-mwp',
            'level_claimed': {'category': 'proof', 'text': c['text'], 'design_ref': c['design_ref']},
            'level_note': LEVEL_NOTE + c['note'],
            'technique': c['technique'],
        })
    na = [{'property_id': p['id'], 'reason': NOT_YET.get(p['id'], 'check not built yet (construction in progress, see DESIGN.md §9)')}
          for p in props if p['id'] not in CHECKS]
    man = {
        'version': 1,
        'setup_cmd': f'{PY} harness/gen_lean.py >/dev/null && cd lean && lake build',
        'hooks': {
            'guard': 'PYMWP_VERIF',
            'enable': 'no source hooks: the harness observes pymwp through its public API and from outside (PYMWP_VERIF is unused by /repo)',
            'baseline_off_cmd': 'cd /repo && /venv/bin/python -m pytest -q -p no:cacheprovider',
            'source_commits': [],
            'add_only': True,
        },
        'engines': [{
            'name': 'lean4-mwp', 'path': 'lean/',
            'serves_properties': [c['property_id'] for c in checks],
            'kind_free_text': 'Lean 4 project Mwp: regenerated tables (Mwp/Gen), executable model (Mwp/Model), reference '
                              'semantics (Mwp/Spec), property theorems (Mwp/Props), JSON-lines driver mwpdrv; Python '
                              'harness (harness/) runs the real pymwp in-process and diffs it against the driver.',
        }],
        'checks': checks,
        'not_applicable': na,
        'notes': 'All checks: exit 0 = held, 1 = VIOLATION line printed, 2 = infrastructure error. VERIF_SEED seeds every random choice.',
    }
    with open(os.path.join(VERIF, 'MANIFEST.json'), 'w') as f:
        json.dump(man, f, indent=1)
        f.write('\n')


if __name__ == '__main__':
    main()
