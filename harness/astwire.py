"""pycparser tree -> JSON wire format of Mwp/WireAst.lean (exactly the tree pymwp sees)."""


def W(n):
    if n is None:
        return None
    t = type(n).__name__
    if t == 'ID':
        return {'k': 'id', 'name': n.name}
    if t == 'Constant':
        return {'k': 'const', 'ty': str(n.type), 'value': str(n.value)}
    if t == 'BinaryOp':
        return {'k': 'binop', 'op': n.op, 'l': W(n.left), 'r': W(n.right)}
    if t == 'UnaryOp':
        return {'k': 'unop', 'op': n.op, 'e': W(n.expr)}
    if t == 'Cast':
        return {'k': 'cast', 'e': W(n.expr)}
    if t == 'Assignment':
        return {'k': 'assign', 'op': n.op, 'l': W(n.lvalue), 'r': W(n.rvalue)}
    if t == 'FuncCall':
        return {'k': 'funcCall', 'name': W(n.name), 'args': W(n.args)}
    if t == 'ExprList':
        return {'k': 'exprList', 'es': [W(e) for e in (n.exprs or [])]}
    if t == 'TernaryOp':
        return {'k': 'ternary', 'c': W(n.cond), 't': W(n.iftrue), 'f': W(n.iffalse)}
    if t == 'ArrayRef':
        return {'k': 'arrayRef', 'name': W(n.name), 'sub': W(n.subscript)}
    if t == 'Decl':
        return {'k': 'decl', 'name': n.name if isinstance(n.name, str) else None, 'ty': W(n.type), 'init': W(n.init)}
    if t == 'TypeDecl':
        return {'k': 'typeDecl'}
    if t == 'DeclList':
        return {'k': 'declList', 'ds': [W(e) for e in (n.decls or [])]}
    if t == 'Compound':
        return {'k': 'compound', 'items': None if n.block_items is None else [W(e) for e in n.block_items]}
    if t == 'If':
        return {'k': 'if', 'cond': W(n.cond), 't': W(n.iftrue), 'f': W(n.iffalse)}
    if t == 'While':
        return {'k': 'while', 'cond': W(n.cond), 'body': W(n.stmt)}
    if t == 'DoWhile':
        return {'k': 'doWhile', 'cond': W(n.cond), 'body': W(n.stmt)}
    if t == 'For':
        return {'k': 'for', 'init': W(n.init), 'cond': W(n.cond), 'next': W(n.next), 'body': W(n.stmt)}
    if t == 'Return':
        return {'k': 'return', 'e': W(n.expr)}
    if t == 'Break':
        return {'k': 'break'}
    if t == 'Continue':
        return {'k': 'continue'}
    if t == 'EmptyStatement':
        return {'k': 'empty'}
    if t == 'Label':
        return {'k': 'label', 'name': n.name, 's': W(n.stmt)}
    if t == 'Goto':
        return {'k': 'goto', 'name': n.name}
    if t == 'Switch':
        return {'k': 'switch', 'cond': W(n.cond), 'body': W(n.stmt)}
    if t == 'Case':
        return {'k': 'case', 'e': W(n.expr), 'stmts': [W(e) for e in (n.stmts or [])]}
    if t == 'Default':
        return {'k': 'default', 'stmts': [W(e) for e in (n.stmts or [])]}
    if t == 'ParamList':
        return {'k': 'paramList', 'ps': [W(e) for e in (n.params or [])]}
    if t == 'FuncDecl':
        return {'k': 'funcDecl', 'args': W(n.args)}
    if t == 'FuncDef':
        return {'k': 'funcDef', 'decl': W(n.decl), 'body': W(n.body)}
    nm = getattr(n, 'name', None)
    return {'k': 'other', 'cls': t, 'name': nm if isinstance(nm, str) else None,
            'kids': [W(c) for _, c in n.children()]}


_PARSER = None


def parse(src):
    """Parse C text with pycparser directly (no preprocessor)."""
    global _PARSER
    from pycparser import c_parser
    if _PARSER is None:
        _PARSER = c_parser.CParser()
    return _PARSER.parse(src)


def funcs(ast):
    from pymwp import Parser as pr
    return [f for f in ast if pr.is_func(f)]
