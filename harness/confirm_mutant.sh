#!/bin/bash
# usage: confirm_mutant.sh <worktree> <seeded-id> <property> "<needs>"   -- confirm a seeded change and archive it
set -u
WT="$1"; ID="$2"; PROP="$3"; NEEDS="$4"
OUT=/verif/seeded/$ID
cd "$WT" || exit 2
git checkout -q -- . 2>/dev/null
git apply --check _out/patch.diff || { echo "patch does not apply to clean tree"; exit 1; }
D0=$(PYTHONPATH=$WT /venv/bin/python _out/demo.py >/tmp/demo0.txt 2>&1; echo $?)
git apply _out/patch.diff
T=$(PYTHONPATH=$WT /venv/bin/python -m pytest -q -p no:cacheprovider 2>&1 | tail -1)
D1=$(PYTHONPATH=$WT /venv/bin/python _out/demo.py >/tmp/demo1.txt 2>&1; echo $?)
git checkout -q -- .
echo "tests with change: $T | demo clean: exit $D0 | demo changed: exit $D1"
if [[ "$T" == *"168 passed"* && "$D0" == "0" && "$D1" != "0" ]]; then
  mkdir -p $OUT
  cp _out/patch.diff _out/demo.py $OUT/
  [ -f _out/notes.md ] && cp _out/notes.md $OUT/
  /venv/bin/python - "$OUT" "$PROP" "$NEEDS" "$T" "$D0" "$D1" <<'PY'
import json, sys
out, prop, needs, t, d0, d1 = sys.argv[1:]
json.dump({"breaks_property": prop, "needs_to_manifest": needs,
           "confirmed": {"tests_with_change": t.strip(), "demo_exit_on_clean_tree": int(d0), "demo_exit_with_change": int(d1),
                         "how": "scratch git worktree of /repo; PYTHONPATH=<worktree> /venv/bin/python -m pytest -q -p no:cacheprovider; PYTHONPATH=<worktree> /venv/bin/python demo.py"},
           "detected_by": []}, open(out + "/meta.json", "w"), indent=1)
PY
  echo "archived in $OUT"
else
  echo "NOT CONFIRMED"; exit 1
fi
