"""Grammar-directed generator of C functions for the correspondence runs.

Every random choice comes from the `rng` handed in.  `Opts` selects the feature set:
  sugar       unary operators / casts in their supported spellings (C18)
  edge        forms at the edge of the supported list (C05/C06): labels, comma expressions,
              nested unary, casts of compound expressions, side effects in conditions, x = 1 + 2
  unsupported statements of the C07 list over fresh identifiers
  loops       while / do-while / counted for
"""
import random

NAME_POOLS = [
    ['x', 'y', 'z', 'u', 'v', 'w'],
    ['a1', 'a0', 'b', 'B', 'zz', 'm'],
    ['X0', 'X1', 'X2', 'X3', 'X4', 'X5'],
    ['q', 'p', 'o', 'n', 'i', 'j'],
]


class Opts:
    def __init__(self, sugar=False, edge=False, unsupported=False, loops=True, max_bin=6,
                 max_depth=3, max_stmts=4, nvars=4, consts=True, whole_rhs_cast=True):
        self.sugar, self.edge, self.unsupported, self.loops = sugar, edge, unsupported, loops
        self.max_bin, self.max_depth, self.max_stmts, self.nvars = max_bin, max_depth, max_stmts, nvars
        self.consts = consts
        self.whole_rhs_cast = whole_rhs_cast


class Gen:
    def __init__(self, rng, opts, names=None):
        self.rng, self.o = rng, opts
        pool = list(names or rng.choice(NAME_POOLS))
        rng.shuffle(pool)
        self.vars = pool[:max(2, opts.nvars)]
        self.nbin = 0
        self.fresh = 0
        self.guards = []     # loop guard variables currently protected (must not occur in a for body)
        self.stats = {}
        self.kinds = []
        self.twins = []      # (sugar text, documented plain rewriting) for every sugar statement emitted

    def sugar(self, sugar_text, plain_text, kind='sugar'):
        """emit a sentinel that renders as the sugar spelling or as its documented rewriting"""
        self.twins.append((sugar_text, plain_text))
        self.kinds.append(kind)
        return '§%d§' % (len(self.twins) - 1)

    def render(self, text, plain=False, only=None):
        """expand sentinels (outermost first); `only`: set of sentinel kinds rendered plain"""
        for k in range(len(self.twins) - 1, -1, -1):
            a, b = self.twins[k]
            use_plain = plain if only is None else (self.kinds[k] in only)
            text = text.replace('§%d§' % k, b if use_plain else a)
        return text

    def note(self, k):
        self.stats[k] = self.stats.get(k, 0) + 1

    def var(self):
        cands = [v for v in self.vars if v not in self.guards] or self.vars
        return self.rng.choice(cands)

    def atom(self, allow_const=True):
        if allow_const and self.o.consts and self.rng.random() < 0.2:
            return str(self.rng.choice([0, 1, 2, 10]))
        if getattr(self.o, 'reserved', False) and self.rng.random() < 0.12:
            self.note('reserved_name')
            return self.rng.choice(['true', 'false'])      # identifiers pymwp does not count as variables
        return self.var()

    def maybe_cast(self, e):
        if self.o.sugar and self.rng.random() < 0.15:
            self.note('cast_operand')
            if getattr(self.o, 'double_casts', False) and self.rng.random() < 0.3:
                return self.sugar(f'(int)(long){e}', e)
            return self.sugar(f'(int){e}', e)
        return e

    def assign(self):
        r = self.rng
        x = self.var()
        k = r.random()
        if self.nbin >= self.o.max_bin:
            k = min(k, 0.29)
        if k < 0.2:
            y = self.atom(allow_const=False)
            self.note('copy')
            if self.o.sugar and self.o.whole_rhs_cast and r.random() < 0.15:
                self.note('cast_whole_rhs_id')
                return self.sugar(f'{x} = (int){y};', f'{x} = {y};')
            return f'{x} = {y};'
        if k < 0.3:
            self.note('const')
            return f'{x} = {r.choice([0, 1, 5])};'
        if self.o.sugar and k < 0.5 and self.nbin < self.o.max_bin:
            form = r.choice(['x++', '++x', 'x--', '--x', 'y=x++', 'y=++x', 'y=x--', 'y=--x', 'y=-x', 'y=+x', 'y=!x',
                             'y=sizeof', 'y=-c'])
            self.note('sugar_' + form)
            y = self.var()
            if form in ('x++', 'x--'):
                self.nbin += 1
                return self.sugar(f'{x}{form[1:]};', f'{x} = {x} {form[1]} 1;')
            if form in ('++x', '--x'):
                self.nbin += 1
                return self.sugar(f'{form[:2]}{x};', f'{x} = {x} {form[0]} 1;')
            if form in ('y=x++', 'y=x--'):
                self.nbin += 1
                return self.sugar(f'{y} = {x}{form[3:]};', f'{{ {y} = {x}; {x} = {x} {form[3]} 1; }}')
            if form in ('y=++x', 'y=--x'):
                self.nbin += 1
                return self.sugar(f'{y} = {form[2:4]}{x};', f'{{ {x} = {x} {form[2]} 1; {y} = {x}; }}')
            if form == 'y=-x':
                self.nbin += 1
                return self.sugar(f'{y} = -{x};', f'{y} = {x} * 7;')
            if form == 'y=+x':
                return self.sugar(f'{y} = +{x};', f'{y} = {x};')
            if form == 'y=!x':
                return self.sugar(f'{y} = !{x};', f'{y} = 1;')
            if form == 'y=sizeof':
                return self.sugar(f'{y} = sizeof({x});', f'{y} = 64;')
            return self.sugar(f'{y} = -5;', f'{y} = 5;')
        # binary operation
        self.nbin += 1
        op = r.choice(['+', '+', '-', '*', '*'])
        a = self.atom()
        b = self.atom()
        mode = r.random()
        if mode < 0.25:
            a = x              # x = x op b
        elif mode < 0.4:
            b = a              # y == z
        elif mode < 0.5:
            a = b = x
        self.note('bin_' + op)
        if self.o.sugar and self.o.whole_rhs_cast and r.random() < 0.1:
            self.note('cast_whole_rhs_bin')
            return self.sugar(f'{x} = (int)({a} {op} {b});', f'{x} = {a} {op} {b};')
        return f'{x} = {self.maybe_cast(a)} {op} {self.maybe_cast(b)};'

    def cond(self):
        r = self.rng
        a, b = self.var(), self.atom()
        return f'{a} {r.choice(["<", ">", "==", "!=", "<="])} {b}'

    def unsupported_stmt(self):
        self.fresh += 1
        f = f'fr{self.fresh}'
        g = f'gr{self.fresh}'
        forms = [
            f'{f}({g});', f'{f}[0] = {g};', f'*{f} = {g};', f'{f} = {g} ? {g} : 1;', f'{f} += {g};',
            f'{f} = {g} + {g} + {g};', f'switch ({f}) {{ case 1: {g} = 1; break; default: break; }}',
            f'goto L{self.fresh};', f'int {f} = 5;', f'int {f}[3];', f'int *{f};',
            f'for ({f} = 0; {f} < 10; {f}++) {{ {g} = {g} + 1; }}', f'{f} = {g} / 2;', f'{f} = {g} % 2;',
            f'{f} = foo{self.fresh}({g});', f'{f} = {g}[1];', f'{f}.fld = 1;',
        ]
        s = self.rng.choice(forms)
        self.note('unsupported')
        return s

    def edge_stmt(self):
        r = self.rng
        x, y, z = self.var(), self.var(), self.var()
        self.fresh += 1
        forms = [
            (f'L{self.fresh}: {x} = {y} + {z};', 1), (f'{x} = {y}, {y} = {z};', 0), (f'{x} = - -{y};', 0),
            (f'{x} = -(int){y};', 0), (f'(int){x}++;', 0), (f'if ({x} = {y} + {z}) {{ {z} = {x}; }}', 0),
            (f'while ({x}++ < 10) {{ {y} = {y} + {z}; }}', 1), (f'{x} = 1 + 2;', 1), (f'{x} = (int)({y} + {z});', 1),
            (f'{x} = (int){y};', 0), (f'{x} = (int)-{y};', 0), (f'{x} = !{y};', 0), (f'{x};', 0), (f'{x} + {y};', 0),
            (f'-{x};', 0), (f'{x} = ~{y};', 0), (f'{x} = {y} << 1;', 0), (f'{x} = sizeof(int);', 0),
            (f'{{ ; }}', 0), (f'L{self.fresh}: while ({x} < 3) {{ {x} = {x} + 2; }}', 1),
            (f'typedef int T{self.fresh};', 0), (f'for ({x}++; {x} < {y}; {x}++) {{ {z} = {z} + 1; }}', 1),
            (f'for (;;) {{ {x} = {x} + 1; }}', 1), (f'do {x} = {x} + {y}; while ({x} < 10);', 1),
            (f'if ({x} < {y}) {z} = {x} * {y};', 1), (f'while ({x} < {y}) {z} = {z} + {x};', 1),
            (f'return {x} + {y};', 0), (f'{x} = {y} - {y};', 1),
            (f'{x} = !({y}++);', 0), (f'-({y}++);', 0), (f'{x} = !(-{y});', 0), (f'{x} = sizeof(-{y});', 0), (f'{x} = !(!{y});', 0),
        ]
        s, nb = r.choice(forms)
        self.nbin += nb
        self.note('edge')
        return s

    def stmt(self, depth):
        r = self.rng
        o = self.o
        k = r.random()
        if o.unsupported and k < 0.18:
            return self.unsupported_stmt()
        if o.edge and k < 0.3:
            return self.edge_stmt()
        if k < 0.5 and getattr(o, 'asserts', True) and r.random() < 0.06:
            # the two call statements the analysis accepts (and passes over)
            self.note('assert')
            return f'{r.choice(["assert", "assume"])}({self.cond()});'
        if depth >= o.max_depth or k < 0.5 or self.nbin >= o.max_bin:
            return self.assign()
        if k < 0.65:
            self.note('if')
            t = self.block(depth + 1, braces=r.random() < 0.8)
            if r.random() < 0.6:
                return f'if ({self.cond()}) {t} else {self.block(depth + 1, braces=r.random() < 0.8)}'
            return f'if ({self.cond()}) {t}'
        if not o.loops:
            return self.assign()
        if k < 0.8:
            self.note('while')
            c, b = self.cond(), self.loop_body(depth + 1)
            if getattr(o, 'loop_twin', False):
                return self.sugar(f'while ({c}) {b}', f'do {b} while ({c});', kind='loop')
            return f'while ({c}) {b}'
        if k < 0.87:
            self.note('dowhile')
            return f'do {self.loop_body(depth + 1)} while ({self.cond()});'
        # counted for: guard variable must not occur in the body, iterator is fresh
        cands = [v for v in self.vars if v not in self.guards]
        if len(cands) < 3:
            return self.assign()
        X = r.choice(cands)
        self.note('for')
        self.fresh += 1
        it = f'it{self.fresh}'
        self.guards.append(X)
        body = self.block(depth + 1)
        self.guards.pop()
        return f'for ({it} = 0; {it} < {X}; {it}++) {body}'

    def loop_body(self, depth):
        """a loop body: usually a block, sometimes one unbraced statement (possibly itself a loop)"""
        if self.rng.random() < 0.15:
            self.note('unbraced_loop_body')
            st = self.stmt(depth)
            if st.startswith('int ') or st.startswith('typedef') or (st[:1] == 'L' and ':' in st[:6]):
                return '{ ' + st + ' }'
            return st
        return self.block(depth)

    def block(self, depth, braces=True):
        if depth > 0 and getattr(self.o, 'empty_blocks', True) and self.rng.random() < 0.07:
            # a body / branch without effect: `{ }`, `;`, `{ ; }`, `{ x = x; }`
            self.note('effect_free_block')
            v = self.var()
            return self.rng.choice(['{ }', ';', '{ ; }', '{ %s = %s; }' % (v, v), '{ { } }'])
        n = self.rng.randint(1, self.o.max_stmts)
        stmts = [self.stmt(depth) for _ in range(n)]
        if not braces and n >= 1:
            s = stmts[0]
            # a declaration / label cannot be the sole statement of a branch
            if s.startswith('int ') or s.startswith('typedef') or (s[:1] == 'L' and ':' in s[:6]):
                return '{ ' + s + ' }'
            return s
        if self.rng.random() < 0.08:
            stmts.insert(self.rng.randint(0, len(stmts)), ';')
        if self.rng.random() < 0.06:
            stmts = ['{ ' + ' '.join(stmts) + ' }']
        return '{ ' + ' '.join(stmts) + ' }'

    def function(self, name='f'):
        body = self.block(0)
        params = ', '.join(f'int {v}' for v in self.vars)
        decls = ''
        for k in range(1, self.fresh + 1):
            for pre in ('it',):
                if f'{pre}{k} ' in body or f'{pre}{k}+' in body or f'{pre}{k};' in body or f'{pre}{k})' in body:
                    decls += f'int {pre}{k}; '
        self.template = f'int {name}({params}) {{ {decls}{body[1:-1]} }}'
        return self.render(self.template)

    def plain_twin(self):
        return self.render(self.template, plain=True)


def gen_function(rng, opts, name='f', names=None):
    g = Gen(rng, opts, names)
    src = g.function(name)
    return src, g
